import Smpl.Props.C04
import Smpl.Props.C07
import Smpl.Props.C08
import Smpl.Props.C11
import Smpl.Props.C12
import Smpl.Props.C18
import Smpl.Props.C19
