-- Root of the `Smpl` library: every property file (which pull in models, specs, lemmas).
import Smpl.Props.C18
