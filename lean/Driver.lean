/-
Correspondence driver: one operation per input line, one result line per operation.
Executes the very definitions the theorems are about (`Smpl.Model.*`).
Run:  lake exe driver < ops.txt     (or `lake env lean --run Driver.lean`)
-/
import Smpl.Drv.Codec
import Smpl.Drv.Filter
import Smpl.Drv.Alloc
import Smpl.Drv.Stream
import Smpl.Drv.Transcode
import Smpl.Drv.Wav
import Smpl.Drv.Cue
import Smpl.Drv.Names
import Smpl.Drv.Akai
open Smpl.Drv

def dispatchIO (line : String) : IO String :=
  match (line.splitOn " ").filter (· ≠ "") with
  | "akai" :: rest => akaiOp (fun c => (Smpl.AkaiProgram.parse c).isSome) rest
  | _ => pure (dispatch line)
where dispatch (line : String) : String :=
  match (line.splitOn " ").filter (· ≠ "") with
  | "codec" :: rest => codecOp rest
  | "filter" :: rest => filterOp rest
  | "fat" :: rest => allocOp rest
  | "stream" :: rest => streamOp rest
  | "trans" :: rest => transOp rest
  | "wav" :: rest => wavOp rest
  | "cue" :: rest => cueOp rest
  | "names" :: rest => namesOp rest
  | _ => "bad-op"

partial def loop (hin hout : IO.FS.Stream) : IO Unit := do
  let line ← hin.getLine
  if line.isEmpty then return ()
  let l := String.ofList (line.toList.filter fun c => c != '\n' && c != '\r')
  hout.putStrLn (← dispatchIO l)
  loop hin hout

def main : IO Unit := do
  let hin ← IO.getStdin
  let hout ← IO.getStdout
  loop hin hout
  hout.flush
