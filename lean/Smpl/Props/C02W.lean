/-
C02 (the writer's side): a Roland sample written as a 32-byte directory record and a 48-byte
parameter record parses back to exactly the values written, and — composed with the raw FAT chain —
exports exactly the window its loop mode addresses.
-/
import Smpl.Props.C02S
import Smpl.Props.C01P

set_option linter.unusedSimpArgs false

namespace Smpl.Props.C02
open Smpl Smpl.Roland
open Smpl.Props.C01 (digit rd_map rd_skip rd_prefix le2 le4)

/-- what a writer stores for one sample. -/
structure SampleImg where
  dname : Bytes            -- 16 name bytes of the directory record
  ftype : Nat
  fatEntry : Nat
  pname : Bytes            -- 16 name bytes of the parameter record
  points : Nat → Nat       -- five raw 32-bit loop points (address * 256 + fine)
  loopMode : Nat
  susEnable : Nat
  susTune : Nat
  relTune : Nat
  clusterTop : Nat
  options : Nat
  key : Nat
  dfill : Nat → Nat        -- directory bytes 17..27, 30, 31
  pfill : Nat → Nat        -- parameter bytes 42, 43, 46, 47

def SampleImg.dirAt (s : SampleImg) (i : Nat) : Nat :=
  if i < 16 then s.dname.getD i 0
  else if i = 16 then s.ftype
  else if 28 ≤ i ∧ i < 30 then digit s.fatEntry (i - 28)
  else s.dfill i

def SampleImg.parAt (s : SampleImg) (i : Nat) : Nat :=
  if i < 16 then s.pname.getD i 0
  else if 16 ≤ i ∧ i < 36 then digit (s.points ((i - 16) / 4)) ((i - 16) % 4)
  else if i = 36 then s.loopMode
  else if i = 37 then s.susEnable
  else if i = 38 then s.susTune
  else if i = 39 then s.relTune
  else if 40 ≤ i ∧ i < 42 then digit s.clusterTop (i - 40)
  else if i = 44 then s.options
  else if i = 45 then s.key
  else s.pfill i

def SampleImg.dirBytes (s : SampleImg) : Bytes := (List.range 32).map s.dirAt
def SampleImg.parBytes (s : SampleImg) : Bytes := (List.range 48).map s.parAt

structure SampleImg.Ok (s : SampleImg) (dn pn : Smpl.Names.Name) : Prop where
  dlen : s.dname.length = 16
  plen : s.pname.length = 16
  dname : padded s.dname = some dn
  pname : padded s.pname = some pn
  fat : s.fatEntry < 65536
  points : ∀ k, k < 5 → s.points k < 4294967296
  top : s.clusterTop < 65536
  freq : (freqOf (s.options % 16)).isSome = true

theorem ofBytes_rd (b : Bytes) (off n : Nat) : (Img.ofBytes b).rd off n = Smpl.Akai.rd b off n := rfl

theorem drop_take_map (N : Nat) (f : Nat → Nat) (off n : Nat) (h : off + n ≤ N) :
    (((List.range N).map f).drop off).take n = (List.range' off n).map f := by
  rw [← List.map_drop, ← List.map_take, List.range_eq_range', List.drop_range',
    List.take_range'_of_length_ge (by omega)]
  congr 2
  omega

theorem map_range16 (f : Nat → Nat) (nm : Bytes) (hl : nm.length = 16) (h : ∀ i, i < 16 → f i = nm.getD i 0) :
    (List.range' 0 16).map f = nm := by
  match nm, hl with
  | [a0, a1, a2, a3, a4, a5, a6, a7, a8, a9, a10, a11, a12, a13, a14, a15], _ =>
    simp only [List.range'_succ, List.range'_zero, List.map_cons, List.map_nil, Nat.reduceAdd]
    simp only [h 0 (by omega), h 1 (by omega), h 2 (by omega), h 3 (by omega), h 4 (by omega), h 5 (by omega),
      h 6 (by omega), h 7 (by omega), h 8 (by omega), h 9 (by omega), h 10 (by omega), h 11 (by omega),
      h 12 (by omega), h 13 (by omega), h 14 (by omega), h 15 (by omega)]
    rfl

theorem getD_map_range (N : Nat) (f : Nat → Nat) (k : Nat) (h : k < N) : ((List.range N).map f).getD k 0 = f k := by
  simp [List.getD, h]

/-- the record a written sample denotes. -/
def SampleImg.toRec (s : SampleImg) (i : Nat) (dn pn : Smpl.Names.Name) : SampleRec :=
  ⟨i, dn, pn, s.fatEntry, [s.points 0, s.points 1, s.points 2, s.points 3, s.points 4], s.loopMode, s.susEnable,
    s.susTune, s.relTune, s.clusterTop, s.options, s.key⟩

/-- **C02 (the sample record a writer stores is the record the parser reads).** An image that holds,
at the directory slot and the parameter slot of sample `i`, a directory record and a parameter
record written field by field (names, FAT entry, five 32-bit loop points, loop mode, tuning bytes,
leading-cluster offset, option byte, key) parses to exactly those values — whatever the unspecified
bytes and the rest of the image hold. -/
theorem C02_sample_record_roundtrip (s : SampleImg) (dn pn : Smpl.Names.Name) (hok : s.Ok dn pn) (i : Nat)
    (hi : i < maxNum .samp) (A B C : Bytes)
    (hA : A.length = dirOff .samp + 32 * i)
    (hB : (A ++ (s.dirBytes ++ B)).length = parOff .samp + 48 * i) :
    sampleRec (Img.ofBytes (A ++ (s.dirBytes ++ (B ++ (s.parBytes ++ C))))) i = some (s.toRec i dn pn) := by
  have hdlen : s.dirBytes.length = 32 := by simp [SampleImg.dirBytes]
  have hplen : s.parBytes.length = 48 := by simp [SampleImg.parBytes]
  -- the two records as read
  have hd : (Img.ofBytes (A ++ (s.dirBytes ++ (B ++ (s.parBytes ++ C))))).rd (dirOff .samp + 32 * i) 32 = some s.dirBytes := by
    rw [ofBytes_rd, ← hA]
    have := rd_skip A (s.dirBytes ++ (B ++ (s.parBytes ++ C))) 0 32
    rw [Nat.add_zero] at this
    rw [this, ← hdlen]
    exact rd_prefix _ _
  have hp : (Img.ofBytes (A ++ (s.dirBytes ++ (B ++ (s.parBytes ++ C))))).rd (parOff .samp + 48 * i) 48 = some s.parBytes := by
    rw [ofBytes_rd, ← hB]
    have e : A ++ (s.dirBytes ++ (B ++ (s.parBytes ++ C))) = (A ++ (s.dirBytes ++ B)) ++ (s.parBytes ++ C) := by
      simp [List.append_assoc]
    rw [e]
    have := rd_skip (A ++ (s.dirBytes ++ B)) (s.parBytes ++ C) 0 48
    rw [Nat.add_zero] at this
    rw [this, ← hplen]
    exact rd_prefix _ _
  -- fields of the directory record
  have d_name : s.dirBytes.take 16 = s.dname := by
    have := drop_take_map 32 s.dirAt 0 16 (by omega)
    simp only [List.drop_zero] at this
    unfold SampleImg.dirBytes
    rw [this]
    exact map_range16 s.dirAt s.dname hok.dlen (by intro k hk; simp [SampleImg.dirAt, hk])
  have d_ft : s.dirBytes.getD 16 0 = s.ftype := by
    unfold SampleImg.dirBytes
    rw [getD_map_range 32 s.dirAt 16 (by omega)]
    simp [SampleImg.dirAt]
  have d_fat : leVal ((s.dirBytes.drop 28).take 2) = s.fatEntry := by
    unfold SampleImg.dirBytes
    rw [drop_take_map 32 s.dirAt 28 2 (by omega)]
    simp only [List.range'_succ, List.range'_zero, List.map_cons, List.map_nil, SampleImg.dirAt]
    simp only [Nat.reduceLT, Nat.reduceEqDiff, Nat.reduceLeDiff, Nat.reduceSub, if_true, if_false, and_self, and_true,
      and_false, false_and, Nat.reduceAdd]
    have := le2 s.fatEntry hok.fat
    simpa [Smpl.Akai.leVal, leVal] using this
  -- fields of the parameter record
  have p_name : s.parBytes.take 16 = s.pname := by
    have := drop_take_map 48 s.parAt 0 16 (by omega)
    simp only [List.drop_zero] at this
    unfold SampleImg.parBytes
    rw [this]
    exact map_range16 s.parAt s.pname hok.plen (by intro k hk; simp [SampleImg.parAt, hk])
  have p_pt : ∀ k, k < 5 → leVal ((s.parBytes.drop (16 + 4 * k)).take 4) = s.points k := by
    intro k hk
    unfold SampleImg.parBytes
    rw [drop_take_map 48 s.parAt (16 + 4 * k) 4 (by omega)]
    have hb : ∀ r, r < 4 → s.parAt (16 + 4 * k + r) = digit (s.points k) r := by
      intro r hr
      unfold SampleImg.parAt
      have c1 : ¬ (16 + 4 * k + r < 16) := by omega
      have c2 : 16 ≤ 16 + 4 * k + r ∧ 16 + 4 * k + r < 36 := by omega
      have e1 : (16 + 4 * k + r - 16) / 4 = k := by omega
      have e2 : (16 + 4 * k + r - 16) % 4 = r := by omega
      simp only [c1, c2, and_self, if_true, if_false, e1, e2]
    simp only [List.range'_succ, List.range'_zero, List.map_cons, List.map_nil]
    have a0 := hb 0 (by omega); have a1 := hb 1 (by omega); have a2 := hb 2 (by omega); have a3 := hb 3 (by omega)
    simp only [Nat.add_zero] at a0
    rw [a0, a1, show 16 + 4 * k + 1 + 1 = 16 + 4 * k + 2 by omega, a2, show 16 + 4 * k + 2 + 1 = 16 + 4 * k + 3 by omega, a3]
    have := le4 (s.points k) (hok.points k hk)
    simpa [Smpl.Akai.leVal, leVal] using this
  have p_b : ∀ k, k < 48 → s.parBytes.getD k 0 = s.parAt k := by
    intro k hk; unfold SampleImg.parBytes; exact getD_map_range 48 s.parAt k hk
  have p_top : leVal ((s.parBytes.drop 40).take 2) = s.clusterTop := by
    unfold SampleImg.parBytes
    rw [drop_take_map 48 s.parAt 40 2 (by omega)]
    simp only [List.range'_succ, List.range'_zero, List.map_cons, List.map_nil, SampleImg.parAt]
    simp only [Nat.reduceLT, Nat.reduceEqDiff, Nat.reduceLeDiff, Nat.reduceSub, if_true, if_false, and_self, and_true,
      and_false, false_and, Nat.reduceAdd]
    have := le2 s.clusterTop hok.top
    simpa [Smpl.Akai.leVal, leVal] using this
  have hfreq : ∃ fq, freqOf (s.options % 16) = some fq := Option.isSome_iff_exists.mp hok.freq
  obtain ⟨fq, hfq⟩ := hfreq
  have hi' : ¬ i ≥ maxNum .samp := by omega
  unfold sampleRec dirRec
  simp only [hi', if_false, hd, hp, d_name, hok.dname, d_ft, d_fat, p_name, hok.pname, bind, Option.bind, pure,
    p_b 44 (by omega), p_b 36 (by omega), p_b 37 (by omega), p_b 38 (by omega), p_b 39 (by omega), p_b 45 (by omega),
    p_top]
  have o44 : s.parAt 44 = s.options := by simp [SampleImg.parAt]
  have o36 : s.parAt 36 = s.loopMode := by simp [SampleImg.parAt]
  have o37 : s.parAt 37 = s.susEnable := by simp [SampleImg.parAt]
  have o38 : s.parAt 38 = s.susTune := by simp [SampleImg.parAt]
  have o39 : s.parAt 39 = s.relTune := by simp [SampleImg.parAt]
  have o45 : s.parAt 45 = s.key := by simp [SampleImg.parAt]
  simp only [o44, o36, o37, o38, o39, o45, hfq, SampleImg.toRec]
  simp only [List.range_succ, List.range_zero, List.nil_append, List.cons_append, List.map_cons, List.map_nil,
    Nat.mul_zero, Nat.add_zero]
  rw [show (16 : Nat) = 16 + 4 * 0 from rfl, p_pt 0 (by omega), p_pt 1 (by omega), p_pt 2 (by omega), p_pt 3 (by omega), p_pt 4 (by omega)]

/-- **C02 (a written sample, from the raw image).** Let the image hold, at the slots of sample `i`, the
written directory and parameter records of `s`; let its FAT area parse; and let the raw FAT hold a
chain `c` that starts at the sample's FAT entry (an allocatable cluster; nothing is assumed about the rest of the table).
Then the parser builds, for a partial slot that names sample `i`, exactly the node
⟨written record, clusters of `c` after the leading-cluster offset⟩; and if those clusters are all in
the file and hold the written words `ws` (plus padding), the sample exports exactly the window its
loop mode addresses — reversed for the two reverse modes — for every order of the clusters. -/
theorem C02_written_sample (s : SampleImg) (dn pn : Smpl.Names.Name) (hok : s.Ok dn pn) (i : Nat)
    (hi : i < maxNum .samp) (A B C : Bytes)
    (hA : A.length = dirOff .samp + 32 * i)
    (hB : (A ++ (s.dirBytes ++ B)).length = parOff .samp + 48 * i)
    (fat : Fat) (hfat : parseFat (Img.ofBytes (A ++ (s.dirBytes ++ (B ++ (s.parBytes ++ C))))) = .ok fat)
    (c : List Nat) (hc : Smpl.Props.C07.RawChain (rawFat (A ++ (s.dirBytes ++ (B ++ (s.parBytes ++ C))))).toArray c)
    (hhead : c.headD 0 = s.fatEntry) (hc0 : 2 ≤ s.fatEntry) (hc0hi : s.fatEntry < FAT_N - 9)
    (ws : List Nat) (pad : Bytes) (start n : Nat) (rev : Bool)
    (hfull : ∀ cl ∈ c.drop s.clusterTop, (clusterData (Img.ofBytes (A ++ (s.dirBytes ++ (B ++ (s.parBytes ++ C))))) cl).length = CLUSTER)
    (hcontent : chainContent (Img.ofBytes (A ++ (s.dirBytes ++ (B ++ (s.parBytes ++ C))))) (c.drop s.clusterTop) = enc ws ++ pad)
    (hwin : sampleWindow s.loopMode [s.points 0, s.points 1, s.points 2, s.points 3, s.points 4] = ((start : Int), (n : Int), rev))
    (hn : 0 < n) (hfit : start + n ≤ ws.length) :
    sampleRec (Img.ofBytes (A ++ (s.dirBytes ++ (B ++ (s.parBytes ++ C))))) i = some (s.toRec i dn pn) ∧
    fileClusters fat (s.toRec i dn pn).fatEntry (s.toRec i dn pn).clusterTop = .ok (c.drop s.clusterTop) ∧
    sampleData (Img.ofBytes (A ++ (s.dirBytes ++ (B ++ (s.parBytes ++ C))))) ⟨s.toRec i dn pn, c.drop s.clusterTop⟩
      = some (enc (wordWindow ws start n rev)) := by
  refine ⟨C02_sample_record_roundtrip s dn pn hok i hi A B C hA hB, ?_, ?_⟩
  · have := C02_clusters_from_image _ fat hfat c hc (by rw [hhead]; exact hc0) (by rw [hhead]; exact hc0hi)
      s.clusterTop
    rw [hhead] at this
    exact this
  · exact C02_sample _ ⟨s.toRec i dn pn, c.drop s.clusterTop⟩ ws pad hfull hcontent start n rev hwin hn hfit

end Smpl.Props.C02
