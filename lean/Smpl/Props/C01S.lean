/-
C01 (a sample file, from the raw partition bytes): the chain is read off the raw segment allocation
table of the partition header, not assumed resolved.
-/
import Smpl.Props.C01
import Smpl.Props.C07AC

namespace Smpl.Props.C01
open Smpl Smpl.Akai Smpl.Alloc Smpl.Props.C07

theorem words16_length : ∀ (n : Nat) (bs : Bytes), bs.length = 2 * n → (words16 bs).length = n := by
  intro n
  induction n with
  | zero => intro bs h; have : bs = [] := List.eq_nil_of_length_eq_zero (by omega); subst this; rfl
  | succ n ih =>
    intro bs h
    match bs, h with
    | a :: b :: rest, h =>
      simp only [words16, List.length_cons]
      rw [ih rest (by simp at h; omega)]

/-- the raw SAT words of the partition at byte `pos` of the image file. -/
def rawSat (file : Bytes) (pos : Nat) : List Nat :=
  words16 ((file.drop (pos + HEADER_BYTES + VOL_ENTRIES * VOL_ENTRY_BYTES)).take (2 * SAT_ENTRIES))

/-- a parsed partition's link table is the decoded raw SAT. -/
theorem parsePartition_links (file : Bytes) (pos letter : Nat) (p : Part) (next : Nat)
    (h : parsePartition file pos letter = .ok (some (p, next))) :
    akaiDecode (rawSat file pos) = .ok p.links ∧ (rawSat file pos).length = SAT_ENTRIES := by
  unfold parsePartition at h
  split at h
  · rename_i size z magic x tail _ _ _ _ _
    split at h
    · cases h
    · split at h
      · cases h
      · rename_i vols _
        split at h
        · cases h
        · rename_i satRaw hsat
          have hraw : satRaw = (file.drop (pos + HEADER_BYTES + VOL_ENTRIES * VOL_ENTRY_BYTES)).take (2 * SAT_ENTRIES) := by
            unfold rd at hsat
            split at hsat
            · cases hsat; rfl
            · cases hsat
          have hlen : satRaw.length = 2 * SAT_ENTRIES := by
            unfold rd at hsat
            split at hsat
            · rename_i hle
              cases hsat
              simp only [List.length_take, List.length_drop]
              omega
            · cases hsat
          simp only at h
          split at h
          · cases h
          · rename_i links hdec
            split at h
            · cases h
            · simp only [Except.ok.injEq, Option.some.injEq, Prod.mk.injEq] at h
              obtain ⟨hp, _⟩ := h
              subst hp
              unfold rawSat
              rw [← hraw]
              exact ⟨hdec, words16_length SAT_ENTRIES satRaw hlen⟩
  · cases h

/-- **C01 (one sample file, from the raw image).** Let the partition at byte `pos` of the image
parse to `p`. If the raw segment allocation table of that partition holds a file chain `c` (each
sector's word names the next sector, the last one's word is `0xC000`) that starts at the directory
entry's start sector and lies inside the partition, and the file's first 140 bytes parse to the
header `h`, then the entry is realised as the sample with header `h` and exactly the bytes
`[140 + 2·start, 140 + 2·end)` of the chain's sectors in chain order, cut to the entry's size —
however the sectors are ordered, whatever else the table holds. -/
theorem C01_sample_from_image (file : Bytes) (pos letter : Nat) (p : Part) (next : Nat)
    (hp : parsePartition file pos letter = .ok (some (p, next)))
    (c : List Nat) (hc : ARawChain (rawSat file pos).toArray c)
    (e : FileEntry) (hstart : c.headD 0 = e.start) (hin : SectorsInside p c)
    (hty : isSampleType e.ftype = true) (h : SampleHdr) (programOk : Bytes → Bool)
    (hhdr : parseSampleHdr ((segment p c).take e.size) = some h) :
    realizeFile p e programOk = some ⟨e.name, e.ftype,
      .sample h (window ((segment p c).take e.size) (SAMPLE_HEADER_BYTES + 2 * h.start)
        (2 * ((h.end_ : Int) - h.start)))⟩ := by
  obtain ⟨hdec, hlen⟩ := parsePartition_links file pos letter p next hp
  have hwf := C07_akai_wf (rawSat file pos) p.links hdec (by rw [hlen]; decide) c hc
  have hpath : getPath p.links SAT_ENTRIES e.start = .ok c := by
    rw [← hstart, ← hlen]; exact hwf.2
  exact C01_realize_sample p e c h programOk hpath hin hty hhdr

end Smpl.Props.C01
