/-
C02 — `export` of one Roland performance whose items carry clean, pairwise distinct names that are
not halves of a pair: exactly one file per referenced sample, at `<dir>/<name>.wav`, in the order
patch by patch, each the RIFF header followed by the whole frames of the sample's window.
-/
import Smpl.Props.C01E
import Smpl.Model.RolandTool

namespace Smpl.Props.C02
open Smpl Smpl.Roland Smpl.RolandTool Smpl.Names Smpl.Transcode Smpl.Props.C06 Smpl.Props.C01

/-- the samples a performance references, patch by patch. -/
def samplesOf (p : PerfNode) : List SampleNode := p.patches.flatMap (·.samples)

/-- what `export` writes for one Roland sample of a directory `dir`. -/
def exportSampleR (img : Img) (dir : List Name) (s : SampleNode) : Except Err Smpl.AkaiTool.Exported :=
  match sampleData img s with
  | none => .error .other
  | some d => do
    let w ← Smpl.AkaiTool.exportOne (genSample s) [⟨monoEnc, d⟩]
    pure ⟨exportPath (dir ++ [s.rec_.name]), w⟩

theorem fm_progs {γ : Type} (F : FileItem × Name × Name → Option γ) (hF : ∀ n x, F (FileItem.program n, x) = none)
    (nm : FileItem → Name × Name) : ∀ (qs : List Name) (rest : List FileItem),
    ((qs.map FileItem.program ++ rest).zip ((qs.map FileItem.program ++ rest).map nm)).filterMap F
      = (rest.zip (rest.map nm)).filterMap F := by
  intro qs
  induction qs with
  | nil => intro rest; rfl
  | cons q qs ih =>
    intro rest
    simp only [List.map_cons, List.cons_append, List.zip_cons_cons, List.filterMap_cons, hF]
    exact ih rest

theorem fm_samples {γ : Type} (F : FileItem × Name × Name → Option γ) (k : SampleNode → γ)
    (nm : FileItem → Name × Name) (hF : ∀ s, F (FileItem.sample s, nm (FileItem.sample s)) = some (k s)) :
    ∀ (ss : List SampleNode),
    ((ss.map FileItem.sample).zip ((ss.map FileItem.sample).map nm)).filterMap F = ss.map k := by
  intro ss
  induction ss with
  | nil => rfl
  | cons s ss ih =>
    simp only [List.map_cons, List.zip_cons_cons, List.filterMap_cons, hF, ih]

/-- **C02 (one performance, on the model).** A performance whose patches and referenced samples carry
clean (word characters and inner blanks), pairwise distinct names, the samples' names being no pair
halves, is exported as exactly one file per referenced sample, patch by patch in slot order, each at
`<dir>/<stored name>.wav` with the WAV `export_wav` builds from its record and its data window. -/
theorem C02_export_perf (img : Img) (dir : List Name) (p : PerfNode)
    (hclean : ∀ f ∈ perfFiles p, CleanName f.name) (hnd : ((perfFiles p).map (·.name)).Nodup)
    (hmono : ∀ s ∈ samplesOf p, stereoMatch s.rec_.name = none) :
    exportPerf img dir p = (samplesOf p).mapM (exportSampleR img dir) := by
  have e1 : (perfFiles p).map (fun f => (f.name, true)) = (perfFiles p).map (fun f => (f.name, true)) := rfl
  have hassign : assign ((perfFiles p).map fun f => (f.name, true))
      = .ok ((perfFiles p).map fun f => (f.name, f.name)) := by
    have := C06_clean_names_kept ((perfFiles p).map fun f => (f.name, true))
      (by
        intro x hx
        simp only [List.mem_map] at hx
        obtain ⟨f, hf, rfl⟩ := hx
        exact hclean f hf)
      (by rw [List.map_map]; exact hnd)
    unfold assign
    rw [this, List.map_map]; rfl
  have hsnd : ((samplesOf p).map (·.rec_.name)).Nodup := by
    unfold perfFiles at hnd
    rw [List.map_append, List.map_map, List.map_map] at hnd
    exact (List.nodup_append.mp hnd).2.1
  unfold exportPerf
  simp only [hassign]
  simp only [bind, Except.bind]
  generalize hS : List.filterMap _ ((perfFiles p).zip (List.map (fun f => (f.name, f.name)) (perfFiles p))) = S
  have hS' : S = (samplesOf p).map (fun s => (s, s.rec_.name)) := by
    rw [← hS]
    unfold perfFiles
    rw [show (List.map (fun q : PatchNode => FileItem.program q.name) p.patches)
        = (p.patches.map (·.name)).map FileItem.program by rw [List.map_map]; rfl]
    rw [fm_progs _ (by intro n x; rfl) (fun f => (f.name, f.name))]
    apply fm_samples
    intro s; rfl
  subst hS'
  rw [List.map_map]
  rw [show ((fun x : SampleNode × Name => x.2) ∘ fun s : SampleNode => (s, s.rec_.name)) = (fun s => s.rec_.name) from rfl]
  rw [combine_no_stereo ((samplesOf p).map (·.rec_.name)) hsnd (by
    intro n hn
    simp only [List.mem_map] at hn
    obtain ⟨s, hs, rfl⟩ := hn
    exact hmono s hs)]
  rw [List.length_map, List.mapM_map, List.range_eq_range']
  exact mapM_range_getElem (exportSampleR img dir) (samplesOf p) 0 _
    (by
      intro j x hx
      simp only [Function.comp, Nat.zero_add, List.getElem?_map, hx, Option.map_some]
      unfold exportSampleR
      rfl)

/-- the bytes of one exported mono sample, for any generalised sample of one channel (the Roland
counterpart of `C01_export_mono_wav`). -/
theorem exportOne_mono (g : Smpl.Wav.GenSample) (hch : g.channels = 1) (d : Bytes) :
    Smpl.AkaiTool.exportOne g [⟨monoEnc, d⟩] =
      match Smpl.Wav.buildWav (Smpl.Wav.metaOf g) (wholeFrames 2 d) with
      | .error e => .error e
      | .ok bs => .ok ((bs.take (bs.length - (wholeFrames 2 d).length)).map some ++ (wholeFrames 2 d).map some) := by
  unfold Smpl.AkaiTool.exportOne
  obtain ⟨blocks, hb, hfl⟩ := Smpl.Props.C12.C12_single false 4096 monoEnc true (by decide) (by decide) d
  have henc : (⟨false, monoEnc.width, monoEnc.nch, true⟩ : Enc) = ⟨false, 2, g.channels, true⟩ := by
    rw [hch]; rfl
  rw [henc] at hb
  simp only [hb]
  have hpcm : blocks.flatten = (wholeFrames 2 d).map some := by
    rw [hfl]
    have hfr : monoEnc.frame = 2 := rfl
    have hw : monoEnc.width = 2 := rfl
    have hbig : monoEnc.big = false := rfl
    rw [hfr, hw, hbig]
    rw [Smpl.Props.C12.mapSamples_id 2 (d.length / 2) (by decide) _ (by
      rw [Smpl.Props.C12.wholeFrames_length])]
  rw [hpcm, map_getD_map_some]
  simp only [List.length_map]
  rfl

/-- a Roland sample is a one-channel sample: `exportOne_mono` applies to it. -/
theorem genSample_channels (s : SampleNode) : (genSample s).channels = 1 := rfl

theorem mapM_zip_map' {α β γ : Type} (k : α → β) (G : α × β → Except Err γ) (H : α → Except Err γ) :
    ∀ (l : List α), (∀ a ∈ l, G (a, k a) = H a) → (l.zip (l.map k)).mapM G = l.mapM H := by
  intro l
  induction l with
  | nil => intro _; rfl
  | cons a as ih =>
    intro h
    simp only [List.map_cons, List.zip_cons_cons, List.mapM_cons]
    rw [h a (by simp), ih (fun x hx => h x (by simp [hx]))]

/-- the premises of `C02_export_perf` for one performance. -/
structure PlainPerf (p : PerfNode) : Prop where
  clean : ∀ f ∈ perfFiles p, CleanName f.name
  nodup : ((perfFiles p).map (·.name)).Nodup
  mono  : ∀ s ∈ samplesOf p, stereoMatch s.rec_.name = none

/-- what `export` writes for one volume. -/
def exportVolumeR (img : Img) (v : VolNode) : Except Err (List Smpl.AkaiTool.Exported) := do
  let perPerf ← v.perfs.mapM fun p => (samplesOf p).mapM (exportSampleR img [v.name, p.name])
  pure perPerf.flatten

/-- **C02 (the whole tree, on the model).** Let the volumes carry clean, pairwise distinct names, the
performances of each volume likewise, and let every performance be plain (clean, pairwise distinct
item names, no pair halves). Then `export` writes — volume by volume, performance by performance,
patch by patch — exactly one WAV per referenced sample at `<volume>/<performance>/<name>.wav`
(`exportOne_mono` gives its bytes: the RIFF header and the whole frames of the window `sampleData`
addresses) and nothing else. -/
theorem C02_export_tree (img : Img) (vols : List VolNode)
    (hv : (∀ v ∈ vols, CleanName v.name) ∧ (vols.map (·.name)).Nodup)
    (hp : ∀ v ∈ vols, (∀ p ∈ v.perfs, CleanName p.name) ∧ (v.perfs.map (·.name)).Nodup)
    (hplain : ∀ v ∈ vols, ∀ p ∈ v.perfs, PlainPerf p) :
    exportOf img vols = (do
      let perVol ← vols.mapM (exportVolumeR img)
      pure perVol.flatten) := by
  unfold exportOf
  have hassignV : assign (vols.map fun v => (v.name, false)) = .ok (vols.map fun v => (v.name, v.name)) := by
    have := C06_clean_names_kept (vols.map fun v => (v.name, false))
      (by
        intro y hy
        simp only [List.mem_map] at hy
        obtain ⟨v, hv', rfl⟩ := hy
        exact hv.1 v hv')
      (by rw [List.map_map]; exact hv.2)
    unfold assign
    rw [this, List.map_map]; rfl
  simp only [hassignV]
  simp only [bind, Except.bind]
  congr 1
  apply mapM_zip_map'
  intro v hvm
  simp only
  obtain ⟨hcl, hnd⟩ := hp v hvm
  have hassignP : assign (v.perfs.map fun p => (p.name, false)) = .ok (v.perfs.map fun p => (p.name, p.name)) := by
    have := C06_clean_names_kept (v.perfs.map fun p => (p.name, false))
      (by
        intro y hy
        simp only [List.mem_map] at hy
        obtain ⟨q, hq, rfl⟩ := hy
        exact hcl q hq)
      (by rw [List.map_map]; exact hnd)
    unfold assign
    rw [this, List.map_map]; rfl
  simp only [hassignP]
  unfold exportVolumeR
  simp only [bind, Except.bind]
  congr 1
  apply mapM_zip_map'
  intro q hq
  simp only
  obtain ⟨h1, h2, h3⟩ := hplain v hvm q hq
  exact C02_export_perf img [v.name, q.name] q h1 h2 h3

end Smpl.Props.C02
