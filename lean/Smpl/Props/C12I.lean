/-
C12 — one source stream with any number of interleaved channels, in either byte order: the
de-interleave / byte-order / re-interleave pipeline (and the passthrough) reproduce the whole frames
of the source, sample by sample, for every internal block size.
-/
import Smpl.Props.C12U

namespace Smpl.Props.C12
open Smpl.Transcode

/-! ## lists -/

theorem range_filter_eq (n c : Nat) :
    (List.range n).filter (fun i => i == c) = if c < n then [c] else [] := by
  induction n with
  | zero => simp
  | succ n ih =>
    rw [List.range_succ, List.filter_append, ih]
    by_cases h1 : c < n
    · have : (n == c) = false := by simp; omega
      simp [h1, this, List.filter]; omega
    · by_cases h2 : c = n
      · subst h2; simp [List.filter]
      · have : (n == c) = false := by simp; omega
        simp [h1, this, List.filter]; omega

theorem range_filter_mod (n c : Nat) (hc : c < n) :
    (List.range n).filter (fun i => i % n == c) = [c] := by
  have : (List.range n).filter (fun i => i % n == c) = (List.range n).filter (fun i => i == c) := by
    apply List.filter_congr
    intro x hx
    rw [Nat.mod_eq_of_lt (List.mem_range.mp hx)]
  rw [this, range_filter_eq, if_pos hc]

theorem filterMap_congr' {α β : Type} (l : List α) (f g : α → Option β) (h : ∀ x ∈ l, f x = g x) :
    l.filterMap f = l.filterMap g := by
  induction l with
  | nil => rfl
  | cons a as ih =>
    simp only [List.filterMap_cons]
    rw [h a (by simp), ih (fun x hx => h x (by simp [hx]))]

/-- `everyNth` peels one frame off the front. -/
theorem everyNth_frame (n c : Nat) (hc : c < n) (fr rest : List Sample) (hfr : fr.length = n) :
    everyNth n c (fr ++ rest) = (fr[c]?.getD []) :: everyNth n c rest := by
  unfold everyNth
  rw [List.length_append, hfr, List.range_add, List.filter_append, List.filterMap_append,
    range_filter_mod n c hc]
  have h1 : List.filterMap (fun i => (fr ++ rest)[i]?) [c] = [fr[c]?.getD []] := by
    have hlt : c < fr.length := by omega
    simp [List.getElem?_append_left hlt, List.getElem?_eq_getElem hlt]
  rw [h1]
  simp only [List.singleton_append, List.cons.injEq, true_and]
  rw [List.filter_map, List.filterMap_map]
  have h2 : (List.range rest.length).filter ((fun i => i % n == c) ∘ fun x => n + x)
      = (List.range rest.length).filter (fun i => i % n == c) := by
    apply List.filter_congr
    intro x _
    simp [Function.comp, Nat.add_mod_left]
  rw [h2]
  apply filterMap_congr'
  intro x _
  simp only [Function.comp]
  rw [List.getElem?_append_right (by omega)]
  congr 1
  omega

/-- channel `c` of `m` frames of `n` samples each is every `n`-th sample from `c` on. -/
theorem everyNth_spec (n c : Nat) (hc : c < n) : ∀ (m : Nat) (ss : List Sample), ss.length = m * n →
    everyNth n c ss = (List.range m).map (fun f => ss[f * n + c]?.getD []) := by
  intro m
  induction m with
  | zero =>
    intro ss h
    have : ss = [] := List.eq_nil_of_length_eq_zero (by simpa using h)
    subst this
    simp [everyNth]
  | succ m ih =>
    intro ss h
    have hsplit : ss = ss.take n ++ ss.drop n := (List.take_append_drop n ss).symm
    have hlen : (ss.take n).length = n := by
      rw [List.length_take, h, Nat.succ_mul]; omega
    rw [hsplit, everyNth_frame n c hc _ _ hlen, ih (ss.drop n) (by rw [List.length_drop, h, Nat.succ_mul]; omega)]
    rw [← hsplit, List.range_succ_eq_map, List.map_cons, List.map_map]
    congr 1
    · simp only [Nat.zero_mul, Nat.zero_add]
      rw [List.getElem?_take_of_lt hc]
    · apply List.map_congr_left
      intro f _
      simp only [Function.comp]
      rw [List.getElem?_drop]
      congr 2
      rw [Nat.succ_mul]; omega

theorem flatMap_range_getD {β : Type} (F : Sample → List β) : ∀ (l : List Sample),
    (List.range l.length).flatMap (fun i => F (l[i]?.getD [])) = l.flatMap F := by
  intro l
  induction l with
  | nil => simp
  | cons a as ih =>
    rw [List.length_cons, List.range_succ_eq_map, List.flatMap_cons, List.flatMap_map, List.flatMap_cons]
    congr 1

theorem flatMap_double {β : Type} (n : Nat) (h : Nat → List β) : ∀ m : Nat,
    (List.range m).flatMap (fun f => (List.range n).flatMap (fun c => h (f * n + c)))
      = (List.range (m * n)).flatMap h := by
  intro m
  induction m with
  | zero => simp
  | succ m ih =>
    rw [List.range_succ, List.flatMap_append, ih, Nat.succ_mul, List.range_add, List.flatMap_append]
    congr 1
    simp [List.flatMap_map]

theorem foldl_max_const (k : Nat) : ∀ (l : List Nat) (acc : Nat), acc ≤ k → l ≠ [] → (∀ x ∈ l, x = k) →
    l.foldl max acc = k := by
  intro l
  induction l with
  | nil => intro _ _ h; exact absurd rfl h
  | cons a as ih =>
    intro acc hacc _ hall
    have ha : a = k := hall a (by simp)
    subst ha
    simp only [List.foldl_cons]
    cases as with
    | nil => simp; omega
    | cons b bs =>
      exact ih (max acc a) (by omega) (by simp) (fun x hx => hall x (by simp [hx]))

/-! ## one block: de-interleave, per-sample map, re-interleave -/

/-- the channels of a block of `m` frames of `n` samples, each sample passed through `g`,
interleave back to the samples in their original order. -/
theorem encodeBlock_channels (w n m : Nat) (hn : 0 < n) (hm : 0 < m) (g : Sample → Sample)
    (ss : List Sample) (hss : ss.length = m * n) :
    encodeBlock w ((List.range n).map fun c => (everyNth n c ss).map g)
      = ss.flatMap (fun s => (g s).map some) := by
  unfold encodeBlock
  have hch : ∀ c, c < n → (everyNth n c ss).map g = (List.range m).map (fun f => g (ss[f * n + c]?.getD [])) := by
    intro c hc
    rw [everyNth_spec n c hc m ss hss, List.map_map]
    rfl
  have htarget : (((List.range n).map fun c => (everyNth n c ss).map g).map List.length).foldl max 0 = m := by
    apply foldl_max_const m _ 0 (by omega)
    · intro e
      have := congrArg List.length e
      simp at this; omega
    · intro x hx
      simp only [List.map_map, List.mem_map, List.mem_range, Function.comp] at hx
      obtain ⟨c, hc, rfl⟩ := hx
      rw [hch c hc]; simp
  simp only [htarget]
  rw [← flatMap_range_getD (fun s => (g s).map some) ss, hss, ← flatMap_double n _ m]
  apply flatMap_congr'
  intro f hf
  rw [List.flatMap_map]
  apply flatMap_congr'
  intro c hc
  have hc' := List.mem_range.mp hc
  have hf' := List.mem_range.mp hf
  rw [hch c hc']
  simp [hf']

/-- the single-channel case of the same statement (`decode_frame` does not reshape then). -/
theorem encodeBlock_single (w : Nat) (g : Sample → Sample) (ss : List Sample) :
    encodeBlock w [ss.map g] = ss.flatMap (fun s => (g s).map some) := by
  unfold encodeBlock
  simp only [List.map_cons, List.map_nil, List.foldl_cons, List.foldl_nil, List.length_map,
    List.flatMap_cons, List.flatMap_nil, List.append_nil]
  have : max 0 ss.length = ss.length := by omega
  rw [this, ← flatMap_range_getD (fun s => (g s).map some) ss]
  apply flatMap_congr'
  intro f hf
  have hf' := List.mem_range.mp hf
  simp [hf']

/-! ## samples of a byte string -/

/-- every `w`-byte sample of `l` passed through `g`. -/
def mapSamples (g : Sample → Sample) (w : Nat) (l : List Byte) : List Byte := ((samplesOf w l).map g).flatten

/-- what the byte-order steps do to one sample of a stream whose byte order is `big` when the
destination is little-endian. -/
def gOf (big : Bool) : Sample → Sample := fun s => if big then s.reverse else s

theorem flatMap_map_some (g : Sample → Sample) (l : List Sample) :
    l.flatMap (fun s => (g s).map some) = ((l.map g).flatten).map some := by
  induction l with
  | nil => rfl
  | cons a as ih => simp [List.flatMap_cons, ih]

theorem groups_append (w : Nat) (j : Nat) (b : List Byte) : ∀ (k : Nat) (a : List Byte), a.length = k * w →
    groups w (k + j) (a ++ b) = groups w k a ++ groups w j b := by
  intro k
  induction k with
  | zero =>
    intro a h
    have : a = [] := List.eq_nil_of_length_eq_zero (by simpa using h)
    subst this
    simp [groups]
  | succ k ih =>
    intro a h
    rw [Nat.succ_mul] at h
    have e : k + 1 + j = (k + j) + 1 := by omega
    rw [e]
    simp only [groups]
    rw [List.take_append_of_le_length (by omega), List.drop_append_of_le_length (by omega)]
    rw [ih (a.drop w) (by rw [List.length_drop]; omega)]
    simp

theorem samplesOf_append (w k : Nat) (hw : 0 < w) (a b : List Byte) (ha : a.length = k * w) :
    samplesOf w (a ++ b) = samplesOf w a ++ samplesOf w b := by
  unfold samplesOf
  rw [List.length_append, ha, Nat.mul_div_cancel _ hw]
  have : (k * w + b.length) / w = k + b.length / w := by
    rw [Nat.add_comm, Nat.add_mul_div_right _ _ hw, Nat.add_comm]
  rw [this]
  exact groups_append w _ b k a ha

theorem mapSamples_append (g : Sample → Sample) (w k : Nat) (hw : 0 < w) (a b : List Byte)
    (ha : a.length = k * w) : mapSamples g w (a ++ b) = mapSamples g w a ++ mapSamples g w b := by
  unfold mapSamples
  rw [samplesOf_append w k hw a b ha]
  simp

theorem groups_flatten (w : Nat) : ∀ (k : Nat) (l : List Byte), k * w ≤ l.length →
    (groups w k l).flatten = l.take (k * w) := by
  intro k
  induction k with
  | zero => intro l _; simp [groups]
  | succ k ih =>
    intro l h
    rw [Nat.succ_mul] at h
    simp only [groups, List.flatten_cons]
    rw [ih (l.drop w) (by rw [List.length_drop]; omega)]
    rw [Nat.succ_mul, Nat.add_comm (k * w) w, List.take_add]

theorem mapSamples_id (w k : Nat) (hw : 0 < w) (l : List Byte) (hl : l.length = k * w) :
    mapSamples (gOf false) w l = l := by
  unfold mapSamples
  have : (samplesOf w l).map (gOf false) = samplesOf w l := by
    unfold gOf; simp
  rw [this, samplesOf_exact w k hw l hl, groups_flatten w k l (by omega)]
  exact List.take_of_length_le (by omega)

theorem mapSamples_nil (g : Sample → Sample) (w : Nat) : mapSamples g w [] = [] := by
  simp [mapSamples, samplesOf, groups]

/-! ## `resize_buffer` -/

theorem wholeFrames_length (frame : Nat) (buf : List Byte) :
    (wholeFrames frame buf).length = buf.length / frame * frame := by
  unfold wholeFrames
  rw [List.length_take]
  exact Nat.min_eq_left (Nat.div_mul_le_self _ _)

theorem wholeFrames_short (frame : Nat) (buf : List Byte) (h : buf.length < frame) :
    wholeFrames frame buf = [] := by
  unfold wholeFrames
  rw [Nat.div_eq_of_lt h]; simp

/-- cutting a block of whole frames off the front commutes with dropping the partial tail. -/
theorem wholeFrames_split (frame nf : Nat) (hf : 0 < frame) (rem : List Byte) (h : nf * frame ≤ rem.length) :
    wholeFrames frame rem = rem.take (nf * frame) ++ wholeFrames frame (rem.drop (nf * frame)) := by
  unfold wholeFrames
  rw [List.length_drop]
  have hdiv : rem.length / frame = nf + (rem.length - nf * frame) / frame := by
    have : rem.length = (rem.length - nf * frame) + nf * frame := by omega
    conv => lhs; rw [this]
    rw [Nat.add_mul_div_right _ _ hf, Nat.add_comm]
  rw [hdiv, Nat.add_mul, List.take_add]

/-! ## one block of one stream -/

theorem decodeOne_length (e : Enc) (buf : List Byte) : (decodeOne e buf).length = e.chans := by
  unfold decodeOne
  simp only
  split
  · simp
  · split
    · simp
    · rename_i h
      simp only [List.length_cons, List.length_nil]
      unfold Enc.chans at *
      omega

theorem decodeOne_short (e : Enc) (buf : List Byte) (h : buf.length < e.frame) :
    decodeOne e buf = List.replicate e.chans [] := by
  unfold decodeOne
  simp [wholeFrames_short e.frame buf h]

/-- **one block**: a block that holds at least one whole frame of a stream with `nch ≥ 1` interleaved
channels is de-interleaved, mapped sample by sample and re-interleaved to exactly its whole frames,
each sample mapped — the channels keep their places. -/
theorem block_single (e : Enc) (hw : 0 < e.width) (hn : 0 < e.nch) (g : Sample → Sample)
    (buf : List Byte) (hb : e.frame ≤ buf.length) :
    encodeBlock e.width ((decodeOne e buf).map (·.map g))
      = (mapSamples g e.width (wholeFrames e.frame buf)).map some := by
  have hfr : 0 < e.frame := by unfold Enc.frame; exact Nat.mul_pos hn hw
  have hm : 0 < buf.length / e.frame := Nat.div_pos hb hfr
  have hlen := wholeFrames_length e.frame buf
  have hne : (wholeFrames e.frame buf).isEmpty = false := by
    rw [List.isEmpty_eq_false_iff]
    intro h0
    rw [h0] at hlen
    have := Nat.mul_pos hm hfr
    simp at hlen; omega
  have hss : (samplesOf e.width (wholeFrames e.frame buf)).length = buf.length / e.frame * e.nch := by
    unfold samplesOf
    rw [groups_length, hlen]
    unfold Enc.frame
    rw [← Nat.mul_assoc, Nat.mul_div_cancel _ hw]
  unfold decodeOne
  simp only [hne, Bool.false_eq_true, if_false]
  unfold mapSamples
  rw [← flatMap_map_some]
  by_cases hc : e.chans > 1
  · simp only [hc, if_true]
    have hch : e.chans = e.nch := by unfold Enc.chans at *; omega
    rw [hch, List.map_map]
    exact encodeBlock_channels e.width e.nch (buf.length / e.frame) hn hm g _ hss
  · simp only [hc, if_false, List.map_cons, List.map_nil]
    exact encodeBlock_single e.width g _

theorem applyFlags_replicate (b : Bool) : ∀ (chs : List (List Sample)),
    applyFlags chs (List.replicate chs.length b) = chs.map (·.map (gOf b)) := by
  intro chs
  induction chs with
  | nil => rfl
  | cons c cs ih =>
    unfold applyFlags at *
    simp only [List.length_cons, List.replicate_succ, List.zip_cons_cons, List.map_cons]
    rw [ih]
    congr 1
    cases b
    · have : gOf false = fun s => s := by funext s; simp [gOf]
      simp [this]
    · have : gOf true = List.reverse := by funext s; simp [gOf]
      simp [this]

/-- the byte-order steps of a one-stream pipeline into a little-endian destination, whatever the host. -/
theorem applySwaps_single (host : Bool) (dest : Enc) (hd : dest.big = false) (e : Enc) (d : List Byte)
    (chs : List (List Sample)) (hl : chs.length = e.chans) :
    applySwaps host dest [⟨e, d⟩] chs = chs.map (·.map (gOf e.big)) := by
  have hfl : destFlags dest [⟨e, d⟩] = List.replicate chs.length e.big := by
    simp [destFlags, hd, hl]
  rw [C12_swaps_host_independent host dest [⟨e, d⟩] chs (by rw [hfl]; simp), hfl]
  exact applyFlags_replicate e.big chs

/-! ## the loops -/

theorem pipeLoop_single (host : Bool) (dest : Enc) (e : Enc) (d : List Byte) (hw : 0 < e.width) (hn : 0 < e.nch)
    (hdw : dest.width = e.width) (hdb : dest.big = false) (nf : Nat) (hnf : 0 < nf) :
    ∀ (fuel : Nat) (rem : List Byte), rem.length < fuel →
      (pipeLoop host dest [⟨e, d⟩] [nf * e.frame] fuel [rem]).flatten
        = (mapSamples (gOf e.big) e.width (wholeFrames e.frame rem)).map some := by
  have hfr : 0 < e.frame := by unfold Enc.frame; exact Nat.mul_pos hn hw
  have hsz : e.frame ≤ nf * e.frame := Nat.le_mul_of_pos_left _ hnf
  intro fuel
  induction fuel with
  | zero => intro rem h; omega
  | succ fuel ih =>
    intro rem hlt
    unfold pipeLoop
    simp only [List.zip_cons_cons, List.zip_nil_right, List.map_cons, List.map_nil, List.flatten_cons,
      List.flatten_nil, List.append_nil]
    by_cases hshort : rem.length < e.frame
    · have htk : (rem.take (nf * e.frame)).length < e.frame := by
        rw [List.length_take]; omega
      rw [decodeOne_short e _ htk]
      have hany : (List.replicate e.chans ([] : List Sample)).any List.isEmpty = true := by
        have : 0 < e.chans := by unfold Enc.chans; omega
        cases hk : e.chans with
        | zero => omega
        | succ k => simp [List.replicate_succ]
      simp only [hany, if_true, List.flatten_nil]
      rw [wholeFrames_short e.frame rem hshort, mapSamples_nil]
      rfl
    · have hge : e.frame ≤ rem.length := by omega
      have htk : e.frame ≤ (rem.take (nf * e.frame)).length := by
        rw [List.length_take]; omega
      have hany : (decodeOne e (rem.take (nf * e.frame))).any List.isEmpty = false := by
        -- a block with a whole frame decodes to non-empty channels
        cases hcon' : (decodeOne e (rem.take (nf * e.frame))).any List.isEmpty with
        | false => rfl
        | true =>
        exfalso
        -- every channel of one block has the same length, so an empty one makes all of them empty
        unfold decodeOne at hcon'
        have hne : (wholeFrames e.frame (rem.take (nf * e.frame))).isEmpty = false := by
          rw [List.isEmpty_eq_false_iff]
          intro h0
          have hl := wholeFrames_length e.frame (rem.take (nf * e.frame))
          rw [h0] at hl
          have := Nat.mul_pos (Nat.div_pos htk hfr) hfr
          simp only [List.length_nil] at hl; omega
        simp only [hne, Bool.false_eq_true, if_false] at hcon'
        have hssl : (samplesOf e.width (wholeFrames e.frame (rem.take (nf * e.frame)))).length
            = (rem.take (nf * e.frame)).length / e.frame * e.nch := by
          unfold samplesOf
          rw [groups_length, wholeFrames_length]
          unfold Enc.frame
          rw [← Nat.mul_assoc, Nat.mul_div_cancel _ hw]
        have hmpos : 0 < (rem.take (nf * e.frame)).length / e.frame := Nat.div_pos htk hfr
        split at hcon'
        · rename_i hc
          have hch : e.chans = e.nch := by unfold Enc.chans at *; omega
          rw [List.any_map, List.any_eq_true] at hcon'
          obtain ⟨c, hcmem, hcemp⟩ := hcon'
          have hc' : c < e.nch := by rw [← hch]; exact List.mem_range.mp hcmem
          simp only [Function.comp] at hcemp
          rw [hch, everyNth_spec e.nch c hc' _ _ hssl] at hcemp
          simp at hcemp
          omega
        · simp only [List.any_cons, List.any_nil, Bool.or_false] at hcon'
          rw [List.isEmpty_iff] at hcon'
          rw [hcon'] at hssl
          have := Nat.mul_pos hmpos hn
          simp only [List.length_nil] at hssl; omega
      simp only [hany, Bool.false_eq_true, if_false, List.flatten_cons]
      rw [applySwaps_single host dest hdb e d _ (decodeOne_length e _), hdw,
        block_single e hw hn (gOf e.big) _ htk]
      rw [ih (rem.drop (nf * e.frame)) (by rw [List.length_drop]; omega)]
      rw [← List.map_append]
      congr 1
      by_cases hfull : nf * e.frame ≤ rem.length
      · have hexact : wholeFrames e.frame (rem.take (nf * e.frame)) = rem.take (nf * e.frame) :=
          wholeFrames_exact e.frame nf hfr _ (by rw [List.length_take]; omega)
        rw [hexact, wholeFrames_split e.frame nf hfr rem hfull]
        have hmul : (rem.take (nf * e.frame)).length = (nf * e.nch) * e.width := by
          rw [List.length_take]; unfold Enc.frame at *
          rw [Nat.mul_assoc]; omega
        rw [mapSamples_append _ e.width (nf * e.nch) hw _ _ hmul]
      · have h1 : rem.take (nf * e.frame) = rem := List.take_of_length_le (by omega)
        have h2 : rem.drop (nf * e.frame) = [] := List.drop_of_length_le (by omega)
        rw [h1, h2, wholeFrames_short e.frame [] (by simpa using hfr), mapSamples_nil, List.append_nil]

theorem passLoop_single (frame nf : Nat) (hf : 0 < frame) (hnf : 0 < nf) :
    ∀ (fuel : Nat) (rem : List Byte), rem.length < fuel →
      (passLoop frame (nf * frame) fuel rem).flatten = (wholeFrames frame rem).map some := by
  have hsz : frame ≤ nf * frame := Nat.le_mul_of_pos_left _ hnf
  intro fuel
  induction fuel with
  | zero => intro rem h; omega
  | succ fuel ih =>
    intro rem hlt
    unfold passLoop
    simp only
    by_cases hshort : rem.length < frame
    · have htk : (rem.take (nf * frame)).length < frame := by rw [List.length_take]; omega
      rw [wholeFrames_short frame _ htk, wholeFrames_short frame rem hshort]
      simp
    · have hge : frame ≤ rem.length := by omega
      have htk : frame ≤ (rem.take (nf * frame)).length := by rw [List.length_take]; omega
      have hne : (wholeFrames frame (rem.take (nf * frame))).isEmpty = false := by
        rw [List.isEmpty_eq_false_iff]
        intro h0
        have hl := wholeFrames_length frame (rem.take (nf * frame))
        rw [h0] at hl
        have := Nat.mul_pos (Nat.div_pos htk hf) hf
        simp only [List.length_nil] at hl; omega
      simp only [hne, Bool.false_eq_true, if_false, List.flatten_cons]
      rw [ih (rem.drop (nf * frame)) (by rw [List.length_drop]; omega), ← List.map_append]
      congr 1
      by_cases hfull : nf * frame ≤ rem.length
      · rw [wholeFrames_exact frame nf hf _ (by rw [List.length_take]; omega),
          wholeFrames_split frame nf hf rem hfull]
      · have h1 : rem.take (nf * frame) = rem := List.take_of_length_le (by omega)
        have h2 : rem.drop (nf * frame) = [] := List.drop_of_length_le (by omega)
        rw [h1, h2, wholeFrames_short frame [] (by simpa using hf), List.append_nil]

/-- **C12 (one stream, any number of interleaved channels, either byte order).** A source stream of
`nch ≥ 1` interleaved channels of `width`-byte samples, little- or big-endian, signed or not, is
written — through the passthrough when its encoding equals the destination's, through the
de-interleave / byte-order / re-interleave pipeline otherwise — as exactly its whole frames in
order, every sample in its place (so every channel in its place) and byte-reversed exactly when the
source is big-endian; the trailing bytes that do not form a whole frame are dropped and nothing
else; for every host byte order and every internal buffer size `B`. -/
theorem C12_single (host : Bool) (B : Nat) (e : Enc) (sgD : Bool) (hw : 0 < e.width) (hn : 0 < e.nch)
    (data : List Byte) :
    ∃ blocks, transcode host B ⟨false, e.width, e.nch, sgD⟩ [⟨e, data⟩] = .ok blocks ∧
      blocks.flatten = (mapSamples (gOf e.big) e.width (wholeFrames e.frame data)).map some := by
  have hfr : 0 < e.frame := by unfold Enc.frame; exact Nat.mul_pos hn hw
  have hnf : 0 < numFrames B [⟨e, data⟩] := by
    simp only [numFrames, List.map_cons, List.map_nil, List.foldl_nil]; omega
  unfold transcode
  have hch : ((([⟨e, data⟩] : List Src).map (·.enc.chans)).foldl (· + ·) 0 != (⟨false, e.width, e.nch, sgD⟩ : Enc).nch) = false := by
    simp only [List.map_cons, List.map_nil, List.foldl_cons, List.foldl_nil, Enc.chans]
    have : 0 + max 1 e.nch = e.nch := by omega
    rw [this]; simp
  simp only [List.isEmpty_cons, Bool.false_eq_true, if_false, hch]
  by_cases heq : encEq e ⟨false, e.width, e.nch, sgD⟩ = true
  · simp only [heq, if_true]
    refine ⟨_, rfl, ?_⟩
    have hbig : e.big = false := by
      unfold encEq at heq
      simp only [Bool.and_eq_true, beq_iff_eq] at heq
      exact heq.1.1.1.1
    rw [passLoop_single e.frame _ hfr hnf _ data (by simp), hbig]
    rw [mapSamples_id e.width (data.length / e.frame * e.nch) hw _ (by
      rw [wholeFrames_length]; unfold Enc.frame; rw [Nat.mul_assoc])]
  · simp only [heq, Bool.false_eq_true, if_false, List.map_cons, List.map_nil]
    refine ⟨_, rfl, ?_⟩
    exact pipeLoop_single host ⟨false, e.width, e.nch, sgD⟩ e data hw hn rfl rfl _ hnf _ data (by simp)

/-- non-vacuity: a big-endian interleaved stereo stream of three frames and one stray byte, block of one frame. -/
example : (transcode true 4 ⟨false, 2, 2, true⟩ [⟨⟨true, 2, 2, true⟩, [1, 2, 3, 4, 5, 6, 7, 8, 9, 10, 11, 12, 13]⟩]).toOption.map List.flatten
    = some ([2, 1, 4, 3, 6, 5, 8, 7, 10, 9, 12, 11].map some) := by decide

end Smpl.Props.C12
