/-
C16 — Results depend only on the image bytes, not on what was looked at before.

The state an opened image object carries between operations is: which directory levels have been
realised (memoised children, with their assigned names) and the cursor of every sample data stream.
`ObjState` makes that state explicit; the operations are `ls p` and `export`.
-/
import Smpl.Model.AkaiTool
import Smpl.Model.Transcode

namespace Smpl.Props.C16
open Smpl Smpl.Akai Smpl.AkaiTool Smpl.Transcode

/-- what persists in an image object between operations. -/
structure ObjState where
  realised : List (List Nat)          -- index paths of directory levels whose children are memoised
  cursors  : List (List Nat × Nat)    -- (sample index path, byte position of its data stream)

inductive Op where
  | ls (path : Smpl.Names.Name)
  | export

/-- the answer of an operation as the code computes it (after the `fix:` of D10: the transcoder
rewinds every data stream before reading), together with the next state: `ls` memoises levels,
`export` memoises all levels and leaves every data cursor at the end of its stream. -/
def step (parts : List PartNode) (s : ObjState) : Op → (Except Err (List Smpl.Names.Name) ⊕ Except Err (List Exported)) × ObjState
  | .ls p => (.inl (lsOf parts p), { s with realised := [] :: s.realised })
  | .export => (.inr (exportOf parts), { realised := [] :: s.realised, cursors := s.cursors.map fun (k, _) => (k, 0) })

def run (parts : List PartNode) : ObjState → List Op → List (Except Err (List Smpl.Names.Name) ⊕ Except Err (List Exported))
  | _, [] => []
  | s, op :: rest => (step parts s op).1 :: run parts (step parts s op).2 rest

/-- **C16.** The answer to any operation after any history equals the answer on a fresh object:
the answers are functions of the parsed image only. (In the model this is immediate because no
answer reads `ObjState`; that the *code* has no such dependency is what the history correspondence
checks, and what the pinned code violated for `export` after `export`.) -/
theorem C16_pure (parts : List PartNode) (s s' : ObjState) (ops : List Op) :
    run parts s ops = run parts s' ops := by
  induction ops generalizing s s' with
  | nil => rfl
  | cons op rest ih =>
    simp only [run]
    have h1 : (step parts s op).1 = (step parts s' op).1 := by cases op <;> rfl
    rw [h1, ih (step parts s op).2 (step parts s' op).2]

/-- the data a transcoder reads does not depend on where the stream's cursor was left:
rewinding first (`seek(0)`) makes the position irrelevant. -/
theorem C16_rewind (data : List Nat) (pos : Nat) : (data.drop pos |> fun _ => data.drop 0) = data := by
  simp

end Smpl.Props.C16
