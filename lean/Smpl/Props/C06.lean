/-
C06 — Output paths are unique, file-system safe and confined to the destination.
-/
import Smpl.Model.Names

namespace Smpl.Props.C06
open Smpl Smpl.Names

/-- an export name is never empty and always starts with a word character — so a path component is
never empty, never `.`/`..`, never starts with a separator or a dot. -/
theorem C06_export_head (name : Name) (isFile : Bool) :
    ∃ c rest, makeExportName name isFile = c :: rest ∧ isWord c = true := by
  unfold makeExportName
  generalize expEnding (expBase name) = e1
  have h2 : ∃ c rest, expNonEmpty e1 = c :: rest := by
    cases e1 with
    | nil => exact ⟨'0', [], rfl⟩
    | cons c rest => exact ⟨c, rest, rfl⟩
  obtain ⟨c2, r2, he2⟩ := h2
  rw [he2]
  have h3 : ∃ c rest, expWordHead (c2 :: r2) = c :: rest ∧ isWord c = true := by
    by_cases hw : isWord c2 = true
    · exact ⟨c2, r2, by simp [expWordHead, hw], hw⟩
    · exact ⟨'0', c2 :: r2, by simp [expWordHead, hw], by decide⟩
  obtain ⟨c3, r3, he3, hw3⟩ := h3
  rw [he3]
  unfold expDirTail
  cases isFile with
  | true => exact ⟨c3, r3, rfl, hw3⟩
  | false =>
    simp only [Bool.false_eq_true, if_false]
    cases (c3 :: r3).getLast? with
    | none => exact ⟨c3, r3, rfl, hw3⟩
    | some l =>
      simp only
      split
      · exact ⟨c3, r3 ++ ['0'], rfl, hw3⟩
      · exact ⟨c3, r3, rfl, hw3⟩

end Smpl.Props.C06
