/-
C06 — Output paths are unique, file-system safe and confined to the destination.
-/
import Smpl.Model.Names
import Smpl.Lemmas.Dedupe

namespace Smpl.Props.C06
open Smpl Smpl.Names

/-- an export name is never empty and always starts with a word character — so a path component is
never empty, never `.`/`..`, never starts with a separator or a dot. -/
theorem C06_export_head (name : Name) (isFile : Bool) :
    ∃ c rest, makeExportName name isFile = c :: rest ∧ isWord c = true := by
  unfold makeExportName
  generalize expEnding (expBase name) = e1
  have h2 : ∃ c rest, expNonEmpty e1 = c :: rest := by
    cases e1 with
    | nil => exact ⟨'0', [], rfl⟩
    | cons c rest => exact ⟨c, rest, rfl⟩
  obtain ⟨c2, r2, he2⟩ := h2
  rw [he2]
  have h3 : ∃ c rest, expWordHead (c2 :: r2) = c :: rest ∧ isWord c = true := by
    by_cases hw : isWord c2 = true
    · exact ⟨c2, r2, by simp [expWordHead, hw], hw⟩
    · exact ⟨'0', c2 :: r2, by simp [expWordHead, hw], by decide⟩
  obtain ⟨c3, r3, he3, hw3⟩ := h3
  rw [he3]
  unfold expDirTail
  cases isFile with
  | true => exact ⟨c3, r3, rfl, hw3⟩
  | false =>
    simp only [Bool.false_eq_true, if_false]
    cases (c3 :: r3).getLast? with
    | none => exact ⟨c3, r3, rfl, hw3⟩
    | some l =>
      simp only
      split
      · exact ⟨c3, r3 ++ ['0'], rfl, hw3⟩
      · exact ⟨c3, r3, rfl, hw3⟩

/-! ## uniqueness -/

/-- **No two siblings get the same name.** Whatever candidate names the siblings have (duplicates,
names equal after sanitising, names that collide with a generated `(n)` suffix), the names
assigned by the de-duplication are pairwise distinct, one per sibling. -/
theorem C06_unique (cands : List Name) (res : List Name) (h : dedupe cands = .ok res) :
    res.Nodup ∧ res.length = cands.length :=
  dedupe_nodup cands res h

/-- premises satisfiable, statement non-trivial: two groups competing for `A (2)`. -/
example : (match dedupe ["A".toList, "A".toList, "A (2)".toList, "A (2)".toList] with
    | .ok r => r == ["A".toList, "A (3)".toList, "A (2)".toList, "A (2) (2)".toList]
    | .error _ => false) = true := by decide

/-! ## character set -/

theorem subRuns_keep (keep : Char → Bool) (hsp : keep ' ' = true) (s : Name) :
    ∀ c ∈ subRuns keep s, keep c = true := by
  induction s using subRuns.induct keep with
  | case1 => intro c hc; simp [subRuns] at hc
  | case2 c cs hk ih =>
    intro x hx
    rw [subRuns] at hx
    simp only [hk, if_true, List.mem_cons] at hx
    rcases hx with rfl | hx
    · exact hk
    · exact ih x hx
  | case3 c cs hk ih =>
    intro x hx
    rw [subRuns] at hx
    simp only [hk, Bool.false_eq_true, if_false, List.mem_cons] at hx
    rcases hx with rfl | hx
    · exact hsp
    · exact ih x hx

theorem mem_strip {c : Char} {s : Name} (h : c ∈ strip s) : c ∈ s := by
  unfold strip stripL at h
  have h1 := List.mem_reverse.mp h
  have h2 := (List.dropWhile_sublist _).mem h1
  have h3 := List.mem_reverse.mp h2
  exact (List.dropWhile_sublist _).mem h3

theorem mem_dropDot {c : Char} {r : Name} (h : c ∈ dropDot r) : c ∈ r := by
  unfold dropDot at h
  split at h
  · exact List.mem_cons_of_mem _ ((List.dropWhile_sublist _).mem h)
  · exact h

theorem mem_safeEnding {c : Char} {s : Name} (h : c ∈ safeEnding s) : c ∈ s := by
  unfold safeEnding at h
  simp only at h
  split at h
  · exact (List.take_sublist _ _).mem h
  · have h1 := mem_dropDot (List.mem_reverse.mp h)
    exact List.mem_reverse.mp ((List.dropWhile_sublist _).mem h1)

/-- **Every character of an export name is a word character, blank, `-`, `.` or `#`** — whatever
the stored name contains (path separators, quotes, control characters, `..`). -/
theorem C06_charset (name : Name) (isFile : Bool) :
    ∀ c ∈ makeExportName name isFile, exportKeep c = true := by
  have hbase : ∀ c ∈ expBase name, exportKeep c = true := by
    intro c hc
    exact subRuns_keep exportKeep (by decide) name c (mem_strip hc)
  have hend : ∀ c ∈ expEnding (expBase name), exportKeep c = true := by
    intro c hc
    unfold expEnding at hc
    split at hc
    · exact hbase c hc
    · exact hbase c (mem_safeEnding hc)
  have hne : ∀ c ∈ expNonEmpty (expEnding (expBase name)), exportKeep c = true := by
    intro c hc
    unfold expNonEmpty at hc
    split at hc
    · simp at hc; subst hc; decide
    · exact hend c hc
  have hwh : ∀ c ∈ expWordHead (expNonEmpty (expEnding (expBase name))), exportKeep c = true := by
    intro c hc
    generalize expNonEmpty (expEnding (expBase name)) = e at hne hc
    cases e with
    | nil => simp [expWordHead] at hc
    | cons a as =>
      simp only [expWordHead] at hc
      split at hc
      · exact hne c hc
      · rcases List.mem_cons.mp hc with rfl | hc
        · decide
        · exact hne c hc
  intro c hc
  unfold makeExportName expDirTail at hc
  split at hc
  · exact hwh c hc
  · split at hc
    · split at hc
      · rcases List.mem_append.mp hc with hc | hc
        · exact hwh c hc
        · simp at hc; subst hc; decide
      · exact hwh c hc
    · exact hwh c hc

/-- a directory component never ends in `.` or `-`. -/
theorem C06_dir_tail (name : Name) (c : Char)
    (h : (makeExportName name false).getLast? = some c) : c ≠ '.' ∧ c ≠ '-' := by
  unfold makeExportName expDirTail at h
  simp only [Bool.false_eq_true, if_false] at h
  generalize expWordHead (expNonEmpty (expEnding (expBase name))) = e at h
  cases hl : e.getLast? with
  | none => simp only [hl] at h; cases h
  | some l =>
    simp only [hl] at h
    split at h
    · simp at h; subst h; decide
    · rename_i hne
      rw [hl] at h
      cases h
      simp at hne
      exact ⟨hne.1, hne.2⟩

end Smpl.Props.C06
