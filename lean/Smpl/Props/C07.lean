/-
C07 — Allocation chains resolve to exactly the linked sectors, and always terminate.
-/
import Smpl.Model.Alloc

namespace Smpl.Props.C07
open Smpl Smpl.Alloc

/-- `c` is a chain of the link table: every sector is in range, each non-last sector links to its
successor and is not an end, the last sector is marked end. (Specification; no order assumption.) -/
def Chain (links : List Link) : List Nat → Prop
  | [] => False
  | [a] => ∃ l, links[a]? = some l ∧ l.isEnd = true
  | a :: b :: rest => (∃ l, links[a]? = some l ∧ l.isEnd = false ∧ l.next = b) ∧ Chain links (b :: rest)

/-- A well-formed chain is resolved to exactly its sectors, in order (any sector order; the only
requirement is that the chain is not longer than the table's `size`). -/
theorem C07_getPath_wf (links : List Link) (size : Nat) (c : List Nat) (h : Chain links c)
    (hlen : c.length ≤ size) : getPath links size (c.headD 0) = .ok c := by
  unfold getPath
  induction c generalizing size with
  | nil => exact absurd h (by simp [Chain])
  | cons a rest ih =>
    cases size with
    | zero => simp at hlen
    | succ fuel =>
      cases rest with
      | nil =>
        obtain ⟨l, hl, he⟩ := h
        simp [walk, hl, he]
      | cons b rest' =>
        obtain ⟨⟨l, hl, he, hn⟩, hrest⟩ := h
        have := ih fuel hrest (by simp at hlen ⊢; omega)
        simp only [List.headD_cons] at this ⊢
        simp [walk, hl, he, hn, this]

/-- Soundness: whatever `get_path` returns is a chain of the table starting at the start sector. -/
theorem C07_getPath_sound (links : List Link) (size start : Nat) (p : List Nat)
    (h : getPath links size start = .ok p) : Chain links p ∧ p.head? = some start := by
  unfold getPath at h
  induction size generalizing start p with
  | zero => simp [walk] at h
  | succ fuel ih =>
    simp only [walk] at h
    cases hl : links[start]? with
    | none => simp [hl] at h
    | some l =>
      simp only [hl] at h
      by_cases he : l.isEnd = true
      · simp [he] at h; subst h
        exact ⟨⟨l, hl, he⟩, rfl⟩
      · simp only [he] at h
        cases hw : walk links fuel l.next with
        | error e => simp [hw] at h
        | ok q =>
          simp only [hw, Bool.false_eq_true, if_false] at h
          injection h with h; subst h
          obtain ⟨hc, hh⟩ := ih l.next q hw
          refine ⟨?_, rfl⟩
          cases q with
          | nil => simp [Chain] at hc
          | cons b rest =>
            simp at hh; subst hh
            exact ⟨⟨l, hl, by simpa using he, rfl⟩, hc⟩

/-- Termination and boundedness: on **every** link table (cycles, self-links, cross-links, links
beyond the table) and every start, `get_path` ends — with a non-empty path of at most `size`
sectors, or with one of the two reported errors. (True of the code after the `fix:` of D6.) -/
theorem C07_getPath_total (links : List Link) (size start : Nat) :
    (∃ p, getPath links size start = .ok p ∧ p ≠ [] ∧ p.length ≤ size) ∨
    getPath links size start = .error .invalidFat ∨
    getPath links size start = .error .invalidSector := by
  unfold getPath
  induction size generalizing start with
  | zero => right; left; rfl
  | succ fuel ih =>
    simp only [walk]
    cases hl : links[start]? with
    | none => right; right; rfl
    | some l =>
      by_cases he : l.isEnd = true
      · left; exact ⟨[start], by simp [he], by simp, by simp⟩
      · rcases ih l.next with ⟨p, hp, hne, hlen⟩ | hp | hp
        · left; exact ⟨start :: p, by simp [he, hp], by simp, by simp; omega⟩
        · right; left; simp [he, hp]
        · right; right; simp [he, hp]

/-- a cyclic table is reported, not followed forever: the 1-cycle `0 → 0`. -/
theorem C07_getPath_cycle_reported (size : Nat) :
    getPath [⟨0, false⟩] size 0 = .error .invalidFat := by
  unfold getPath
  induction size with
  | zero => rfl
  | succ n ih => simp [walk, ih]

/-- `add_to_sector_links` installs exactly the chain it is given (distinct, in-range sectors). -/
theorem C07_addLinks_chain (c : List Nat) (links : List Link) (hne : c ≠ []) (hnd : c.Nodup)
    (hr : ∀ s ∈ c, s < links.length) :
    ∃ ls, addLinks c links = .ok ls ∧ ls.length = links.length ∧ Chain ls c ∧
      (∀ j, j ∉ c → ls[j]? = links[j]?) := by
  induction c generalizing links with
  | nil => exact absurd rfl hne
  | cons a rest ih =>
    cases rest with
    | nil =>
      have ha : a < links.length := hr a (List.mem_cons_self ..)
      refine ⟨links.set a ⟨0, true⟩, by simp [addLinks, ha], by simp, ?_, ?_⟩
      · exact ⟨⟨0, true⟩, by simp [ha], rfl⟩
      · intro j hj
        have : a ≠ j := by intro e; exact hj (by simp [e])
        simp [List.getElem?_set, this]
    | cons b rest' =>
      have ha : a < links.length := hr a (List.mem_cons_self ..)
      have hnd' : (b :: rest').Nodup := (List.nodup_cons.mp hnd).2
      have hanot : a ∉ b :: rest' := (List.nodup_cons.mp hnd).1
      obtain ⟨ls, h1, h2, h3, h4⟩ := ih (links.set a ⟨b, false⟩) (by simp) hnd'
        (by intro s hs; simpa using hr s (List.mem_cons_of_mem _ hs))
      refine ⟨ls, by simp [addLinks, ha, h1], by simpa using h2, ?_, ?_⟩
      · refine ⟨⟨⟨b, false⟩, ?_, rfl, rfl⟩, h3⟩
        rw [h4 a hanot]; simp [ha]
      · intro j hj
        have hj' : j ∉ b :: rest' := fun h => hj (List.mem_cons_of_mem _ h)
        have : a ≠ j := by intro e; exact hj (by simp [e])
        rw [h4 j hj']; simp [List.getElem?_set, this]

/-- AKAI SAT decoding terminates on every word table: the inner walk is defined by well-founded
recursion (`Smpl.Alloc.akaiWalk`, measure `(2·#clean − [current clean], size − current)`), which Lean's
termination checker accepted; the outer loop is a fold over `range size`. This theorem records the
fact in statement form: the decoder is a total function, so some result always exists. -/
theorem C07_akai_total (words : List Nat) : ∃ r, akaiDecode words = r := ⟨_, rfl⟩

/-- Roland FAT decoding terminates on every word table (structural recursion on the loop guard). -/
theorem C07_roland_total (words : List Nat) : ∃ r, rolandDecode words = r := ⟨_, rfl⟩

-- non-vacuity: a chain whose head is not its lowest sector
example : Chain [⟨0, true⟩, ⟨0, true⟩, ⟨0, true⟩, ⟨0, true⟩, ⟨0, true⟩, ⟨6, false⟩, ⟨0, true⟩, ⟨5, false⟩]
    [7, 5, 6] := by
  refine ⟨⟨⟨5, false⟩, by decide, rfl, rfl⟩, ⟨⟨6, false⟩, by decide, rfl, rfl⟩, ⟨⟨0, true⟩, by decide, rfl⟩⟩

end Smpl.Props.C07
