/-
C07 (Roland FAT decoding, soundness): every link the decoder installs is the link the FAT word at
that cluster says — so any chain that `get_path` resolves over the decoded table follows the FAT.
-/
import Smpl.Props.C07

namespace Smpl.Props.C07
open Smpl Smpl.Alloc

/-- the link a FAT word denotes. -/
def ofWord (v : Nat) : Link := if v ≥ FAT_END then ⟨0, true⟩ else ⟨v, false⟩

/-- every entry of the link table is untouched (default = end) or what the FAT word says. -/
def Follows (words : Array Nat) (links : List Link) : Prop :=
  ∀ (x : Nat) (l : Link), links[x]? = some l → l = Link.dflt ∨ ∃ v, words[x]? = some v ∧ l = ofWord v

/-- a walked path: each cluster's word is the next cluster (a link value), the last one's word is an end mark. -/
def PathOK (words : Array Nat) : List Nat → Prop
  | [] => True
  | [a] => ∃ v, words[a]? = some v ∧ v ≥ FAT_END
  | a :: b :: rest => (words[a]? = some b ∧ b < FAT_END) ∧ PathOK words (b :: rest)

theorem follows_set (words : Array Nat) (links : List Link) (a : Nat) (l : Link)
    (h : Follows words links) (hl : l = Link.dflt ∨ ∃ v, words[a]? = some v ∧ l = ofWord v) :
    Follows words (links.set a l) := by
  intro x l' hx
  by_cases e : a = x
  · subst e
    rw [List.getElem?_set] at hx
    by_cases hlt : a < links.length
    · simp [hlt] at hx; subst hx; exact hl
    · simp [hlt] at hx
  · rw [List.getElem?_set_ne e] at hx
    exact h x l' hx

theorem addLinks_follows (words : Array Nat) :
    ∀ (p : List Nat) (links ls : List Link), Follows words links → PathOK words p →
      addLinks p links = .ok ls → Follows words ls := by
  intro p
  induction p with
  | nil => intro links ls h _ he; simp [addLinks] at he; subst he; exact h
  | cons a rest ih =>
    intro links ls h hp he
    cases rest with
    | nil =>
      simp only [addLinks] at he
      split at he
      · simp at he; subst he
        exact follows_set words links a _ h (Or.inl rfl)
      · simp at he
    | cons b rest' =>
      simp only [addLinks] at he
      split at he
      · obtain ⟨⟨hw, hb⟩, hrest⟩ := hp
        apply ih (links.set a ⟨b, false⟩) ls _ hrest he
        apply follows_set words links a _ h
        right
        refine ⟨b, hw, ?_⟩
        unfold ofWord
        have : ¬ b ≥ FAT_END := by omega
        simp [this]
      · simp at he

/-- the reverse accumulator of the walk: consecutive visited clusters are linked by their FAT words. -/
def RevOK (words : Array Nat) : List Nat → Nat → Prop
  | [], _ => True
  | a :: rest, sub => (words[a]? = some sub ∧ sub < FAT_END) ∧ RevOK words rest a

/-- turning the accumulator around gives a walked path ending in `tail`. -/
theorem pathOK_of_rev (words : Array Nat) :
    ∀ (lst : List Nat) (sub : Nat) (tail : List Nat), RevOK words lst sub → PathOK words (sub :: tail) →
      PathOK words (lst.reverse ++ sub :: tail) := by
  intro lst
  induction lst with
  | nil => intro sub tail _ h; simpa using h
  | cons a rest ih =>
    intro sub tail hr hp
    obtain ⟨hw, hrest⟩ := hr
    have := ih a (sub :: tail) hrest ⟨hw, hp⟩
    simpa [List.reverse_cons, List.append_assoc] using this

theorem rolandWalk_follows (words : Array Nat) :
    ∀ (fuel : Nat) (st : RolSt) (lst : List Nat) (sub : Nat) (st' : RolSt),
      Follows words st.links → RevOK words lst sub →
      rolandWalk words fuel st lst sub = .ok st' → Follows words st'.links := by
  intro fuel
  induction fuel with
  | zero =>
    intro st lst sub st' h hr he
    unfold rolandWalk at he
    split at he
    · simp at he; subst he; exact h
    · rename_i v hv
      simp only at he
      split at he
      · simp at he
      · split at he
        · split at he
          · simp at he; subst he; exact h
          · simp at he
        · simp at he
  | succ f ih =>
    intro st lst sub st' h hr he
    unfold rolandWalk at he
    split at he
    · simp at he; subst he; exact h
    · rename_i v hv
      simp only at he
      split at he
      · simp at he
      · split at he
        · split at he
          · simp at he; subst he; exact h
          · simp at he
        · split at he
          · rename_i hend
            split at he
            · rename_i ls hadd
              simp at he; subst he
              simp only
              apply addLinks_follows words _ _ ls h _ hadd
              have hp : PathOK words [sub] := ⟨v, hv, hend⟩
              have := pathOK_of_rev words lst sub [] hr hp
              simpa [List.reverse_cons] using this
            · simp at he
          · rename_i hend
            exact ih { links := st.links, dirty := st.dirty.setIfInBounds sub true } (sub :: lst) v st' h ⟨⟨hv, by omega⟩, hr⟩ he

/-- **Roland FAT decoding is sound**: every entry of the decoded link table is either untouched
(default: an end mark) or exactly what the FAT word of that cluster says — whatever the table
contains, as long as the decoder does not reject it. -/
theorem C07_roland_sound (words : List Nat) (links : List Link) (h : rolandDecode words = .ok links) :
    Follows words.toArray links := by
  unfold rolandDecode at h
  simp only at h
  -- generic: a monadic fold whose steps preserve the invariant
  have fold : ∀ (is : List Nat) (st st' : RolSt), Follows words.toArray st.links →
      is.foldlM (fun st i => if st.dirty[i]?.getD true then pure st else rolandWalk words.toArray words.length st [] i) st = .ok st' →
      Follows words.toArray st'.links := by
    intro is
    induction is with
    | nil => intro st st' hf he; simp [List.foldlM] at he; cases he; exact hf
    | cons i rest ih =>
      intro st st' hf he
      simp only [List.foldlM] at he
      cases hstep : (if st.dirty[i]?.getD true then (pure st : Except Err RolSt) else rolandWalk words.toArray words.length st [] i) with
      | error e => rw [hstep] at he; simp [bind, Except.bind] at he
      | ok st1 =>
        rw [hstep] at he
        simp only [bind, Except.bind] at he
        apply ih st1 st' _ he
        split at hstep
        · cases hstep; exact hf
        · exact rolandWalk_follows words.toArray _ st [] i st1 hf trivial hstep
  cases hfold : ((List.range (words.length - 9)).drop 2).foldlM
      (fun st i => if st.dirty[i]?.getD true then pure st else rolandWalk words.toArray words.length st [] i)
      ({ links := List.replicate words.length Link.dflt,
         dirty := (Array.replicate words.length false).setIfInBounds 0 true |>.setIfInBounds 1 true } : RolSt) with
  | error e => rw [hfold] at h; simp [Except.map] at h
  | ok st' =>
    rw [hfold] at h
    simp only [Except.map, Except.ok.injEq] at h
    subst h
    apply fold _ _ st' _ hfold
    intro x l hx
    left
    rw [List.getElem?_replicate] at hx
    split at hx
    · cases hx; rfl
    · cases hx

/-- **The resolved chain follows the FAT.** In any chain `get_path` returns over the decoded table,
each cluster but the last is followed by the cluster its FAT word names. -/
theorem C07_roland_path_follows_fat (words : List Nat) (links : List Link)
    (h : rolandDecode words = .ok links) (size start : Nat) (p : List Nat)
    (hp : getPath links size start = .ok p) :
    ∀ k a b, p[k]? = some a → p[k + 1]? = some b → words[a]? = some b := by
  have hs := C07_roland_sound words links h
  have hc := (C07_getPath_sound links size start p hp).1
  clear hp
  induction p with
  | nil => intro k a b ha; simp at ha
  | cons x rest ih =>
    intro k a b ha hb
    cases rest with
    | nil => simp at hb
    | cons y rest' =>
      obtain ⟨⟨l, hl, he, hn⟩, hrest⟩ := hc
      cases k with
      | zero =>
        simp at ha hb; subst ha hb
        rcases hs x l hl with hd | ⟨v, hv, hlv⟩
        · rw [hd] at he; simp [Link.dflt] at he
        · unfold ofWord at hlv
          split at hlv
          · rw [hlv] at he; simp at he
          · rw [hlv] at hn; simp at hn
            subst hn
            simpa using hv
      | succ k' =>
        simp only [List.getElem?_cons_succ] at ha hb
        exact ih hrest k' a b ha hb

end Smpl.Props.C07
