/-
C14 (Roland part) — damaging one sample's directory record or parameter record affects only that sample.
-/
import Smpl.Model.Roland

namespace Smpl.Props.C14
open Smpl Smpl.Roland

/-- two images that agree on every read that stays clear of the 32-byte directory record and the
48-byte parameter record of sample `i`. -/
def AgreeOutsideSample (img img' : Img) (i : Nat) : Prop :=
  ∀ off n,
    (off + n ≤ dirOff .samp + 32 * i ∨ dirOff .samp + 32 * i + 32 ≤ off) →
    (off + n ≤ parOff .samp + 48 * i ∨ parOff .samp + 48 * i + 48 ≤ off) →
    img'.rd off n = img.rd off n

/-- the arithmetic behind it, over abstract area addresses: records of different indices do not
overlap, and the directory area ends before the parameter area starts. -/
theorem samp_disjoint (D P i j : Nat) (hji : j ≠ i) (hj : j < 8192) (hi : i < 8192)
    (hDP : D + 32 * 8192 ≤ P) :
    ((D + 32 * j) + 32 ≤ D + 32 * i ∨ D + 32 * i + 32 ≤ D + 32 * j) ∧
    ((D + 32 * j) + 32 ≤ P + 48 * i ∨ P + 48 * i + 48 ≤ D + 32 * j) ∧
    ((P + 48 * j) + 48 ≤ D + 32 * i ∨ D + 32 * i + 32 ≤ P + 48 * j) ∧
    ((P + 48 * j) + 48 ≤ P + 48 * i ∨ P + 48 * i + 48 ≤ P + 48 * j) := by
  omega

theorem areas_ordered : dirOff .samp + 32 * 8192 ≤ parOff .samp := by decide

/-- **C14 (Roland).** Whatever bytes replace the directory and parameter records of sample `i`,
every other sample's record parses to exactly what it parsed to before. -/
theorem C14_roland_other_samples (img img' : Img) (i j : Nat) (hi : i < 8192)
    (h : AgreeOutsideSample img img' i) (hji : j ≠ i) :
    sampleRec img' j = sampleRec img j := by
  unfold sampleRec
  by_cases hj : j ≥ maxNum .samp
  · simp [hj]
  · have hj' : j < 8192 := by
      have : maxNum .samp = 8192 := by decide
      omega
    obtain ⟨d1, d2, d3, d4⟩ := samp_disjoint (dirOff .samp) (parOff .samp) i j hji hj' hi areas_ordered
    have hdir : dirRec img' .samp j = dirRec img .samp j := by
      unfold dirRec
      rw [h (dirOff .samp + 32 * j) 32 d1 d2]
    have hpar : img'.rd (parOff .samp + 48 * j) 48 = img.rd (parOff .samp + 48 * j) 48 :=
      h (parOff .samp + 48 * j) 48 d3 d4
    simp only [hj, if_false, hdir, hpar]

end Smpl.Props.C14
