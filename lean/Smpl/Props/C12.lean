/-
C12 — PCM transcoding maps every source channel to the same-numbered output channel.
(theorems are added below as they are proved; see obligations.json)
-/
import Smpl.Model.Transcode

namespace Smpl.Props.C12
open Smpl.Transcode

/-- `resize_buffer` keeps a whole number of frames and drops fewer than one frame. -/
theorem C12_tail (frame : Nat) (hf : 0 < frame) (buf : List Byte) :
    (wholeFrames frame buf).length % frame = 0 ∧
    (wholeFrames frame buf).length ≤ buf.length ∧
    buf.length < (wholeFrames frame buf).length + frame := by
  unfold wholeFrames
  have h1 : buf.length / frame * frame ≤ buf.length := Nat.div_mul_le_self _ _
  have h2 : buf.length % frame < frame := Nat.mod_lt _ hf
  have h3 := Nat.div_add_mod buf.length frame
  rw [Nat.mul_comm] at h3
  simp only [List.length_take, Nat.min_eq_left h1]
  refine ⟨Nat.mul_mod_left _ _, h1, by omega⟩

end Smpl.Props.C12
