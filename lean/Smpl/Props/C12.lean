/-
C12 — PCM transcoding maps every source channel to the same-numbered output channel.
-/
import Smpl.Model.Transcode

namespace Smpl.Props.C12
open Smpl.Transcode

/-- `resize_buffer` keeps a whole number of frames and drops fewer than one frame:
trailing bytes that do not form a whole frame never reach the output. -/
theorem C12_tail (frame : Nat) (hf : 0 < frame) (buf : List Byte) :
    (wholeFrames frame buf).length % frame = 0 ∧
    (wholeFrames frame buf).length ≤ buf.length ∧
    buf.length < (wholeFrames frame buf).length + frame := by
  unfold wholeFrames
  have h1 : buf.length / frame * frame ≤ buf.length := Nat.div_mul_le_self _ _
  have h2 : buf.length % frame < frame := Nat.mod_lt _ hf
  have h3 := Nat.div_add_mod buf.length frame
  rw [Nat.mul_comm] at h3
  simp only [List.length_take, Nat.min_eq_left h1]
  refine ⟨Nat.mul_mod_left _ _, h1, by omega⟩

/-- what the byte-order steps must do to one channel: reverse each sample iff source and
destination byte orders differ (the host byte order must not matter). -/
def destFlags (dest : Enc) (srcs : List Src) : List Bool :=
  srcs.flatMap fun s => List.replicate s.enc.chans (s.enc.big != dest.big)

def applyFlags (chs : List (List Sample)) (flags : List Bool) : List (List Sample) :=
  (chs.zip flags).map fun (ch, f) => if f then ch.map List.reverse else ch

private theorem applyFlags_allTrue (chs : List (List Sample)) (flags : List Bool)
    (hl : chs.length = flags.length) (h : ∀ f ∈ flags, f = true) :
    applyFlags chs flags = chs.map (·.map List.reverse) := by
  induction chs generalizing flags with
  | nil => simp [applyFlags]
  | cons c cs ih =>
    cases flags with
    | nil => simp at hl
    | cons f fs =>
      have hf : f = true := h f (List.mem_cons_self ..)
      have := ih fs (by simpa using hl) (fun x hx => h x (List.mem_cons_of_mem _ hx))
      simp only [applyFlags] at this ⊢
      simp [hf, this]

private theorem applyFlags_allFalse (chs : List (List Sample)) (flags : List Bool)
    (hl : chs.length = flags.length) (h : ∀ f ∈ flags, f = false) :
    applyFlags chs flags = chs := by
  induction chs generalizing flags with
  | nil => simp [applyFlags]
  | cons c cs ih =>
    cases flags with
    | nil => simp at hl
    | cons f fs =>
      have hf : f = false := h f (List.mem_cons_self ..)
      have := ih fs (by simpa using hl) (fun x hx => h x (List.mem_cons_of_mem _ hx))
      simp only [applyFlags] at this ⊢
      simp [hf, this]

private theorem revrev (ch : List Sample) : (ch.map List.reverse).map List.reverse = ch := by
  induction ch with
  | nil => rfl
  | cons x xs ih => simp [ih]

private theorem applyFlags_then_all (chs : List (List Sample)) (flags : List Bool) :
    (applyFlags chs flags).map (·.map List.reverse) = applyFlags chs (flags.map (!·)) := by
  induction chs generalizing flags with
  | nil => simp [applyFlags]
  | cons c cs ih =>
    cases flags with
    | nil => simp [applyFlags]
    | cons f fs =>
      have := ih fs
      simp only [applyFlags] at this ⊢
      cases f
      · simp [this]
      · simp only [List.map_cons, List.zip_cons_cons, if_true, Bool.not_true, Bool.false_eq_true,
          if_false, this]
        congr 1
        exact revrev c

/-- **Byte-order routing (the content of the D8 repair).** Whatever the host byte order, and whichever
of the three process lists `make_transcoder` builds (none / swap all / swap some), channel `c` of
a block has each sample reversed exactly when its *source stream's* byte order differs from the
destination's — one flag per decoded channel, in source-channel order. -/
theorem C12_swaps_host_independent (host : Bool) (dest : Enc) (srcs : List Src)
    (chs : List (List Sample)) (hl : chs.length = (destFlags dest srcs).length) :
    applySwaps host dest srcs chs = applyFlags chs (destFlags dest srcs) := by
  have hlen : chs.length = (swapFlags host srcs).length := by
    rw [hl]; simp [destFlags, swapFlags, List.length_flatMap]
  -- the input step always equals per-channel application of `swapFlags host`
  have hin : (if (srcs.map fun s => s.enc.big != host).any id then
        if (srcs.map fun s => s.enc.big != host).all id then chs.map (·.map List.reverse)
        else (chs.zip (swapFlags host srcs)).map fun (ch, f) => if f then ch.map List.reverse else ch
      else chs) = applyFlags chs (swapFlags host srcs) := by
    by_cases hany : (srcs.map fun s => s.enc.big != host).any id = true
    · by_cases hall : (srcs.map fun s => s.enc.big != host).all id = true
      · simp only [hany, hall, if_true]
        symm
        apply applyFlags_allTrue chs _ hlen
        intro f hf
        simp only [swapFlags, List.mem_flatMap, List.mem_replicate] at hf
        obtain ⟨s, hs, _, rfl⟩ := hf
        simp only [List.all_map, List.all_eq_true, Function.comp] at hall
        exact hall s hs
      · simp only [hany, hall, if_true]; rfl
    · simp only [hany]
      symm
      apply applyFlags_allFalse chs _ hlen
      intro f hf
      simp only [swapFlags, List.mem_flatMap, List.mem_replicate] at hf
      obtain ⟨s, hs, _, rfl⟩ := hf
      simp only [List.any_map, List.any_eq_true, Function.comp, not_exists, not_and] at hany
      have := hany s hs
      simpa using this
  unfold applySwaps
  simp only [hin]
  have hflags : ∀ (q : Bool), (if q then (swapFlags host srcs).map (!·) else swapFlags host srcs)
      = srcs.flatMap fun s => List.replicate s.enc.chans ((s.enc.big != host) != q) := by
    intro q
    cases q
    · simp [swapFlags]
    · simp only [swapFlags, if_true, List.map_flatMap, List.map_replicate]
      congr 1; funext s; congr 1; cases s.enc.big <;> cases host <;> rfl
  have hd : destFlags dest srcs
      = srcs.flatMap fun s => List.replicate s.enc.chans ((s.enc.big != host) != (dest.big != host)) := by
    unfold destFlags
    congr 1; funext s; congr 1
    cases s.enc.big <;> cases dest.big <;> cases host <;> rfl
  by_cases hq : (dest.big != host) = true
  · simp only [hq, if_true]
    rw [applyFlags_then_all, hd, hq, ← hflags true]; simp
  · have hq' : (dest.big != host) = false := by simpa using hq
    simp only [hq', Bool.false_eq_true, if_false]
    rw [hd, hq', ← hflags false]; simp

/-- the number of channel flags is the total number of decoded channels. -/
theorem C12_flag_count (dest : Enc) (srcs : List Src) :
    (destFlags dest srcs).length = (srcs.map (·.enc.chans)).sum := by
  simp [destFlags, List.length_flatMap]

/-- `make_transcoder` rejects an empty stream list and a destination whose channel count is not the
sum of the sources' channel counts: an accepted transcoder has one output channel per source channel. -/
theorem C12_channels (host : Bool) (B : Nat) (dest : Enc) (srcs : List Src) (r)
    (h : transcode host B dest srcs = .ok r) :
    srcs ≠ [] ∧ (srcs.map (·.enc.chans)).foldl (· + ·) 0 = dest.nch := by
  unfold transcode at h
  by_cases h1 : srcs.isEmpty = true
  · simp [h1] at h
  · simp only [h1] at h
    by_cases h2 : ((srcs.map (·.enc.chans)).foldl (· + ·) 0 != dest.nch) = true
    · simp [h2] at h
    · refine ⟨by intro e; simp [e] at h1, by simpa using h2⟩

-- non-vacuity: a mixed-endian pair with an interleaved stream
example : applySwaps false ⟨false, 2, 3, true⟩ [⟨⟨false, 2, 2, true⟩, []⟩, ⟨⟨true, 2, 1, true⟩, []⟩]
    [[[1, 2]], [[3, 4]], [[5, 6]]] = [[[1, 2]], [[3, 4]], [[6, 5]]] := by decide

end Smpl.Props.C12
