/-
C12 (stereo pair): two mono sources of the same width and byte order as the destination, of equal
length, are interleaved frame by frame, whatever the internal block size is.
-/
import Smpl.Props.C12

namespace Smpl.Props.C12
open Smpl.Transcode

/-- frame `f` of a mono stream of `w`-byte samples. -/
def frameOf (w : Nat) (d : List Byte) (f : Nat) : List Byte := (d.drop (f * w)).take w

/-- the interleaved PCM of two mono streams, `F` frames. -/
def interleave2 (w : Nat) (a b : List Byte) (F : Nat) : List Byte :=
  (List.range F).flatMap fun f => frameOf w a f ++ frameOf w b f

theorem flatMap_congr' {α β : Type} (l : List α) (f g : α → List β) (h : ∀ x ∈ l, f x = g x) :
    l.flatMap f = l.flatMap g := by
  induction l with
  | nil => rfl
  | cons a as ih =>
    simp only [List.flatMap_cons]
    rw [h a (by simp), ih (fun x hx => h x (by simp [hx]))]

theorem groups_length (w n : Nat) (l : List Byte) : (groups w n l).length = n := by
  induction n generalizing l with
  | zero => rfl
  | succ n ih => simp [groups, ih]

theorem groups_get (w : Nat) : ∀ (n : Nat) (l : List Byte) (f : Nat), f < n →
    (groups w n l)[f]? = some (frameOf w l f) := by
  intro n
  induction n with
  | zero => intro l f h; omega
  | succ n ih =>
    intro l f h
    cases f with
    | zero => simp [groups, frameOf]
    | succ f =>
      simp only [groups, List.getElem?_cons_succ]
      rw [ih (l.drop w) f (by omega)]
      unfold frameOf
      rw [List.drop_drop]
      have : w + f * w = (f + 1) * w := by rw [Nat.succ_mul]; omega
      rw [this]

theorem samplesOf_exact (w m : Nat) (hw : 0 < w) (buf : List Byte) (hl : buf.length = m * w) :
    samplesOf w buf = groups w m buf := by
  unfold samplesOf
  rw [hl, Nat.mul_div_cancel _ hw]

theorem wholeFrames_exact (w m : Nat) (hw : 0 < w) (buf : List Byte) (hl : buf.length = m * w) :
    wholeFrames w buf = buf := by
  unfold wholeFrames
  rw [hl, Nat.mul_div_cancel _ hw]
  exact List.take_of_length_le (by omega)

def monoEnc (w : Nat) (sg : Bool) : Enc := ⟨false, w, 1, sg⟩

theorem decodeOne_mono (w m : Nat) (sg : Bool) (hw : 0 < w) (hm : 0 < m) (buf : List Byte)
    (hl : buf.length = m * w) : decodeOne (monoEnc w sg) buf = [groups w m buf] := by
  unfold decodeOne monoEnc
  simp only [Enc.frame, Enc.chans, Nat.one_mul]
  rw [wholeFrames_exact w m hw buf hl]
  have hne : buf.isEmpty = false := by
    cases buf with
    | nil => simp at hl; have := Nat.mul_pos hm hw; omega
    | cons _ _ => rfl
  simp [hne, samplesOf_exact w m hw buf hl]

theorem decodeOne_mono_nil (w : Nat) (sg : Bool) : decodeOne (monoEnc w sg) [] = [[]] := by
  unfold decodeOne monoEnc wholeFrames
  simp [Enc.chans]

/-- one block of two channels of `m` samples each is the interleaving of its frames. -/
theorem encodeBlock_pair (w m : Nat) (a b : List Byte) :
    encodeBlock w [groups w m a, groups w m b] = (interleave2 w a b m).map some := by
  unfold encodeBlock interleave2
  simp only [List.map_cons, List.map_nil, groups_length, List.foldl_cons, List.foldl_nil]
  have ht : max (max 0 m) m = m := by omega
  rw [ht, List.map_flatMap]
  apply flatMap_congr'
  intro f hf
  have hf' : f < m := by simpa using hf
  simp [groups_get w m a f hf', groups_get w m b f hf']

theorem frameOf_take (w S : Nat) (d : List Byte) (f : Nat) (h : f * w + w ≤ S) :
    frameOf w (d.take S) f = frameOf w d f := by
  unfold frameOf
  rw [List.drop_take, List.take_take]
  congr 1
  omega

theorem frameOf_drop (w k : Nat) (d : List Byte) (f : Nat) :
    frameOf w (d.drop (k * w)) f = frameOf w d (f + k) := by
  unfold frameOf
  rw [List.drop_drop]
  congr 2
  rw [Nat.add_mul]; omega

theorem interleave2_split (w : Nat) (a b : List Byte) (m r : Nat) :
    interleave2 w a b (m + r) =
      interleave2 w (a.take (m * w)) (b.take (m * w)) m ++ interleave2 w (a.drop (m * w)) (b.drop (m * w)) r := by
  unfold interleave2
  rw [List.range_add, List.flatMap_append]
  congr 1
  · apply flatMap_congr'
    intro f hf
    have hf' : f < m := by simpa using hf
    have hle : f * w + w ≤ m * w := by
      have : (f + 1) * w ≤ m * w := Nat.mul_le_mul_right _ (by omega)
      rw [Nat.add_mul] at this; omega
    rw [frameOf_take w _ a f hle, frameOf_take w _ b f hle]
  · rw [List.flatMap_map]
    apply flatMap_congr'
    intro f _
    rw [frameOf_drop, frameOf_drop, Nat.add_comm]

/-- **C12 (stereo pair).** Two mono sources of `F` frames each, same width and byte order as the
little-endian destination on a little-endian host: the blocks produced, concatenated, are the `F`
interleaved frames — for every block size of at least one frame. -/
theorem pipeLoop_pair (w nf : Nat) (sgA sgB : Bool) (dest : Enc) (hw : 0 < w) (hnf : 0 < nf)
    (hdw : dest.width = w) (hdb : dest.big = false) (da db : List Byte) :
    ∀ (fuel F : Nat) (a b : List Byte), a.length = F * w → b.length = F * w → F < fuel →
      (pipeLoop false dest [⟨monoEnc w sgA, da⟩, ⟨monoEnc w sgB, db⟩] [nf * w, nf * w] fuel [a, b]).flatten
        = (interleave2 w a b F).map some := by
  intro fuel
  induction fuel with
  | zero => intro F a b _ _ h; omega
  | succ fuel ih =>
    intro F a b ha hb hF
    simp only [pipeLoop, List.zip_cons_cons, List.zip_nil_right, List.map_cons, List.map_nil]
    by_cases hF0 : F = 0
    · subst hF0
      have ea : a = [] := by simpa using ha
      have eb : b = [] := by simpa using hb
      subst ea eb
      simp [decodeOne_mono_nil, interleave2]
    · -- a block of m = min nf F frames
      have hFpos : 0 < F := by omega
      rcases Nat.le_total nf F with hle | hle
      · -- full block of nf frames
        obtain ⟨r, rfl⟩ : ∃ r, F = nf + r := ⟨F - nf, by omega⟩
        have hla : (a.take (nf * w)).length = nf * w := by
          simp only [List.length_take, ha]; rw [Nat.add_mul]; omega
        have hlb : (b.take (nf * w)).length = nf * w := by
          simp only [List.length_take, hb]; rw [Nat.add_mul]; omega
        rw [decodeOne_mono w nf sgA hw hnf _ hla, decodeOne_mono w nf sgB hw hnf _ hlb]
        have hne : ([groups w nf (a.take (nf * w)), groups w nf (b.take (nf * w))].any List.isEmpty) = false := by
          have : ∀ l : List Byte, (groups w nf l).isEmpty = false := by
            intro l
            cases hg : groups w nf l with
            | nil => have := groups_length w nf l; rw [hg] at this; simp at this; omega
            | cons _ _ => rfl
          simp [this]
        simp only [List.flatten_cons, List.flatten_nil, List.append_nil, List.singleton_append, hne,
          Bool.false_eq_true, if_false]
        have hsw : applySwaps false dest [⟨monoEnc w sgA, da⟩, ⟨monoEnc w sgB, db⟩]
            [groups w nf (a.take (nf * w)), groups w nf (b.take (nf * w))]
            = [groups w nf (a.take (nf * w)), groups w nf (b.take (nf * w))] := by
          simp [applySwaps, monoEnc, hdb]
        rw [hsw, hdw, encodeBlock_pair]
        have hra : (a.drop (nf * w)).length = r * w := by
          simp only [List.length_drop, ha]; rw [Nat.add_mul]; omega
        have hrb : (b.drop (nf * w)).length = r * w := by
          simp only [List.length_drop, hb]; rw [Nat.add_mul]; omega
        rw [ih r (a.drop (nf * w)) (b.drop (nf * w)) hra hrb (by omega)]
        rw [interleave2_split w a b nf r, List.map_append]
      · -- last, short block of F frames
        have hta : a.take (nf * w) = a := List.take_of_length_le (by
          rw [ha]; exact Nat.mul_le_mul_right _ hle)
        have htb : b.take (nf * w) = b := List.take_of_length_le (by
          rw [hb]; exact Nat.mul_le_mul_right _ hle)
        have hda : a.drop (nf * w) = [] := List.drop_of_length_le (by
          rw [ha]; exact Nat.mul_le_mul_right _ hle)
        have hdb' : b.drop (nf * w) = [] := List.drop_of_length_le (by
          rw [hb]; exact Nat.mul_le_mul_right _ hle)
        rw [hta, htb, hda, hdb']
        rw [decodeOne_mono w F sgA hw hFpos a ha, decodeOne_mono w F sgB hw hFpos b hb]
        have hne : ([groups w F a, groups w F b].any List.isEmpty) = false := by
          have : ∀ l : List Byte, (groups w F l).isEmpty = false := by
            intro l
            cases hg : groups w F l with
            | nil => have := groups_length w F l; rw [hg] at this; simp at this; omega
            | cons _ _ => rfl
          simp [this]
        simp only [List.flatten_cons, List.flatten_nil, List.append_nil, List.singleton_append, hne,
          Bool.false_eq_true, if_false]
        have hsw : applySwaps false dest [⟨monoEnc w sgA, da⟩, ⟨monoEnc w sgB, db⟩] [groups w F a, groups w F b]
            = [groups w F a, groups w F b] := by
          simp [applySwaps, monoEnc, hdb]
        rw [hsw, hdw, encodeBlock_pair]
        have := ih 0 [] [] (by simp) (by simp) (by omega)
        rw [this]
        simp [interleave2]

/-- **C12 (stereo pair, through `make_transcoder`).** A left and a right mono stream of `F` frames
each are written as `F` interleaved little-endian frames: frame `f` of the output is frame `f` of
the left stream followed by frame `f` of the right stream, for every internal buffer size `B`. -/
theorem C12_pair (w B F : Nat) (sgA sgB sgD : Bool) (hw : 0 < w) (a b : List Byte)
    (ha : a.length = F * w) (hb : b.length = F * w) :
    ∃ blocks, transcode false B ⟨false, w, 2, sgD⟩ [⟨monoEnc w sgA, a⟩, ⟨monoEnc w sgB, b⟩] = .ok blocks ∧
      blocks.flatten = (interleave2 w a b F).map some := by
  unfold transcode
  simp only [List.isEmpty_cons, Bool.false_eq_true, if_false, List.map_cons, List.map_nil, monoEnc, Enc.chans,
    List.foldl_cons, List.foldl_nil]
  have hnch : ((0 + max 1 1 + max 1 1) != 2) = false := by decide
  simp only [hnch, Bool.false_eq_true, if_false]
  refine ⟨_, rfl, ?_⟩
  have hnf : 0 < numFrames B [⟨⟨false, w, 1, sgA⟩, a⟩, ⟨⟨false, w, 1, sgB⟩, b⟩] := by
    simp only [numFrames, List.map_cons, List.map_nil, List.foldl_cons, List.foldl_nil]
    omega
  have hfr : (⟨false, w, 1, sgA⟩ : Enc).frame = w ∧ (⟨false, w, 1, sgB⟩ : Enc).frame = w := by
    simp [Enc.frame]
  rw [hfr.1, hfr.2]
  have hFw : F ≤ F * w := Nat.le_mul_of_pos_right F hw
  exact pipeLoop_pair w _ sgA sgB ⟨false, w, 2, sgD⟩ hw hnf rfl rfl a b _ F a b ha hb (by omega)

/-- premises satisfiable: two 2-frame 16-bit streams, block of one frame. -/
example : interleave2 2 [1, 2, 3, 4] [5, 6, 7, 8] 2 = [1, 2, 5, 6, 3, 4, 7, 8] := by decide

end Smpl.Props.C12
