/-
C03 — CDDA tracks tile the bin file exactly at the cue sheet's index positions.
-/
import Smpl.Model.Cdda
import Smpl.Model.Transcode

namespace Smpl.Props.C03
open Smpl Smpl.Cue Smpl.Cdda Smpl.Transcode

/-! ### the pairwise walk -/

/-- every track has at least one INDEX line. -/
def AllIndexed (ts : List Track) : Prop := ∀ t ∈ ts, t.indices ≠ []

def firstFrame (t : Track) : Nat :=
  match t.indices with
  | ix :: _ => msf ix
  | [] => 0

/-- the windows the property describes: track `k` starts at its first index and runs to the next
track's first index; the last one runs to the end of the bin. -/
def specWindows (binLen : Nat) : Track → Nat → List Track → List Window
  | cur, i, [] =>
    [⟨titleOf cur i, BYTES_PER_FRAME * firstFrame cur,
      (binLen : Int) - BYTES_PER_FRAME * firstFrame cur,
      SAMPLES_PER_FRAME * (((binLen : Int) - BYTES_PER_FRAME * firstFrame cur) / BYTES_PER_FRAME)⟩]
  | cur, i, nxt :: rest =>
    ⟨titleOf cur i, BYTES_PER_FRAME * firstFrame cur,
      BYTES_PER_FRAME * ((firstFrame nxt : Int) - firstFrame cur),
      SAMPLES_PER_FRAME * ((firstFrame nxt : Int) - firstFrame cur)⟩ :: specWindows binLen nxt (i + 1) rest

/-- **C03 (windows).** For any number of tracks that all carry an INDEX line, with any index values
and any bin length, the walk produces exactly one window per track: from the track's first index
`(60·m + s)·75 + f` sectors of 2352 bytes up to the next track's first index; the last to the end. -/
theorem C03_walk (binLen : Nat) (cur : Track) (i : Nat) (rest : List Track)
    (hc : cur.indices ≠ []) (hr : AllIndexed rest) :
    walk binLen cur i rest = specWindows binLen cur i rest := by
  induction rest generalizing cur i with
  | nil =>
    cases hci : cur.indices with
    | nil => exact absurd hci hc
    | cons ix ixs => simp [walk, specWindows, firstFrame, hci]
  | cons nxt rest ih =>
    have hn : nxt.indices ≠ [] := hr nxt (List.mem_cons_self ..)
    cases hci : cur.indices with
    | nil => exact absurd hci hc
    | cons ix ixs =>
      cases hni : nxt.indices with
      | nil => exact absurd hni hn
      | cons jx jxs =>
        simp only [walk, specWindows, firstFrame, hci, hni]
        rw [ih nxt (i + 1) hn (fun t ht => hr t (List.mem_cons_of_mem _ ht))]

theorem C03_windows (cue : CueFile) (binLen : Nat) (t : Track) (ts : List Track)
    (haudio : cue.tracks.filter isAudio = t :: ts) (hidx : AllIndexed (t :: ts)) :
    windows cue binLen = specWindows binLen t 0 ts := by
  unfold windows
  rw [haudio]
  exact C03_walk binLen t 0 ts (hidx t (List.mem_cons_self ..))
    (fun x hx => hidx x (List.mem_cons_of_mem _ hx))

/-! ### tiling: no gap, no overlap -/

/-- consecutive windows: each starts where the previous one ends; the last ends at `stop`. -/
def Tiles : List Window → Int → Int → Prop
  | [], start, stop => start = stop
  | w :: ws, start, stop => w.offset = start ∧ Tiles ws (start + w.size) stop

/-- **C03 (tiling).** The windows tile the bin from the first track's first index to the end of the
file: no gap and no overlap, whatever the number of tracks. -/
theorem C03_tiling (binLen : Nat) (cur : Track) (i : Nat) (rest : List Track) :
    Tiles (specWindows binLen cur i rest) (BYTES_PER_FRAME * firstFrame cur) binLen := by
  induction rest generalizing cur i with
  | nil => simp [specWindows, Tiles]; omega
  | cons nxt rest ih =>
    simp only [specWindows, Tiles, true_and]
    have := ih nxt (i + 1)
    have e : (BYTES_PER_FRAME : Int) * firstFrame cur + BYTES_PER_FRAME * ((firstFrame nxt : Int) - firstFrame cur)
        = BYTES_PER_FRAME * firstFrame nxt := by
      rw [Int.mul_sub]; omega
    rw [e]; exact this

/-- with strictly increasing first indices every window before the last is a positive whole number
of 2352-byte sectors (hence of 4-byte frames). -/
theorem C03_sizes (binLen : Nat) (cur : Track) (i : Nat) (nxt : Track) (rest : List Track)
    (h : firstFrame cur < firstFrame nxt) :
    ∃ w ws, specWindows binLen cur i (nxt :: rest) = w :: ws ∧ 0 < w.size ∧ w.size % 4 = 0 := by
  refine ⟨_, _, rfl, ?_, ?_⟩
  · simp only [BYTES_PER_FRAME]; omega
  · simp only [BYTES_PER_FRAME]; omega

/-! ### the PCM of one track: whole 4-byte frames of its window, any internal block size -/

theorem wholeFrames_nil (frame : Nat) : wholeFrames frame [] = [] := by simp [wholeFrames]

/-- passthrough transcoding yields exactly the whole frames of the data, for every block size that
is a positive multiple of the frame size. -/
theorem passLoop_flatten (frame nf : Nat) (hf : 0 < frame) (hnf : 0 < nf) (fuel : Nat)
    (data : List Byte) (hfuel : data.length < fuel) :
    (passLoop frame (nf * frame) fuel data).flatten = (wholeFrames frame data).map some := by
  induction fuel generalizing data with
  | zero => omega
  | succ fuel ih =>
    simp only [passLoop]
    have hsz : 0 < nf * frame := Nat.mul_pos hnf hf
    by_cases hlen : nf * frame ≤ data.length
    · -- a full block
      have htake : (data.take (nf * frame)).length = nf * frame := by simp [Nat.min_eq_left hlen]
      have hwf : wholeFrames frame (data.take (nf * frame)) = data.take (nf * frame) := by
        unfold wholeFrames
        rw [htake, Nat.mul_div_cancel _ hf]
        exact List.take_of_length_le (by omega)
      have hne : (data.take (nf * frame)).isEmpty = false := by
        cases hd : data.take (nf * frame) with
        | nil => rw [hd] at htake; simp at htake; omega
        | cons _ _ => rfl
      rw [hwf, hne]
      simp only [Bool.false_eq_true, if_false, List.flatten_cons]
      rw [ih (data.drop (nf * frame)) (by simp; omega)]
      -- wholeFrames data = first block ++ wholeFrames (rest)
      have hsplit : wholeFrames frame data
          = data.take (nf * frame) ++ wholeFrames frame (data.drop (nf * frame)) := by
        unfold wholeFrames
        have hd : data.length = nf * frame + (data.length - nf * frame) := by omega
        have hq : data.length / frame = nf + (data.length - nf * frame) / frame := by
          conv => lhs; rw [hd]
          rw [Nat.mul_comm nf frame, Nat.mul_add_div hf]
        simp only [List.length_drop]
        rw [hq, Nat.add_mul, List.take_add]
      rw [hsplit, List.map_append]
    · -- the last, partial block (or nothing left)
      have hall : data.take (nf * frame) = data := List.take_of_length_le (by omega)
      have hdrop : data.drop (nf * frame) = [] := List.drop_eq_nil_of_le (by omega)
      rw [hall, hdrop]
      by_cases he : (wholeFrames frame data).isEmpty = true
      · simp only [he, if_true, List.flatten_nil]
        have : wholeFrames frame data = [] := List.isEmpty_iff.mp he
        rw [this]; rfl
      · simp only [he, Bool.false_eq_true, if_false, List.flatten_cons]
        cases fuel with
        | zero => simp [passLoop]
        | succ f => simp [passLoop, wholeFrames_nil]

/-- **C03 (each track).** A CDDA track (one interleaved 16-bit stereo little-endian stream, same
encoding as the destination) is transcoded to exactly the whole 4-byte frames of its window —
the bytes from its first index up to the next track's, only a final partial frame being dropped —
for every internal block size and either host byte order. -/
theorem C03_track_pcm (host : Bool) (B : Nat) (data : List Byte) :
    let enc : Enc := ⟨false, 2, 2, true⟩
    ∃ blocks, transcode host B enc [⟨enc, data⟩] = .ok blocks ∧
      blocks.flatten = (wholeFrames 4 data).map some := by
  intro enc
  have hframe : enc.frame = 4 := rfl
  refine ⟨passLoop 4 (numFrames B [⟨enc, data⟩] * 4) (data.length + 1) data, ?_, ?_⟩
  · simp [transcode, encEq, Enc.interleaved, Enc.chans, enc, Enc.frame]
  · have hnf : 0 < numFrames B [⟨enc, data⟩] := by
      simp only [numFrames, List.map_cons, List.map_nil, List.foldl_nil]
      omega
    exact passLoop_flatten 4 _ (by decide) hnf _ data (by omega)

-- non-vacuity: two indexed audio tracks
example : windows ⟨"a.bin".toList,
    [⟨1, "AUDIO".toList, none, [⟨1, 0, 0, 0⟩], []⟩, ⟨2, "audio".toList, some "B".toList, [⟨0, 0, 2, 0⟩, ⟨1, 0, 2, 33⟩], []⟩]⟩ 400000
    = [⟨"Untitled Track 1".toList, 0, 352800, 88200⟩, ⟨"B".toList, 352800, 47200, 11760⟩] := by decide

end Smpl.Props.C03
