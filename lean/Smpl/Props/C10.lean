/-
C10 — Every item `ls` shows can be addressed by the names shown; other paths say so.
-/
import Smpl.Model.Names

namespace Smpl.Props.C10
open Smpl Smpl.Names

/-- **Totality.** For every path string whatsoever, the lookup either finds a node or produces the
`was not found` message — the model function is total (no partial operation, no exception path). -/
theorem C10_total (akai : Bool) (root : Node) (path : Name) :
    (∃ idx, lookupIdx akai root (tokenize path) (tokenize path) 0 [] = .ok idx) ∨
    (∃ msg, lookupIdx akai root (tokenize path) (tokenize path) 0 [] = .error msg) := by
  cases h : lookupIdx akai root (tokenize path) (tokenize path) 0 [] with
  | ok idx => exact Or.inl ⟨idx, rfl⟩
  | error msg => exact Or.inr ⟨msg, rfl⟩

/-- the empty path (and a path of blanks) addresses the image itself. -/
theorem C10_root (akai : Bool) (root : Node) : lookupIdx akai root (tokenize []) (tokenize []) 0 [] = .ok [] := by
  simp [tokenize, splitPath, splitPath.go, strip, stripL, lookupIdx]

/-- **Single level round trip.** In a directory whose children have pairwise distinct normalised
names, the token equal to a child's printed name finds exactly that child. -/
theorem C10_child (akai : Bool) (name : Name) (kids : List Node) (k : Nat) (c : Node)
    (hk : kids[k]? = some c)
    (hdist : ∀ j d, j < k → kids[j]? = some d → sanitizeToken akai d.name ≠ sanitizeToken akai c.name)
    (rest all : List Name) (i : Nat) (acc : List Nat) :
    lookupIdx akai (.node name true kids) (c.name :: rest) all i acc
      = lookupIdx akai c rest all (i + 1) (k :: acc) := by
  have hklt : k < kids.length := by
    rcases Nat.lt_or_ge k kids.length with h | h
    · exact h
    · rw [List.getElem?_eq_none h] at hk; cases hk
  have hfind : findChild akai kids c.name = some k := by
    unfold findChild
    rw [List.find?_eq_some_iff_getElem]
    refine ⟨by simp [childMatches, hk], k, by simpa using hklt, by simp, ?_⟩
    intro j hj
    simp only [List.getElem_range] at hj ⊢
    unfold childMatches
    cases hd : kids[j]? with
    | none => simp
    | some d =>
      have := hdist j d hj hd
      simp [this]
  simp only [lookupIdx, Node.isDir, Node.children, if_true, hfind, hk]

end Smpl.Props.C10
