/-
C10 — Every item `ls` shows can be addressed by the names shown; other paths say so.
-/
import Smpl.Model.Names

namespace Smpl.Props.C10
open Smpl Smpl.Names

/-- **Totality.** For every path string whatsoever, the lookup either finds a node or produces the
`was not found` message — the model function is total (no partial operation, no exception path). -/
theorem C10_total (akai : Bool) (root : Node) (path : Name) :
    (∃ idx, lookupIdx akai root (tokenize path) (tokenize path) 0 [] = .ok idx) ∨
    (∃ msg, lookupIdx akai root (tokenize path) (tokenize path) 0 [] = .error msg) := by
  cases h : lookupIdx akai root (tokenize path) (tokenize path) 0 [] with
  | ok idx => exact Or.inl ⟨idx, rfl⟩
  | error msg => exact Or.inr ⟨msg, rfl⟩

/-- the empty path (and a path of blanks) addresses the image itself. -/
theorem C10_root (akai : Bool) (root : Node) : lookupIdx akai root (tokenize []) (tokenize []) 0 [] = .ok [] := by
  simp [tokenize, splitPath, splitPath.go, strip, stripL, lookupIdx]

/-- **Single level round trip.** In a directory whose children have pairwise distinct normalised
names, the token equal to a child's printed name finds exactly that child. -/
theorem C10_child (akai : Bool) (name : Name) (kids : List Node) (k : Nat) (c : Node)
    (hk : kids[k]? = some c)
    (hdist : ∀ j d, j < k → kids[j]? = some d → sanitizeToken akai d.name ≠ sanitizeToken akai c.name)
    (rest all : List Name) (i : Nat) (acc : List Nat) :
    lookupIdx akai (.node name true kids) (c.name :: rest) all i acc
      = lookupIdx akai c rest all (i + 1) (k :: acc) := by
  have hklt : k < kids.length := by
    rcases Nat.lt_or_ge k kids.length with h | h
    · exact h
    · rw [List.getElem?_eq_none h] at hk; cases hk
  have hfind : findChild akai kids c.name = some k := by
    unfold findChild
    rw [List.find?_eq_some_iff_getElem]
    refine ⟨by simp [childMatches, hk], k, by simpa using hklt, by simp, ?_⟩
    intro j hj
    simp only [List.getElem_range] at hj ⊢
    unfold childMatches
    cases hd : kids[j]? with
    | none => simp
    | some d =>
      have := hdist j d hj hd
      simp [this]
  simp only [lookupIdx, Node.isDir, Node.children, if_true, hfind, hk]

/-! ## any depth -/

/-- the printed names of the nodes along an index path (every node that is entered is a directory). -/
def walk : Node → List Nat → Option (List Name)
  | _, [] => some []
  | n, k :: ks =>
    if n.isDir then
      match n.children[k]? with
      | some c => (walk c ks).map (c.name :: ·)
      | none => none
    else none

/-- along the path, no earlier sibling has the same normalised name as the node taken. -/
def DistinctAlong (akai : Bool) : Node → List Nat → Prop
  | _, [] => True
  | n, k :: ks =>
    match n.children[k]? with
    | some c =>
      (∀ j d, j < k → n.children[j]? = some d → sanitizeToken akai d.name ≠ sanitizeToken akai c.name) ∧
      DistinctAlong akai c ks
    | none => True

/-- **Round trip at any depth.** Take any node of the tree, at index path `idx`, and the names `ls`
shows for the nodes on the way to it. If at every level no earlier sibling has the same normalised
name (which the sibling de-duplication provides), the path made of those names addresses exactly
that node. -/
theorem C10_roundtrip (akai : Bool) :
    ∀ (idx : List Nat) (n : Node) (names all : List Name) (i : Nat) (acc : List Nat),
      walk n idx = some names → DistinctAlong akai n idx →
      lookupIdx akai n names all i acc = .ok (acc.reverse ++ idx) := by
  intro idx
  induction idx with
  | nil =>
    intro n names all i acc hw _
    simp only [walk, Option.some.injEq] at hw
    subst hw
    simp [lookupIdx]
  | cons k ks ih =>
    intro n names all i acc hw hd
    obtain ⟨nm, dir, kids⟩ := n
    simp only [walk, Node.isDir, Node.children] at hw
    by_cases hdir : dir = true
    · subst hdir
      simp only [if_true] at hw
      cases hk : kids[k]? with
      | none => simp [hk] at hw
      | some c =>
        simp only [hk] at hw
        cases hwc : walk c ks with
        | none => simp [hwc] at hw
        | some rest =>
          simp only [hwc, Option.map_some, Option.some.injEq] at hw
          subst hw
          simp only [DistinctAlong, Node.children, hk] at hd
          rw [C10_child akai nm kids k c hk hd.1 rest all i acc]
          rw [ih c rest all (i + 1) (k :: acc) hwc hd.2]
          simp
    · simp [hdir] at hw

/-- premises satisfiable: a two-level tree with a duplicate-looking sibling before the target. -/
example :
    (match lookupIdx false (.node "img".toList true [.node "A".toList true [.node "x".toList false [], .node "y".toList false []]])
      ["A".toList, "y".toList] ["A".toList, "y".toList] 0 [] with
     | .ok idx => idx == [0, 1]
     | .error _ => false) = true := by decide

end Smpl.Props.C10
