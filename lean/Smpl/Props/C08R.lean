/-
C08 (sample-reversed view): over any substream that behaves like a file, `StreamReversed` answers
row-aligned reads with the bytes of the row-reversed content and rejects reads that are not aligned.
-/
import Smpl.Lemmas.Reversed

namespace Smpl.Props.C08
open Smpl Smpl.Stream

/-- aligned reads of the reversed view return the logical (row-reversed) bytes and advance by the
number of bytes returned. -/
theorem C08_reversed_aligned {sub : FileLike} {csub : List Byte} {k : Nat} {fpk : List Nat}
    {ok : Nat → Cell → Prop} (hsub : IsSub sub csub k fpk ok) (i : Nat) (hi : i ∉ fpk)
    (w R : Nat) (hw : 0 < w) (hR : 0 < R) (hc : R * w ≤ csub.length)
    (hok : ∀ cell, ok i cell ↔ (0 ≤ cell.pos ∧ cell.pos ≤ ((R * w : Nat) : Int)))
    (s : Store) (hinv : GInv ok s) (q m : Nat) (hp : (s i).pos = ((q * w : Nat) : Int)) (hqm : q + m ≤ R) :
    ∃ s', (mkRev sub i ((R * w : Nat) : Int) w).read ((m * w : Nat) : Int) s
        = (.ok (((revContent w R csub).drop (q * w)).take (m * w)), s') ∧
      (s' i).pos = (((q + m) * w : Nat) : Int) ∧ GInv ok s' ∧ Frame (i :: fpk) s s' :=
  mkRev_read_aligned hsub i hi w R hw hR hc hok s hinv q m hp hqm

/-- a size that is not a whole number of samples is rejected. -/
theorem C08_reversed_rejects_size (sub : FileLike) (i : Nat) (eof : Int) (w : Nat) (n : Int) (s : Store)
    (hn : ¬ (min (eof - (s i).pos) n < 0)) (hmis : (min (eof - (s i).pos) n) % (w : Int) ≠ 0) :
    ((mkRev sub i eof w).read n s).1 = .error .badReadSize :=
  mkRev_read_rejects sub i eof w n s hn hmis

/-- a position that is not on a sample boundary is rejected. -/
theorem C08_reversed_rejects_position (sub : FileLike) (i : Nat) (eof : Int) (w : Nat) (n : Int) (s : Store)
    (hn : ¬ (min (eof - (s i).pos) n < 0)) (hsz : (min (eof - (s i).pos) n) % (w : Int) = 0)
    (hmis : (eof - ((s i).pos + min (eof - (s i).pos) n)) % (w : Int) ≠ 0) :
    ((mkRev sub i eof w).read n s).1 = .error .badAlign :=
  mkRev_read_rejects_align sub i eof w n s hn hsz hmis

/-- the reversed content of two 2-byte samples. -/
example : revContent 2 2 [1, 2, 3, 4, 9] = [3, 4, 1, 2] := by decide

end Smpl.Props.C08
