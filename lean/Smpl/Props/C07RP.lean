/-
C07 (Roland FAT decoding, completeness without side conditions on the rest of the table):
a chain that is well formed in the raw FAT is installed whole whenever the decoder accepts the
table — also when other FAT words point into it (converging chains, a stray word naming its head).
-/
import Smpl.Props.C07RC

namespace Smpl.Props.C07
open Smpl Smpl.Alloc

/-- `rolandWalk_chain` without the fuel premise: a walk that runs out of fuel is not `.ok`. -/
theorem rolandWalk_chain' (words : Array Nat) :
    ∀ (suf pre : List Nat) (fuel : Nat) (st st' : RolSt), suf ≠ [] → RawChain words suf →
      rolandWalk words fuel st pre.reverse (suf.headD 0) = .ok st' →
      addLinks (pre ++ suf) st.links = .ok st'.links := by
  intro suf
  induction suf with
  | nil => intro pre fuel st st' h; exact absurd rfl h
  | cons a rest ih =>
    intro pre fuel st st' _ hc he
    simp only [List.headD_cons] at he
    cases rest with
    | nil =>
      obtain ⟨v, hv, hend⟩ := hc
      unfold rolandWalk at he
      simp only [hv] at he
      have h1 : (v == FAT_ERROR) = false := by
        simp only [beq_eq_false_iff_ne]; unfold FAT_ERROR; unfold FAT_END at hend; omega
      have h2 : (v == FAT_RESERVED || v == FAT_FREE) = false := by
        simp only [Bool.or_eq_false_iff, beq_eq_false_iff_ne]; unfold FAT_RESERVED FAT_FREE; unfold FAT_END at hend; omega
      simp only [h1, h2, Bool.false_eq_true, if_false] at he
      cases fuel with
      | zero => cases he
      | succ f =>
        simp only [hend, if_true] at he
        split at he
        · rename_i ls hadd
          simp only [Except.ok.injEq] at he
          subst he
          simpa [List.reverse_cons] using hadd
        · cases he
    | cons b rest' =>
      obtain ⟨⟨hv, hl1, hl2, hl3, hl4⟩, hrest⟩ := hc
      unfold rolandWalk at he
      simp only [hv] at he
      have h1 : (b == FAT_ERROR) = false := by simpa using hl3
      have h2 : (b == FAT_RESERVED || b == FAT_FREE) = false := by
        simp only [Bool.or_eq_false_iff, beq_eq_false_iff_ne]; exact ⟨hl2, hl1⟩
      simp only [h1, h2, Bool.false_eq_true, if_false] at he
      cases fuel with
      | zero => cases he
      | succ f =>
        have hnend : ¬ b ≥ FAT_END := by omega
        simp only [hnend, if_false] at he
        have := ih (pre ++ [a]) f { links := st.links, dirty := st.dirty.setIfInBounds a true } st' (by simp) hrest
          (by simpa [List.reverse_append] using he)
        simpa [List.append_assoc] using this

/-- a walk that arrives at the head of a raw chain installs the chain. -/
theorem rolandWalk_at_head (words : Array Nat) (c : List Nat) (hc : RawChain words c)
    (fuel : Nat) (st st' : RolSt) (lst : List Nat) (hr : RevOK words lst (c.headD 0))
    (he : rolandWalk words fuel st lst (c.headD 0) = .ok st') : Installed words c st'.links := by
  have hcne : c ≠ [] := by intro e; rw [e] at hc; exact hc
  have hadd := rolandWalk_chain' words c lst.reverse fuel st st' hcne hc (by simpa using he)
  obtain ⟨a, rest, rfl⟩ := List.exists_cons_of_ne_nil hcne
  have hp : PathOK words (lst.reverse ++ a :: rest) :=
    pathOK_of_rev words lst a rest (by simpa using hr) (rawChain_pathOK words _ hc)
  have hall := addLinks_installs_path words _ st.links st'.links hp hadd
  intro x hx
  exact hall x (by simp only [List.mem_append]; exact Or.inr hx)

/-- a successful walk either leaves the head's visited flag as it was or has installed the chain. -/
theorem rolandWalk_visit (words : Array Nat) (c : List Nat) (hc : RawChain words c) :
    ∀ (fuel : Nat) (st : RolSt) (lst : List Nat) (sub : Nat) (st' : RolSt), RevOK words lst sub →
      rolandWalk words fuel st lst sub = .ok st' → st'.dirty[c.headD 0]? = some true →
      st.dirty[c.headD 0]? = some true ∨ Installed words c st'.links := by
  intro fuel
  induction fuel with
  | zero =>
    intro st lst sub st' hr he hd
    by_cases hs : sub = c.headD 0
    · subst hs; exact Or.inr (rolandWalk_at_head words c hc 0 st st' lst hr he)
    · unfold rolandWalk at he
      split at he
      · simp at he; subst he; exact Or.inl hd
      · simp only at he
        split at he
        · simp at he
        · split at he
          · split at he
            · simp at he; subst he
              simp only at hd
              rw [Array.getElem?_setIfInBounds_ne hs] at hd
              exact Or.inl hd
            · simp at he
          · simp at he
  | succ f ih =>
    intro st lst sub st' hr he hd
    by_cases hs : sub = c.headD 0
    · subst hs; exact Or.inr (rolandWalk_at_head words c hc (f + 1) st st' lst hr he)
    · unfold rolandWalk at he
      split at he
      · simp at he; subst he; exact Or.inl hd
      · rename_i v hv
        simp only at he
        split at he
        · simp at he
        · split at he
          · split at he
            · simp at he; subst he
              simp only at hd
              rw [Array.getElem?_setIfInBounds_ne hs] at hd
              exact Or.inl hd
            · simp at he
          · split at he
            · split at he
              · simp at he; subst he
                simp only at hd
                rw [Array.getElem?_setIfInBounds_ne hs] at hd
                exact Or.inl hd
              · simp at he
            · rename_i hend
              rcases ih { links := st.links, dirty := st.dirty.setIfInBounds sub true } (sub :: lst) v st'
                  ⟨⟨hv, by omega⟩, hr⟩ he hd with h | h
              · simp only at h
                rw [Array.getElem?_setIfInBounds_ne hs] at h
                exact Or.inl h
              · exact Or.inr h

/-- invariant of the outer loop at index `i`: the chain is installed as soon as its head has been
visited, and once the loop is past the head. -/
structure LoopInv' (wa : Array Nat) (c : List Nat) (i : Nat) (st : RolSt) : Prop where
  size : st.dirty.size = wa.size
  vis  : st.dirty[c.headD 0]? = some true → Installed wa c st.links
  past : c.headD 0 < i → Installed wa c st.links

theorem loop_step' (wa : Array Nat) (n : Nat) (c : List Nat) (hc : RawChain wa c)
    (hc0lt : c.headD 0 < wa.size)
    (i : Nat) (st st' : RolSt) (hinv : LoopInv' wa c i st) (he : rolStep wa n st i = .ok st') :
    LoopInv' wa c (i + 1) st' := by
  unfold rolStep at he
  by_cases hd : st.dirty[i]?.getD true = true
  · simp only [hd, if_true, pure, Except.pure, Except.ok.injEq] at he
    subst he
    refine ⟨hinv.size, hinv.vis, ?_⟩
    intro hlt
    by_cases hi : i = c.headD 0
    · apply hinv.vis
      rw [← hi]
      have hlt' : i < st.dirty.size := by rw [hinv.size, hi]; exact hc0lt
      rw [Array.getElem?_eq_getElem hlt'] at hd ⊢
      simpa using hd
    · exact hinv.past (by omega)
  · simp only [hd, Bool.false_eq_true, if_false] at he
    refine ⟨by rw [rolandWalk_size wa n st [] i st' he]; exact hinv.size, ?_, ?_⟩
    · intro hvis
      rcases rolandWalk_visit wa c hc n st [] i st' trivial he hvis with h | h
      · exact rolandWalk_installed wa c n st [] i st' (hinv.vis h) trivial he
      · exact h
    · intro hlt
      by_cases hi : i = c.headD 0
      · subst hi
        exact rolandWalk_at_head wa c hc n st st' [] trivial he
      · exact rolandWalk_installed wa c n st [] i st' (hinv.past (by omega)) trivial he

theorem loop_fold' (wa : Array Nat) (n : Nat) (c : List Nat) (hc : RawChain wa c)
    (hc0lt : c.headD 0 < wa.size) :
    ∀ (len a : Nat) (st st' : RolSt), LoopInv' wa c a st →
      (List.range' a len).foldlM (rolStep wa n) st = .ok st' → LoopInv' wa c (a + len) st' := by
  intro len
  induction len with
  | zero => intro a st st' h he; simp at he; cases he; simpa using h
  | succ len ih =>
    intro a st st' h he
    rw [List.range'_succ] at he
    simp only [List.foldlM] at he
    cases hs : rolStep wa n st a with
    | error e => rw [hs] at he; simp [bind, Except.bind] at he
    | ok st1 =>
      rw [hs] at he
      simp only [bind, Except.bind] at he
      have h1 := loop_step' wa n c hc hc0lt a st st1 h hs
      have := ih (a + 1) st1 st' h1 he
      have e : a + 1 + len = a + (len + 1) := by omega
      rw [e] at this; exact this

/-- **Roland FAT decoding is complete for well-formed chains, whatever the rest of the table holds.**
If the raw FAT holds a chain `c` (each cluster's word names the next, the last one's word is an end
mark) that starts at an allocatable cluster, and the decoder accepts the table, then the decoded link
table contains `c` as a chain and `get_path` from its head resolves exactly `c`, in order — also when
other words of the table point at the head or into the chain. -/
theorem C07_roland_complete (words : List Nat) (links : List Link) (h : rolandDecode words = .ok links)
    (c : List Nat) (hc : RawChain words.toArray c) (hc0 : 2 ≤ c.headD 0)
    (hc0hi : c.headD 0 < words.length - 9) :
    Chain links c ∧ getPath links words.length (c.headD 0) = .ok c := by
  have hlen : c.length ≤ words.length := by simpa using rawChain_length words.toArray c hc
  have hchain : Chain links c := by
    unfold rolandDecode at h
    simp only at h
    have hfun : (fun st i => if st.dirty[i]?.getD true = true then pure st else rolandWalk words.toArray words.length st [] i)
        = rolStep words.toArray words.length := by
      funext st i; rfl
    rw [hfun] at h
    have hr : (List.range (words.length - 9)).drop 2 = List.range' 2 (words.length - 9 - 2) := by
      rw [List.range_eq_range', List.drop_range']
    rw [hr] at h
    cases hfold : (List.range' 2 (words.length - 9 - 2)).foldlM (rolStep words.toArray words.length)
        ({ links := List.replicate words.length Link.dflt,
           dirty := (Array.replicate words.length false).setIfInBounds 0 true |>.setIfInBounds 1 true } : RolSt) with
    | error e => rw [hfold] at h; simp [Except.map] at h
    | ok st' =>
      rw [hfold] at h
      simp only [Except.map, Except.ok.injEq] at h
      subst h
      have hinv0 : LoopInv' words.toArray c 2
          ({ links := List.replicate words.length Link.dflt,
             dirty := (Array.replicate words.length false).setIfInBounds 0 true |>.setIfInBounds 1 true } : RolSt) := by
        refine ⟨by simp, ?_, by intro hlt; omega⟩
        intro hx
        exfalso
        rw [Array.getElem?_setIfInBounds_ne (by omega), Array.getElem?_setIfInBounds_ne (by omega)] at hx
        rw [Array.getElem?_replicate] at hx
        split at hx <;> simp at hx
      have hfin := loop_fold' words.toArray words.length c hc
        (by have := hc0hi; simp only [List.size_toArray]; omega) (words.length - 9 - 2) 2 _ st' hinv0 hfold
      exact chain_of_installed words.toArray st'.links c hc (hfin.past (by
        have := hc0hi
        simp only [List.headD_eq_head?_getD] at *
        omega))
  exact ⟨hchain, C07_getPath_wf links words.length c hchain hlen⟩

/-- non-vacuity: two chains converging on cluster 4 (3 → 4 → end, 2 → 4): the table is accepted and the
chain headed by 4 — which two words point to — is resolved. -/
example : let words := [0, 0, 4, 4, 0xFFF8] ++ List.replicate 12 0
    (match rolandDecode words with | .ok _ => true | .error _ => false) = true ∧ RawChain words.toArray [4]
      ∧ words.toArray[2]? = some 4 ∧ words.toArray[3]? = some 4 := by
  refine ⟨by decide, ⟨0xFFF8, by decide, by decide⟩, by decide, by decide⟩

end Smpl.Props.C07
