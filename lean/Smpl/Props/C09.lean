/-
C09 — Listing and export do not depend on the container the image is wrapped in.
-/
import Smpl.Model.Container
import Smpl.Model.AkaiTool
import Smpl.Lemmas.StreamSector

namespace Smpl.Props.C09
open Smpl Smpl.Container

/-! ### independent wrappers (specification side) -/

/-- one MODE1/2352 raw sector around a 2048-byte block. -/
def wrapSector (id : Nat) (block : Bytes) : Bytes :=
  MDF_SYNC ++ [id / 65536 % 256, id / 256 % 256, id % 256] ++ [0x01] ++ block ++ List.replicate MDF_FOOTER 0

/-- an image given as 2048-byte blocks, delivered as raw sectors. -/
def wrap2352 : Nat → List Bytes → Bytes
  | _, [] => []
  | id, b :: bs => wrapSector id b ++ wrap2352 (id + 1) bs

def le64 (n : Nat) : Bytes := (List.range 8).map fun i => n / 256 ^ i % 256

/-- the 64-byte MDX header: magic, version, copyright (first byte 0xA9), padding, `eof`, padding. -/
def mdxHeader (eof : Nat) : Bytes :=
  (MDX_MAGIC ++ [0x02, 0x01] ++ (0xA9 :: List.replicate 25 0x20) ++ List.replicate 4 0xFF) ++
    (le64 eof ++ List.replicate 8 0)

/-- an image inside an Alcohol MDX wrapper: 64-byte header with `eof = 64 + len`. -/
def wrapMdx (img : Bytes) : Bytes := mdxHeader (MDX_HEADER + img.length) ++ img

/-! ### the views return the image -/

set_option maxRecDepth 10000 in
theorem wrapSector_length (id : Nat) (b : Bytes) (hb : b.length = MDF_BODY) :
    (wrapSector id b).length = MDF_SECTOR := by
  simp only [wrapSector, MDF_SYNC, List.length_append, List.length_cons, List.length_nil,
    List.length_replicate, hb]
  decide

theorem wrap2352_length (id : Nat) (bs : List Bytes) (h : ∀ b ∈ bs, b.length = MDF_BODY) :
    (wrap2352 id bs).length = bs.length * MDF_SECTOR := by
  induction bs generalizing id with
  | nil => rfl
  | cons b bs ih =>
    simp only [wrap2352, List.length_append, List.length_cons]
    rw [wrapSector_length id b (h b (List.mem_cons_self ..)), ih (id + 1) (fun x hx => h x (List.mem_cons_of_mem _ hx))]
    rw [Nat.succ_mul]; omega

set_option maxRecDepth 10000 in
/-- the view over `s ++ rest` (one whole sector first) is that sector's user data followed by the
view over the rest. -/
theorem mdfView_cons (s rest : Bytes) (hs : s.length = MDF_SECTOR) :
    mdfView (s ++ rest) = (s.drop MDF_HEADER).take MDF_BODY ++ mdfView rest := by
  unfold mdfView
  have hlen : (s ++ rest).length / MDF_SECTOR = rest.length / MDF_SECTOR + 1 := by
    simp only [List.length_append, hs]
    rw [Nat.add_comm, Nat.add_div_right _ (by decide : 0 < MDF_SECTOR)]
  rw [hlen, List.range_succ_eq_map, List.flatMap_cons, List.flatMap_map]
  congr 1
  · simp only [Nat.zero_mul, Nat.zero_add]
    rw [List.drop_append_of_le_length (by rw [hs]; decide)]
    rw [List.take_append_of_le_length (by simp only [List.length_drop, hs]; decide)]
  · congr 1
    funext i
    have : (i + 1) * MDF_SECTOR + MDF_HEADER = s.length + (i * MDF_SECTOR + MDF_HEADER) := by
      rw [hs, Nat.succ_mul]; omega
    rw [this, ← List.drop_drop, List.drop_append_of_le_length (Nat.le_refl _)]
    simp

/-- **C09 (raw sectors).** The 2048-byte user-data view of an image delivered as MODE1/2352 raw
sectors is the image, for any number of sectors and any sector ids. -/
theorem C09_mdf_view (id : Nat) (bs : List Bytes) (h : ∀ b ∈ bs, b.length = MDF_BODY) :
    mdfView (wrap2352 id bs) = bs.flatten := by
  induction bs generalizing id with
  | nil => simp [wrap2352, mdfView]
  | cons b bs ih =>
    have hb := h b (List.mem_cons_self ..)
    simp only [wrap2352, List.flatten_cons]
    rw [mdfView_cons _ _ (wrapSector_length id b hb), ih (id + 1) (fun x hx => h x (List.mem_cons_of_mem _ hx))]
    congr 1
    simp only [wrapSector, MDF_SYNC, MDF_HEADER]
    simp [hb]

private theorem leVal_le64 (n : Nat) (h : n < 256 ^ 8) : leVal (le64 n) = n := by
  simp only [le64, List.range, List.range.loop, List.map, leVal]
  omega

theorem mdxHeader_length (n : Nat) : (mdxHeader n).length = MDX_HEADER := by
  simp [mdxHeader, MDX_MAGIC, le64, MDX_HEADER]

theorem mdxHeader_eof (n : Nat) (h : n < 256 ^ 8) (rest : Bytes) : mdxEof (mdxHeader n ++ rest) = n := by
  unfold mdxEof mdxHeader
  have h48 : (MDX_MAGIC ++ [0x02, 0x01] ++ (0xA9 :: List.replicate 25 0x20) ++ List.replicate 4 0xFF : Bytes).length = 48 := by
    simp [MDX_MAGIC]
  have : ∀ (p q : Bytes), p.length = 48 → ((p ++ q).drop 48) = q := by
    intro p q hp; rw [← hp, List.drop_left]
  rw [List.append_assoc _ (le64 n ++ List.replicate 8 0) rest, this _ _ h48, List.append_assoc]
  have hl : (le64 n).length = 8 := by simp [le64]
  rw [List.take_append_of_le_length (by omega)]
  rw [List.take_of_length_le (by omega)]
  exact leVal_le64 n h

/-- **C09 (MDX).** The MDX view of a wrapped image is the image. -/
theorem C09_mdx_view (img : Bytes) (h : MDX_HEADER + img.length < 256 ^ 8) :
    mdxView (wrapMdx img) = img := by
  unfold mdxView wrapMdx
  rw [mdxHeader_eof _ h]
  have : ∀ (p q : Bytes) (k : Nat), p.length = k → ((p ++ q).drop k) = q := by
    intro p q k hp; rw [← hp, List.drop_left]
  rw [this _ _ _ (mdxHeader_length _)]
  simp

/-! ### detection -/

/-- a raw-sector delivery is recognised as such; an MDX delivery is recognised as MDX and not as raw
sectors; an image whose third byte is 0 (every AKAI partition header: `size:u16, 00 00, …`) is
neither — a raw image is never mistaken for a container. -/
theorem C09_detect_mdf (id : Nat) (b : Bytes) (bs : List Bytes) :
    detectWrap (wrap2352 id (b :: bs)) = .mdf := by
  simp [detectWrap, isMdf, wrap2352, wrapSector, MDF_SYNC]

theorem C09_detect_mdx (img : Bytes) : detectWrap (wrapMdx img) = .mdx := by
  have hl : 64 ≤ (wrapMdx img).length := by
    simp only [wrapMdx, List.length_append, mdxHeader_length]; simp [MDX_HEADER]
  simp only [detectWrap, isMdf, isMdx, hl, decide_true, Bool.and_true]
  simp [wrapMdx, mdxHeader, MDX_MAGIC, MDF_SYNC]

theorem C09_detect_raw (f : Bytes) (h : f[2]? = some 0) : detectWrap f = .raw := by
  have h1 : isMdf f = false := by
    unfold isMdf
    have : (f.take 12 == MDF_SYNC) = false := by
      match f, h with
      | a :: b :: c :: rest, h =>
        simp only [List.getElem?_cons_succ, List.getElem?_cons_zero, Option.some.injEq] at h
        subst h
        simp [MDF_SYNC]
    simp [this]
  have h2 : isMdx f = false := by
    unfold isMdx
    have : (f.take 16 == MDX_MAGIC) = false := by
      match f, h with
      | a :: b :: c :: rest, h =>
        simp only [List.getElem?_cons_succ, List.getElem?_cons_zero, Option.some.injEq] at h
        subst h
        simp [MDX_MAGIC]
    simp [this]
  simp [detectWrap, h1, h2]

/-- **C09 (invariance).** Whatever is computed from the view — the kind of image, every `ls` answer,
every exported file — is the same for the raw image and for both wrapped deliveries, because the
view *is* the raw image. (The parsers only use `tell/seek/read` on the view: C08.) -/
theorem C09_invariant {α : Type} (g : Bytes → α) (id : Nat) (b : Bytes) (bs : List Bytes)
    (h : ∀ x ∈ b :: bs, x.length = MDF_BODY) (hm : MDX_HEADER + (b :: bs).flatten.length < 256 ^ 8) :
    g (view (wrap2352 id (b :: bs))) = g (b :: bs).flatten ∧
    g (view (wrapMdx (b :: bs).flatten)) = g (b :: bs).flatten := by
  constructor
  · simp only [view, C09_detect_mdf]; rw [C09_mdf_view id (b :: bs) h]
  · simp only [view, C09_detect_mdx]; rw [C09_mdx_view _ hm]

end Smpl.Props.C09
