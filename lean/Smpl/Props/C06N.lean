/-
C06 / C10 (clean names are left alone): a name made of word characters and inner blanks is a fixed
point of both sanitisers, and a list of pairwise distinct names is a fixed point of the sibling
de-duplication — so an image whose names are clean and distinct is listed and exported under
exactly the stored names.
-/
import Smpl.Props.C06
import Smpl.Lemmas.Dedupe
import Smpl.Model.AkaiTool

namespace Smpl.Props.C06
open Smpl Smpl.Names

/-- word characters and blanks only, a word character at both ends. -/
structure CleanName (n : Name) : Prop where
  chars : ∀ c ∈ n, isWord c = true ∨ c = ' '
  head  : ∃ c rest, n = c :: rest ∧ isWord c = true
  last  : ∃ c, n.getLast? = some c ∧ isWord c = true

theorem word_not_ws (c : Char) (h : isWord c = true) : isWs c = false := by
  unfold isWord at h
  unfold isWs
  simp only [Bool.or_eq_true, Bool.and_eq_true, decide_eq_true_eq, beq_iff_eq] at h
  simp only [Bool.or_eq_false_iff, Bool.and_eq_false_iff, decide_eq_false_iff_not]
  omega

theorem word_not_quote (c : Char) (h : isWord c = true) : isQuote c = false := by
  unfold isQuote
  simp only [Bool.or_eq_false_iff, beq_eq_false_iff_ne, ne_eq]
  refine ⟨⟨?_, ?_⟩, ?_⟩ <;> (intro e; subst e; revert h; decide)

theorem word_safeKeep (c : Char) (h : isWord c = true) : safeKeep c = true := by
  unfold safeKeep; simp [h]

theorem word_exportKeep (c : Char) (h : isWord c = true) : exportKeep c = true := by
  unfold exportKeep; simp [h]

theorem word_ne (c : Char) (h : isWord c = true) : c ≠ ':' ∧ c ≠ '.' ∧ c ≠ '-' ∧ c ≠ ' ' := by
  refine ⟨?_, ?_, ?_, ?_⟩ <;> (intro e; subst e; revert h; decide)

def okChar (c : Char) : Prop := isWord c = true ∨ c = ' '

theorem ok_safeKeep (c : Char) (h : okChar c) : safeKeep c = true := by
  rcases h with h | h
  · exact word_safeKeep c h
  · subst h; decide

theorem ok_exportKeep (c : Char) (h : okChar c) : exportKeep c = true := by
  rcases h with h | h
  · exact word_exportKeep c h
  · subst h; decide

theorem ok_not_colon (c : Char) (h : okChar c) : (c == ':') = false := by
  rcases h with h | h
  · simpa using (word_ne c h).1
  · subst h; decide

theorem ok_not_quote (c : Char) (h : okChar c) : isQuote c = false := by
  rcases h with h | h
  · exact word_not_quote c h
  · subst h; simp [isQuote]

theorem safeReplace_ok : ∀ (n : Name) (prev : Option Char), (∀ c ∈ n, okChar c) → safeReplace prev n = n := by
  intro n
  induction n with
  | nil => intro prev _; unfold safeReplace; rfl
  | cons c cs ih =>
    intro prev h
    have hc := h c (by simp)
    unfold safeReplace
    simp only [ok_safeKeep c hc, Bool.not_true, Bool.false_eq_true, if_false, ok_not_colon c hc, Bool.false_and]
    rw [ih (some c) (fun x hx => h x (by simp [hx]))]

theorem subRuns_ok : ∀ (n : Name), (∀ c ∈ n, okChar c) → subRuns exportKeep n = n := by
  intro n
  induction n with
  | nil => intro _; unfold subRuns; rfl
  | cons c cs ih =>
    intro h
    unfold subRuns
    simp only [ok_exportKeep c (h c (by simp)), if_true]
    rw [ih (fun x hx => h x (by simp [hx]))]

theorem filter_quotes_ok (n : Name) (h : ∀ c ∈ n, okChar c) : n.filter (!isQuote ·) = n := by
  apply List.filter_eq_self.mpr
  intro c hc
  simp [ok_not_quote c (h c hc)]

theorem stripL_word_head (c : Char) (rest : Name) (h : isWord c = true) : stripL (c :: rest) = c :: rest := by
  unfold stripL
  simp [List.dropWhile_cons, word_not_ws c h]

theorem reverse_head_of_getLast (n : Name) (c : Char) (h : n.getLast? = some c) :
    ∃ r, n.reverse = c :: r := by
  cases hr : n.reverse with
  | nil =>
    have : n = [] := by simpa using hr
    subst this; simp at h
  | cons d r =>
    refine ⟨r, ?_⟩
    have : n.getLast? = some d := by
      rw [← List.head?_reverse, hr]; rfl
    rw [h] at this
    cases this; rfl

theorem strip_clean (n : Name) (hn : CleanName n) : strip n = n := by
  obtain ⟨c, rest, rfl, hc⟩ := hn.head
  obtain ⟨d, hd, hdw⟩ := hn.last
  unfold strip
  rw [stripL_word_head c rest hc]
  obtain ⟨r, hr⟩ := reverse_head_of_getLast (c :: rest) d hd
  rw [hr, stripL_word_head d r hdw, ← hr, List.reverse_reverse]

/-- **a clean name is its own display name.** -/
theorem makeSafeName_clean (n : Name) (hn : CleanName n) : makeSafeName n = n := by
  unfold makeSafeName
  rw [filter_quotes_ok n hn.chars, safeReplace_ok n none hn.chars, strip_clean n hn]

/-- **a clean name is its own file / directory name.** -/
theorem makeExportName_clean (n : Name) (hn : CleanName n) (isFile : Bool) : makeExportName n isFile = n := by
  obtain ⟨c, rest, hnc, hc⟩ := hn.head
  obtain ⟨d, hd, hdw⟩ := hn.last
  obtain ⟨r, hr⟩ := reverse_head_of_getLast n d hd
  have hbase : expBase n = n := by
    unfold expBase; rw [subRuns_ok n hn.chars, strip_clean n hn]
  have hne : n.isEmpty = false := by rw [hnc]; rfl
  have hend : expEnding n = n := by
    unfold expEnding safeEnding
    simp only [hne, Bool.false_eq_true, if_false]
    rw [hr]
    simp only [List.dropWhile_cons, word_not_ws d hdw, Bool.false_eq_true, if_false]
    have hdd : dropDot (d :: r) = d :: r := by
      unfold dropDot
      split
      · rename_i rest' heq
        cases heq
        exact absurd rfl (word_ne '.' hdw).2.1
      · rfl
    rw [hdd]
    simp only [List.isEmpty_cons, Bool.false_eq_true, if_false]
    rw [← hr, List.reverse_reverse]
  have hnon : expNonEmpty n = n := by unfold expNonEmpty; simp [hne]
  have hhead : expWordHead n = n := by rw [hnc]; unfold expWordHead; simp [hc]
  have htail : expDirTail isFile n = n := by
    unfold expDirTail
    cases isFile with
    | true => rfl
    | false =>
      simp only [Bool.false_eq_true, if_false, hd]
      have h1 : (d == '.') = false := by simpa using (word_ne d hdw).2.1
      have h2 : (d == '-') = false := by simpa using (word_ne d hdw).2.2.1
      simp [h1, h2]
  unfold makeExportName
  rw [hbase, hend, hnon, hhead, htail]

/-! ## pairwise distinct names are not renamed -/

def singles : Nat → List Name → List (Name × List Nat)
  | _, [] => []
  | i, c :: cs => (c, [i]) :: singles (i + 1) cs

def pairsFrom : Nat → List Name → List (Nat × Name)
  | _, [] => []
  | i, c :: cs => (i, c) :: pairsFrom (i + 1) cs

theorem go_nodup : ∀ (cs : List Name) (i : Nat) (acc : List (Name × List Nat)),
    (∀ c ∈ cs, c ∉ acc.map (·.1)) → cs.Nodup → groupBy.go i acc cs = acc ++ singles i cs := by
  intro cs
  induction cs with
  | nil => intro i acc _ _; simp [groupBy.go, singles]
  | cons c cs ih =>
    intro i acc hdis hnd
    have hc : c ∉ acc.map (·.1) := hdis c (by simp)
    have hany : acc.any (fun x => x.1 == c) = false := by
      rw [List.any_eq_false]
      intro x hx
      simp only [beq_iff_eq]
      intro e
      exact hc (List.mem_map.mpr ⟨x, hx, e⟩)
    simp only [groupBy.go, hany, Bool.false_eq_true, if_false]
    obtain ⟨hcn, hnd'⟩ := List.nodup_cons.mp hnd
    rw [ih (i + 1) (acc ++ [(c, [i])]) ?_ hnd']
    · simp [singles, List.append_assoc]
    · intro c' hc'
      simp only [List.map_append, List.map_cons, List.map_nil, List.mem_append, List.mem_singleton, not_or]
      exact ⟨hdis c' (by simp [hc']), fun e => hcn (e ▸ hc')⟩

theorem loop_singles : ∀ (cs : List Name) (i : Nat) (used : List Name) (out : List (Nat × Name)),
    dedupe.loop (singles i cs) used out = .ok (out ++ pairsFrom i cs) := by
  intro cs
  induction cs with
  | nil => intro i used out; simp [dedupe.loop, singles, pairsFrom]
  | cons c cs ih =>
    intro i used out
    simp only [singles, dedupe.loop]
    rw [ih (i + 1) used (out ++ [(i, c)])]
    simp [pairsFrom, List.append_assoc]

theorem find_pairsFrom : ∀ (cs : List Name) (k i : Nat) (h : i < cs.length),
    (pairsFrom k cs).find? (fun x => x.1 == k + i) = some (k + i, cs[i]) := by
  intro cs
  induction cs with
  | nil => intro k i h; simp at h
  | cons c cs ih =>
    intro k i h
    cases i with
    | zero => simp [pairsFrom]
    | succ j =>
      have hne : (k == k + (j + 1)) = false := by simp
      simp only [pairsFrom, List.find?_cons, hne]
      have := ih (k + 1) j (by simpa using h)
      have e : k + 1 + j = k + (j + 1) := by omega
      rw [e] at this
      simpa using this

/-- **pairwise distinct sibling names are not renamed.** -/
theorem dedupe_nodup_id (cands : List Name) (h : cands.Nodup) : dedupe cands = .ok cands := by
  have hg : groupBy cands = singles 0 cands := by
    unfold groupBy
    rw [go_nodup cands 0 [] (by simp) h]
    simp
  unfold dedupe
  simp only [hg]
  rw [loop_singles cands 0 _ []]
  simp only [List.nil_append, Except.ok.injEq]
  apply List.ext_getElem
  · simp
  · intro i h1 h2
    simp only [List.getElem_map, List.getElem_range]
    have hi : i < cands.length := by simpa using h1
    have := find_pairsFrom cands 0 i hi
    simp only [Nat.zero_add] at this
    rw [this]
    simp

/-- **clean, pairwise distinct sibling names are shown and written as stored.** For a directory
level whose items carry clean names (word characters and inner blanks, a word character at both
ends) that are pairwise distinct, the listing name and the file / folder name of every item are its
stored name: nothing is replaced, stripped, prefixed or numbered. -/
theorem C06_clean_names_kept (raw : List (Name × Bool)) (hclean : ∀ x ∈ raw, CleanName x.1)
    (hnd : (raw.map (·.1)).Nodup) :
    Smpl.AkaiTool.assign raw = .ok (raw.map fun x => (x.1, x.1)) := by
  have hs : (raw.map fun x : Name × Bool => makeSafeName x.1) = raw.map (·.1) := by
    apply List.map_congr_left
    intro x hx
    exact makeSafeName_clean x.1 (hclean x hx)
  have he : (raw.map fun x : Name × Bool => makeExportName x.1 x.2) = raw.map (·.1) := by
    apply List.map_congr_left
    intro x hx
    exact makeExportName_clean x.1 (hclean x hx) x.2
  unfold Smpl.AkaiTool.assign
  have e1 : (raw.map fun (x : Name × Bool) => match x with | (n, _) => makeSafeName n) = raw.map (·.1) := by
    rw [← hs]
  have e2 : (raw.map fun (x : Name × Bool) => match x with | (n, f) => makeExportName n f) = raw.map (·.1) := by
    rw [← he]
  rw [e1, e2, dedupe_nodup_id _ hnd]
  simp only [Except.ok.injEq]
  clear hs he e1 e2 hclean hnd
  induction raw with
  | nil => rfl
  | cons x xs ih => simp [ih]

/-- premises satisfiable. -/
example : CleanName "PIANO C3".toList :=
  ⟨by decide, ⟨'P', "IANO C3".toList, rfl, by decide⟩, ⟨'3', by decide, by decide⟩⟩

end Smpl.Props.C06
