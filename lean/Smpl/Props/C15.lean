/-
C15 — On a truncated image every reported file is a well-formed prefix.

Data path ("never bytes from elsewhere, never garbage"), proved for every chain, window, cut
position and block pattern:
  * what the block-wise reader returns from a chain with missing bytes is a prefix of what it
    returns from the complete chain (AKAI sector chains and Roland cluster chains, any chain order);
  * it is a prefix of the plain window in any case, and the whole window when nothing is missing;
  * whatever PCM results, the WAV built from it is well formed (C04_wellformed: the length fields
    are computed from the data actually written).
Directory path (which files are reported at all): validated by the truncation sweep, not proved.
-/
import Smpl.Model.Akai
import Smpl.Model.Roland
import Smpl.Lemmas.ShortRead
import Smpl.Props.C04
import Smpl.Props.C02

namespace Smpl.Props.C15
open Smpl Smpl.ShortRead

/-- a sector of a cut-off window is a prefix of the same sector of the whole window. -/
theorem sector_prefix (c : List Nat) (cut k L : Nat) :
    ((c.take cut).drop k).take L <+: (c.drop k).take L := by
  rw [List.drop_take, List.take_take]
  exact List.take_prefix_take_left (Nat.min_le_left _ _)

/-- **C15 (reader, general form).** Pieces that are prefixes of full sectors: the forward block
read of any window of the (size-clipped) chain is a prefix of the read over the complete chain. -/
theorem C15_read_prefix (L : Nat) (ps' ps : List (List Nat))
    (hlen : ps'.length = ps.length)
    (hpre : ∀ j (h1 : j < ps'.length) (h2 : j < ps.length), ps'[j] <+: ps[j])
    (hfull : ∀ p ∈ ps, p.length = L) (size off len : Nat) :
    readForward ((ofPieces L ps').clip size) off len <+: readForward ((ofPieces L ps).clip size) off len :=
  readForward_pieces_prefix L ps' ps hlen hpre hfull size off len

/-- **C15 (never bytes from elsewhere).** Whatever is missing, the bytes read are the leading
bytes of the addressed window of the chain, in order. -/
theorem C15_read_is_window_prefix (h : Holey) (off len : Nat) :
    readForward h off len <+: (h.bytes.drop off).take len :=
  readForward_prefix h off len

/-- **C15 (complete).** Nothing missing in the chain: the whole window is read (forward), and the
whole word-reversed window (reverse modes). -/
theorem C15_complete_forward (h : Holey) (hc : h.complete = true) (off len : Nat) :
    readForward h off len = (h.bytes.drop off).take len :=
  readForward_complete h hc off len

theorem C15_complete_reversed (h : Holey) (hc : h.complete = true) (off len : Nat) :
    readReversed h off len = reverseWords ((h.bytes.drop off).take len) :=
  readReversed_complete h hc off len

/-! ## AKAI instance -/

open Smpl.Akai in
/-- **C15 (AKAI sample audio).** `p'` is the partition as seen in an image cut off anywhere
(`p'.content` is a prefix-cut of `p.content`, same decoded tables); for every chain whose sectors
all lie inside the complete partition, every file size and every window, the audio read from the
cut image is a prefix of the audio read from the complete image. -/
theorem C15_akai_audio_prefix (p p' : Part) (cut : Nat) (hcut : p'.content = p.content.take cut)
    (path : List Nat) (hin : ∀ s ∈ path, (s + 1) * SECTOR ≤ p.content.length)
    (size off len : Nat) :
    readForward ((segmentHoley p' path).clip size) off len <+:
      readForward ((segmentHoley p path).clip size) off len := by
  unfold segmentHoley
  apply C15_read_prefix
  · simp
  · intro j h1 h2
    simp only [List.getElem_map, hcut]
    exact sector_prefix _ _ _ _
  · intro q hq
    rw [List.mem_map] at hq
    obtain ⟨s, hs, rfl⟩ := hq
    have := hin s hs
    have e : (s + 1) * SECTOR = s * SECTOR + SECTOR := by rw [Nat.add_mul]; simp
    simp only [List.length_take, List.length_drop]
    omega

/-! ## Roland instance -/

theorem cluster_prefix_gen (b : List Nat) (cut c C D : Nat) (hc : 0 < C) (hin : D + (c + 1) * C ≤ b.length) :
  (if c * C ≥ min cut b.length - D then []
    else
      (if D + c * C + min C (min cut b.length - D - c * C) ≤ min cut b.length then
            some (List.take (min C (min cut b.length - D - c * C)) (List.drop (D + c * C) (List.take cut b)))
          else none).getD
        []) <+:
    List.take C (List.drop (D + c * C) b) := by
  have e : (c + 1) * C = c * C + C := by rw [Nat.add_mul]; simp
  split
  · exact List.nil_prefix
  · rename_i hlt
    have hge : D + c * C + min C (min cut b.length - D - c * C) ≤ min cut b.length := by
      omega
    simp only [hge, if_true, Option.getD_some]
    rw [List.drop_take, List.take_take]
    exact List.take_prefix_take_left (by omega)

open Smpl.Roland in
theorem cluster_prefix (b : List Nat) (cut c : Nat) (hin : DATA_FAT_OFF + (c + 1) * CLUSTER ≤ b.length) :
    clusterData (Img.ofBytes (b.take cut)) c <+: clusterData (Img.ofBytes b) c := by
  rw [Smpl.Props.C02.C02_cluster_read b c hin]
  unfold clusterData Img.ofBytes
  simp only [List.length_take]
  exact cluster_prefix_gen b cut c CLUSTER DATA_FAT_OFF (by unfold CLUSTER; omega) hin

open Smpl.Roland in
/-- **C15 (Roland sample audio, forward modes).** For a chain whose clusters all lie inside the
complete image, the audio read from the image cut off at any byte is a prefix of the audio of the
complete image. -/
theorem C15_roland_audio_prefix (b : List Nat) (cut : Nat) (cl : List Nat)
    (hin : ∀ c ∈ cl, DATA_FAT_OFF + (c + 1) * CLUSTER ≤ b.length) (off len : Nat) :
    readForward (chainHoley (Img.ofBytes (b.take cut)) cl) off len <+:
      readForward (chainHoley (Img.ofBytes b) cl) off len := by
  have key := C15_read_prefix CLUSTER (cl.map (clusterData (Img.ofBytes (b.take cut)))) (cl.map (clusterData (Img.ofBytes b)))
    (by simp)
    (by
      intro j h1 h2
      simp only [List.getElem_map]
      exact cluster_prefix b cut _ (hin _ (List.getElem_mem _)))
    (by
      intro q hq
      rw [List.mem_map] at hq
      obtain ⟨c, hc, rfl⟩ := hq
      rw [Smpl.Props.C02.C02_cluster_read b c (hin c hc)]
      have := hin c hc
      have e : (c + 1) * CLUSTER = c * CLUSTER + CLUSTER := by rw [Nat.add_mul]; simp
      simp only [List.length_take, List.length_drop]
      omega)
    (cl.length * CLUSTER) off len
  -- clipping at the declared length changes nothing
  have clipId : ∀ ps : List (List Nat), (ofPieces CLUSTER ps).clip (ps.length * CLUSTER) = ofPieces CLUSTER ps := by
    intro ps
    unfold Holey.clip
    have : (ofPieces CLUSTER ps).bytes.length = ps.length * CLUSTER := by
      unfold ofPieces; exact ofPieces_go_length CLUSTER ps 0
    rw [List.take_of_length_le (by omega)]
  unfold chainHoley
  have l1 : cl.length = (cl.map (clusterData (Img.ofBytes (b.take cut)))).length := by simp
  have l2 : cl.length = (cl.map (clusterData (Img.ofBytes b))).length := by simp
  rw [← clipId (cl.map (clusterData (Img.ofBytes (b.take cut)))), ← clipId (cl.map (clusterData (Img.ofBytes b)))]
  simpa using key

open Smpl.Roland in
/-- **C15 (Roland sample audio, reverse modes).** The reversed read of a window of whole samples
that lies inside the chain: from the image cut off at any byte it is a prefix of the reversed read
from the complete image (the blocks are read from the end of the window; what survives is the
beginning of the reversed audio). -/
theorem C15_roland_reverse_prefix (b : List Nat) (cut : Nat) (cl : List Nat)
    (hin : ∀ c ∈ cl, DATA_FAT_OFF + (c + 1) * CLUSTER ≤ b.length) (off len : Nat)
    (heven : len % 2 = 0) (hwin : off + len ≤ cl.length * CLUSTER) :
    readReversed (chainHoley (Img.ofBytes (b.take cut)) cl) off len <+:
      readReversed (chainHoley (Img.ofBytes b) cl) off len := by
  unfold chainHoley
  apply readReversed_pieces_prefix
  · simp
  · intro j h1 h2
    simp only [List.getElem_map]
    exact cluster_prefix b cut _ (hin _ (List.getElem_mem _))
  · intro q hq
    rw [List.mem_map] at hq
    obtain ⟨c, hc, rfl⟩ := hq
    rw [Smpl.Props.C02.C02_cluster_read b c (hin c hc)]
    have := hin c hc
    have e : (c + 1) * CLUSTER = c * CLUSTER + CLUSTER := by rw [Nat.add_mul]; simp
    simp only [List.length_take, List.length_drop]
    omega
  · exact heven
  · simpa using hwin

/-! ## the WAV around whatever PCM results -/

/-- whatever prefix results, the file written around it is a well-formed WAV (C04): the RIFF and
data lengths are computed from the bytes actually written. -/
theorem C15_wav (m : Smpl.Wav.Meta) (pcm bs : List Nat) (h : Smpl.Wav.buildWav m pcm = .ok bs)
    (hbits : m.bits = 16) (hch : 0 < m.channels) (hal : pcm.length % (m.channels * 2) = 0) :
    Smpl.Spec.Riff.wellFormed bs = true :=
  Smpl.Props.C04.C04_wellformed m pcm bs h hbits hch hal

/-- premises satisfiable: a 2-sector chain whose second sector is cut after 1 byte; block = 4096. -/
example : (ofPieces 2 [[1, 2], [3]]).holes = [(3, 4)] ∧ (ofPieces 2 [[1, 2], [3]]).avail 0 3 = true
    ∧ (ofPieces 2 [[1, 2], [3]]).avail 0 4 = false := by decide

end Smpl.Props.C15
