/-
Struct layouts as frozen at the pinned tree, against which the layouts read off the construct
objects of /repo on every run (`Smpl.Gen.Structs`) are compared. The hand-written models read these
records with explicit offsets (Model/Akai.lean, Model/Roland.lean, Model/Wav.lean, Model/Container.lean);
a field that moves or changes size in /repo breaks the corresponding theorem below, and the
whole-image correspondence then looks for an image on which the difference shows.
-/
import Smpl.Gen.Structs


namespace Smpl.Props.Layouts.Frozen

/-- `PartitionHeaderConstruct` (akai/partition.py): static part, 202 bytes. -/
def akaiPartitionHeader : List (String × Nat × Nat) := [
  ("start_address", 0, 0), ("size", 0, 2), ("total_size", 2, 0), ("check_sum_x", 2, 0),
  ("partition_stream", 2, 0), ("", 2, 2), ("", 4, 194), ("", 198, 1),
  ("", 199, 1), ("", 200, 2)]
/-- `VolumeEntryConstruct` (akai/volume.py): static part, 16 bytes. -/
def akaiVolumeEntry : List (String × Nat × Nat) := [
  ("name", 0, 12), ("type_raw", 12, 2), ("type", 14, 0), ("start", 14, 2)]
/-- `FileEntryConstruct` (akai/file_entry.py): static part, 24 bytes. -/
def akaiFileEntry : List (String × Nat × Nat) := [
  ("name", 0, 12), ("", 12, 4), ("file_type", 16, 1), ("size", 17, 3),
  ("start", 20, 2), ("", 22, 2), ("file_stream", 24, 0)]
/-- `LoopDataConstruct` (akai/sample.py): static part, 12 bytes. -/
def akaiLoopData : List (String × Nat × Nat) := [
  ("loop_start", 0, 4), ("loop_length_fine", 4, 2), ("loop_length_coarse", 6, 4), ("loop_duration", 10, 2)]
/-- `SampleHeaderConstruct` (akai/sample.py): static part, 140 bytes. -/
def akaiSampleHeader : List (String × Nat × Nat) := [
  ("id", 0, 1), ("", 1, 1), ("note_pitch", 2, 1), ("sample_name", 3, 12),
  ("", 15, 4), ("loop_type", 19, 1), ("pitch_offset_cents", 20, 1), ("pitch_offset_semi", 21, 1),
  ("", 22, 4), ("samples_cnt", 26, 4), ("play_start", 30, 4), ("play_end", 34, 4),
  ("loop_data_table", 38, 96), ("", 134, 4), ("sampling_rate", 138, 2), ("data_address", 140, 0),
  ("data_stream", 140, 0)]
/-- `IdAreaStruct` (roland/s7xx/image.py): static part, 286 bytes. -/
def rolandIdArea : List (String × Nat × Nat) := [
  ("revision", 0, 4), ("s7xx_str", 4, 10), ("", 14, 2), ("empty_str", 16, 15),
  ("", 31, 1), ("version_str", 32, 31), ("", 63, 1), ("copyright_str", 64, 31),
  ("", 95, 1), ("", 96, 160), ("disk_name", 256, 16), ("disk_capacity", 272, 4),
  ("num_volumes", 276, 2), ("num_performances", 278, 2), ("num_patches", 280, 2), ("num_partials", 282, 2),
  ("num_samples", 284, 2)]
/-- `DirectoryEntryStruct` (roland/s7xx/directory_area.py): static part, 32 bytes. -/
def rolandDirEntry : List (String × Nat × Nat) := [
  ("name", 0, 16), ("index", 16, 0), ("file_type", 16, 1), ("file_attributes", 17, 1),
  ("forward_link_ptr", 18, 2), ("backward_link_ptr", 20, 2), ("link_id", 22, 2), ("reserved", 24, 4),
  ("fat_entry", 28, 2), ("num_clusters", 30, 2)]
/-- `SampleParamEntryStruct` (roland/s7xx/sample_entry.py): static part, 48 bytes. -/
def rolandSampleParam : List (String × Nat × Nat) := [
  ("name", 0, 16), ("index", 16, 0), ("start_sample", 16, 4), ("sustain_loop_start", 20, 4),
  ("sustain_loop_end", 24, 4), ("release_loop_start", 28, 4), ("release_loop_end", 32, 4), ("loop_mode", 36, 1),
  ("sustain_loop_enable", 37, 1), ("sustain_loop_tune", 38, 1), ("release_loop_tune", 39, 1), ("cluster_top", 40, 2),
  ("num_clusters", 42, 2), ("sample_options", 44, 1), ("original_key", 45, 1), ("", 46, 2)]
/-- `VolumeParamEntryStruct` (roland/s7xx/volume_entry.py): static part, 256 bytes. -/
def rolandVolumeParam : List (String × Nat × Nat) := [
  ("name", 0, 16), ("", 16, 16), ("performance_ptrs", 32, 128), ("", 160, 96)]
/-- `PerformanceParamEntryStruct` (roland/s7xx/performance_entry.py): static part, 512 bytes. -/
def rolandPerformanceParam : List (String × Nat × Nat) := [
  ("name", 0, 16), ("index", 16, 0), ("parts_patch_selection", 16, 32), ("midi_channel_data", 48, 16),
  ("parts_level", 64, 32), ("parts_zone_lower", 96, 32), ("parts_zone_upper", 128, 32), ("parts_fade_width_lower", 160, 32),
  ("parts_fade_width_upper", 192, 32), ("parts_program_change", 224, 2), ("parts_pitch_bend", 226, 2), ("parts_modulation", 228, 2),
  ("parts_hold_pedal", 230, 2), ("parts_bend_range", 232, 2), ("parts_midi_volume", 234, 2), ("parts_after_touch_switch", 236, 2),
  ("parts_after_touch_mode", 238, 2), ("velocity_curve_type_data", 240, 16), ("patch_list", 256, 64), ("", 320, 192)]
/-- `PatchParamEntryStruct` (roland/s7xx/patch_entry.py): static part, 512 bytes. -/
def rolandPatchParam : List (String × Nat × Nat) := [
  ("name", 0, 16), ("index", 16, 0), ("program_change_num", 16, 1), ("stereo_mix_level", 17, 1),
  ("total_pan", 18, 1), ("patch_level", 19, 1), ("output_assign_8", 20, 1), ("priority", 21, 1),
  ("cutoff", 22, 1), ("velocity_sensitivity", 23, 1), ("octave_shift", 24, 1), ("coarse_tune", 25, 1),
  ("fine_tune", 26, 1), ("smt_ctrl_selection", 27, 1), ("smt_ctrl_sensitivity", 28, 1), ("out_assign", 29, 1),
  ("analog_feel", 30, 1), ("", 31, 1), ("keys_partial_selection", 32, 88), ("", 120, 8),
  ("keys_assign_type", 128, 88), ("", 216, 8), ("bender", 224, 4), ("after_touch", 228, 7),
  ("modulation", 235, 4), ("", 239, 1), ("controller", 240, 8), ("", 248, 8),
  ("partial_list", 256, 176), ("", 432, 80)]
/-- `PartialParamSampleSectionStruct` (roland/s7xx/partial_entry.py): static part, 11 bytes. -/
def rolandPartialSampleSection : List (String × Nat × Nat) := [
  ("sample_selection", 0, 2), ("pitch_kf", 2, 1), ("sample_level", 3, 1), ("pan", 4, 1),
  ("coarse_tune", 5, 1), ("fine_tune", 6, 1), ("smt_velocity_lower", 7, 1), ("smt_fade_with_lower", 8, 1),
  ("smt_velocity_upper", 9, 1), ("smt_fade_with_upper", 10, 1)]
/-- `PartialParamEntryStruct` (roland/s7xx/partial_entry.py): static part, 128 bytes. -/
def rolandPartialParam : List (String × Nat × Nat) := [
  ("name", 0, 16), ("index", 16, 0), ("sample_1", 16, 11), ("", 27, 1),
  ("output_assign_8", 28, 1), ("stereo_mix_level", 29, 1), ("partial_level", 30, 1), ("output_assign_6", 31, 1),
  ("sample_2", 32, 11), ("", 43, 1), ("pan", 44, 1), ("course_tune", 45, 1),
  ("fine_tune", 46, 1), ("breath_cntrl", 47, 1), ("sample_3", 48, 11), ("", 59, 5),
  ("sample_4", 64, 11), ("tvf", 75, 21), ("tva", 96, 16), ("lfo_generator", 112, 9),
  ("", 121, 7)]
/-- `WavLoopStruct` (formats/wav.py): static part, 24 bytes. -/
def wavLoop : List (String × Nat × Nat) := [
  ("cue_id", 0, 4), ("loop_type", 4, 4), ("start_byte", 8, 4), ("end_byte", 12, 4),
  ("fraction", 16, 4), ("play_cnt", 20, 4)]
/-- `WavSampleChunkStruct` (formats/wav.py): static part, 36 bytes. -/
def wavSampleChunkHead : List (String × Nat × Nat) := [
  ("manufacturer", 0, 4), ("product", 4, 4), ("sample_period", 8, 4), ("midi_note", 12, 4),
  ("pitch_fraction", 16, 4), ("smpte_format", 20, 4), ("smpte_offset", 24, 4), ("sample_loop_cnt", 28, 4),
  ("sampler_data_size", 32, 4)]
/-- `WavFormatChunkStruct` (formats/wav.py): static part, 16 bytes. -/
def wavFormatChunk : List (String × Nat × Nat) := [
  ("audio_format", 0, 2), ("channel_cnt", 2, 2), ("sample_rate", 4, 4), ("byte_rate", 8, 4),
  ("block_align", 12, 2), ("bits_per_sample", 14, 2)]
/-- `MdfSectorHeaderConstruct` (alcohol/mdf.py): static part, 16 bytes. -/
def mdfSectorHeader : List (String × Nat × Nat) := [
  ("magic", 0, 12), ("id", 12, 3), ("", 15, 1)]
/-- `MdxHeaderConstruct` (alcohol/mdx.py): static part, 64 bytes. -/
def mdxHeader : List (String × Nat × Nat) := [
  ("magic", 0, 16), ("version", 16, 2), ("copyright", 18, 26), ("", 44, 4),
  ("eof", 48, 8), ("", 56, 8)]

end Smpl.Props.Layouts.Frozen

namespace Smpl.Props.Layouts

theorem L_akaiPartitionHeader : Gen.Structs.akaiPartitionHeader = Frozen.akaiPartitionHeader := by decide
theorem L_akaiVolumeEntry : Gen.Structs.akaiVolumeEntry = Frozen.akaiVolumeEntry := by decide
theorem L_akaiFileEntry : Gen.Structs.akaiFileEntry = Frozen.akaiFileEntry := by decide
theorem L_akaiLoopData : Gen.Structs.akaiLoopData = Frozen.akaiLoopData := by decide
theorem L_akaiSampleHeader : Gen.Structs.akaiSampleHeader = Frozen.akaiSampleHeader := by decide
theorem L_rolandIdArea : Gen.Structs.rolandIdArea = Frozen.rolandIdArea := by decide
theorem L_rolandDirEntry : Gen.Structs.rolandDirEntry = Frozen.rolandDirEntry := by decide
theorem L_rolandSampleParam : Gen.Structs.rolandSampleParam = Frozen.rolandSampleParam := by decide
theorem L_rolandVolumeParam : Gen.Structs.rolandVolumeParam = Frozen.rolandVolumeParam := by decide
theorem L_rolandPerformanceParam : Gen.Structs.rolandPerformanceParam = Frozen.rolandPerformanceParam := by decide
theorem L_rolandPatchParam : Gen.Structs.rolandPatchParam = Frozen.rolandPatchParam := by decide
theorem L_rolandPartialSampleSection : Gen.Structs.rolandPartialSampleSection = Frozen.rolandPartialSampleSection := by decide
theorem L_rolandPartialParam : Gen.Structs.rolandPartialParam = Frozen.rolandPartialParam := by decide
theorem L_wavLoop : Gen.Structs.wavLoop = Frozen.wavLoop := by decide
theorem L_wavSampleChunkHead : Gen.Structs.wavSampleChunkHead = Frozen.wavSampleChunkHead := by decide
theorem L_wavFormatChunk : Gen.Structs.wavFormatChunk = Frozen.wavFormatChunk := by decide
theorem L_mdfSectorHeader : Gen.Structs.mdfSectorHeader = Frozen.mdfSectorHeader := by decide
theorem L_mdxHeader : Gen.Structs.mdxHeader = Frozen.mdxHeader := by decide

end Smpl.Props.Layouts
