/-
C07 (AKAI SAT decoding, completeness): a chain that is well formed in the raw SAT — every sector's
word names the next sector of the chain, the last sector's word is the end mark — is installed
whole, so `get_path` from its head resolves exactly it. No condition on the rest of the table:
other chains may join it, directory runs may precede it, garbage may surround it.
-/
import Smpl.Props.C07A

namespace Smpl.Props.C07
open Smpl Smpl.Alloc

/-- the link a SAT word denotes for a file sector. -/
def aOfWord (v : Nat) : Link := if v = SAT_EOF then ⟨0, true⟩ else ⟨v, false⟩

/-- a word that continues a file chain. -/
def isPlain (size v : Nat) : Prop := v ≠ SAT_FREE ∧ isDirWord v = false ∧ v ≠ SAT_EOF ∧ v < size

/-- `c` is a file chain of the raw SAT. -/
def ARawChain (words : Array Nat) : List Nat → Prop
  | [] => False
  | [a] => words[a]? = some SAT_EOF
  | a :: b :: rest => (words[a]? = some b ∧ isPlain words.size b) ∧ ARawChain words (b :: rest)

theorem arawChain_mem (words : Array Nat) : ∀ c, ARawChain words c → ∀ x ∈ c,
    words[x]? = some SAT_EOF ∨ ∃ b, words[x]? = some b ∧ isPlain words.size b ∧ b ∈ c := by
  intro c
  induction c with
  | nil => intro h; exact absurd h (by simp [ARawChain])
  | cons a rest ih =>
    intro h x hx
    cases rest with
    | nil =>
      simp at hx; subst hx
      exact Or.inl h
    | cons b rest' =>
      rcases List.mem_cons.mp hx with rfl | hx'
      · exact Or.inr ⟨b, h.1.1, h.1.2, by simp⟩
      · rcases ih h.2 x hx' with h1 | ⟨b', hb', hp, hm⟩
        · exact Or.inl h1
        · exact Or.inr ⟨b', hb', hp, List.mem_cons_of_mem _ hm⟩

/-- sector `x` carries the link its SAT word denotes. -/
def AInst (words : Array Nat) (links : List Link) (x : Nat) : Prop :=
  ∃ v, words[x]? = some v ∧ links[x]? = some (aOfWord v)

theorem ainst_set_ne (words : Array Nat) (links : List Link) (a x : Nat) (l : Link) (h : a ≠ x)
    (hi : AInst words links x) : AInst words (links.set a l) x := by
  obtain ⟨v, hv, hl⟩ := hi
  exact ⟨v, hv, by rw [List.getElem?_set_ne h]; exact hl⟩

/-- a walked path respects the chain: a chain sector is followed by the sector its word names, and
the walk went on from it (so its word is not the end mark). -/
def CPath (words : Array Nat) (c : List Nat) : List Nat → Prop
  | [] => True
  | [_] => True
  | a :: b :: rest => (a ∈ c → words[a]? = some b ∧ b ≠ SAT_EOF) ∧ CPath words c (b :: rest)

def CRev (words : Array Nat) (c : List Nat) : List Nat → Nat → Prop
  | [], _ => True
  | a :: rest, sub => (a ∈ c → words[a]? = some sub ∧ sub ≠ SAT_EOF) ∧ CRev words c rest a

theorem cpath_of_rev (words : Array Nat) (c : List Nat) :
    ∀ (lst : List Nat) (sub : Nat) (tail : List Nat), CRev words c lst sub → CPath words c (sub :: tail) →
      CPath words c (lst.reverse ++ sub :: tail) := by
  intro lst
  induction lst with
  | nil => intro sub tail _ h; simpa using h
  | cons a rest ih =>
    intro sub tail hr hp
    obtain ⟨hw, hrest⟩ := hr
    have := ih a (sub :: tail) hrest ⟨hw, hp⟩
    simpa [List.reverse_cons, List.append_assoc] using this

theorem cpath_rev_only (words : Array Nat) (c : List Nat) (lst : List Nat) (sub : Nat)
    (hr : CRev words c lst sub) : CPath words c lst.reverse := by
  cases lst with
  | nil => simp [CPath]
  | cons a rest =>
    have := cpath_of_rev words c rest a [] hr.2 (by simp [CPath])
    simpa [List.reverse_cons] using this

theorem addLinks_length : ∀ (p : List Nat) (links ls : List Link),
    addLinks p links = .ok ls → ls.length = links.length := by
  intro p
  induction p with
  | nil => intro links ls he; simp [addLinks] at he; subst he; rfl
  | cons a rest ih =>
    intro links ls he
    cases rest with
    | nil =>
      simp only [addLinks] at he
      split at he
      · simp at he; subst he; simp
      · simp at he
    | cons b rest' =>
      simp only [addLinks] at he
      split at he
      · have := ih _ _ he
        simpa using this
      · simp at he

/-- `addLinks` leaves every chain sector that is not the path's last element with the link of its
word — whether it was installed before or lies on the path. -/
theorem addLinks_c (words : Array Nat) (c : List Nat) :
    ∀ (p : List Nat) (links ls : List Link), CPath words c p → addLinks p links = .ok ls →
      ∀ x ∈ c, p.getLast? ≠ some x → (x ∈ p ∨ AInst words links x) → AInst words ls x := by
  intro p
  induction p with
  | nil =>
    intro links ls _ he x _ _ hx
    simp [addLinks] at he; subst he
    rcases hx with hx | hx
    · cases hx
    · exact hx
  | cons a rest ih =>
    intro links ls hp he x hxc hlast hx
    cases rest with
    | nil =>
      simp only [addLinks] at he
      split at he
      · simp at he; subst he
        have hne : a ≠ x := by intro e; apply hlast; simp [e]
        rcases hx with hx | hx
        · simp at hx; exact absurd hx.symm hne
        · exact ainst_set_ne words links a x _ hne hx
      · simp at he
    | cons b rest' =>
      simp only [addLinks] at he
      split at he
      · rename_i ha
        obtain ⟨hstep, hrest⟩ := hp
        have hlast' : (b :: rest').getLast? ≠ some x := by
          simpa [List.getLast?_cons_cons] using hlast
        apply ih (links.set a ⟨b, false⟩) ls hrest he x hxc hlast'
        by_cases e : a = x
        · subst e
          right
          obtain ⟨hw, hne⟩ := hstep hxc
          refine ⟨b, hw, ?_⟩
          simp [ha, aOfWord, hne]
        · rcases hx with hx | hx
          · rcases List.mem_cons.mp hx with rfl | hx'
            · exact absurd rfl e
            · exact Or.inl hx'
          · exact Or.inr (ainst_set_ne words links a x _ e hx)
      · simp at he

/-- the last element of the path ends up an end mark. -/
theorem addLinks_last : ∀ (p : List Nat) (links ls : List Link), addLinks p links = .ok ls →
    ∀ z, p.getLast? = some z → ls[z]? = some ⟨0, true⟩ := by
  intro p
  induction p with
  | nil => intro links ls _ z hz; simp at hz
  | cons a rest ih =>
    intro links ls he z hz
    cases rest with
    | nil =>
      simp only [addLinks] at he
      split at he
      · rename_i ha
        simp at he; subst he
        simp at hz; subst hz
        simp [ha]
      · simp at he
    | cons b rest' =>
      simp only [addLinks] at he
      split at he
      · exact ih _ _ he z (by simpa [List.getLast?_cons_cons] using hz)
      · simp at he

theorem lt_of_getElem? (words : Array Nat) (sub v : Nat) (hw : words[sub]? = some v) : sub < words.size := by
  rcases Nat.lt_or_ge sub words.size with h | h
  · exact h
  · rw [Array.getElem?_eq_none h] at hw; cases hw

theorem member_word (words : Array Nat) (c : List Nat)
    (hmem : ∀ x ∈ c, words[x]? = some SAT_EOF ∨ ∃ b, words[x]? = some b ∧ isPlain words.size b ∧ b ∈ c)
    (sub v : Nat) (hs : sub ∈ c) (hw : words[sub]? = some v) :
    v ≠ SAT_FREE ∧ isDirWord v = false ∧ (v = SAT_EOF ∨ (v < words.size ∧ v ∈ c)) := by
  rcases hmem sub hs with h | ⟨b, hb, hp, hbc⟩
  · rw [hw] at h; cases h
    exact ⟨by decide, by decide, Or.inl rfl⟩
  · rw [hw] at hb; cases hb
    exact ⟨hp.1, hp.2.1, Or.inr ⟨hp.2.2.2, hbc⟩⟩

/-! ## the walk -/

/-- invariant of the inner walk, relative to the raw chain `c`. -/
structure WInv (words : Array Nat) (c : List Nat) (st : AkaiSt) (lst : List Nat) (sub : Nat) : Prop where
  inst : ∀ x ∈ c, st.dirty[x]? = some true → x ∈ lst ∨ AInst words st.links x
  rev  : CRev words c lst sub
  foc  : (∃ x ∈ lst, x ∈ c) → sub ∈ c ∧ st.prevDir = false
  len  : st.links.length = words.size

structure WPost (words : Array Nat) (c : List Nat) (st' : AkaiSt) : Prop where
  inst : ∀ x ∈ c, st'.dirty[x]? = some true → AInst words st'.links x
  len  : st'.links.length = words.size

theorem dirty_set_cases (d : Array Bool) (sub x : Nat) (h : (d.setIfInBounds sub true)[x]? = some true) :
    x = sub ∨ d[x]? = some true := by
  by_cases e : sub = x
  · exact Or.inl e.symm
  · rw [Array.getElem?_setIfInBounds_ne e] at h; exact Or.inr h

theorem akaiWalk_complete (words : Array Nat) (c : List Nat) (hc : ARawChain words c)
    (hsize : words.size ≤ SAT_EOF) (st : AkaiSt) (lst : List Nat) (sub : Nat) :
    ∀ st', WInv words c st lst sub → akaiWalk words st lst sub = .ok st' → WPost words c st' := by
  have hmem := arawChain_mem words c hc
  fun_induction akaiWalk words st lst sub <;> intro st' hinv he
  case case1 =>
    rename_i st lst sub hw
    cases he
    refine ⟨?_, hinv.len⟩
    intro x hx hd
    rcases hinv.inst x hx hd with h | h
    · exfalso
      have := (hinv.foc ⟨x, h, hx⟩).1
      rcases hmem sub this with h1 | ⟨b, hb, _⟩
      · rw [hw] at h1; cases h1
      · rw [hw] at hb; cases hb
    · exact h
  case case2 =>
    rename_i st lst sub v hw curDir hcond ls hadd
    simp only [List.unattach_reverse, List.unattach_attach] at hadd he
    rw [hadd] at he
    cases he
    have hprev : st.prevDir = true := by
      simp only [Bool.and_eq_true] at hcond
      exact hcond.1.2
    have hdisj : ∀ x ∈ lst, x ∉ c := by
      intro x hx hxc
      have := (hinv.foc ⟨x, hx, hxc⟩).2
      rw [hprev] at this; cases this
    refine ⟨?_, by simp only; rw [addLinks_length _ _ _ hadd]; exact hinv.len⟩
    intro x hx hd
    simp only at hd ⊢
    apply addLinks_c words c lst.reverse st.links ls (cpath_rev_only words c lst sub hinv.rev) hadd x hx
    · intro hl
      have : x ∈ lst.reverse := List.mem_of_getLast? hl
      exact hdisj x (by simpa using this) hx
    · rcases hinv.inst x hx hd with h | h
      · exact absurd hx (hdisj x h)
      · exact Or.inr h
  case case3 =>
    rename_i st lst sub v hw curDir hcond e hadd
    simp only [List.unattach_reverse, List.unattach_attach] at hadd he
    rw [hadd] at he
    cases he
  case case4 =>
    rename_i st lst sub size v hw curDir hc1 hc2 dirty' hc3 ls hadd
    cases he
    have hlen : ls.length = st.links.length := addLinks_length _ _ _ hadd
    have hpath : CPath words c (sub :: lst).reverse := by
      have := cpath_of_rev words c lst sub [] hinv.rev (by simp [CPath])
      simpa [List.reverse_cons] using this
    have hsublt : sub < words.size := lt_of_getElem? words sub v hw
    refine ⟨?_, by simp only [List.length_set]; rw [hlen]; exact hinv.len⟩
    intro x hx hd
    simp only at hd ⊢
    by_cases e : x = sub
    · subst e
      refine ⟨v, hw, ?_⟩
      have hvne : v ≠ SAT_EOF := by
        simp only [Bool.and_eq_true, bne_iff_ne, ne_eq] at hc3
        simp only [Bool.or_eq_true, beq_iff_eq, Bool.and_eq_true, decide_eq_true_eq] at hc2
        rcases hc2 with h | h
        · exact absurd h hc3.1
        · intro e; rw [e] at h; have := h.1; simp only [size] at this; omega
      have : x < ls.length := by rw [hlen, hinv.len]; exact hsublt
      simp [aOfWord, hvne, this]
    · apply ainst_set_ne words ls sub x _ (Ne.symm e)
      apply addLinks_c words c _ st.links ls hpath hadd x hx
      · intro h
        simp at h
        exact e h.symm
      · rcases dirty_set_cases _ _ _ hd with h | h
        · exact absurd h e
        · rcases hinv.inst x hx h with h' | h'
          · left; simp [h']
          · right; exact h'
  case case5 =>
    cases he
  case case6 =>
    rename_i st lst sub size v hw curDir hc1 hc2 dirty' hc3
    cases he
    have hsubc : sub ∉ c := by
      intro hs
      obtain ⟨h1, h2, _⟩ := member_word words c hmem sub v hs hw
      apply hc3
      simp [curDir, h1, h2]
    have hdisj : ∀ x ∈ lst, x ∉ c := fun x hx hxc => hsubc (hinv.foc ⟨x, hx, hxc⟩).1
    refine ⟨?_, hinv.len⟩
    intro x hx hd
    simp only at hd ⊢
    rcases dirty_set_cases _ _ _ hd with h | h
    · subst h; exact absurd hx hsubc
    · rcases hinv.inst x hx h with h' | h'
      · exact absurd hx (hdisj x h')
      · exact h'
  case case7 =>
    rename_i st lst sub size v hw curDir hc1 hc2 hc3 ls hadd
    cases he
    have hlen : ls.length = st.links.length := addLinks_length _ _ _ hadd
    have hpath : CPath words c (sub :: lst).reverse := by
      have := cpath_of_rev words c lst sub [] hinv.rev (by simp [CPath])
      simpa [List.reverse_cons] using this
    have hv : v = SAT_EOF := by simpa using hc3
    refine ⟨?_, by simp only; rw [hlen]; exact hinv.len⟩
    intro x hx hd
    simp only at hd ⊢
    by_cases e : x = sub
    · subst e
      refine ⟨v, hw, ?_⟩
      rw [addLinks_last _ _ _ hadd x (by simp)]
      simp [aOfWord, hv]
    · apply addLinks_c words c _ st.links ls hpath hadd x hx
      · intro h
        simp at h
        exact e h.symm
      · rcases dirty_set_cases _ _ _ hd with h | h
        · exact absurd h e
        · rcases hinv.inst x hx h with h' | h'
          · left; simp [h']
          · right; exact h'
  case case8 =>
    cases he
  case case9 =>
    rename_i st lst sub size v hw curDir hc1 hc2 hc3 st1 next hlt ih
    apply ih st' _ he
    have hvne : v ≠ SAT_EOF := by simpa using hc3
    -- what a chain sector at `sub` implies for the next step
    have hstep : sub ∈ c → next = v ∧ v ∈ c ∧ curDir = false := by
      intro hs
      obtain ⟨_, h2, h3⟩ := member_word words c hmem sub v hs hw
      rcases h3 with h3 | h3
      · exact absurd h3 hvne
      · exact ⟨by simp [next, curDir, h2], h3.2, h2⟩
    refine ⟨?_, ⟨?_, hinv.rev⟩, ?_, hinv.len⟩
    · intro x hx hd
      rcases dirty_set_cases _ _ _ hd with h | h
      · left; simp [h]
      · rcases hinv.inst x hx h with h' | h'
        · left; simp [h']
        · right; exact h'
    · intro hs
      obtain ⟨hn, _, _⟩ := hstep hs
      rw [hn]
      exact ⟨hw, hvne⟩
    · rintro ⟨x, hx, hxc⟩
      have hs : sub ∈ c := by
        rcases List.mem_cons.mp hx with rfl | hx'
        · exact hxc
        · exact (hinv.foc ⟨x, hx', hxc⟩).1
      obtain ⟨hn, hvc, hcd⟩ := hstep hs
      exact ⟨by rw [hn]; exact hvc, hcd⟩
  case case10 =>
    rename_i st lst sub size v hw curDir hc1 hc2 hc3 st1 next hlt hdir ls hadd
    cases he
    have hsubc : sub ∉ c := by
      intro hs
      obtain ⟨_, h2, _⟩ := member_word words c hmem sub v hs hw
      simp [curDir, h2] at hdir
    have hdisj : ∀ x ∈ lst, x ∉ c := fun x hx hxc => hsubc (hinv.foc ⟨x, hx, hxc⟩).1
    have hlen : ls.length = st.links.length := addLinks_length _ _ _ hadd
    have hpath : CPath words c (sub :: lst).reverse := by
      have := cpath_of_rev words c lst sub [] hinv.rev (by simp [CPath])
      simpa [List.reverse_cons] using this
    refine ⟨?_, by simp only; rw [hlen]; exact hinv.len⟩
    intro x hx hd
    simp only [st1] at hd ⊢
    apply addLinks_c words c _ st.links ls hpath hadd x hx
    · intro hl
      have hm : x ∈ (sub :: lst).reverse := List.mem_of_getLast? hl
      simp only [List.mem_reverse, List.mem_cons] at hm
      rcases hm with rfl | hm
      · exact hsubc hx
      · exact hdisj x hm hx
    · rcases dirty_set_cases _ _ _ hd with h | h
      · subst h; exact absurd hx hsubc
      · rcases hinv.inst x hx h with h' | h'
        · exact absurd hx (hdisj x h')
        · exact Or.inr h'
  case case11 => cases he
  case case12 =>
    rename_i st lst sub size v hw curDir hc1 hc2 hc3 st1 next hlt hndir
    cases he
    have hvne : v ≠ SAT_EOF := by simpa using hc3
    have hsubc : sub ∉ c := by
      intro hs
      obtain ⟨_, h2, h3⟩ := member_word words c hmem sub v hs hw
      rcases h3 with h3 | h3
      · exact absurd h3 hvne
      · apply hlt
        simp [next, curDir, h2, size]
        exact h3.1
    have hdisj : ∀ x ∈ lst, x ∉ c := fun x hx hxc => hsubc (hinv.foc ⟨x, hx, hxc⟩).1
    refine ⟨?_, hinv.len⟩
    intro x hx hd
    simp only [st1] at hd ⊢
    rcases dirty_set_cases _ _ _ hd with h | h
    · subst h; exact absurd hx hsubc
    · rcases hinv.inst x hx h with h' | h'
      · exact absurd hx (hdisj x h')
      · exact h'

/-! ## the visited flags -/

theorem getElem?_set_true_mono (d : Array Bool) (sub x : Nat) (h : d[x]? = some true) :
    (d.setIfInBounds sub true)[x]? = some true := by
  by_cases e : sub = x
  · subst e
    have hlt : sub < d.size := by
      rcases Nat.lt_or_ge sub d.size with h' | h'
      · exact h'
      · rw [Array.getElem?_eq_none h'] at h; cases h
    simp [hlt]
  · rw [Array.getElem?_setIfInBounds_ne e]; exact h

/-- the walk only ever sets flags, keeps the number of flags, and flags its starting sector. -/
theorem akaiWalk_dirty (words : Array Nat) (st : AkaiSt) (lst : List Nat) (sub : Nat) :
    ∀ st', akaiWalk words st lst sub = .ok st' →
      st'.dirty.size = st.dirty.size ∧ (∀ x : Nat, st.dirty[x]? = some true → st'.dirty[x]? = some true) ∧
      (lst = [] → sub < words.size → sub < st.dirty.size → st'.dirty[sub]? = some true) := by
  fun_induction akaiWalk words st lst sub <;> intro st' he
  case case1 =>
    rename_i st lst sub hw
    cases he
    refine ⟨rfl, fun x h => h, ?_⟩
    intro _ hlt _
    rw [Array.getElem?_eq_getElem hlt] at hw; cases hw
  case case2 =>
    rename_i st lst sub v hw curDir hcond ls hadd
    simp only [List.unattach_reverse, List.unattach_attach] at hadd he
    rw [hadd] at he
    cases he
    refine ⟨rfl, fun x h => h, ?_⟩
    intro hl
    simp only [Bool.and_eq_true] at hcond
    rw [hl] at hcond
    simp at hcond
  case case3 =>
    rename_i st lst sub v hw curDir hcond e hadd
    simp only [List.unattach_reverse, List.unattach_attach] at hadd he
    rw [hadd] at he
    cases he
  case case4 =>
    rename_i st lst sub size v hw curDir hc1 hc2 dirty' hc3 ls hadd
    cases he
    refine ⟨by simp [dirty'], fun x h => getElem?_set_true_mono _ _ _ h, ?_⟩
    intro _ _ hlt
    simp [dirty', hlt]
  case case5 => cases he
  case case6 =>
    rename_i st lst sub size v hw curDir hc1 hc2 dirty' hc3
    cases he
    refine ⟨by simp [dirty'], fun x h => getElem?_set_true_mono _ _ _ h, ?_⟩
    intro _ _ hlt
    simp [dirty', hlt]
  case case7 =>
    cases he
    refine ⟨by simp, fun x h => getElem?_set_true_mono _ _ _ h, ?_⟩
    intro _ _ hlt
    simp [hlt]
  case case8 => cases he
  case case9 =>
    rename_i st lst sub size v hw curDir hc1 hc2 hc3 st1 next hlt ih
    obtain ⟨h1, h2, _⟩ := ih st' he
    refine ⟨by rw [h1]; simp [st1], fun x h => h2 x (getElem?_set_true_mono _ _ _ h), ?_⟩
    intro _ _ hlt'
    apply h2
    simp [st1, hlt']
  case case10 =>
    rename_i st lst sub size v hw curDir hc1 hc2 hc3 st1 next hlt hdir ls hadd
    cases he
    refine ⟨by simp [st1], fun x h => getElem?_set_true_mono _ _ _ h, ?_⟩
    intro _ _ hlt
    simp [st1, hlt]
  case case11 => cases he
  case case12 =>
    rename_i st lst sub size v hw curDir hc1 hc2 hc3 st1 next hlt hndir
    cases he
    refine ⟨by simp [st1], fun x h => getElem?_set_true_mono _ _ _ h, ?_⟩
    intro _ _ hlt
    simp [st1, hlt]

/-! ## the outer loop -/

def akStep (wa : Array Nat) (st : AkaiSt) (i : Nat) : Except Err AkaiSt :=
  if st.dirty[i]?.getD true then pure st else akaiWalk wa st [] i

/-- invariant of the outer loop at index `i`. -/
structure AInv (wa : Array Nat) (c : List Nat) (i : Nat) (st : AkaiSt) : Prop where
  inst  : ∀ x ∈ c, st.dirty[x]? = some true → AInst wa st.links x
  len   : st.links.length = wa.size
  size  : st.dirty.size = wa.size
  below : ∀ j : Nat, j < i → j < wa.size → st.dirty[j]? = some true

theorem ak_step (wa : Array Nat) (c : List Nat) (hc : ARawChain wa c) (hsize : wa.size ≤ SAT_EOF)
    (i : Nat) (st st' : AkaiSt) (hinv : AInv wa c i st) (he : akStep wa st i = .ok st') :
    AInv wa c (i + 1) st' := by
  unfold akStep at he
  by_cases hd : st.dirty[i]?.getD true = true
  · simp only [hd, if_true, pure, Except.pure, Except.ok.injEq] at he
    subst he
    refine ⟨hinv.inst, hinv.len, hinv.size, ?_⟩
    intro j hj hjs
    by_cases e : j = i
    · subst e
      have hlt : j < st.dirty.size := by rw [hinv.size]; exact hjs
      rw [Array.getElem?_eq_getElem hlt] at hd ⊢
      simpa using hd
    · exact hinv.below j (by omega) hjs
  · simp only [hd, Bool.false_eq_true, if_false] at he
    have hpost := akaiWalk_complete wa c hc hsize st [] i st'
      ⟨fun x hx h => Or.inr (hinv.inst x hx h), trivial, (by intro hex; obtain ⟨x, hx, _⟩ := hex; cases hx), hinv.len⟩ he
    obtain ⟨h1, h2, h3⟩ := akaiWalk_dirty wa st [] i st' he
    refine ⟨hpost.inst, hpost.len, by rw [h1]; exact hinv.size, ?_⟩
    intro j hj hjs
    by_cases e : j = i
    · subst e
      exact h3 rfl hjs (by rw [hinv.size]; exact hjs)
    · exact h2 j (hinv.below j (by omega) hjs)

theorem ak_fold (wa : Array Nat) (c : List Nat) (hc : ARawChain wa c) (hsize : wa.size ≤ SAT_EOF) :
    ∀ (len a : Nat) (st st' : AkaiSt), AInv wa c a st →
      (List.range' a len).foldlM (akStep wa) st = .ok st' → AInv wa c (a + len) st' := by
  intro len
  induction len with
  | zero => intro a st st' h he; simp at he; cases he; simpa using h
  | succ len ih =>
    intro a st st' h he
    rw [List.range'_succ] at he
    simp only [List.foldlM] at he
    cases hs : akStep wa st a with
    | error e => rw [hs] at he; simp [bind, Except.bind] at he
    | ok st1 =>
      rw [hs] at he
      simp only [bind, Except.bind] at he
      have h1 := ak_step wa c hc hsize a st st1 h hs
      have := ih (a + 1) st1 st' h1 he
      have e : a + 1 + len = a + (len + 1) := by omega
      rw [e] at this; exact this

/-- an installed raw chain is a chain of the link table. -/
theorem achain_of_installed (words : Array Nat) (links : List Link) :
    ∀ c, ARawChain words c → (∀ x ∈ c, AInst words links x) → Chain links c := by
  intro c
  induction c with
  | nil => intro h; exact absurd h (by simp [ARawChain])
  | cons a rest ih =>
    intro hc hi
    cases rest with
    | nil =>
      obtain ⟨v', hv', hl⟩ := hi a (by simp)
      have hc' : words[a]? = some SAT_EOF := hc
      rw [hc'] at hv'; cases hv'
      exact ⟨aOfWord SAT_EOF, hl, by simp [aOfWord]⟩
    | cons b rest' =>
      obtain ⟨⟨hv, _, _, hne, _⟩, hrest⟩ := hc
      obtain ⟨v', hv', hl⟩ := hi a (by simp)
      rw [hv] at hv'; cases hv'
      refine ⟨⟨aOfWord b, hl, by simp [aOfWord, hne], by simp [aOfWord, hne]⟩, ?_⟩
      exact ih hrest (fun x hx => hi x (List.mem_cons_of_mem _ hx))

/-! ## a raw chain visits no sector twice -/

theorem arawChain_det (words : Array Nat) : ∀ c1 c2, ARawChain words c1 → ARawChain words c2 →
    c1.head? = c2.head? → c1 = c2 := by
  intro c1
  induction c1 with
  | nil => intro c2 h; exact absurd h (by simp [ARawChain])
  | cons a r1 ih =>
    intro c2 h1 h2 hh
    cases c2 with
    | nil => exact absurd h2 (by simp [ARawChain])
    | cons a' r2 =>
      simp at hh; subst hh
      cases r1 with
      | nil =>
        cases r2 with
        | nil => rfl
        | cons b2 r2' =>
          exfalso
          have e1 : words[a]? = some SAT_EOF := h1
          rw [h2.1.1] at e1; cases e1
          exact h2.1.2.2.2.1 rfl
      | cons b1 r1' =>
        cases r2 with
        | nil =>
          exfalso
          have e2 : words[a]? = some SAT_EOF := h2
          rw [h1.1.1] at e2; cases e2
          exact h1.1.2.2.2.1 rfl
        | cons b2 r2' =>
          have e : b1 = b2 := by
            have := h1.1.1; rw [h2.1.1] at this; cases this; rfl
          subst e
          rw [ih (b1 :: r2') h1.2 h2.2 rfl]

theorem arawChain_suffix (words : Array Nat) : ∀ (l1 : List Nat) (a : Nat) (l2 : List Nat),
    ARawChain words (l1 ++ a :: l2) → ARawChain words (a :: l2) := by
  intro l1
  induction l1 with
  | nil => intro a l2 h; simpa using h
  | cons x r ih =>
    intro a l2 h
    cases r with
    | nil => exact h.2
    | cons y r' => exact ih a l2 h.2

theorem arawChain_nodup (words : Array Nat) : ∀ c, ARawChain words c → c.Nodup := by
  intro c
  induction c with
  | nil => intro h; exact absurd h (by simp [ARawChain])
  | cons a rest ih =>
    intro h
    rw [List.nodup_cons]
    constructor
    · intro hm
      obtain ⟨l1, l2, e⟩ := List.append_of_mem hm
      have hs : ARawChain words (a :: l2) := by
        apply arawChain_suffix words (a :: l1) a l2
        rw [e] at h; exact h
      have := arawChain_det words (a :: rest) (a :: l2) h hs rfl
      rw [e] at this
      have hl := congrArg List.length this
      simp at hl
      omega
    · cases rest with
      | nil => simp
      | cons b r => exact ih h.2

theorem arawChain_length (words : Array Nat) (c : List Nat) (hc : ARawChain words c) :
    c.length ≤ words.size := by
  have hsub : c ⊆ List.range words.size := by
    intro x hx
    rw [List.mem_range]
    rcases arawChain_mem words c hc x hx with h1 | ⟨b, hb, _⟩
    · exact lt_of_getElem? _ _ _ h1
    · exact lt_of_getElem? _ _ _ hb
  have := List.Nodup.length_le_of_subset (arawChain_nodup words c hc) hsub
  simpa using this

/-- **AKAI SAT decoding is complete for well-formed chains.** If the raw SAT (at most 0xC000
entries; the real table has 11386) holds a file chain `c` — each sector's word names the next
sector, the last one's word is the end mark `0xC000` — and the decoder accepts the table, then the
decoded link table contains `c` as a chain, so `get_path` from its head resolves exactly `c`, in
order. Nothing is assumed about the rest of the table. -/
theorem C07_akai_wf (words : List Nat) (links : List Link) (h : akaiDecode words = .ok links)
    (hsize : words.length ≤ SAT_EOF)
    (c : List Nat) (hc : ARawChain words.toArray c) :
    Chain links c ∧ getPath links words.length (c.headD 0) = .ok c := by
  have hlen : c.length ≤ words.length := by simpa using arawChain_length words.toArray c hc
  have hchain : Chain links c := by
    unfold akaiDecode akaiDecodeSt at h
    simp only at h
    have hfun : (fun (st : AkaiSt) i => if st.dirty[i]?.getD true = true then pure st else akaiWalk words.toArray st [] i)
        = akStep words.toArray := by
      funext st i; rfl
    rw [hfun] at h
    have hr : List.range words.length = List.range' 0 words.length := List.range_eq_range'
    rw [hr] at h
    cases hfold : (List.range' 0 words.length).foldlM (akStep words.toArray)
        ({ links := List.replicate words.length Link.dflt, dirty := Array.replicate words.length false, prevDir := true } : AkaiSt) with
    | error e => rw [hfold] at h; simp [Except.map] at h
    | ok st' =>
      rw [hfold] at h
      simp only [Except.map, Except.ok.injEq] at h
      subst h
      have hinv0 : AInv words.toArray c 0
          ({ links := List.replicate words.length Link.dflt, dirty := Array.replicate words.length false, prevDir := true } : AkaiSt) := by
        refine ⟨?_, by simp, by simp, by intro j hj; omega⟩
        intro x _ hx
        exfalso
        rw [Array.getElem?_replicate] at hx
        split at hx <;> simp at hx
      have hfin := ak_fold words.toArray c hc (by simpa using hsize) words.length 0 _ st' hinv0 hfold
      apply achain_of_installed words.toArray st'.links c hc
      intro x hx
      apply hfin.inst x hx
      have hxlt : x < words.toArray.size := by
        rcases arawChain_mem words.toArray c hc x hx with h1 | ⟨b, hb, _⟩
        · exact lt_of_getElem? _ _ _ h1
        · exact lt_of_getElem? _ _ _ hb
      exact hfin.below x (by simpa using hxlt) hxlt
  exact ⟨hchain, C07_getPath_wf links words.length c hchain hlen⟩

/-- the premises are satisfiable: a chain 3 → 5 → 4 (head not the lowest sector), next to a
directory run and a free sector. -/
example : ARawChain #[0x4000, 0xC000, 0, 5, 0xC000, 4] [3, 5, 4] := by
  simp [ARawChain, isPlain, SAT_FREE, SAT_EOF, isDirWord, SAT_RES1, SAT_RES2]

end Smpl.Props.C07
