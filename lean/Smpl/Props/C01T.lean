/-
C01 (the writer's side, file table): a volume directory written entry by entry, closed by the end
marker, parses back to exactly the entries written, whatever follows the marker.
-/
import Smpl.Props.C01W

set_option linter.unusedSimpArgs false

namespace Smpl.Props.C01
open Smpl Smpl.Akai Smpl.Alloc

/-- what a writer stores in one 24-byte directory entry. -/
structure EntryImg where
  nameRaw : Bytes          -- 12 AKAI character codes
  ftype : Nat
  size : Nat
  start : Nat
  fill : Nat → Nat         -- bytes 12..15, 22, 23

def EntryImg.byteAt (e : EntryImg) (i : Nat) : Nat :=
  if i < 12 then e.nameRaw.getD i 0
  else if i = 16 then e.ftype
  else if 17 ≤ i ∧ i < 20 then digit e.size (i - 17)
  else if 20 ≤ i ∧ i < 22 then digit e.start (i - 20)
  else e.fill i

def EntryImg.bytes (e : EntryImg) : Bytes := (List.range 24).map e.byteAt

theorem EntryImg.bytes_length (e : EntryImg) : e.bytes.length = 24 := by simp [EntryImg.bytes]

structure EntryImg.Ok (p : Part) (e : EntryImg) (name : Smpl.Names.Name) : Prop where
  len : e.nameRaw.length = 12
  codes : ∀ b ∈ e.nameRaw, b ≤ 0x28
  name : akaiStr e.nameRaw = some name
  ftype : validFileType e.ftype = true
  size : e.size < 16777216
  start : 0 < e.start ∧ e.start < 65536
  path : ∃ path, getPath p.links SAT_ENTRIES e.start = .ok path

theorem rd_skip (pre x : Bytes) (k n : Nat) : rd (pre ++ x) (pre.length + k) n = rd x k n := by
  unfold rd
  simp only [List.length_append]
  have : pre.length + k + n ≤ pre.length + x.length ↔ k + n ≤ x.length := by omega
  by_cases h : k + n ≤ x.length
  · simp only [this.mpr h, h, if_true]
    rw [List.drop_append, List.drop_of_length_le (by omega)]
    simp
  · have h' : ¬ pre.length + k + n ≤ pre.length + x.length := by omega
    simp [h, h']

theorem uN_skip (pre x : Bytes) (k n : Nat) : uN (pre ++ x) (pre.length + k) n = uN x k n := by
  unfold uN; rw [rd_skip]

theorem le3 (n : Nat) (h : n < 16777216) : leVal [digit n 0, digit n 1, digit n 2] = n := by
  simp only [leVal, digit]
  omega

theorem rd_entry (e : EntryImg) (rest : Bytes) (off n : Nat) (h : off + n ≤ 24) :
    rd (e.bytes ++ rest) off n = some ((List.range' off n).map e.byteAt) := rd_map 24 e.byteAt rest off n h

theorem uN_entry (e : EntryImg) (rest : Bytes) (off n : Nat) (h : off + n ≤ 24) :
    uN (e.bytes ++ rest) off n = some (leVal ((List.range' off n).map e.byteAt)) := by
  unfold uN; rw [rd_entry e rest off n h]; rfl

/-- the entry a written image denotes. -/
def EntryImg.toEntry (e : EntryImg) (name : Smpl.Names.Name) : FileEntry := ⟨name, e.ftype, e.size, e.start⟩

theorem parseEntry_written (p : Part) (e : EntryImg) (name : Smpl.Names.Name) (hok : e.Ok p name)
    (pre rest : Bytes) :
    parseEntry p (pre ++ (e.bytes ++ rest)) pre.length = .entry (e.toEntry name) ∧
    uN (pre ++ (e.bytes ++ rest)) (pre.length + 8) 2 ≠ some TABLE_END := by
  have hl := hok.len
  obtain ⟨path, hpath⟩ := hok.path
  match hn : e.nameRaw, hl with
  | [a0, a1, a2, a3, a4, a5, a6, a7, a8, a9, a10, a11], _ =>
    have hraw : rd (pre ++ (e.bytes ++ rest)) pre.length 12 = some e.nameRaw := by
      have := rd_skip pre (e.bytes ++ rest) 0 12
      rw [Nat.add_zero] at this
      rw [this, rd_entry e rest 0 12 (by omega)]
      simp [List.range'_succ, EntryImg.byteAt, hn]
    have hft : uN (pre ++ (e.bytes ++ rest)) (pre.length + 16) 1 = some e.ftype := by
      rw [uN_skip, uN_entry e rest 16 1 (by omega)]
      simp [List.range'_succ, EntryImg.byteAt, leVal]
    have hsz : uN (pre ++ (e.bytes ++ rest)) (pre.length + 17) 3 = some e.size := by
      rw [uN_skip, uN_entry e rest 17 3 (by omega)]
      simp only [List.range'_succ, List.range'_zero, List.map_cons, List.map_nil, EntryImg.byteAt]
      simp only [Nat.reduceEqDiff, Nat.reduceLeDiff, Nat.reduceLT, Nat.reduceSub, if_true, if_false, and_self, and_true,
        and_false, false_and, Nat.reduceAdd]
      congr 1
      exact le3 _ hok.size
    have hst : uN (pre ++ (e.bytes ++ rest)) (pre.length + 20) 2 = some e.start := by
      rw [uN_skip, uN_entry e rest 20 2 (by omega)]
      simp only [List.range'_succ, List.range'_zero, List.map_cons, List.map_nil, EntryImg.byteAt]
      simp only [Nat.reduceEqDiff, Nat.reduceLeDiff, Nat.reduceLT, Nat.reduceSub, if_true, if_false, and_self, and_true,
        and_false, false_and, Nat.reduceAdd]
      congr 1
      exact le2 _ hok.start.2
    constructor
    · unfold parseEntry
      simp only [hraw, hft, hsz, hst, hok.name, hok.ftype, hpath, Bool.not_true, Bool.false_eq_true, if_false]
      rfl
    · rw [uN_skip, uN_entry e rest 8 2 (by omega)]
      simp only [List.range'_succ, List.range'_zero, List.map_cons, List.map_nil, EntryImg.byteAt, hn]
      simp only [Nat.reduceLT, if_true, List.getD_cons_succ, List.getD_cons_zero, Nat.reduceAdd]
      have h8 : a8 ≤ 0x28 := hok.codes a8 (by rw [hn]; simp)
      have h9 : a9 ≤ 0x28 := hok.codes a9 (by rw [hn]; simp)
      intro hcontra
      simp only [leVal, Option.some.injEq] at hcontra
      unfold TABLE_END at hcontra
      omega

/-- **C01 (the directory a writer stores is the directory the parser reads).** A volume directory
written as `n` well-formed 24-byte entries (valid name codes, a listed file type, a 24-bit size, a
start sector whose chain resolves) followed by an entry slot that carries the end marker `0xD747`
parses to exactly those `n` entries in order — whatever follows the marker, whatever the unspecified
bytes hold, and whatever precedes the table when it is read from slot `i`. -/
theorem fileTable_written (p : Part) (tail : Bytes) (htail : uN tail 8 2 = some TABLE_END) :
    ∀ (es : List (EntryImg × Smpl.Names.Name)) (pre : Bytes) (i fuel : Nat),
      pre.length = i * FILE_ENTRY_BYTES → es.length < fuel → (∀ x ∈ es, x.1.Ok p x.2) →
      fileTable p (pre ++ (es.flatMap (fun x => x.1.bytes) ++ tail)) fuel i
        = .ok (es.map fun x => x.1.toEntry x.2) := by
  intro es
  induction es with
  | nil =>
    intro pre i fuel hpre hf _
    cases fuel with
    | zero => omega
    | succ f =>
      simp only [fileTable, List.flatMap_nil, List.nil_append, List.map_nil]
      rw [← hpre, uN_skip, htail]
      simp
  | cons x es ih =>
    intro pre i fuel hpre hf hok
    cases fuel with
    | zero => simp at hf
    | succ f =>
      obtain ⟨e, name⟩ := x
      have hex : e.Ok p name := hok (e, name) (by simp)
      have hshape : pre ++ (List.flatMap (fun x => x.1.bytes) ((e, name) :: es) ++ tail)
          = pre ++ (e.bytes ++ (List.flatMap (fun x => x.1.bytes) es ++ tail)) := by
        simp [List.flatMap_cons, List.append_assoc]
      obtain ⟨hpe, hmark⟩ := parseEntry_written p e name hex pre (List.flatMap (fun x => x.1.bytes) es ++ tail)
      have hnext : pre ++ (e.bytes ++ (List.flatMap (fun x => x.1.bytes) es ++ tail))
          = (pre ++ e.bytes) ++ (List.flatMap (fun x => x.1.bytes) es ++ tail) := by
        simp [List.append_assoc]
      have hrec := ih (pre ++ e.bytes) (i + 1) f
        (by rw [List.length_append, e.bytes_length, hpre]; unfold FILE_ENTRY_BYTES; omega)
        (by simp at hf; omega) (fun y hy => hok y (by simp [hy]))
      rw [hshape]
      simp only [fileTable]
      rw [← hpre]
      cases hm : uN (pre ++ (e.bytes ++ (List.flatMap (fun x => x.1.bytes) es ++ tail))) (pre.length + 8) 2 with
      | none =>
        exfalso
        -- the marker bytes are inside the entry: they can be read
        have : uN (pre ++ (e.bytes ++ (List.flatMap (fun x => x.1.bytes) es ++ tail))) (pre.length + 8) 2
            = some (leVal ((List.range' 8 2).map e.byteAt)) := by
          rw [uN_skip, uN_entry e _ 8 2 (by omega)]
        rw [this] at hm; cases hm
      | some flag =>
        have hne : flag ≠ TABLE_END := by
          intro e'; rw [e'] at hm; exact hmark hm
        simp only [hne, if_false, hpe]
        rw [hnext, hrec]
        simp only [List.map_cons, EntryImg.toEntry, hex.start.1, if_true]

theorem table_bytes_length (es : List (EntryImg × Smpl.Names.Name)) :
    (es.flatMap (fun x => x.1.bytes)).length = es.length * FILE_ENTRY_BYTES := by
  induction es with
  | nil => simp
  | cons x xs ih =>
    simp only [List.flatMap_cons, List.length_append, List.length_cons, x.1.bytes_length, ih]
    unfold FILE_ENTRY_BYTES; omega

/-- **C01 (a written volume, from the raw image).** Let the partition at byte `pos` parse to `p`, and
let a volume entry of it point to a directory whose sector chain `dc` is a file chain of the raw
segment allocation table (it may equally be a reserved-flag run: `C07_akai_dir_run`) lying inside
the partition. If the directory's content — the sectors of `dc` in order — is a table written as
above (entries, marker slot, anything), the volume is realised with exactly the written entries, each
realised by `realizeFile` (for sample files: `C01_written_sample`), in directory order. -/
theorem C01_written_volume (file : Bytes) (pos letter : Nat) (p : Part) (next : Nat)
    (hp : parsePartition file pos letter = .ok (some (p, next)))
    (v : VolEntry) (hv : v.vtype ≠ 0) (dc : List Nat)
    (hpath : getPath p.links SAT_ENTRIES v.start = .ok dc) (hin : SectorsInside p dc)
    (es : List (EntryImg × Smpl.Names.Name)) (tail : Bytes) (htail : uN tail 8 2 = some TABLE_END)
    (htl : FILE_ENTRY_BYTES ≤ tail.length)
    (hcontent : segment p dc = es.flatMap (fun x => x.1.bytes) ++ tail)
    (hok : ∀ x ∈ es, x.1.Ok p x.2) (programOk : Bytes → Bool) :
    volumes p programOk [v] = .ok [⟨v.name, v.vtype,
      (es.map fun x => x.1.toEntry x.2).filterMap (realizeFile p · programOk), none⟩] := by
  have _ := hp
  have hseg : segmentPrefix p dc = segment p dc := C01_prefix_is_segment p dc hin
  have hlen := table_bytes_length es
  have hfuel : es.length < (segmentPrefix p dc).length / FILE_ENTRY_BYTES := by
    rw [hseg, hcontent, List.length_append, hlen]
    unfold FILE_ENTRY_BYTES at *
    omega
  have htab := fileTable_written p tail htail es [] 0 ((segmentPrefix p dc).length / FILE_ENTRY_BYTES)
    (by simp) hfuel hok
  simp only [List.nil_append] at htab
  simp only [volumes, hv, if_false, hpath]
  rw [hseg, hcontent] at *
  rw [htab]

/-- premises satisfiable: a marker slot. -/
example : uN ([0, 0, 0, 0, 0, 0, 0, 0, 0x47, 0xD7] ++ [1, 2, 3]) 8 2 = some TABLE_END := by decide

end Smpl.Props.C01
