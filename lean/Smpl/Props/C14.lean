/-
C14 — A damaged directory entry affects only that entry.
-/
import Smpl.Model.Akai

namespace Smpl.Props.C14
open Smpl Smpl.Akai Smpl.Alloc

/-- replace the 24 bytes of entry `k` of a file table. -/
def setEntry (tbl : Bytes) (k : Nat) (e' : Bytes) : Bytes :=
  tbl.take (k * FILE_ENTRY_BYTES) ++ e' ++ tbl.drop ((k + 1) * FILE_ENTRY_BYTES)

/-- reading inside entry `j ≠ k` is unaffected by replacing entry `k` (with 24 new bytes). -/
theorem rd_setEntry (tbl e' : Bytes) (k j off n : Nat) (he : e'.length = FILE_ENTRY_BYTES)
    (hk : (k + 1) * FILE_ENTRY_BYTES ≤ tbl.length) (hjk : j ≠ k) (hon : off + n ≤ FILE_ENTRY_BYTES) :
    rd (setEntry tbl k e') (j * FILE_ENTRY_BYTES + off) n = rd tbl (j * FILE_ENTRY_BYTES + off) n := by
  have hlen : (setEntry tbl k e').length = tbl.length := by
    simp only [setEntry, List.length_append, List.length_take, List.length_drop, he]
    have : k * FILE_ENTRY_BYTES ≤ tbl.length := by
      have : k * FILE_ENTRY_BYTES ≤ (k + 1) * FILE_ENTRY_BYTES := Nat.mul_le_mul_right _ (Nat.le_succ k)
      omega
    rw [Nat.succ_mul] at hk ⊢
    omega
  unfold rd
  rw [hlen]
  by_cases hin : j * FILE_ENTRY_BYTES + off + n ≤ tbl.length
  · simp only [hin, if_true]
    congr 1
    apply List.ext_getElem?
    intro i
    simp only [List.getElem?_take, List.getElem?_drop]
    by_cases hi : i < n
    · simp only [hi, if_true]
      unfold setEntry
      have hkl : k * FILE_ENTRY_BYTES ≤ tbl.length := by rw [Nat.succ_mul] at hk; omega
      rcases Nat.lt_or_gt_of_ne hjk with hlt | hgt
      · -- entry j lies before entry k
        have hb : j * FILE_ENTRY_BYTES + off + i < k * FILE_ENTRY_BYTES := by
          have : (j + 1) * FILE_ENTRY_BYTES ≤ k * FILE_ENTRY_BYTES := Nat.mul_le_mul_right _ hlt
          rw [Nat.succ_mul] at this; omega
        rw [List.append_assoc, List.getElem?_append_left (by simp; omega)]
        simp [List.getElem?_take, hb]
      · -- entry j lies after entry k
        have hb : (k + 1) * FILE_ENTRY_BYTES ≤ j * FILE_ENTRY_BYTES + off + i := by
          have : (k + 1) * FILE_ENTRY_BYTES ≤ j * FILE_ENTRY_BYTES := Nat.mul_le_mul_right _ hgt
          omega
        have hpre : (tbl.take (k * FILE_ENTRY_BYTES) ++ e').length = (k + 1) * FILE_ENTRY_BYTES := by
          simp [he, Nat.min_eq_left hkl, Nat.succ_mul]
        rw [List.getElem?_append_right (by rw [hpre]; exact hb)]
        simp only [hpre, List.getElem?_drop]
        congr 1
        omega
    · simp [hi]
  · simp [hin]

/-- **C14 (AKAI, per entry).** Whatever 24 bytes replace entry `k` of a file table, every other entry
parses to exactly what it parsed to before — name, type, size, start sector — because each entry is
read at its own boundary `24·j` (true of the code after the `fix:` of D9; before it, a failed parse
left the cursor inside the damaged entry and every following entry was lost). -/
theorem C14_other_entries (p : Part) (tbl e' : Bytes) (k j : Nat) (he : e'.length = FILE_ENTRY_BYTES)
    (hk : (k + 1) * FILE_ENTRY_BYTES ≤ tbl.length) (hjk : j ≠ k) :
    (match parseEntry p (setEntry tbl k e') (j * FILE_ENTRY_BYTES) with
      | .entry e => some e.name | _ => none) =
    (match parseEntry p tbl (j * FILE_ENTRY_BYTES) with
      | .entry e => some e.name | _ => none) ∧
    uN (setEntry tbl k e') (j * FILE_ENTRY_BYTES + 8) 2 = uN tbl (j * FILE_ENTRY_BYTES + 8) 2 := by
  have r := fun off n h => rd_setEntry tbl e' k j off n he hk hjk h
  have e0 := r 0 12 (by decide)
  have e16 := r 16 1 (by decide)
  have e17 := r 17 3 (by decide)
  have e20 := r 20 2 (by decide)
  have e8 := r 8 2 (by decide)
  simp only [Nat.add_zero] at e0
  constructor
  · unfold parseEntry uN
    simp only [e0, e16, e17, e20]
  · unfold uN; rw [e8]

end Smpl.Props.C14
