/-
C01 (the writer's side): a 140-byte AKAI sample header written field by field parses back to exactly
the values written, whatever the unspecified bytes and whatever follows the header.
-/
import Smpl.Props.C01S

set_option linter.unusedSimpArgs false

namespace Smpl.Props.C01
open Smpl Smpl.Akai

/-- byte `k` (little endian) of `n`. -/
def digit (n : Nat) : Nat → Nat
  | 0 => n % 256
  | 1 => n / 256 % 256
  | 2 => n / 65536 % 256
  | _ => n / 16777216 % 256

structure LoopImg where
  pos : Nat
  fine : Nat
  coarse : Nat
  dur : Nat

/-- what a writer stores in a sample header. -/
structure HdrImg where
  id : Nat
  note : Nat
  nameRaw : Bytes          -- 12 AKAI character codes
  lt : Nat
  cents : Nat
  semi : Nat
  cnt : Nat
  start : Nat
  end_ : Nat
  loops : Nat → LoopImg    -- entries 0..7
  rate : Nat
  fill : Nat → Nat         -- every byte the parser does not look at

def HdrImg.byteAt (h : HdrImg) (i : Nat) : Nat :=
  if i = 0 then h.id
  else if i = 2 then h.note
  else if 3 ≤ i ∧ i < 15 then h.nameRaw.getD (i - 3) 0
  else if i = 19 then h.lt
  else if i = 20 then h.cents
  else if i = 21 then h.semi
  else if 26 ≤ i ∧ i < 30 then digit h.cnt (i - 26)
  else if 30 ≤ i ∧ i < 34 then digit h.start (i - 30)
  else if 34 ≤ i ∧ i < 38 then digit h.end_ (i - 34)
  else if 38 ≤ i ∧ i < 134 then
    let l := h.loops ((i - 38) / 12)
    let r := (i - 38) % 12
    if r < 4 then digit l.pos r else if r < 6 then digit l.fine (r - 4)
    else if r < 10 then digit l.coarse (r - 6) else digit l.dur (r - 10)
  else if 138 ≤ i ∧ i < 140 then digit h.rate (i - 138)
  else h.fill i

/-- the 140 header bytes. -/
def HdrImg.bytes (h : HdrImg) : Bytes := (List.range 140).map h.byteAt

theorem rd_map (N : Nat) (f : Nat → Nat) (rest : Bytes) (off n : Nat) (h : off + n ≤ N) :
    rd ((List.range N).map f ++ rest) off n = some ((List.range' off n).map f) := by
  unfold rd
  have hlen : off + n ≤ ((List.range N).map f ++ rest).length := by simp; omega
  simp only [hlen, if_true]
  congr 1
  rw [List.drop_append_of_le_length (by simp; omega)]
  rw [List.take_append_of_le_length (by simp; omega)]
  rw [← List.map_drop, ← List.map_take, List.range_eq_range', List.drop_range',
    List.take_range'_of_length_ge (by omega)]
  congr 2
  omega

theorem le4 (n : Nat) (h : n < 4294967296) : leVal [digit n 0, digit n 1, digit n 2, digit n 3] = n := by
  simp only [leVal, digit]
  omega

theorem le2 (n : Nat) (h : n < 65536) : leVal [digit n 0, digit n 1] = n := by
  simp only [leVal, digit]
  omega

/-- reading `k` header bytes at `off` -/
theorem rd_hdr (h : HdrImg) (rest : Bytes) (off n : Nat) (hle : off + n ≤ 140) :
    rd (h.bytes ++ rest) off n = some ((List.range' off n).map h.byteAt) :=
  rd_map 140 h.byteAt rest off n hle

theorem uN_hdr (h : HdrImg) (rest : Bytes) (off n : Nat) (hle : off + n ≤ 140) :
    uN (h.bytes ++ rest) off n = some (leVal ((List.range' off n).map h.byteAt)) := by
  unfold uN; rw [rd_hdr h rest off n hle]; rfl

/-- the ranges a well-formed header keeps its fields in. -/
structure HdrImg.Ok (h : HdrImg) : Prop where
  id : h.id = 1 ∨ h.id = 3
  note : h.note < 256
  name : h.nameRaw.length = 12
  lt : h.lt ≤ 4
  cents : h.cents < 256
  semi : h.semi < 256
  cnt : h.cnt < 4294967296
  start : h.start < 4294967296
  end_ : h.end_ < 4294967296
  loops : ∀ e, e < 8 → (h.loops e).pos < 4294967296 ∧ (h.loops e).coarse < 4294967296 ∧ (h.loops e).dur < 65536
  rate : h.rate < 65536

theorem loop_at (h : HdrImg) (hok : h.Ok) (rest : Bytes) (e : Nat) (he : e < 8) :
    uN (h.bytes ++ rest) (38 + 12 * e) 4 = some (h.loops e).pos ∧
    uN (h.bytes ++ rest) (38 + 12 * e + 6) 4 = some (h.loops e).coarse ∧
    uN (h.bytes ++ rest) (38 + 12 * e + 10) 2 = some (h.loops e).dur := by
  obtain ⟨h1, h2, h3⟩ := hok.loops e he
  have hb : ∀ r, r < 12 → h.byteAt (38 + 12 * e + r) =
      (if r < 4 then digit (h.loops e).pos r else if r < 6 then digit (h.loops e).fine (r - 4)
       else if r < 10 then digit (h.loops e).coarse (r - 6) else digit (h.loops e).dur (r - 10)) := by
    intro r hr
    unfold HdrImg.byteAt
    have c1 : ¬ (38 + 12 * e + r = 0) := by omega
    have c2 : ¬ (38 + 12 * e + r = 2) := by omega
    have c3 : ¬ (3 ≤ 38 + 12 * e + r ∧ 38 + 12 * e + r < 15) := by omega
    have c4 : ¬ (38 + 12 * e + r = 19) := by omega
    have c5 : ¬ (38 + 12 * e + r = 20) := by omega
    have c6 : ¬ (38 + 12 * e + r = 21) := by omega
    have c7 : ¬ (26 ≤ 38 + 12 * e + r ∧ 38 + 12 * e + r < 30) := by omega
    have c8 : ¬ (30 ≤ 38 + 12 * e + r ∧ 38 + 12 * e + r < 34) := by omega
    have c9 : ¬ (34 ≤ 38 + 12 * e + r ∧ 38 + 12 * e + r < 38) := by omega
    have c10 : 38 ≤ 38 + 12 * e + r ∧ 38 + 12 * e + r < 134 := by omega
    have e1 : (38 + 12 * e + r - 38) / 12 = e := by omega
    have e2 : (38 + 12 * e + r - 38) % 12 = r := by omega
    simp only [c1, c2, c3, c4, c5, c6, c7, c8, c9, c10, and_self, if_true, if_false, e1, e2]
  refine ⟨?_, ?_, ?_⟩
  · rw [uN_hdr h rest _ 4 (by omega)]
    simp only [List.range'_succ, List.range'_zero, List.map_cons, List.map_nil]
    have a0 := hb 0 (by omega); have a1 := hb 1 (by omega); have a2 := hb 2 (by omega); have a3 := hb 3 (by omega)
    simp only [Nat.add_zero] at a0
    rw [a0, show 38 + 12 * e + 1 = 38 + 12 * e + 1 from rfl, a1, a2, a3]
    simp only [Nat.lt_irrefl, if_true, Nat.reduceLT]
    congr 1
    exact le4 _ h1
  · rw [uN_hdr h rest _ 4 (by omega)]
    simp only [List.range'_succ, List.range'_zero, List.map_cons, List.map_nil]
    have a0 := hb 6 (by omega); have a1 := hb 7 (by omega); have a2 := hb 8 (by omega); have a3 := hb 9 (by omega)
    rw [a0, show 38 + 12 * e + 6 + 1 = 38 + 12 * e + 7 by omega, a1, show 38 + 12 * e + 7 + 1 = 38 + 12 * e + 8 by omega, a2,
      show 38 + 12 * e + 8 + 1 = 38 + 12 * e + 9 by omega, a3]
    simp only [Nat.reduceLT, if_true, if_false, Nat.reduceSub]
    congr 1
    exact le4 _ h2
  · rw [uN_hdr h rest _ 2 (by omega)]
    simp only [List.range'_succ, List.range'_zero, List.map_cons, List.map_nil]
    have a0 := hb 10 (by omega); have a1 := hb 11 (by omega)
    rw [a0, show 38 + 12 * e + 10 + 1 = 38 + 12 * e + 11 by omega, a1]
    simp only [Nat.reduceLT, if_true, if_false, Nat.reduceSub]
    congr 1
    exact le2 _ h3

def HdrImg.loopEntries (h : HdrImg) : List LoopEntry :=
  (List.range' 0 8).map fun i => ⟨(h.loops i).pos, (h.loops i).coarse, (h.loops i).dur⟩

theorem parseLoops_hdr (h : HdrImg) (hok : h.Ok) (rest : Bytes) :
    ∀ (k e : Nat), e + k = 8 →
      parseLoops (h.bytes ++ rest) (38 + 12 * e) k
        = some ((List.range' e k).map fun i => ⟨(h.loops i).pos, (h.loops i).coarse, (h.loops i).dur⟩) := by
  intro k
  induction k with
  | zero => intro e _; rfl
  | succ k ih =>
    intro e he
    obtain ⟨h1, h2, h3⟩ := loop_at h hok rest e (by omega)
    have := ih (e + 1) (by omega)
    have eo : 38 + 12 * (e + 1) = 38 + 12 * e + 12 := by omega
    rw [eo] at this
    simp only [parseLoops, h1, h2, h3, this, List.range'_succ, List.map_cons, bind, Option.bind, pure]

/-- **C01 (the sample header a writer stores is the header the parser reads).** For every header image
whose fields are in range, parsing the 140 header bytes — followed by anything — returns exactly the
written values: type, root note, name, loop mode, tuning bytes, word count, start and end markers,
the eight loop entries (position, coarse length, duration) and the sample rate. The bytes the
parser does not look at (`fill`, and the fine-length bytes of the loops) do not matter. -/
theorem C01_header_roundtrip (h : HdrImg) (hok : h.Ok) (rest : Bytes) (name : Smpl.Names.Name)
    (hname : akaiStr h.nameRaw = some name) :
    parseSampleHdr (h.bytes ++ rest) = some
      ⟨h.id, h.note, name, h.lt, h.cents, h.semi, h.cnt, h.start, h.end_, h.loopEntries, h.rate⟩ := by
  have hid : uN (h.bytes ++ rest) 0 1 = some h.id := by
    rw [uN_hdr h rest 0 1 (by omega)]
    have := hok.id
    simp [List.range'_succ, HdrImg.byteAt, leVal]
  have hnote : uN (h.bytes ++ rest) 2 1 = some h.note := by
    rw [uN_hdr h rest 2 1 (by omega)]
    simp [List.range'_succ, HdrImg.byteAt, leVal]
  have hraw : rd (h.bytes ++ rest) 3 12 = some h.nameRaw := by
    rw [rd_hdr h rest 3 12 (by omega)]
    congr 1
    have hl := hok.name
    match hn : h.nameRaw, hl with
    | [a0, a1, a2, a3, a4, a5, a6, a7, a8, a9, a10, a11], _ =>
      simp [List.range'_succ, HdrImg.byteAt, hn]
  have hlt : uN (h.bytes ++ rest) 19 1 = some h.lt := by
    rw [uN_hdr h rest 19 1 (by omega)]
    simp [List.range'_succ, HdrImg.byteAt, leVal]
  have hcents : uN (h.bytes ++ rest) 20 1 = some h.cents := by
    rw [uN_hdr h rest 20 1 (by omega)]
    simp [List.range'_succ, HdrImg.byteAt, leVal]
  have hsemi : uN (h.bytes ++ rest) 21 1 = some h.semi := by
    rw [uN_hdr h rest 21 1 (by omega)]
    simp [List.range'_succ, HdrImg.byteAt, leVal]
  have hcnt : uN (h.bytes ++ rest) 26 4 = some h.cnt := by
    rw [uN_hdr h rest 26 4 (by omega)]
    simp only [List.range'_succ, List.range'_zero, List.map_cons, List.map_nil, HdrImg.byteAt]
    simp only [Nat.reduceEqDiff, Nat.reduceLeDiff, Nat.reduceLT, Nat.reduceSub, if_true, if_false, and_self, and_true,
      and_false, false_and, Nat.reduceAdd]
    congr 1
    exact le4 _ hok.cnt
  have hstart : uN (h.bytes ++ rest) 30 4 = some h.start := by
    rw [uN_hdr h rest 30 4 (by omega)]
    simp only [List.range'_succ, List.range'_zero, List.map_cons, List.map_nil, HdrImg.byteAt]
    simp only [Nat.reduceEqDiff, Nat.reduceLeDiff, Nat.reduceLT, Nat.reduceSub, if_true, if_false, and_self, and_true,
      and_false, false_and, Nat.reduceAdd]
    congr 1
    exact le4 _ hok.start
  have hend : uN (h.bytes ++ rest) 34 4 = some h.end_ := by
    rw [uN_hdr h rest 34 4 (by omega)]
    simp only [List.range'_succ, List.range'_zero, List.map_cons, List.map_nil, HdrImg.byteAt]
    simp only [Nat.reduceEqDiff, Nat.reduceLeDiff, Nat.reduceLT, Nat.reduceSub, if_true, if_false, and_self, and_true,
      and_false, false_and, Nat.reduceAdd]
    congr 1
    exact le4 _ hok.end_
  have hrate : uN (h.bytes ++ rest) 138 2 = some h.rate := by
    rw [uN_hdr h rest 138 2 (by omega)]
    simp only [List.range'_succ, List.range'_zero, List.map_cons, List.map_nil, HdrImg.byteAt]
    simp only [Nat.reduceEqDiff, Nat.reduceLeDiff, Nat.reduceLT, Nat.reduceSub, if_true, if_false, and_self, and_true,
      and_false, false_and, Nat.reduceAdd]
    congr 1
    exact le2 _ hok.rate
  have hloops := parseLoops_hdr h hok rest 8 0 (by omega)
  simp only [Nat.mul_zero, Nat.add_zero] at hloops
  have hidok : ¬ (h.id ≠ 1 ∧ h.id ≠ 3) := by have := hok.id; omega
  have hltok : ¬ h.lt > 4 := by have := hok.lt; omega
  unfold parseSampleHdr
  simp only [hid, hnote, hraw, hname, hlt, hcents, hsemi, hcnt, hstart, hend, hloops, hrate, hidok, hltok,
    bind, Option.bind, pure, if_false, HdrImg.loopEntries]

theorem HdrImg.bytes_length (h : HdrImg) : h.bytes.length = 140 := by simp [HdrImg.bytes]

theorem window_after_header (h : HdrImg) (data : Bytes) (k : Nat) (sz : Int) :
    window (h.bytes ++ data) (SAMPLE_HEADER_BYTES + k) sz = window data k sz := by
  unfold window
  split
  · rfl
  · have : (h.bytes ++ data).drop (SAMPLE_HEADER_BYTES + k) = data.drop k := by
      rw [List.drop_append, h.bytes_length]
      have : SAMPLE_HEADER_BYTES = 140 := rfl
      rw [List.drop_of_length_le (by rw [h.bytes_length]; omega)]
      simp [this]
    rw [this]

/-- **C01 (a written sample file, from the raw image).** Let the partition at byte `pos` parse to
`p`; let its raw segment allocation table hold a file chain `c` inside the partition that starts at
the directory entry's start sector; and let the file content — the sectors of `c` in chain order,
cut to the entry's size — be a written header image `h` (fields in range) followed by `data`. Then
the entry is realised as the sample with exactly the header values written and the audio
`data[2·start, 2·end)` — for every sector order, and whatever the unspecified header bytes are. -/
theorem C01_written_sample (file : Bytes) (pos letter : Nat) (p : Part) (next : Nat)
    (hp : parsePartition file pos letter = .ok (some (p, next)))
    (c : List Nat) (hc : Smpl.Props.C07.ARawChain (rawSat file pos).toArray c)
    (e : FileEntry) (hstart : c.headD 0 = e.start) (hin : SectorsInside p c)
    (hty : isSampleType e.ftype = true) (programOk : Bytes → Bool)
    (h : HdrImg) (hok : h.Ok) (name : Smpl.Names.Name) (hname : akaiStr h.nameRaw = some name) (data : Bytes)
    (hcontent : (segment p c).take e.size = h.bytes ++ data) :
    realizeFile p e programOk = some ⟨e.name, e.ftype,
      .sample ⟨h.id, h.note, name, h.lt, h.cents, h.semi, h.cnt, h.start, h.end_, h.loopEntries, h.rate⟩
        (window data (2 * h.start) (2 * ((h.end_ : Int) - h.start)))⟩ := by
  have hhdr := C01_header_roundtrip h hok data name hname
  rw [← hcontent] at hhdr
  rw [C01_sample_from_image file pos letter p next hp c hc e hstart hin hty _ programOk hhdr]
  simp only [hcontent, window_after_header]

/-- the premises are satisfiable: a plausible header image. -/
example : (⟨1, 60, List.replicate 12 10, 2, 0, 206, 100, 5, 90, fun _ => ⟨7, 0, 3, 9999⟩, 44100, fun i => i % 7⟩ : HdrImg).Ok :=
  ⟨Or.inl rfl, by decide, rfl, by decide, by decide, by decide, by decide, by decide, by decide,
   fun _ _ => ⟨by simp, by simp, by simp⟩, by decide⟩

end Smpl.Props.C01
