/-
C19 — De-emphasis filters give the same output however the signal is split into blocks.
-/
import Smpl.Model.Filter
import Smpl.Lemmas.Windows
import Smpl.Gen.Filter

namespace Smpl.Props.C19
open Smpl.Filter

variable {α : Type}

/-! ### IIR: any block split, no algebraic law used (valid for IEEE doubles) -/

theorem iir_process_append (f : Iir α) (a b : List α) :
    f.process (a ++ b) =
      ((f.process a).1 ++ ((f.process a).2.process b).1, ((f.process a).2.process b).2) := by
  induction a generalizing f with
  | nil => simp [Iir.process]
  | cons x xs ih =>
    simp only [List.cons_append, Iir.process]
    rw [ih]

/-- feeding block by block = feeding the concatenation in one block: same samples, same final state. -/
theorem C19_iir_split (f : Iir α) (blocks : List (List α)) :
    (f.run blocks).1.flatten = (f.process blocks.flatten).1 ∧
    (f.run blocks).2 = (f.process blocks.flatten).2 := by
  induction blocks generalizing f with
  | nil => simp [Iir.run, Iir.process]
  | cons b bs ih =>
    simp only [Iir.run, List.flatten_cons]
    rw [iir_process_append]
    have := ih (f.process b).2
    exact ⟨by rw [this.1], this.2⟩

/-- with the flush appended (which is empty for an IIR). -/
theorem C19_iir_split_all (f : Iir α) (blocks : List (List α)) :
    f.runAll blocks = f.runAll [blocks.flatten] := by
  have h := C19_iir_split f blocks
  simp [Iir.runAll, Iir.run, Iir.flush, h.1]

theorem iir_process_length (f : Iir α) (x : List α) : (f.process x).1.length = x.length := by
  induction x generalizing f with
  | nil => simp [Iir.process]
  | cons x xs ih => simp [Iir.process, ih]

/-- one output sample per input sample. -/
theorem C19_iir_count (f : Iir α) (blocks : List (List α)) :
    (f.runAll blocks).length = blocks.flatten.length := by
  rw [C19_iir_split_all]
  simp [Iir.runAll, Iir.run, Iir.flush, iir_process_length]

/-- resetting makes the filter behave like a new one (same coefficients). -/
theorem C19_iir_reset (o : Ops α) (b a : List α) (post : α → α) (xs : List α) :
    ((Iir.init o b a post).process xs).2.reset = Iir.init o b a post := by
  have inv : ∀ (f : Iir α) (xs : List α),
      (f.process xs).2.ops = f.ops ∧ (f.process xs).2.b = f.b ∧ (f.process xs).2.a = f.a ∧
      (f.process xs).2.post = f.post := by
    intro f xs
    induction xs generalizing f with
    | nil => simp [Iir.process]
    | cons x xs ih =>
      simp only [Iir.process]
      have := ih (f.step x).2
      simpa [Iir.step] using this
  obtain ⟨h1, h2, h3, h4⟩ := inv (Iir.init o b a post) xs
  cases hf : ((Iir.init o b a post).process xs).2 with
  | mk ops' b' a' post' xp yp =>
    rw [hf] at h1 h2 h3 h4
    simp only [Iir.init] at h1 h2 h3 h4 ⊢
    simp [Iir.reset, h1, h2, h3, h4]

/-- every output of an IIR run is a value of the feedback post-processor
(for the ChickenSys IIR: a value of `_c_bound`). -/
theorem C19_iir_outputs_post (f : Iir α) (xs : List α) :
    ∀ y ∈ (f.process xs).1, ∃ r, y = f.post r := by
  induction xs generalizing f with
  | nil => intro y hy; simp [Iir.process] at hy
  | cons x xs ih =>
    intro y hy
    simp only [Iir.process, List.mem_cons] at hy
    rcases hy with rfl | hy
    · exact ⟨_, rfl⟩
    · have := ih (f.step x).2 y hy
      simpa [Iir.step] using this

/-- `_c_bound` saturates (over the integers): never outside [-32767, 32767], identity inside. -/
theorem C19_csiir_sat (x : Int) :
    -32767 ≤ bound (-32767) 32767 x ∧ bound (-32767) 32767 x ≤ 32767 ∧
    (-32767 ≤ x → x ≤ 32767 → bound (-32767) 32767 x = x) := by
  unfold bound; split <;> (try split) <;> omega

/-- the double version used by the model: clamped to a limit, or passed through when within. -/
theorem C19_csiir_sat_float (x : Float) :
    floatBound x = Float.ofNat 32767 ∨ floatBound x = Float.ofInt (-32767) ∨
    (floatBound x = x ∧ ¬ x > Float.ofNat 32767 ∧ ¬ x < Float.ofInt (-32767)) := by
  unfold floatBound
  by_cases h1 : x > Float.ofNat 32767
  · simp [h1]
  · by_cases h2 : x < Float.ofInt (-32767)
    · simp [h1, h2]
    · simp [h1, h2]

/-- ChickenSys FIR: every output is within the int16 range — saturation, never wrap-around. -/
theorem C19_csfir_sat (h : List Int) (k : Int) (w : List Int) :
    -32768 ≤ csDot h k w ∧ csDot h k w ≤ 32767 := by
  unfold csDot boundAndFix; split <;> (try split) <;> omega

theorem C19_csfir_exact (y : Int) (h1 : -32768 ≤ y) (h2 : y ≤ 32767) : boundAndFix y = y := by
  unfold boundAndFix; split <;> (try split) <;> omega

/-! ### FIR -/

private theorem run_fields (step : Fir α → List α → List α × Fir α)
    (hs : ∀ f x, (step f x).2.n = f.n ∧ (step f x).2.m0 = f.m0 ∧ (step f x).2.dot = f.dot ∧
      (step f x).2.zero = f.zero) (f : Fir α) (bs : List (List α)) :
    (Fir.run step f bs).2.n = f.n ∧ (Fir.run step f bs).2.m0 = f.m0 ∧
    (Fir.run step f bs).2.dot = f.dot ∧ (Fir.run step f bs).2.zero = f.zero := by
  induction bs generalizing f with
  | nil => simp [Fir.run]
  | cons b bs ih =>
    simp only [Fir.run]
    obtain ⟨a1, a2, a3, a4⟩ := hs f b
    obtain ⟨b1, b2, b3, b4⟩ := ih (step f b).2
    exact ⟨b1.trans a1, b2.trans a2, b3.trans a3, b4.trans a4⟩

/-- invariant of the repaired filter: the history is the tail of everything seen so far, and the
outputs so far are the windows of everything seen so far. -/
private theorem fixed_inv (f : Fir α) (hn : 1 ≤ f.n) (H : List α) (hx : f.xprev = lastN (f.n - 1) H)
    (bs : List (List α)) :
    (windows f.n H).map f.dot ++ (Fir.run Fir.processFixed f bs).1.flatten
        = (windows f.n (H ++ bs.flatten)).map f.dot ∧
    (Fir.run Fir.processFixed f bs).2.xprev = lastN (f.n - 1) (H ++ bs.flatten) := by
  induction bs generalizing f H with
  | nil => simp [Fir.run, hx]
  | cons b bs ih =>
    simp only [Fir.run, List.flatten_cons]
    have hstep : (Fir.processFixed f b).2.xprev = lastN (f.n - 1) (H ++ b) := by
      simp only [Fir.processFixed, hx]; exact lastN_append_lastN _ _ _
    have := ih (Fir.processFixed f b).2 (by simpa [Fir.processFixed] using hn) (H ++ b)
      (by simpa [Fir.processFixed] using hstep)
    simp only [Fir.processFixed] at this ⊢
    constructor
    · rw [← List.append_assoc H b, ← this.1]
      simp only [Fir.convValid, hx]
      rw [windows_append' f.n hn H b, List.map_append, List.append_assoc]
    · rw [← List.append_assoc H b]; exact this.2

/-- Repaired FIR (history = tail of `x_prev ++ x`): feeding any blocks (even empty ones) and
flushing equals one valid convolution of the zero-padded whole signal. This is the full property;
it is the specification the code as written fails to meet (see `C19_fir_counterexample`). -/
theorem C19_fir_split_fixed (n m0 : Nat) (dot : List α → α) (zero : α) (hn : 1 ≤ n)
    (blocks : List (List α)) :
    Fir.runAll Fir.processFixed (Fir.init n m0 dot zero) blocks =
      (windows n (List.replicate (n - m0 - 1) zero ++ blocks.flatten ++ List.replicate m0 zero)).map dot := by
  have hm1 : (List.replicate (n - m0 - 1) zero).length < n := by simp; omega
  have hx0 : (Fir.init n m0 dot zero).xprev = lastN (n - 1) (List.replicate (n - m0 - 1) zero) := by
    simp only [Fir.init, lastN]
    have : (List.replicate (n - m0 - 1) zero).length - (n - 1) = 0 := by simp; omega
    rw [this]; rfl
  obtain ⟨h1, h2⟩ := fixed_inv (Fir.init n m0 dot zero) hn _ hx0 blocks
  obtain ⟨g1, g2, g3, g4⟩ := run_fields Fir.processFixed (by intro f x; simp [Fir.processFixed])
    (Fir.init n m0 dot zero) blocks
  have g1' : (Fir.run Fir.processFixed (Fir.init n m0 dot zero) blocks).2.n = n := g1
  have g2' : (Fir.run Fir.processFixed (Fir.init n m0 dot zero) blocks).2.m0 = m0 := g2
  have g3' : (Fir.run Fir.processFixed (Fir.init n m0 dot zero) blocks).2.dot = dot := g3
  have g4' : (Fir.run Fir.processFixed (Fir.init n m0 dot zero) blocks).2.zero = zero := g4
  have hw0 : windows n (List.replicate (n - m0 - 1) zero) = [] := windows_short _ _ hm1
  have h1' : (Fir.run Fir.processFixed (Fir.init n m0 dot zero) blocks).1.flatten
      = (windows n (List.replicate (n - m0 - 1) zero ++ blocks.flatten)).map dot := by
    have := h1
    simp only [show (Fir.init n m0 dot zero).n = n from rfl,
      show (Fir.init n m0 dot zero).dot = dot from rfl, hw0, List.map_nil, List.nil_append] at this
    exact this
  have h2' : (Fir.run Fir.processFixed (Fir.init n m0 dot zero) blocks).2.xprev
      = lastN (n - 1) (List.replicate (n - m0 - 1) zero ++ blocks.flatten) := h2
  simp only [Fir.runAll, Fir.flush, Fir.convValid, g1', g2', g3', g4', h2', h1']
  rw [← List.map_append, ← windows_append' n hn]

/-- as many outputs as inputs (needs `m0 < n`, as in every preset). -/
theorem C19_fir_count_fixed (n m0 : Nat) (dot : List α → α) (zero : α) (hn : 1 ≤ n) (hm : m0 < n)
    (blocks : List (List α)) :
    (Fir.runAll Fir.processFixed (Fir.init n m0 dot zero) blocks).length = blocks.flatten.length := by
  rw [C19_fir_split_fixed n m0 dot zero hn]
  simp [windows_length]; omega

/-- the code as written agrees with the repaired filter on every block at least as long as the
filter memory (`N - 1 ≥ 1`). -/
theorem process_eq_fixed (f : Fir α) (hn : 2 ≤ f.n) (b : List α) (hb : f.n - 1 ≤ b.length) :
    Fir.process f b = Fir.processFixed f b := by
  unfold Fir.process Fir.processFixed pyLast lastN
  have h0 : f.n - 1 ≠ 0 := by omega
  simp only [h0, if_false]
  congr 2
  have : (f.xprev ++ b).length - (f.n - 1) = f.xprev.length + (b.length - (f.n - 1)) := by
    simp; omega
  rw [this, List.drop_append]
  simp

private theorem run_eq_fixed (f : Fir α) (hn : 2 ≤ f.n) (bs : List (List α))
    (hb : ∀ b ∈ bs, f.n - 1 ≤ b.length) :
    Fir.run Fir.process f bs = Fir.run Fir.processFixed f bs := by
  induction bs generalizing f with
  | nil => rfl
  | cons b bs ih =>
    simp only [Fir.run]
    rw [process_eq_fixed f hn b (hb b (List.mem_cons_self ..))]
    rw [ih (Fir.processFixed f b).2 (by simpa [Fir.processFixed] using hn)
      (fun x hx => by simpa [Fir.processFixed] using hb x (List.mem_cons_of_mem _ hx))]

/-- PARTIAL (code as written): block-split invariance holds when every block has at least `N-1 ≥ 1`
samples. Full statement (any non-empty blocks) is FALSE of the pinned code: `C19_fir_counterexample`. -/
theorem C19_fir_split_partial (n m0 : Nat) (dot : List α → α) (zero : α) (hn : 2 ≤ n)
    (blocks : List (List α)) (hb : ∀ b ∈ blocks, n - 1 ≤ b.length) :
    Fir.runAll Fir.process (Fir.init n m0 dot zero) blocks =
      (windows n (List.replicate (n - m0 - 1) zero ++ blocks.flatten ++ List.replicate m0 zero)).map dot := by
  rw [← C19_fir_split_fixed n m0 dot zero (by omega)]
  simp only [Fir.runAll]
  rw [run_eq_fixed _ (by simpa [Fir.init] using hn) blocks (by simpa [Fir.init] using hb)]

theorem C19_fir_count_partial (n m0 : Nat) (dot : List α → α) (zero : α) (hn : 2 ≤ n) (hm : m0 < n)
    (blocks : List (List α)) (hb : ∀ b ∈ blocks, n - 1 ≤ b.length) :
    (Fir.runAll Fir.process (Fir.init n m0 dot zero) blocks).length = blocks.flatten.length := by
  rw [C19_fir_split_partial n m0 dot zero hn blocks hb]
  simp [windows_length]; omega

/-- The pinned code violates the property: a 4-tap FIR fed ten samples in blocks of two returns six
samples, and a 1-tap FIR duplicates its output (D11; replayed on the implementation). -/
theorem C19_fir_counterexample :
    (Fir.runAll Fir.process (Fir.init 4 0 (fun w => w.foldl (· + ·) (0 : Int)) 0)
        [[1, 2], [3, 4], [5, 6], [7, 8], [9, 10]]).length = 6 ∧
    Fir.runAll Fir.process (Fir.init 1 0 (fun w => w.foldl (· + ·) (0 : Int)) 0) [[1, 2], [3]]
        = [1, 2, 1, 2, 3, 3] := by
  decide

/-- resetting a FIR gives the initial state back. -/
theorem C19_fir_reset (n m0 : Nat) (dot : List α → α) (zero : α) (bs : List (List α)) :
    (Fir.run Fir.process (Fir.init n m0 dot zero) bs).2.reset = Fir.init n m0 dot zero := by
  obtain ⟨g1, g2, g3, g4⟩ :=
    run_fields Fir.process (by intro f x; simp [Fir.process]) (Fir.init n m0 dot zero) bs
  cases hf : (Fir.run Fir.process (Fir.init n m0 dot zero) bs).2 with
  | mk n' m0' dot' zero' xp =>
    rw [hf] at g1 g2 g3 g4
    simp only [Fir.init] at g1 g2 g3 g4 ⊢
    simp [Fir.reset, Fir.m1, g1, g2, g3, g4]

/-! ### preset constants: translator output (regenerated from filters/common.py) = model -/

theorem C19_gen_roland_preset :
    Gen.Filter.chickSysRolandH = chickSysRolandH ∧ Gen.Filter.chickSysRolandK = chickSysRolandK ∧
    Gen.Filter.chickSysRolandM0 = chickSysRolandM0 ∧ Gen.Filter.rolandPresetN = chickSysRolandH.length ∧
    Gen.Filter.rolandPresetM0 = chickSysRolandM0 ∧ Gen.Filter.rolandPresetK = chickSysRolandK ∧
    chickSysRolandM0 < chickSysRolandH.length := by decide

private def bitsOf (l : List Float) : List Nat := l.map fun x => x.toBits.toNat
private def presetB (c : Float × Float × Float) : List Float := (csIir c.1 c.2.1 c.2.2).b
private def presetA (c : Float × Float × Float) : List Float := (csIir c.1 c.2.1 c.2.2).a

theorem C19_gen_iir_presets :
    Gen.Filter.standardB = bitsOf (presetB csStandard) ∧ Gen.Filter.standardA = bitsOf (presetA csStandard) ∧
    Gen.Filter.darkerB = bitsOf (presetB csDarker) ∧ Gen.Filter.darkerA = bitsOf (presetA csDarker) ∧
    Gen.Filter.specialB = bitsOf (presetB csSpecial) ∧ Gen.Filter.specialA = bitsOf (presetA csSpecial) := by
  decide +kernel

/-- the CDXtract FIR preset has 8 taps and delay offset 0 (so `m0 < n`, the count hypothesis). -/
theorem C19_gen_cdxtract : Gen.Filter.cdxtractN = 8 ∧ Gen.Filter.cdxtractM0 = 0 ∧
    Gen.Filter.cdxtractHBits.length = 8 := by decide

-- non-vacuity: a block split that meets the hypothesis of the partial theorem
example : ∀ b ∈ [[1, 2, 3], [4, 5, 6, 7], [8, 9, (10 : Int)]], 4 - 1 ≤ b.length := by decide
example : Fir.runAll Fir.processFixed (Fir.init 4 0 (fun w => w.foldl (· + ·) (0 : Int)) 0)
    [[1, 2], [3, 4], [5, 6], [7, 8], [9, 10]] = [1, 3, 6, 10, 14, 18, 22, 26, 30, 34] := by decide

end Smpl.Props.C19
