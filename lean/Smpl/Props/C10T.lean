/-
C10 — the surface syntax of a path: the printed names joined with `/`, `\` or `\\`, with or without
surrounding blanks and a trailing separator, are tokenised back to exactly those names.
-/
import Smpl.Props.C10

namespace Smpl.Props.C10
open Smpl Smpl.Names

/-- a name that holds no path separator. -/
def NoSep (n : Name) : Prop := ∀ c ∈ n, c ≠ '/' ∧ c ≠ '\\'

/-- the separators `parse_path` splits at. -/
inductive IsSep : Name → Prop
  | slash : IsSep ['/']
  | bs : IsSep ['\\']
  | bs2 : IsSep ['\\', '\\']

/-- the names joined by the given separators (one fewer than names). -/
def joinWith : List Name → List Name → Name
  | [], _ => []
  | [n], _ => n
  | n :: m :: ns, s :: ss => n ++ s ++ joinWith (m :: ns) ss
  | n :: m :: ns, [] => n ++ joinWith (m :: ns) []

theorem go_char (cur : Name) (acc : List Name) (c : Char) (rest : Name) (h1 : c ≠ '/') (h2 : c ≠ '\\') :
    splitPath.go cur acc (c :: rest) = splitPath.go (c :: cur) acc rest := by
  conv => lhs; unfold splitPath.go
  split
  · rename_i heq; cases heq
  · rename_i heq; cases heq; exact absurd rfl h1
  · rename_i heq; cases heq; exact absurd rfl h2
  · rename_i heq; cases heq; exact absurd rfl h2
  · rename_i heq; cases heq; rfl

theorem go_name (acc : List Name) : ∀ (n cur rest : Name), NoSep n →
    splitPath.go cur acc (n ++ rest) = splitPath.go (n.reverse ++ cur) acc rest := by
  intro n
  induction n with
  | nil => intro cur rest _; rfl
  | cons c cs ih =>
    intro cur rest h
    have hc := h c (by simp)
    rw [List.cons_append, go_char cur acc c _ hc.1 hc.2, ih (c :: cur) rest (fun x hx => h x (by simp [hx]))]
    simp

/-- a separator closes the current token, provided a single backslash is not followed by another. -/
theorem go_sep (cur : Name) (acc : List Name) (s : Name) (hs : IsSep s) (rest : Name)
    (hrest : rest.head? ≠ some '\\') :
    splitPath.go cur acc (s ++ rest) = splitPath.go [] (cur.reverse :: acc) rest := by
  cases hs with
  | slash => simp [splitPath.go]
  | bs2 => simp [splitPath.go]
  | bs =>
    cases rest with
    | nil => simp [splitPath.go]
    | cons r rs =>
      have hr : r ≠ '\\' := by intro e; subst e; simp at hrest
      simp [splitPath.go, hr]

theorem head_of_name (n rest : Name) (hn : n ≠ []) (hs : NoSep n) : (n ++ rest).head? ≠ some '\\' := by
  cases n with
  | nil => exact absurd rfl hn
  | cons c cs =>
    have := (hs c (by simp)).2
    simp; exact this

/-- the splitter on names joined by separators, with an optional tail (empty, or a closing
separator) — started in the middle of a token. -/
theorem go_join : ∀ (ns : List Name) (n : Name) (seps : List Name) (cur : Name) (acc : List Name) (tail : Name)
    (tl : List Name),
    (∀ x ∈ n :: ns, x ≠ [] ∧ NoSep x) → seps.length = ns.length → (∀ s ∈ seps, IsSep s) →
    (∀ cur' acc', splitPath.go cur' acc' tail = (acc'.reverse ++ [cur'.reverse]) ++ tl) →
    splitPath.go cur acc (joinWith (n :: ns) seps ++ tail)
      = acc.reverse ++ [cur.reverse ++ n] ++ ns ++ tl := by
  intro ns
  induction ns with
  | nil =>
    intro n seps cur acc tail tl hall _ _ htail
    have hn := hall n (by simp)
    simp only [joinWith, List.append_nil]
    rw [go_name acc n cur tail hn.2, htail]
    simp
  | cons m ms ih =>
    intro n seps cur acc tail tl hall hlen hseps htail
    have hn := hall n (by simp)
    have hm := hall m (by simp)
    cases seps with
    | nil => simp at hlen
    | cons s ss =>
      simp only [joinWith, List.append_assoc]
      rw [go_name acc n cur _ hn.2]
      have hhead : (joinWith (m :: ms) ss ++ tail).head? ≠ some '\\' := by
        cases ms with
        | nil => simp only [joinWith]; exact head_of_name m tail hm.1 hm.2
        | cons k ks =>
          cases ss with
          | nil => simp at hlen
          | cons s2 ss2 =>
            simp only [joinWith, List.append_assoc]
            exact head_of_name m _ hm.1 hm.2
      rw [go_sep _ acc s (hseps s (by simp)) _ hhead]
      rw [ih m ss [] ((n.reverse ++ cur).reverse :: acc) tail tl
        (fun x hx => hall x (by simp at hx ⊢; exact Or.inr hx)) (by simp at hlen ⊢; omega)
        (fun x hx => hseps x (by simp [hx])) htail]
      simp

/-! ## `strip` -/

theorem dropWhile_ws_append (ws rest : Name) (h : ∀ c ∈ ws, isWs c = true) :
    (ws ++ rest).dropWhile isWs = rest.dropWhile isWs := by
  induction ws with
  | nil => rfl
  | cons c cs ih =>
    simp only [List.cons_append, List.dropWhile_cons, h c (by simp), if_true]
    exact ih (fun x hx => h x (by simp [hx]))

theorem dropWhile_head (p : Name) (c : Char) (rest : Name) (hp : p = c :: rest) (hc : isWs c = false) :
    p.dropWhile isWs = p := by
  subst hp; simp [hc]

/-- blanks around a text that neither starts nor ends with a blank are stripped, nothing else. -/
theorem strip_around (ws1 ws2 p : Name) (h1 : ∀ c ∈ ws1, isWs c = true) (h2 : ∀ c ∈ ws2, isWs c = true)
    (c : Char) (rest : Name) (hp : p = c :: rest) (hc : isWs c = false)
    (d : Char) (init : Name) (hq : p = init ++ [d]) (hd : isWs d = false) :
    strip (ws1 ++ p ++ ws2) = p := by
  unfold strip stripL
  rw [List.append_assoc, dropWhile_ws_append ws1 _ h1]
  have e1 : (p ++ ws2).dropWhile isWs = p ++ ws2 := by
    rw [hp]; simp [hc]
  rw [e1, List.reverse_append, dropWhile_ws_append ws2.reverse _ (fun x hx => h2 x (List.mem_reverse.mp hx))]
  have e2 : p.reverse.dropWhile isWs = p.reverse := by
    rw [hq]; simp [hd]
  rw [e2, List.reverse_reverse]

/-! ## the token list -/

theorem getLast?_append_singleton' {α : Type} (l : List α) (a : α) : (l ++ [a]).getLast? = some a := by
  simp

/-- **C10 (surface syntax).** Let `n :: ns` be non-empty printed names without path separators, joined by
any of the separators `/`, `\`, `\\`; let the text neither start nor end with a blank character
(printed names are stripped). Then — with any blanks before and after it, and with or without one
closing separator — `parse_path` tokenises the text to exactly those names. -/
theorem C10_tokenize (n : Name) (ns seps : List Name)
    (hall : ∀ x ∈ n :: ns, x ≠ [] ∧ NoSep x) (hlen : seps.length = ns.length) (hseps : ∀ s ∈ seps, IsSep s)
    (ws1 ws2 : Name) (h1 : ∀ c ∈ ws1, isWs c = true) (h2 : ∀ c ∈ ws2, isWs c = true)
    (c : Char) (rest : Name) (hp : joinWith (n :: ns) seps = c :: rest) (hc : isWs c = false)
    (d : Char) (init : Name) (hq : joinWith (n :: ns) seps = init ++ [d]) (hd : isWs d = false)
    (t : Name) (ht : t = [] ∨ IsSep t) :
    tokenize (ws1 ++ (joinWith (n :: ns) seps ++ t) ++ ws2) = n :: ns := by
  rcases ht with rfl | ht
  · -- no closing separator
    have hstrip : strip (ws1 ++ (joinWith (n :: ns) seps ++ []) ++ ws2) = joinWith (n :: ns) seps := by
      rw [List.append_nil]
      exact strip_around ws1 ws2 _ h1 h2 c rest hp hc d init hq hd
    unfold tokenize
    simp only [hstrip]
    have hsplit : splitPath (joinWith (n :: ns) seps) = n :: ns := by
      unfold splitPath
      have := go_join ns n seps [] [] [] [] hall hlen hseps (by intro cur' acc'; simp [splitPath.go])
      rw [List.append_nil] at this
      rw [this]
      simp
    rw [hsplit]
    -- the last name is not empty, so nothing is dropped
    have hlast : ∀ x, (n :: ns).getLast? = some x → x ≠ [] := by
      intro x hx
      exact (hall x (List.mem_of_getLast? hx)).1
    split
    · rename_i heq
      exact absurd rfl (hlast [] heq)
    · rfl
  · -- a closing separator: one empty token at the end, dropped
    have hts : ∃ e initT, t = initT ++ [e] ∧ isWs e = false := by
      cases ht with
      | slash => exact ⟨'/', [], rfl, by decide⟩
      | bs => exact ⟨'\\', [], rfl, by decide⟩
      | bs2 => exact ⟨'\\', ['\\'], rfl, by decide⟩
    obtain ⟨e, initT, hte, he⟩ := hts
    have hstrip : strip (ws1 ++ (joinWith (n :: ns) seps ++ t) ++ ws2) = joinWith (n :: ns) seps ++ t := by
      apply strip_around ws1 ws2 _ h1 h2 c (rest ++ t) (by rw [hp]; rfl) hc e (joinWith (n :: ns) seps ++ initT)
        (by rw [hte, List.append_assoc]) he
    unfold tokenize
    simp only [hstrip]
    have hsplit : splitPath (joinWith (n :: ns) seps ++ t) = (n :: ns) ++ [[]] := by
      unfold splitPath
      have htail : ∀ cur' acc', splitPath.go cur' acc' t = (acc'.reverse ++ [cur'.reverse]) ++ [[]] := by
        intro cur' acc'
        have := go_sep cur' acc' t ht [] (by simp)
        rw [List.append_nil] at this
        rw [this]
        simp [splitPath.go]
      have := go_join ns n seps [] [] t [[]] hall hlen hseps htail
      rw [this]
      simp
    rw [hsplit]
    have hl : ((n :: ns) ++ [[]]).getLast? = some ([] : Name) := by
      rw [List.getLast?_append]; simp
    have hd' : ((n :: ns) ++ [([] : Name)]).dropLast = n :: ns := by
      rw [List.dropLast_append_of_ne_nil (by simp)]; simp
    rw [hl]
    exact hd'

/-- **C10 (a printed path, as typed).** Take any node below the root, at index path `idx`; the names `ls`
prints on the way to it (`walk`), none of them empty or holding a separator, no earlier sibling carrying the
same normalised name at any level. The text made of those names joined by `/`, `\` or `\\`, with any blanks
around it and with or without a closing separator, resolves to exactly that node. -/
theorem C10_printed_path (akai : Bool) (root : Node) (idx : List Nat) (n : Name) (ns seps : List Name)
    (hw : walk root idx = some (n :: ns)) (hdist : DistinctAlong akai root idx)
    (hall : ∀ x ∈ n :: ns, x ≠ [] ∧ NoSep x) (hlen : seps.length = ns.length) (hseps : ∀ s ∈ seps, IsSep s)
    (ws1 ws2 : Name) (h1 : ∀ c ∈ ws1, isWs c = true) (h2 : ∀ c ∈ ws2, isWs c = true)
    (c : Char) (rest : Name) (hp : joinWith (n :: ns) seps = c :: rest) (hc : isWs c = false)
    (d : Char) (init : Name) (hq : joinWith (n :: ns) seps = init ++ [d]) (hd : isWs d = false)
    (t : Name) (ht : t = [] ∨ IsSep t) :
    lookupIdx akai root (tokenize (ws1 ++ (joinWith (n :: ns) seps ++ t) ++ ws2))
      (tokenize (ws1 ++ (joinWith (n :: ns) seps ++ t) ++ ws2)) 0 [] = .ok idx := by
  rw [C10_tokenize n ns seps hall hlen hseps ws1 ws2 h1 h2 c rest hp hc d init hq hd t ht]
  have := C10_roundtrip akai idx root (n :: ns) (n :: ns) 0 [] hw hdist
  simpa using this

/-- non-vacuity: two names, a double backslash, a closing slash, blanks around. -/
example : tokenize "  A:\\\\VOL 1/ ".toList = ["A:".toList, "VOL 1".toList] := by decide

end Smpl.Props.C10
