/-
C01 — AKAI export is byte-exact for every sector allocation and file length.
(component theorems; the composition is listed in DESIGN §4 C01)
-/
import Smpl.Model.Akai
import Smpl.Props.C07
import Smpl.Props.C08
import Smpl.Lemmas.ShortRead

namespace Smpl.Props.C01
open Smpl Smpl.Akai Smpl.Alloc

/-- the content the parser reads for a chained file equals the stream layer's logical content of the
corresponding `FileStream` (so C08's `mkChain_isFile` applies to it): any order of sectors. -/
theorem C01_segment_eq (p : Part) (path : List Nat) :
    segment p path = Smpl.Stream.secContent p.content SECTOR (path.map (· * SECTOR)) := by
  unfold segment Smpl.Stream.secContent
  induction path with
  | nil => rfl
  | cons s rest ih => simp [List.flatMap_cons, ih]

/-- every sector of the chain lies wholly inside the partition window. -/
def SectorsInside (p : Part) (path : List Nat) : Prop := ∀ s ∈ path, (s + 1) * SECTOR ≤ p.content.length

theorem sector_full (p : Part) (s : Nat) (h : (s + 1) * SECTOR ≤ p.content.length) :
    ((p.content.drop (s * SECTOR)).take SECTOR).length = SECTOR := by
  have e : (s + 1) * SECTOR = s * SECTOR + SECTOR := by rw [Nat.add_mul]; simp
  simp only [List.length_take, List.length_drop]
  omega

/-- on a complete partition the sequential content (what headers and directories are parsed from)
is the chain's sectors in chain order. -/
theorem C01_prefix_is_segment (p : Part) (path : List Nat) (h : SectorsInside p path) :
    segmentPrefix p path = segment p path := by
  unfold segment
  induction path with
  | nil => rfl
  | cons s rest ih =>
    have hs := sector_full p s (h s (by simp))
    simp only [segmentPrefix, List.flatMap_cons]
    have : ¬ ((p.content.drop (s * SECTOR)).take SECTOR).length < SECTOR := by omega
    simp only [this, if_false]
    rw [ih (fun x hx => h x (by simp [hx]))]

/-- … and the content with holes has no hole. -/
theorem C01_holey_is_segment (p : Part) (path : List Nat) (h : SectorsInside p path) :
    segmentHoley p path = ⟨segment p path, []⟩ := by
  unfold segmentHoley segment
  rw [Smpl.ShortRead.ofPieces_full SECTOR _ (by
    intro q hq
    rw [List.mem_map] at hq
    obtain ⟨s, hs, rfl⟩ := hq
    exact sector_full p s (h s hs))]
  simp [List.flatMap]

/-- **C01 (audio of a file on a complete partition).** The block-wise reader returns exactly the
window `[off, off+len)` of the file's content — the chain's sectors in chain order, cut to the
directory entry's size — for every chain order, size, offset and length. -/
theorem C01_file_audio (p : Part) (path : List Nat) (h : SectorsInside p path) (size off len : Nat) :
    Smpl.ShortRead.readForward ((segmentHoley p path).clip size) off len
      = (((segment p path).take size).drop off).take len := by
  rw [C01_holey_is_segment p path h]
  exact Smpl.ShortRead.readForward_complete _ (by simp [Smpl.ShortRead.Holey.clip, Smpl.ShortRead.Holey.complete]) off len

/-- **C01 (one sample file, end to end on the model).** On a complete partition, a directory entry
of sample type whose chain resolves to `path` and whose header parses to `h` is realised as the
sample with header `h` and exactly the bytes `[140 + 2·start, 140 + 2·end)` of the file content
(sectors of `path` in chain order, cut to the entry's size) — for any chain order and any length. -/
theorem C01_realize_sample (p : Part) (e : FileEntry) (path : List Nat) (h : SampleHdr)
    (programOk : Bytes → Bool)
    (hpath : getPath p.links SAT_ENTRIES e.start = .ok path) (hin : SectorsInside p path)
    (hty : isSampleType e.ftype = true)
    (hhdr : parseSampleHdr ((segment p path).take e.size) = some h) :
    realizeFile p e programOk = some ⟨e.name, e.ftype,
      .sample h (window ((segment p path).take e.size) (SAMPLE_HEADER_BYTES + 2 * h.start)
        (2 * ((h.end_ : Int) - h.start)))⟩ := by
  unfold realizeFile
  simp only [hpath, hty, if_true, C01_prefix_is_segment p path hin, hhdr, Option.map_some]
  congr 3
  unfold window
  split
  · rfl
  · rw [C01_file_audio p path hin]

end Smpl.Props.C01
