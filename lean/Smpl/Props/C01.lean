/-
C01 — AKAI export is byte-exact for every sector allocation and file length.
(component theorems; the composition is listed in DESIGN §4 C01)
-/
import Smpl.Model.Akai
import Smpl.Props.C07
import Smpl.Props.C08

namespace Smpl.Props.C01
open Smpl Smpl.Akai Smpl.Alloc

/-- the content the parser reads for a chained file equals the stream layer's logical content of the
corresponding `FileStream` (so C08's `mkChain_isFile` applies to it): any order of sectors. -/
theorem C01_segment_eq (p : Part) (path : List Nat) :
    segment p path = Smpl.Stream.secContent p.content SECTOR (path.map (· * SECTOR)) := by
  unfold segment Smpl.Stream.secContent
  induction path with
  | nil => rfl
  | cons s rest ih => simp [List.flatMap_cons, ih]

end Smpl.Props.C01
