/-
C07 (AKAI SAT decoding, soundness): every non-end link the decoder installs is what the SAT word of
that sector says — a link word names the next sector, a directory-flag word continues with the
following sector.
-/
import Smpl.Props.C07

namespace Smpl.Props.C07
open Smpl Smpl.Alloc

/-- the step the SAT prescribes from sector `a` to sector `b`. -/
def AStep (words : Array Nat) (a b : Nat) : Prop :=
  ∃ v, words[a]? = some v ∧
    ((isDirWord v = false ∧ v ≠ SAT_FREE ∧ b = v) ∨ (isDirWord v = true ∧ b = a + 1))

/-- every entry of the link table is an end mark or a step the SAT prescribes. -/
def AFollows (words : Array Nat) (links : List Link) : Prop :=
  ∀ (x : Nat) (l : Link), links[x]? = some l → l.isEnd = true ∨ AStep words x l.next

def APathOK (words : Array Nat) : List Nat → Prop
  | [] => True
  | [_] => True
  | a :: b :: rest => AStep words a b ∧ APathOK words (b :: rest)

def ARevOK (words : Array Nat) : List Nat → Nat → Prop
  | [], _ => True
  | a :: rest, sub => AStep words a sub ∧ ARevOK words rest a

theorem afollows_set (words : Array Nat) (links : List Link) (a : Nat) (l : Link)
    (h : AFollows words links) (hl : l.isEnd = true ∨ AStep words a l.next) :
    AFollows words (links.set a l) := by
  intro x l' hx
  by_cases e : a = x
  · subst e
    rw [List.getElem?_set] at hx
    by_cases hlt : a < links.length
    · simp [hlt] at hx; subst hx; exact hl
    · simp [hlt] at hx
  · rw [List.getElem?_set_ne e] at hx
    exact h x l' hx

theorem addLinks_afollows (words : Array Nat) :
    ∀ (p : List Nat) (links ls : List Link), AFollows words links → APathOK words p →
      addLinks p links = .ok ls → AFollows words ls := by
  intro p
  induction p with
  | nil => intro links ls h _ he; simp [addLinks] at he; subst he; exact h
  | cons a rest ih =>
    intro links ls h hp he
    cases rest with
    | nil =>
      simp only [addLinks] at he
      split at he
      · simp at he; subst he
        exact afollows_set words links a _ h (Or.inl rfl)
      · simp at he
    | cons b rest' =>
      simp only [addLinks] at he
      split at he
      · obtain ⟨hstep, hrest⟩ := hp
        exact ih (links.set a ⟨b, false⟩) ls (afollows_set words links a _ h (Or.inr hstep)) hrest he
      · simp at he

theorem apathOK_of_rev (words : Array Nat) :
    ∀ (lst : List Nat) (sub : Nat) (tail : List Nat), ARevOK words lst sub → APathOK words (sub :: tail) →
      APathOK words (lst.reverse ++ sub :: tail) := by
  intro lst
  induction lst with
  | nil => intro sub tail _ h; simpa using h
  | cons a rest ih =>
    intro sub tail hr hp
    obtain ⟨hw, hrest⟩ := hr
    have := ih a (sub :: tail) hrest ⟨hw, hp⟩
    simpa [List.reverse_cons, List.append_assoc] using this

/-- the accumulator alone (without the current sector) is a walked path. -/
theorem apathOK_rev_only (words : Array Nat) (lst : List Nat) (sub : Nat) (hr : ARevOK words lst sub) :
    APathOK words lst.reverse := by
  cases lst with
  | nil => simp [APathOK]
  | cons a rest =>
    have := apathOK_of_rev words rest a [] hr.2 (by simp [APathOK])
    simpa [List.reverse_cons] using this

theorem astep_of (words : Array Nat) (sub v : Nat) (hw : words[sub]? = some v) (hfree : v ≠ SAT_FREE) :
    AStep words sub (if (!isDirWord v) = true then v else sub + 1) := by
  refine ⟨v, hw, ?_⟩
  cases hd : isDirWord v with
  | false => left; simp [hfree]
  | true => right; simp

theorem akaiWalk_afollows (words : Array Nat) (st : AkaiSt) (lst : List Nat) (sub : Nat) :
    ∀ st', AFollows words st.links → ARevOK words lst sub →
      akaiWalk words st lst sub = .ok st' → AFollows words st'.links := by
  fun_induction akaiWalk words st lst sub <;> intro st' hf hr he
  case case1 => cases he; exact hf
  case case2 =>
    rename_i st lst sub v hw curDir hc ls hadd
    simp only [List.unattach_reverse, List.unattach_attach] at hadd he
    rw [hadd] at he
    cases he
    exact addLinks_afollows words _ _ ls hf (apathOK_rev_only words lst sub hr) hadd
  case case3 =>
    rename_i st lst sub v hw curDir hc e hadd
    simp only [List.unattach_reverse, List.unattach_attach] at hadd he
    rw [hadd] at he
    cases he
  case case4 =>
    rename_i st lst sub size v hw curDir hc1 hc2 dirty' hc3 ls hadd
    cases he
    simp only
    have hp : APathOK words ((sub :: lst).reverse) := by
      have := apathOK_of_rev words lst sub [] hr (by simp [APathOK])
      simpa [List.reverse_cons] using this
    have h1 := addLinks_afollows words _ _ ls hf hp hadd
    apply afollows_set words ls sub _ h1
    right
    simp only [Bool.and_eq_true, bne_iff_ne, ne_eq, Bool.not_eq_true'] at hc3
    exact ⟨v, hw, Or.inl ⟨hc3.2, hc3.1, rfl⟩⟩
  case case5 => cases he
  case case6 => cases he; exact hf
  case case7 =>
    rename_i st lst sub size v hw curDir hc1 hc2 hc3 ls hadd
    cases he
    simp only
    have hp : APathOK words ((sub :: lst).reverse) := by
      have := apathOK_of_rev words lst sub [] hr (by simp [APathOK])
      simpa [List.reverse_cons] using this
    exact addLinks_afollows words _ _ ls hf hp hadd
  case case8 => cases he
  case case9 =>
    rename_i st lst sub size v hw curDir hc1 hc2 hc3 st1 next hlt ih
    apply ih st' hf _ he
    refine ⟨?_, hr⟩
    have hfree : v ≠ SAT_FREE := by
      intro e
      apply hc2
      simp [e]
    have := astep_of words sub v hw hfree
    simpa [next, curDir] using this
  case case10 =>
    rename_i st lst sub size v hw curDir hc1 hc2 hc3 st1 next hlt hdir ls hadd
    cases he
    simp only
    have hp : APathOK words ((sub :: lst).reverse) := by
      have := apathOK_of_rev words lst sub [] hr (by simp [APathOK])
      simpa [List.reverse_cons] using this
    exact addLinks_afollows words _ _ ls hf hp hadd
  case case11 => cases he
  case case12 => cases he; exact hf

/-- **AKAI SAT decoding is sound**: every non-end link of the decoded table is the step the SAT
prescribes from that sector (a link word names the next sector; a directory-flag word continues
with the following sector), whatever the table contains. -/
theorem C07_akai_sound (words : List Nat) (links : List Link) (h : akaiDecode words = .ok links) :
    AFollows words.toArray links := by
  unfold akaiDecode akaiDecodeSt at h
  simp only at h
  have fold : ∀ (is : List Nat) (st st' : AkaiSt), AFollows words.toArray st.links →
      is.foldlM (fun st i => if st.dirty[i]?.getD true then pure st else akaiWalk words.toArray st [] i) st = .ok st' →
      AFollows words.toArray st'.links := by
    intro is
    induction is with
    | nil => intro st st' hf he; simp [List.foldlM] at he; cases he; exact hf
    | cons i rest ih =>
      intro st st' hf he
      simp only [List.foldlM] at he
      cases hstep : (if st.dirty[i]?.getD true then (pure st : Except Err AkaiSt) else akaiWalk words.toArray st [] i) with
      | error e => rw [hstep] at he; simp [bind, Except.bind] at he
      | ok st1 =>
        rw [hstep] at he
        simp only [bind, Except.bind] at he
        apply ih st1 st' _ he
        split at hstep
        · cases hstep; exact hf
        · exact akaiWalk_afollows words.toArray st [] i st1 hf trivial hstep
  cases hfold : (List.range words.length).foldlM
      (fun st i => if st.dirty[i]?.getD true then pure st else akaiWalk words.toArray st [] i)
      ({ links := List.replicate words.length Link.dflt, dirty := Array.replicate words.length false, prevDir := true } : AkaiSt) with
  | error e => rw [hfold] at h; simp [Except.map] at h
  | ok st' =>
    rw [hfold] at h
    simp only [Except.map, Except.ok.injEq] at h
    subst h
    apply fold _ _ st' _ hfold
    intro x l hx
    left
    rw [List.getElem?_replicate] at hx
    split at hx
    · cases hx; rfl
    · cases hx

/-- **The resolved chain follows the SAT.** In any chain `get_path` returns over the decoded table,
each sector but the last is followed by the sector the SAT prescribes (the linked sector, or the
next sector inside a directory run). -/
theorem C07_akai_path_follows_sat (words : List Nat) (links : List Link)
    (h : akaiDecode words = .ok links) (size start : Nat) (p : List Nat)
    (hp : getPath links size start = .ok p) :
    ∀ k a b, p[k]? = some a → p[k + 1]? = some b → AStep words.toArray a b := by
  have hs := C07_akai_sound words links h
  have hc := (C07_getPath_sound links size start p hp).1
  clear hp
  induction p with
  | nil => intro k a b ha; simp at ha
  | cons x rest ih =>
    intro k a b ha hb
    cases rest with
    | nil => simp at hb
    | cons y rest' =>
      obtain ⟨⟨l, hl, he, hn⟩, hrest⟩ := hc
      cases k with
      | zero =>
        simp at ha hb; subst ha hb
        rcases hs x l hl with hd | hstep
        · rw [hd] at he; cases he
        · rw [hn] at hstep; exact hstep
      | succ k' =>
        simp only [List.getElem?_cons_succ] at ha hb
        exact ih hrest k' a b ha hb

end Smpl.Props.C07
