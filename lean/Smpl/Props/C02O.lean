import Smpl.Model.Roland

/-! The orphan search of the Roland tree (`perfScan`) reads the performance directory sequentially and
loses its alignment at a name that does not decode. On an image in which every directory name decodes
it is the plain position-based scan: slot `k` is the record at `dirOff + 32·k`. -/

namespace Smpl.Props.C02O
open Smpl.Roland

theorem getD_take_drop (b : Bytes) (m : Nat) (_h : m < b.length) :
    ((b.drop m).take 16).getD 0 0 = b.getD m 0 := by
  simp [List.getD_eq_getElem?_getD, List.getElem?_drop]

/-- position-based specification of the scan over `n` slots starting at slot number `i`, byte `pos`. -/
def perfSpec (b : Bytes) (n i pos : Nat) : List Nat :=
  (List.range n).filterMap fun k => if b.getD (pos + 32 * k + 16) 0 == 0x41 then some (i + k) else none

theorem perfSpec_succ (b : Bytes) (n i pos : Nat) :
    perfSpec b (n + 1) i pos =
      (if b.getD (pos + 16) 0 == 0x41 then [i] else []) ++ perfSpec b n (i + 1) (pos + 32) := by
  unfold perfSpec
  rw [List.range_succ_eq_map, List.filterMap_cons, List.filterMap_map]
  simp only [Nat.mul_zero, Nat.add_zero]
  have : ((fun k => if b.getD (pos + 32 * k + 16) 0 == 0x41 then some (i + k) else none) ∘ Nat.succ)
      = fun k => if b.getD (pos + 32 + 32 * k + 16) 0 == 0x41 then some (i + 1 + k) else none := by
    funext k
    simp only [Function.comp, Nat.succ_eq_add_one]
    have e1 : pos + 32 * (k + 1) + 16 = pos + 32 + 32 * k + 16 := by omega
    have e2 : i + (k + 1) = i + 1 + k := by omega
    rw [e1, e2]
  rw [this]
  cases hc : (b.getD (pos + 16) 0 == 0x41) <;> simp

/-- **C02_orphan_scan_aligned**: when the `n` records from `pos` on lie inside the image and every name
decodes, the sequential scan reports exactly the slots whose record carries the performance type byte. -/
theorem C02_orphan_scan_aligned (b : Bytes) (n i pos : Nat)
    (hlen : pos + 32 * n ≤ b.length)
    (hnames : ∀ k, k < n → (padded ((b.drop (pos + 32 * k)).take 16)).isSome) :
    perfScan (Img.ofBytes b) n i pos = perfSpec b n i pos := by
  induction n generalizing i pos with
  | zero => simp [perfScan, perfSpec]
  | succ n ih =>
    rw [perfSpec_succ]
    unfold perfScan
    have h16 : pos + 16 ≤ b.length := by omega
    have h32 : pos + 16 + 16 ≤ b.length := by omega
    have hn0 := hnames 0 (by omega)
    simp only [Nat.mul_zero, Nat.add_zero] at hn0
    simp only [Img.ofBytes, h16, h32, ↓reduceIte]
    cases hp : padded ((b.drop pos).take 16) with
    | none => rw [hp] at hn0; simp at hn0
    | some nm =>
      simp only []
      have ih' := ih (i + 1) (pos + 32) (by omega) (by
        intro k hk
        have := hnames (k + 1) (by omega)
        have e : pos + 32 * (k + 1) = pos + 32 + 32 * k := by omega
        rwa [e] at this)
      simp only [Img.ofBytes] at ih'
      rw [ih', getD_take_drop b (pos + 16) (by omega)]

/-- **C02_orphans_position_based**: on an image whose 512 performance directory names all decode, the orphan
search sees slot `k` at `dirOff + 32·k` - the reading the tree theorems (and the property) use. -/
theorem C02_orphans_position_based (b : Bytes)
    (hlen : dirOff .perf + 32 * maxNum .perf ≤ b.length)
    (hnames : ∀ k, k < maxNum .perf → (padded ((b.drop (dirOff .perf + 32 * k)).take 16)).isSome) :
    perfIndices (Img.ofBytes b) = perfSpec b (maxNum .perf) 0 (dirOff .perf) :=
  C02_orphan_scan_aligned b _ 0 _ hlen hnames

/-- non-vacuity: a two-record directory (`A`, performance; `B`, not) is scanned as `[0]`. -/
example :
    let rec0 : Bytes := [65] ++ List.replicate 15 0 ++ [0x41] ++ List.replicate 15 0
    let rec1 : Bytes := [66] ++ List.replicate 15 0 ++ [0x00] ++ List.replicate 15 0
    perfScan (Img.ofBytes (rec0 ++ rec1)) 2 0 0 = [0] := by decide

end Smpl.Props.C02O
