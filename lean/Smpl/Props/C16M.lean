/-
C16 (memoised levels and stream cursors): what an opened image object remembers between operations
is (a) the children of every directory level it has realised, computed once with the naming
routines installed at that moment, and (b) the cursor of every sample data stream. This file models
exactly that state, and shows when it is unobservable.
-/
import Smpl.Gen.Routines

namespace Smpl.Props.C16

/-- the two operations of the CLI on an opened image. -/
inductive Act where
  | ls
  | export
deriving DecidableEq, Repr

/-- the naming routines the action installs on the image before it touches any level
(regenerated from `smpl_extract/actions.py` on every run). -/
def routinesOf : Act → List (String × String)
  | .ls => Smpl.Gen.Routines.lsRoutines
  | .export => Smpl.Gen.Routines.exportRoutines

/-- **Tie obligation.** Both actions install the same routines, so a level memoised by one of them
carries the names the other one would have computed. -/
theorem routines_same : routinesOf .ls = routinesOf .export := by decide

/-- `export` merges stereo pairs with exactly one sample routine. -/
theorem sample_routines : Smpl.Gen.Routines.exportSampleRoutines = [("combine_stereo", "method:combine_stereo_routine")] := by
  decide

section Memo
variable {K V R : Type} [DecidableEq K]

/-- `Traversable._children`, `Volume._files`, …: the memo table of an image object. -/
structure Obj (K V : Type) where
  memo : List (K × V)

/-- `children` of level `k` while routines `r` are installed: the memoised value if there is one,
else `realise r k`, which is then memoised. -/
def children (realise : R → K → V) (o : Obj K V) (r : R) (k : K) : V × Obj K V :=
  match o.memo.lookup k with
  | some v => (v, o)
  | none => (realise r k, ⟨(k, realise r k) :: o.memo⟩)

/-- one operation: the levels it touches, in order, under its routines. -/
def runOp (realise : R → K → V) (o : Obj K V) (r : R) : List K → List V × Obj K V
  | [] => ([], o)
  | k :: ks =>
    let (v, o1) := children realise o r k
    let (vs, o2) := runOp realise o1 r ks
    (v :: vs, o2)

/-- a history of operations; the answers of each. -/
def runAll (realise : R → K → V) (o : Obj K V) : List (R × List K) → List (List V)
  | [] => []
  | (r, ks) :: rest =>
    let (vs, o1) := runOp realise o r ks
    vs :: runAll realise o1 rest

/-- every memoised value is what routines `r` give. -/
def Inv (realise : R → K → V) (r : R) (o : Obj K V) : Prop :=
  ∀ k v, o.memo.lookup k = some v → v = realise r k

theorem children_spec (realise : R → K → V) (r : R) (o : Obj K V) (k : K) (h : Inv realise r o) :
    (children realise o r k).1 = realise r k ∧ Inv realise r (children realise o r k).2 := by
  unfold children
  cases hl : o.memo.lookup k with
  | some v => exact ⟨h k v hl, h⟩
  | none =>
    refine ⟨rfl, ?_⟩
    intro k' v' hk'
    simp only [List.lookup_cons] at hk'
    by_cases e : k' = k
    · subst e
      simp at hk'
      exact hk'.symm
    · have : (k' == k) = false := by simpa using e
      simp only [this] at hk'
      exact h k' v' hk'

theorem runOp_spec (realise : R → K → V) (r : R) : ∀ (ks : List K) (o : Obj K V), Inv realise r o →
    (runOp realise o r ks).1 = ks.map (realise r) ∧ Inv realise r (runOp realise o r ks).2 := by
  intro ks
  induction ks with
  | nil => intro o h; exact ⟨rfl, h⟩
  | cons k ks ih =>
    intro o h
    obtain ⟨h1, h2⟩ := children_spec realise r o k h
    obtain ⟨h3, h4⟩ := ih (children realise o r k).2 h2
    simp only [runOp, List.map_cons]
    exact ⟨by rw [h1, h3], h4⟩

/-- **C16 (memoised levels).** If every operation of a history installs the same routines `r`, the
answers of each operation are what a fresh object gives — `realise r` of the levels it touches —
whatever was listed or exported before. -/
theorem C16_memo (realise : R → K → V) (r : R) : ∀ (hist : List (R × List K)) (o : Obj K V),
    Inv realise r o → (∀ op ∈ hist, op.1 = r) →
    runAll realise o hist = hist.map fun op => op.2.map (realise r) := by
  intro hist
  induction hist with
  | nil => intro o _ _; rfl
  | cons op rest ih =>
    intro o h hr
    obtain ⟨r', ks⟩ := op
    have e : r' = r := hr (r', ks) (by simp)
    subst e
    obtain ⟨h1, h2⟩ := runOp_spec realise r' ks o h
    simp only [runAll, List.map_cons]
    rw [h1, ih _ h2 (fun op hop => hr op (by simp [hop]))]

/-- a fresh object satisfies the invariant. -/
theorem inv_fresh (realise : R → K → V) (r : R) : Inv realise r (⟨[]⟩ : Obj K V) := by
  intro k v h; simp at h

end Memo

/-- **C16 for the CLI's two actions.** Because `ls` and `export` install the same routines
(`routines_same`, regenerated from the source), any history of them on one image object answers as
fresh objects would. -/
theorem C16_actions {K V : Type} [DecidableEq K] (realise : List (String × String) → K → V)
    (hist : List (Act × List K)) :
    runAll realise (⟨[]⟩ : Obj K V) (hist.map fun op => (routinesOf op.1, op.2))
      = hist.map fun op => op.2.map (realise (routinesOf op.1)) := by
  have hsame : ∀ a : Act, routinesOf a = routinesOf .export := by
    intro a; cases a
    · exact routines_same
    · rfl
  rw [C16_memo realise (routinesOf .export) _ _ (inv_fresh realise _)]
  · rw [List.map_map]
    apply List.map_congr_left
    intro op _
    simp only [Function.comp, hsame op.1]
  · intro op hop
    rw [List.mem_map] at hop
    obtain ⟨a, _, rfl⟩ := hop
    exact hsame a.1

/-- the hypothesis matters: if an action installed other routines (here: names depend on the
routine set), a level memoised by it is served to the next action with the wrong names — the
answer after a history differs from the fresh answer. -/
example :
    runAll (fun (r : Bool) (_ : Nat) => r) (⟨[]⟩ : Obj Nat Bool) [(false, [0]), (true, [0])]
      ≠ [(false, [0]), (true, [0])].map fun op => op.2.map ((fun (r : Bool) (_ : Nat) => r) op.1) := by
  decide

/-! ## stream cursors -/

/-- a sample data stream as the image object keeps it: content and cursor. -/
structure Cur where
  content : List Nat
  pos : Nat

/-- reading the stream to its end from where the cursor stands; the cursor ends at the end. -/
def Cur.readAll (c : Cur) : List Nat × Cur := (c.content.drop c.pos, { c with pos := c.content.length })
def Cur.rewind (c : Cur) : Cur := { c with pos := 0 }

/-- **C16 (data streams).** The transcoder rewinds a stream before reading it (after the `fix:` of
D10), so what an export reads does not depend on where earlier operations left the cursor — in
particular a second export reads the same bytes as the first. -/
theorem C16_rewind_read (c : Cur) : c.rewind.readAll.1 = c.content := by
  simp [Cur.rewind, Cur.readAll]

theorem C16_second_export (c : Cur) : (c.rewind.readAll.2).rewind.readAll.1 = c.rewind.readAll.1 := by
  simp [Cur.rewind, Cur.readAll]

/-- without the rewind the second read is empty (the pinned tree's behaviour, D10). -/
example : (({ content := [1, 2, 3], pos := 0 } : Cur).readAll.2).readAll.1 = [] := by decide

end Smpl.Props.C16
