/-
C02 — Roland S-7xx export is byte-exact for every cluster chain and loop mode.

Statement layer: `enc ws` is the little-endian byte image of the 16-bit words a sampler wrote.
If the clusters of a sample's chain (in chain order, after `cluster_top`) hold `enc ws` followed
by padding, then for every loop mode the exported PCM is `enc` of exactly the addressed window of
`ws` — reversed word-by-word for the reverse modes — whatever the chain order on disc is.
-/
import Smpl.Model.Roland
import Smpl.Props.C07
import Smpl.Lemmas.ShortRead

namespace Smpl.Props.C02
open Smpl Smpl.Roland

/-- little-endian bytes of 16-bit words. -/
def enc : List Nat → Bytes
  | [] => []
  | w :: ws => (w % 256) :: (w / 256) :: enc ws

theorem enc_length (ws : List Nat) : (enc ws).length = 2 * ws.length := by
  induction ws with
  | nil => rfl
  | cons w ws ih => simp [enc, ih]; omega

theorem enc_append (a b : List Nat) : enc (a ++ b) = enc a ++ enc b := by
  induction a with
  | nil => rfl
  | cons w ws ih => simp [enc, ih]

theorem enc_drop (ws : List Nat) (k : Nat) : (enc ws).drop (2 * k) = enc (ws.drop k) := by
  induction k generalizing ws with
  | zero => simp
  | succ k ih =>
    cases ws with
    | nil => simp [enc]
    | cons w ws =>
      have : 2 * (k + 1) = 2 * k + 1 + 1 := by omega
      rw [this]; simp [enc, ih]

theorem enc_take (ws : List Nat) (k : Nat) : (enc ws).take (2 * k) = enc (ws.take k) := by
  induction k generalizing ws with
  | zero => simp [enc]
  | succ k ih =>
    cases ws with
    | nil => simp [enc]
    | cons w ws =>
      have : 2 * (k + 1) = 2 * k + 1 + 1 := by omega
      rw [this]; simp [enc, ih]

theorem reverseWords_snoc (x : Bytes) (a b : Nat) (h : x.length % 2 = 0) :
    reverseWords (x ++ [a, b]) = a :: b :: reverseWords x := by
  induction x using Smpl.ShortRead.reverseWords.induct with
  | case1 p q rest ih =>
    have : rest.length % 2 = 0 := by simp at h; omega
    simp [Smpl.ShortRead.reverseWords, ih this]
  | case2 t ht =>
    match t, ht with
    | [], _ => simp [Smpl.ShortRead.reverseWords]
    | [_], _ => simp at h
    | p :: q :: r, ht => exact absurd rfl (ht p q r)

theorem reverseWords_enc (ws : List Nat) : reverseWords (enc ws) = enc ws.reverse := by
  induction ws with
  | nil => rfl
  | cons w ws ih => simp [enc, Smpl.ShortRead.reverseWords, ih, enc_append]

/-- reversal is word-wise: the k-th word of the output is the k-th word from the end. -/
theorem C02_reverse_words (ws : List Nat) : words16 (reverseWords (enc ws)) = words16 (enc ws.reverse) := by
  rw [reverseWords_enc]

theorem words16_enc (ws : List Nat) (h : ∀ w ∈ ws, w < 65536) : words16 (enc ws) = ws := by
  induction ws with
  | nil => rfl
  | cons w ws ih =>
    have hw : w < 65536 := h w (by simp)
    simp only [enc, words16]
    rw [ih (fun x hx => h x (by simp [hx]))]
    congr 1; omega

theorem reverseWords_involutive (ws : List Nat) : reverseWords (reverseWords (enc ws)) = enc ws := by
  rw [reverseWords_enc, reverseWords_enc, List.reverse_reverse]

/-- the window of the written words that the loop mode addresses. -/
def wordWindow (ws : List Nat) (start n : Nat) (rev : Bool) : List Nat :=
  let w := (ws.drop start).take n
  if rev then w.reverse else w

/-- **C02 (window, byte-exact).** Whatever the padding after the written words is, a window that
lies inside the written words is exported as exactly those words (reversed for the reverse modes):
no byte from outside the window, none from the padding, none dropped at a cluster boundary. -/
theorem C02_window (ws : List Nat) (pad : Bytes) (start n : Nat) (rev : Bool)
    (hn : 0 < n) (hfit : start + n ≤ ws.length) :
    windowOf (enc ws ++ pad) (start : Int) (n : Int) rev = some (enc (wordWindow ws start n rev)) := by
  have hlen : ((ws.drop start).take n).length = n := by simp; omega
  have hw : ((enc ws ++ pad).drop (2 * start)).take (2 * n) = enc ((ws.drop start).take n) := by
    rw [List.drop_append_of_le_length (by rw [enc_length]; omega), enc_drop]
    rw [List.take_append_of_le_length (by rw [enc_length]; simp; omega), enc_take]
  unfold windowOf wordWindow
  have hn' : ¬ ((n : Int) ≤ 0) := by omega
  simp only [hn', if_false, Int.toNat_natCast, hw]
  cases rev with
  | false => simp
  | true => simp [enc_length, hlen, reverseWords_enc]

/-- an empty or negative window exports no audio (and does not fail). -/
theorem C02_window_empty (content : Bytes) (start n : Int) (rev : Bool) (hn : n ≤ 0) :
    windowOf content start n rev = some [] := by
  unfold windowOf; simp [hn]

/-- **C02 (loop mode → addressed window).** Modes 1 and 3 end at the release-loop end, all other
modes at the sustain-loop end; exactly modes 5 and 6 are reversed; the first word is the start point. -/
theorem C02_mode_window (mode : Nat) (pts : List Nat) (hm : mode ≤ 6) :
    sampleWindow mode pts =
      ((address (pts.getD 0 0) : Int),
       (if mode = 1 ∨ mode = 3 then (address (pts.getD 4 0) : Int) else (address (pts.getD 2 0) : Int))
          - (address (pts.getD 0 0) : Int) + 1,
       decide (mode = 5 ∨ mode = 6)) := by
  unfold sampleWindow
  simp only [hm, if_true]
  have : mode = 0 ∨ mode = 1 ∨ mode = 2 ∨ mode = 3 ∨ mode = 4 ∨ mode = 5 ∨ mode = 6 := by omega
  rcases this with h | h | h | h | h | h | h <;> subst h <;> simp

/-- the address is the raw point without its low "fine" byte. -/
theorem C02_address (a f : Nat) (hf : f < 256) : address (a * 256 + f) = a ∧ fine (a * 256 + f) = f := by
  unfold address fine; omega

/-- **C02 (chain order).** The content is the concatenation of the clusters in *chain* order:
for an image whose cluster `cl[k]` holds `chunks[k]`, the content is `chunks.flatten`,
for every order of the cluster numbers on disc. -/
theorem C02_chain_content (img : Img) (cl : List Nat) (chunks : List Bytes)
    (hlen : chunks.length = cl.length)
    (hheld : ∀ k (hk : k < cl.length), clusterData img cl[k] = chunks[k]'(by omega)) :
    chainContent img cl = chunks.flatten := by
  unfold chainContent
  induction cl generalizing chunks with
  | nil =>
    cases chunks with
    | nil => rfl
    | cons _ _ => simp at hlen
  | cons c cs ih =>
    cases chunks with
    | nil => simp at hlen
    | cons d ds =>
      have h0 := hheld 0 (by simp)
      simp only [List.getElem_cons_zero] at h0
      simp only [List.flatMap_cons, List.flatten_cons, h0]
      have hrest := ih ds (by simpa using hlen) (by
        intro k hk
        have := hheld (k + 1) (by simp; omega)
        simpa using this)
      rw [hrest]

/-- a cluster that lies wholly inside a list-backed image is read as exactly its 9216 bytes. -/
theorem C02_cluster_read (b : Bytes) (c : Nat) (hin : DATA_FAT_OFF + (c + 1) * CLUSTER ≤ b.length) :
    clusterData (Img.ofBytes b) c = (b.drop (DATA_FAT_OFF + c * CLUSTER)).take CLUSTER := by
  unfold clusterData Img.ofBytes
  have h1 : ¬ (c * CLUSTER ≥ b.length - DATA_FAT_OFF) := by
    have : (c + 1) * CLUSTER = c * CLUSTER + CLUSTER := by rw [Nat.add_mul]; simp
    have hc : 0 < CLUSTER := by unfold CLUSTER; omega
    omega
  have h2 : min CLUSTER (b.length - DATA_FAT_OFF - c * CLUSTER) = CLUSTER := by
    have : (c + 1) * CLUSTER = c * CLUSTER + CLUSTER := by rw [Nat.add_mul]; simp
    omega
  simp only [h1, if_false, h2]
  have h3 : DATA_FAT_OFF + c * CLUSTER + CLUSTER ≤ b.length := by
    have : (c + 1) * CLUSTER = c * CLUSTER + CLUSTER := by rw [Nat.add_mul]; simp
    omega
  simp [h3]

/-- when every cluster of the chain is wholly in the file, the block-wise reads of the model are
the plain window of the chain content. -/
theorem sampleData_full (img : Img) (s : SampleNode)
    (hfull : ∀ c ∈ s.clusters, (clusterData img c).length = CLUSTER)
    (start n : Nat) (rev : Bool)
    (hwin : sampleWindow s.rec_.loopMode s.rec_.points = ((start : Int), (n : Int), rev)) :
    sampleData img s = windowOf (chainContent img s.clusters) (start : Int) (n : Int) rev := by
  have hh : chainHoley img s.clusters = ⟨chainContent img s.clusters, []⟩ := by
    unfold chainHoley chainContent
    rw [Smpl.ShortRead.ofPieces_full CLUSTER _ (by
      intro p hp
      rw [List.mem_map] at hp
      obtain ⟨c, hc, rfl⟩ := hp
      exact hfull c hc)]
    simp [List.flatMap]
  unfold sampleData windowOf
  rw [hwin]
  simp only [hh]
  by_cases hn : (n : Int) ≤ 0
  · have : n = 0 := by omega
    simp [this]
  · simp only [hn, if_false, Int.toNat_natCast]
    have hc : (Smpl.ShortRead.Holey.mk (chainContent img s.clusters) []).complete = true := by
      simp [Smpl.ShortRead.Holey.complete]
    cases rev with
    | false => simp [Smpl.ShortRead.readForward_complete _ hc]
    | true =>
      simp only [if_true, Smpl.ShortRead.readReversed_complete _ hc]
      have hn' : 0 < n := by omega
      by_cases hfit : 2 * (start + n) ≤ (chainContent img s.clusters).length
      · have : ((chainContent img s.clusters).drop (2 * start) |>.take (2 * n)).length = 2 * n := by
          simp; omega
        simp [hfit, this]
      · have : ¬ ((chainContent img s.clusters).drop (2 * start) |>.take (2 * n)).length = 2 * n := by
          simp; omega
        simp only [hfit, if_false, this]

/-- **C02 (end to end on the model).** A sample whose chain clusters are all in the file and hold
the written words plus padding exports exactly the window its loop mode addresses. -/
theorem C02_sample (img : Img) (s : SampleNode) (ws : List Nat) (pad : Bytes)
    (hfull : ∀ c ∈ s.clusters, (clusterData img c).length = CLUSTER)
    (hcontent : chainContent img s.clusters = enc ws ++ pad)
    (start n : Nat) (rev : Bool)
    (hwin : sampleWindow s.rec_.loopMode s.rec_.points = ((start : Int), (n : Int), rev))
    (hn : 0 < n) (hfit : start + n ≤ ws.length) :
    sampleData img s = some (enc (wordWindow ws start n rev)) := by
  rw [sampleData_full img s hfull start n rev hwin, hcontent]
  exact C02_window ws pad start n rev hn hfit

/-- **C02 (the chain is the FAT's).** `fileClusters` returns the link-following path from the
entry, minus its first `top` clusters. -/
theorem C02_file_clusters (fat : Fat) (entry top : Nat) (p : List Nat)
    (h : Smpl.Alloc.getPath fat.links FAT_N entry = .ok p) :
    fileClusters fat entry top = .ok (p.drop top) := by
  unfold fileClusters; rw [h]

/-- premises are satisfiable: three words, window of two from word 1, reversed. -/
example : windowOf (enc [0x1234, 0xabcd, 0x00ff] ++ [9, 9, 9, 9]) 1 2 true = some [0xff, 0x00, 0xcd, 0xab] := by
  decide

example : sampleWindow 5 [0x100, 0, 0x300, 0, 0x900] = (1, 3, true) := by decide
example : sampleWindow 3 [0x100, 0, 0x300, 0, 0x900] = (1, 9, false) := by decide

end Smpl.Props.C02
