/-
Tie obligations for the module-level constants of /repo that the models restate. `Smpl.Gen.Consts`
is regenerated from the source on every run; each theorem below says that what the source defines
now is what the model (and therefore every theorem about it) uses.
-/
import Smpl.Gen.Consts
import Smpl.Model.Akai
import Smpl.Model.Alloc
import Smpl.Model.Roland
import Smpl.Model.Container
import Smpl.Model.Cdda
import Smpl.Model.ShortRead
import Smpl.Model.Stream

namespace Smpl.Props.Consts
open Smpl

/-- AKAI geometry and flags (C01, C07, C13, C14, C15, C20). -/
theorem K_akai :
    Gen.Consts.akaiSectorSize = Akai.SECTOR ∧
    Gen.Consts.akaiSatEntryCnt = Akai.SAT_ENTRIES ∧
    Gen.Consts.akaiVolumeEntryCnt = Akai.VOL_ENTRIES ∧
    Gen.Consts.akaiFileTableEnd = Akai.TABLE_END ∧
    Gen.Consts.akaiSampleWordLength = 2 ∧
    Gen.Consts.akaiDefaultSampleRate = 44100 ∧              -- `Akai.lean`: `if h.rate = 0 then 44100`
    Gen.Consts.akaiSatFree = Alloc.SAT_FREE ∧
    Gen.Consts.akaiSatEof = Alloc.SAT_EOF ∧
    Gen.Consts.akaiSatReservedStd = Alloc.SAT_RES1 ∧
    Gen.Consts.akaiSatReservedV2 = Alloc.SAT_RES2 := by decide

/-- the 194 magic bytes of a partition header. -/
theorem K_akai_magic : Gen.Consts.akaiPartitionMagic = Akai.MAGIC := by decide +kernel

/-- Roland S-7xx geometry and FAT marks (C02, C07, C13, C14, C15, C20). -/
theorem K_roland :
    Gen.Consts.rolandClusterSize = Roland.CLUSTER ∧
    Gen.Consts.rolandSampleWidth = 2 ∧
    Gen.Consts.rolandNumKeys = 88 ∧
    Gen.Consts.rolandFatAreaOffset = Roland.FAT_OFF ∧
    Gen.Consts.rolandFatNumEntries = Roland.FAT_N ∧
    Gen.Consts.rolandDataFatOffset = Roland.DATA_FAT_OFF ∧
    Gen.Consts.rolandFatAreaId = 0xfffa ∧                    -- `Roland.parseFat`
    Gen.Consts.rolandFatVersion1 = 0xffff ∧
    Gen.Consts.rolandFatVersion2 = 0xfffe ∧
    Gen.Consts.rolandFatFree = Alloc.FAT_FREE ∧
    Gen.Consts.rolandFatReserved = Alloc.FAT_RESERVED ∧
    Gen.Consts.rolandFatError = Alloc.FAT_ERROR ∧
    Gen.Consts.rolandFatEnd = Alloc.FAT_END := by decide

open Roland in
/-- the five directory / parameter areas. -/
theorem K_roland_areas :
    Gen.Consts.rolandDirOffsets = [Kind.vol, .perf, .patch, .part, .samp].map dirOff ∧
    Gen.Consts.rolandDirEntrySizes = [32, 32, 32, 32, 32] ∧   -- `Roland.dirRec`: `dirOff k + 32 * i`
    Gen.Consts.rolandParOffsets = [Kind.vol, .perf, .patch, .part, .samp].map parOff ∧
    Gen.Consts.rolandParEntrySizes = [Kind.vol, .perf, .patch, .part, .samp].map parSize ∧
    Gen.Consts.rolandMaxNums = [Kind.vol, .perf, .patch, .part, .samp].map maxNum := by decide

/-- raw-sector and MDX containers (C08, C09, C11). -/
theorem K_container :
    Gen.Consts.mdfSectorSize = Container.MDF_SECTOR ∧
    Gen.Consts.mdfHeaderSize = Container.MDF_HEADER ∧
    Gen.Consts.mdfBodySize = Container.MDF_BODY ∧
    Gen.Consts.mdfFooterSize = Container.MDF_FOOTER ∧
    Gen.Consts.mdfHeaderMagic = Container.MDF_SYNC ∧
    Gen.Consts.mdxHeaderMagic = Container.MDX_MAGIC ∧
    Gen.Consts.mdfSectorSize = Stream.MDF_SECTOR ∧
    Gen.Consts.mdfHeaderSize = Stream.MDF_HEADER ∧
    Gen.Consts.mdfBodySize = Stream.MDF_BODY := by decide

/-- CD audio (C03, C20) and the transcoder's block (C12, C15). -/
theorem K_cdda :
    Gen.Consts.cueFramesPerSecond = Cdda.FRAMES_PER_SECOND ∧
    Gen.Consts.cddaSamplesPerFrame = Cdda.SAMPLES_PER_FRAME ∧
    Gen.Consts.cddaBytesPerFrame = Cdda.BYTES_PER_FRAME ∧
    Gen.Consts.cddaSampleWidth = 2 ∧ Gen.Consts.cddaChannels = 2 ∧
    Gen.Consts.cddaSamplingRate = 44100 ∧                     -- `CddaTool`: the generalized sample of a track
    Gen.Consts.wavDefaultSampleRate = 44100 ∧                 -- `Wav.lean`: `if g.rate = 0 then 44100`
    Gen.Consts.transcoderBufferSize = ShortRead.READ_BLOCK := by decide

end Smpl.Props.Consts
