/-
C01 — `export` of one volume whose files carry clean, pairwise distinct names that are not halves
of a pair: exactly one file per sample, at `<dir>/<name>.wav`, in directory order.
-/
import Smpl.Props.C06N
import Smpl.Props.C05
import Smpl.Props.C12I

namespace Smpl.Props.C01
open Smpl Smpl.Akai Smpl.AkaiTool Smpl.Names Smpl.Transcode Smpl.Props.C06

/-! ## the pairing loop on names that are no halves -/

theorem not_mem_take_of_nodup (names : List Name) (hnd : names.Nodup) (i : Nat) (n : Name)
    (hi : names[i]? = some n) : n ∉ names.take i := by
  intro hmem
  have hlt : i < names.length := by
    rcases Nat.lt_or_ge i names.length with h | h
    · exact h
    · rw [List.getElem?_eq_none h] at hi; cases hi
  have hsplit : names = names.take i ++ n :: names.drop (i + 1) := by
    have hn : names[i] = n := by
      rw [List.getElem?_eq_getElem hlt] at hi; exact Option.some.inj hi
    rw [← hn, List.getElem_cons_drop]
    exact (List.take_append_drop i names).symm
  rw [hsplit] at hnd
  have := (List.nodup_append.mp hnd).2.2 n hmem n (by simp)
  exact this rfl

theorem go_no_stereo (names : List Name) (lookup : Name → Option Nat) (hnd : names.Nodup)
    (hns : ∀ n ∈ names, stereoMatch n = none) :
    ∀ (rest : List Name) (i : Nat) (marked taken : List Name) (acc : List Group),
      rest = names.drop i → (∀ m ∈ marked, m ∈ names.take i) →
      combine.go lookup i rest marked taken acc = acc ++ (List.range' i rest.length).map Group.mono := by
  intro rest
  induction rest with
  | nil => intro i marked taken acc _ _; simp [combine.go]
  | cons n ns ih =>
    intro i marked taken acc hrest hmk
    have hni : names[i]? = some n := by
      have := congrArg (·[0]?) hrest
      simp at this
      rw [← this]
    have hns' : ns = names.drop (i + 1) := by
      have := congrArg List.tail hrest
      simpa using this
    have hnm : marked.contains n = false := by
      cases hc : marked.contains n with
      | false => rfl
      | true =>
        exfalso
        exact not_mem_take_of_nodup names hnd i n hni (hmk n (by simpa using hc))
    simp only [combine.go, hnm, Bool.false_eq_true, if_false, hns n (List.mem_of_getElem? hni)]
    rw [ih (i + 1) (n :: marked) taken (acc ++ [Group.mono i]) hns' (by
      intro m hm
      rcases List.mem_cons.mp hm with rfl | hm
      · rw [List.take_add_one, hni]; simp
      · rw [List.take_add_one]; simp [hmk m hm])]
    simp [List.range'_succ]

/-- names that are pairwise distinct and none of which has the shape of a pair half are written one
by one, in order. -/
theorem combine_no_stereo (names : List Name) (hnd : names.Nodup)
    (hns : ∀ n ∈ names, stereoMatch n = none) :
    combine names = (List.range names.length).map Group.mono := by
  unfold combine
  rw [go_no_stereo names _ hnd hns names 0 [] names [] (by simp) (by intro m hm; cases hm)]
  simp [List.range_eq_range']

/-! ## one volume -/

/-- a sample file node. -/
def sampleNode (s : Name × Nat × SampleHdr × Bytes) : FileNode := ⟨s.1, s.2.1, .sample s.2.2.1 s.2.2.2⟩

/-- what `export` writes for one sample file of a directory `dir`. -/
def exportSample (dir : List Name) (s : Name × Nat × SampleHdr × Bytes) : Except Err Exported := do
  let w ← exportOne (genSample s.2.2.1) [⟨monoEnc, s.2.2.2⟩]
  pure ⟨exportPath (dir ++ [s.1]), w⟩

theorem mapM_range_getElem {α β : Type} (F : α → Except Err β) : ∀ (l : List α) (k : Nat) (G : Nat → Except Err β),
    (∀ j x, l[j]? = some x → G (k + j) = F x) →
    (List.range' k l.length).mapM G = l.mapM F := by
  intro l
  induction l with
  | nil => intro k G _; simp
  | cons a as ih =>
    intro k G hG
    simp only [List.length_cons, List.range'_succ, List.mapM_cons]
    have h0 := hG 0 a (by simp)
    simp only [Nat.add_zero] at h0
    rw [h0, ih (k + 1) G (by
      intro j x hx
      have := hG (j + 1) x (by simpa using hx)
      have e : k + (j + 1) = k + 1 + j := by omega
      rw [e] at this; exact this)]

theorem filterMap_map_some {α β γ : Type} (f : α → β) (F : β → Option γ) (g : α → γ)
    (h : ∀ a, F (f a) = some (g a)) : ∀ l : List α, (l.map f).filterMap F = l.map g := by
  intro l
  induction l with
  | nil => rfl
  | cons a as ih => simp only [List.map_cons, List.filterMap_cons, h a, ih]

theorem filterMap_zip_map_some {α β γ δ : Type} (f : α → β) (g : α → γ) (F : β × γ → Option δ) (k : α → δ)
    (h : ∀ a, F (f a, g a) = some (k a)) : ∀ l : List α, ((l.map f).zip (l.map g)).filterMap F = l.map k := by
  intro l
  induction l with
  | nil => rfl
  | cons a as ih => simp only [List.map_cons, List.zip_cons_cons, List.filterMap_cons, h a, ih]

/-- **C01 (one volume, on the model).** A volume that was realised without error and holds sample
files with clean (word characters and inner blanks), pairwise distinct names none of which has the
shape of a pair half is exported as exactly one file per sample, in directory order, each at
`<dir>/<stored name>.wav` with the WAV `export_wav` builds from its header and its data window. -/
theorem C01_export_volume (dir : List Name) (v : VolNode) (hf : v.failed = none)
    (specs : List (Name × Nat × SampleHdr × Bytes)) (hfiles : v.files = specs.map sampleNode)
    (hclean : ∀ s ∈ specs, CleanName s.1) (hnd : (specs.map (·.1)).Nodup)
    (hmono : ∀ s ∈ specs, stereoMatch s.1 = none) :
    exportVolume dir v = specs.mapM (exportSample dir) := by
  have e1 : (specs.map sampleNode).map (fun f => (f.name, true)) = specs.map (fun s => (s.1, true)) := by
    rw [List.map_map]; rfl
  have hassign : assign (specs.map fun s => (s.1, true)) = .ok (specs.map fun s => (s.1, s.1)) := by
    have := C06_clean_names_kept (specs.map fun s => (s.1, true))
      (by
        intro x hx
        simp only [List.mem_map] at hx
        obtain ⟨s, hs, rfl⟩ := hx
        exact hclean s hs)
      (by rw [List.map_map]; exact hnd)
    rw [this, List.map_map]; rfl
  unfold exportVolume
  simp only [hf, hfiles, e1, hassign]
  simp only [bind, Except.bind]
  generalize hS : List.filterMap _ (List.map sampleNode specs) = S
  generalize hE : List.filterMap _ ((List.map sampleNode specs).zip (List.map (fun s => (s.fst, s.fst)) specs)) = E
  have hS' : S = specs.map fun s => (s.1, s.2.2.1, s.2.2.2) := by
    rw [← hS]
    apply filterMap_map_some
    intro s; rfl
  have hE' : E = specs.map (·.1) := by
    rw [← hE]
    apply filterMap_zip_map_some
    intro s; rfl
  subst hS' hE'
  rw [combine_no_stereo (specs.map (·.1)) hnd (by
    intro n hn
    simp only [List.mem_map] at hn
    obtain ⟨s, hs, rfl⟩ := hn
    exact hmono s hs)]
  rw [List.length_map, List.mapM_map, List.range_eq_range']
  have := mapM_range_getElem (exportSample dir) specs 0
    (fun i => match (specs.map fun s => (s.1, s.2.2.1, s.2.2.2))[i]?, (specs.map (·.1))[i]? with
      | some (_, h, d), some e => do
        let w ← exportOne (genSample h) [⟨monoEnc, d⟩]
        pure ⟨exportPath (dir ++ [e]), w⟩
      | _, _ => .error .other)
    (by
      intro j x hx
      simp only [Nat.zero_add, List.getElem?_map, hx, Option.map_some]
      rfl)
  exact this

/-! ## the bytes of one exported mono sample -/

theorem map_getD_map_some (l : List Nat) : (l.map some).map (fun b => b.getD 0) = l := by
  induction l with
  | nil => rfl
  | cons a as ih => simp [ih]

/-- **C01 (the WAV of one mono sample, on the model).** `export_wav` of an AKAI sample file whose data
window holds the bytes `d` writes the RIFF header `buildWav` computes for the whole 16-bit frames of
`d`, followed by exactly those frames: the PCM is the window's bytes, in order, cut to whole frames —
through `make_transcoder` (the passthrough), for the tool's 4096-byte blocks. -/
theorem C01_export_mono_wav (h : SampleHdr) (d : Bytes) :
    exportOne (genSample h) [⟨monoEnc, d⟩] =
      match Smpl.Wav.buildWav (Smpl.Wav.metaOf (genSample h)) (wholeFrames 2 d) with
      | .error e => .error e
      | .ok bs => .ok ((bs.take (bs.length - (wholeFrames 2 d).length)).map some ++ (wholeFrames 2 d).map some) := by
  unfold exportOne
  have hch : (genSample h).channels = 1 := rfl
  obtain ⟨blocks, hb, hfl⟩ := Smpl.Props.C12.C12_single false 4096 monoEnc true (by decide) (by decide) d
  have henc : (⟨false, monoEnc.width, monoEnc.nch, true⟩ : Enc) = ⟨false, 2, (genSample h).channels, true⟩ := by
    rw [hch]; rfl
  rw [henc] at hb
  simp only [hb]
  have hpcm : blocks.flatten = (wholeFrames 2 d).map some := by
    rw [hfl]
    have hfr : monoEnc.frame = 2 := rfl
    have hw : monoEnc.width = 2 := rfl
    have hbig : monoEnc.big = false := rfl
    rw [hfr, hw, hbig]
    rw [Smpl.Props.C12.mapSamples_id 2 (d.length / 2) (by decide) _ (by
      rw [Smpl.Props.C12.wholeFrames_length])]
  rw [hpcm, map_getD_map_some]
  simp only [List.length_map]
  rfl

/-! ## the whole tree -/

theorem mapM_congr' {α β : Type} (f g : α → Except Err β) : ∀ (l : List α), (∀ x ∈ l, f x = g x) →
    l.mapM f = l.mapM g := by
  intro l
  induction l with
  | nil => intro _; rfl
  | cons a as ih =>
    intro h
    simp only [List.mapM_cons]
    rw [h a (by simp), ih (fun x hx => h x (by simp [hx]))]

theorem mapM_zip_map {α β γ : Type} (k : α → β) (F : α → β → Except Err γ) : ∀ (l : List α),
    (l.zip (l.map k)).mapM (fun x => F x.1 x.2) = l.mapM (fun a => F a (k a)) := by
  intro l
  induction l with
  | nil => rfl
  | cons a as ih => simp only [List.map_cons, List.zip_cons_cons, List.mapM_cons, ih]

/-- the premises of `C01_export_volume` for one volume, with its sample files given by `specs`. -/
structure PlainVolume (v : VolNode) (specs : List (Name × Nat × SampleHdr × Bytes)) : Prop where
  ok     : v.failed = none
  files  : v.files = specs.map sampleNode
  clean  : ∀ s ∈ specs, CleanName s.1
  nodup  : (specs.map (·.1)).Nodup
  mono   : ∀ s ∈ specs, stereoMatch s.1 = none

/-- what `export` writes for one partition whose folder is named `pe`. -/
def exportPartition (specs : VolNode → List (Name × Nat × SampleHdr × Bytes)) (pe : Name) (p : PartNode) :
    Except Err (List Exported) := do
  let perVol ← p.vols.mapM fun v => (specs v).mapM (exportSample [pe, v.name])
  pure perVol.flatten

/-- **C01 (the whole tree, on the model).** Let every volume of every partition hold sample files with
clean, pairwise distinct names that are no pair halves, and let the volume names of each partition be
clean and pairwise distinct. Then `export` writes — partition by partition, volume by volume, file by
file, in stored order — exactly one WAV per sample file at `<partition folder>/<volume>/<name>.wav`
(`C01_export_mono_wav` gives its bytes) and nothing else; `pn` are the names the tool assigns to the
partitions (`A:` … are shown as such and written as folders `A` …). -/
theorem C01_export_tree (parts : List PartNode) (specs : VolNode → List (Name × Nat × SampleHdr × Bytes))
    (pn : List (Name × Name)) (hpn : assign (parts.map fun p => (partName p.letter, false)) = .ok pn)
    (hvol : ∀ p ∈ parts, ∀ v ∈ p.vols, PlainVolume v (specs v))
    (hnames : ∀ p ∈ parts, (∀ v ∈ p.vols, CleanName v.name) ∧ (p.vols.map (·.name)).Nodup) :
    exportOf parts = (do
      let perPart ← (parts.zip pn).mapM fun x => exportPartition specs x.2.2 x.1
      pure perPart.flatten) := by
  unfold exportOf
  simp only [hpn]
  simp only [bind, Except.bind]
  congr 1
  apply mapM_congr'
  intro x hx
  obtain ⟨p, sn, pe⟩ := x
  simp only
  have hp : p ∈ parts := (List.of_mem_zip hx).1
  obtain ⟨hcl, hnd⟩ := hnames p hp
  have hassign : assign (p.vols.map fun v => (v.name, false)) = .ok (p.vols.map fun v => (v.name, v.name)) := by
    have := C06_clean_names_kept (p.vols.map fun v => (v.name, false))
      (by
        intro y hy
        simp only [List.mem_map] at hy
        obtain ⟨v, hv, rfl⟩ := hy
        exact hcl v hv)
      (by rw [List.map_map]; exact hnd)
    rw [this, List.map_map]; rfl
  simp only [hassign]
  unfold exportPartition
  simp only [bind, Except.bind]
  have hz := mapM_zip_map (fun v : VolNode => (v.name, v.name))
    (fun (v : VolNode) (y : Name × Name) => exportVolume [pe, y.2] v) p.vols
  rw [hz]
  rw [mapM_congr' (fun v => exportVolume [pe, v.name] v) (fun v => (specs v).mapM (exportSample [pe, v.name])) p.vols
    (by
      intro v hv
      obtain ⟨h1, h2, h3, h4, h5⟩ := hvol p hp v hv
      exact C01_export_volume [pe, v.name] v h1 (specs v) h2 h3 h4 h5)]

/-- premises satisfiable: two sample files `KICK`, `SN 2` in a volume that was realised without error. -/
example (t1 t2 : Nat) (h1 h2 : SampleHdr) (d1 d2 : Bytes) :
    PlainVolume ⟨"DRUMS".toList, 1, [sampleNode ("KICK".toList, t1, h1, d1), sampleNode ("SN 2".toList, t2, h2, d2)], none⟩
      [("KICK".toList, t1, h1, d1), ("SN 2".toList, t2, h2, d2)] := by
  have c1 : CleanName "KICK".toList := ⟨by decide, ⟨'K', "ICK".toList, rfl, by decide⟩, ⟨'K', by decide, by decide⟩⟩
  have c2 : CleanName "SN 2".toList := ⟨by decide, ⟨'S', "N 2".toList, rfl, by decide⟩, ⟨'2', by decide, by decide⟩⟩
  have m1 : stereoMatch "KICK".toList = none := by decide
  have m2 : stereoMatch "SN 2".toList = none := by decide
  have nd : ["KICK".toList, "SN 2".toList].Nodup := by decide
  refine ⟨rfl, rfl, ?_, nd, ?_⟩
  · intro s hs
    simp only [List.mem_cons, List.mem_nil_iff, or_false] at hs
    rcases hs with rfl | rfl
    · exact c1
    · exact c2
  · intro s hs
    simp only [List.mem_cons, List.mem_nil_iff, or_false] at hs
    rcases hs with rfl | rfl
    · exact m1
    · exact m2

end Smpl.Props.C01
