/-
C12 — one block of ANY number of sources, each with any number of interleaved channels: every
source channel keeps its place (source order, then channel order) and every frame its position.
-/
import Smpl.Props.C12I

namespace Smpl.Props.C12
open Smpl.Transcode

theorem encodeBlock_slots (w : Nat) (chs : List (List Sample)) :
    encodeBlock w chs
      = (List.range ((chs.map List.length).foldl max 0)).flatMap fun f => chs.flatMap fun ch => slot w ch f := by
  unfold encodeBlock slot
  rfl

theorem groups_eq_map (w : Nat) (n : Nat) (l : List Byte) :
    groups w n l = (List.range n).map (frameOf w l) := by
  apply List.ext_getElem?
  intro i
  by_cases hi : i < n
  · rw [groups_get w n l i hi]
    simp [hi]
  · have h1 : (groups w n l).length ≤ i := by rw [groups_length]; omega
    have h2 : ((List.range n).map (frameOf w l)).length ≤ i := by simp; omega
    rw [List.getElem?_eq_none h1, List.getElem?_eq_none h2]

theorem map_some_flatten_map {α : Type} (F : α → List Byte) : ∀ (l : List α),
    ((l.map F).flatten).map some = l.flatMap (fun x => (F x).map some) := by
  intro l
  induction l with
  | nil => rfl
  | cons a as ih => simp [List.flatMap_cons, ih]

theorem flatMap_flatten_map {α β γ : Type} (F : α → List β) (G : β → List γ) : ∀ (L : List α),
    ((L.map F).flatten).flatMap G = L.flatMap (fun s => (F s).flatMap G) := by
  intro L
  induction L with
  | nil => rfl
  | cons a as ih => simp [List.flatMap_cons, List.flatMap_append, ih]

/-- frame `f` of one source's block: its `n` samples, each mapped, in channel order. -/
theorem source_frame (e : Enc) (hw : 0 < e.width) (hn : 0 < e.nch) (g : Sample → Sample)
    (buf : List Byte) (m : Nat) (hl : buf.length = m * e.frame) (f : Nat) (hf : f < m) :
    ((decodeOne e buf).map (·.map g)).flatMap (fun ch => slot e.width ch f)
      = (mapSamples g e.width ((buf.drop (f * e.frame)).take e.frame)).map some := by
  have hfr : 0 < e.frame := by unfold Enc.frame; exact Nat.mul_pos hn hw
  have hm : 0 < m := by omega
  have hwf : wholeFrames e.frame buf = buf := wholeFrames_exact e.frame m hfr buf hl
  have hne : buf.isEmpty = false := by
    rw [List.isEmpty_eq_false_iff]
    intro h0
    rw [h0] at hl
    have := Nat.mul_pos hm hfr
    simp only [List.length_nil] at hl; omega
  have hss : samplesOf e.width buf = groups e.width (m * e.nch) buf := by
    apply samplesOf_exact e.width (m * e.nch) hw buf
    rw [hl]; unfold Enc.frame; rw [Nat.mul_assoc]
  have hssl : (samplesOf e.width buf).length = m * e.nch := by rw [hss, groups_length]
  -- the right-hand side: the samples f·n … f·n+n-1
  have hfb : ((buf.drop (f * e.frame)).take e.frame).length = e.nch * e.width := by
    rw [List.length_take, List.length_drop, hl]
    have : (f + 1) * e.frame ≤ m * e.frame := Nat.mul_le_mul_right _ (by omega)
    rw [Nat.add_mul] at this
    unfold Enc.frame at *
    omega
  have hrhs : mapSamples g e.width ((buf.drop (f * e.frame)).take e.frame)
      = ((List.range e.nch).map fun c => g (frameOf e.width buf (f * e.nch + c))).flatten := by
    unfold mapSamples
    rw [samplesOf_exact e.width e.nch hw _ hfb, groups_eq_map, List.map_map]
    congr 1
    apply List.map_congr_left
    intro c hc
    have hc' := List.mem_range.mp hc
    simp only [Function.comp]
    congr 1
    have hle : c * e.width + e.width ≤ e.frame := by
      have : (c + 1) * e.width ≤ e.nch * e.width := Nat.mul_le_mul_right _ (by omega)
      rw [Nat.add_mul] at this
      unfold Enc.frame; omega
    rw [frameOf_take e.width e.frame _ c hle]
    have : f * e.frame = (f * e.nch) * e.width := by unfold Enc.frame; rw [Nat.mul_assoc]
    rw [this, frameOf_drop, Nat.add_comm]
  have hget : ∀ c, c < e.nch → (samplesOf e.width buf)[f * e.nch + c]?.getD [] = frameOf e.width buf (f * e.nch + c) := by
    intro c hc
    rw [hss, groups_get e.width (m * e.nch) buf (f * e.nch + c) (by
      have : (f + 1) * e.nch ≤ m * e.nch := Nat.mul_le_mul_right _ (by omega)
      rw [Nat.add_mul] at this; omega)]
    rfl
  rw [hrhs]
  unfold decodeOne
  simp only [hwf, hne, Bool.false_eq_true, if_false]
  by_cases hc : e.chans > 1
  · simp only [hc, if_true]
    have hch : e.chans = e.nch := by unfold Enc.chans at *; omega
    rw [hch, List.map_map, List.flatMap_map, map_some_flatten_map]
    apply flatMap_congr'
    intro c hcm
    have hc' := List.mem_range.mp hcm
    simp only [Function.comp]
    rw [everyNth_spec e.nch c hc' m _ hssl]
    unfold slot
    simp only [List.map_map, List.getElem?_map, List.getElem?_range hf, Option.map_some, Function.comp]
    rw [hget c hc']
  · simp only [hc, if_false, List.map_cons, List.map_nil, List.flatMap_cons, List.flatMap_nil, List.append_nil]
    have hn1 : e.nch = 1 := by unfold Enc.chans at hc; omega
    rw [hn1]
    simp only [List.range_one, List.map_cons, List.map_nil, List.flatten_cons, List.flatten_nil, List.append_nil,
      Nat.add_zero, Nat.mul_one]
    unfold slot
    have hfl : f < (samplesOf e.width buf).length := by rw [hssl, hn1]; omega
    simp only [List.getElem?_map, List.getElem?_eq_getElem hfl, Option.map_some]
    have := hget 0 (by omega)
    rw [hn1, Nat.mul_one, Nat.add_zero, List.getElem?_eq_getElem hfl] at this
    simp only [Option.getD_some] at this
    rw [this]

theorem decodeOne_channel_length (e : Enc) (hw : 0 < e.width) (hn : 0 < e.nch) (buf : List Byte) (m : Nat)
    (hm : 0 < m) (hl : buf.length = m * e.frame) : ∀ ch ∈ decodeOne e buf, ch.length = m := by
  have hfr : 0 < e.frame := by unfold Enc.frame; exact Nat.mul_pos hn hw
  have hwf : wholeFrames e.frame buf = buf := wholeFrames_exact e.frame m hfr buf hl
  have hne : buf.isEmpty = false := by
    rw [List.isEmpty_eq_false_iff]
    intro h0
    rw [h0] at hl
    have := Nat.mul_pos hm hfr
    simp only [List.length_nil] at hl; omega
  have hssl : (samplesOf e.width buf).length = m * e.nch := by
    rw [samplesOf_exact e.width (m * e.nch) hw buf (by rw [hl]; unfold Enc.frame; rw [Nat.mul_assoc]), groups_length]
  intro ch hch
  unfold decodeOne at hch
  simp only [hwf, hne, Bool.false_eq_true, if_false] at hch
  by_cases hc : e.chans > 1
  · simp only [hc, if_true, List.mem_map, List.mem_range] at hch
    obtain ⟨c, hcl, rfl⟩ := hch
    have hchn : e.chans = e.nch := by unfold Enc.chans at *; omega
    rw [hchn] at hcl ⊢
    rw [everyNth_spec e.nch c hcl m _ hssl]; simp
  · simp only [hc, if_false, List.mem_singleton] at hch
    subst hch
    have hn1 : e.nch = 1 := by unfold Enc.chans at hc; omega
    rw [hssl, hn1]; omega

/-- **C12 (one block, any number of sources).** Let every source deliver `m ≥ 1` whole frames to a
block (`nch ≥ 1` interleaved channels each, one common sample width, either byte order). Decoding
every source into its channels, applying the per-channel byte-order steps and interleaving gives, frame
by frame, the sources' frames in SOURCE ORDER, each with its channels in CHANNEL ORDER, every sample
byte-reversed exactly when its source is big-endian: one output channel per source channel, frame `f`
of channel `c` = frame `f` of source channel `c`. -/
theorem C12_block_general (w : Nat) (hw : 0 < w) (srcs : List (Enc × List Byte)) (hne : srcs ≠ []) (m : Nat) (hm : 0 < m)
    (hs : ∀ s ∈ srcs, s.1.width = w ∧ 0 < s.1.nch ∧ s.2.length = m * s.1.frame) :
    encodeBlock w ((srcs.map fun s => (decodeOne s.1 s.2).map (·.map (gOf s.1.big))).flatten)
      = ((List.range m).flatMap fun f => srcs.flatMap fun s =>
          mapSamples (gOf s.1.big) w ((s.2.drop (f * s.1.frame)).take s.1.frame)).map some := by
  rw [encodeBlock_slots]
  have htarget : ((((srcs.map fun s => (decodeOne s.1 s.2).map (·.map (gOf s.1.big))).flatten).map List.length).foldl max 0) = m := by
    apply foldl_max_const m _ 0 (by omega)
    · obtain ⟨s, rest, rfl⟩ := List.exists_cons_of_ne_nil hne
      obtain ⟨h1, h2, h3⟩ := hs s (by simp)
      have hlen := decodeOne_length s.1 s.2
      have hpos : 0 < s.1.chans := by unfold Enc.chans; omega
      intro e
      have := congrArg List.length e
      simp only [List.map_cons, List.flatten_cons, List.map_append, List.length_append, List.length_map, hlen,
        List.length_nil] at this
      omega
    · intro x hx
      simp only [List.mem_map, List.mem_flatten] at hx
      obtain ⟨ch, ⟨l, ⟨s, hsm, rfl⟩, hchl⟩, rfl⟩ := hx
      simp only [List.mem_map] at hchl
      obtain ⟨ch0, hch0, rfl⟩ := hchl
      obtain ⟨h1, h2, h3⟩ := hs s hsm
      rw [List.length_map]
      exact decodeOne_channel_length s.1 (by rw [h1]; exact hw) h2 s.2 m hm h3 ch0 hch0
  rw [htarget, List.map_flatMap]
  apply flatMap_congr'
  intro f hf
  have hf' := List.mem_range.mp hf
  rw [flatMap_flatten_map, List.map_flatMap]
  apply flatMap_congr'
  intro s hsm
  obtain ⟨h1, h2, h3⟩ := hs s hsm
  have := source_frame s.1 (by rw [h1]; exact hw) h2 (gOf s.1.big) s.2 m h3 f hf'
  rw [h1] at this
  exact this

theorem applyFlags_append (a b : List (List Sample)) (fa fb : List Bool) (h : a.length = fa.length) :
    applyFlags (a ++ b) (fa ++ fb) = applyFlags a fa ++ applyFlags b fb := by
  unfold applyFlags
  rw [List.zip_append h, List.map_append]

/-- the byte-order steps of the pipeline, for any number of sources into a little-endian destination and
whatever the host: every channel of a source is treated by that source's byte order. -/
theorem applySwaps_sources (host : Bool) (dest : Enc) (hd : dest.big = false) :
    ∀ (sb : List (Src × List Byte)),
    applySwaps host dest (sb.map (·.1)) ((sb.map fun x => decodeOne x.1.enc x.2).flatten)
      = (sb.map fun x => (decodeOne x.1.enc x.2).map (·.map (gOf x.1.enc.big))).flatten := by
  intro sb
  have hlen : ((sb.map fun x => decodeOne x.1.enc x.2).flatten).length = (destFlags dest (sb.map (·.1))).length := by
    induction sb with
    | nil => rfl
    | cons x xs ih =>
      simp only [List.map_cons, List.flatten_cons, List.length_append, destFlags, List.flatMap_cons,
        List.length_replicate, decodeOne_length] at ih ⊢
      rw [ih]
  rw [C12_swaps_host_independent host dest _ _ hlen]
  clear hlen
  induction sb with
  | nil => rfl
  | cons x xs ih =>
    simp only [List.map_cons, List.flatten_cons, destFlags, List.flatMap_cons] at ih ⊢
    rw [applyFlags_append _ _ _ _ (by rw [decodeOne_length, List.length_replicate]), ih]
    congr 1
    have := applyFlags_replicate (x.1.enc.big != dest.big) (decodeOne x.1.enc x.2)
    rw [decodeOne_length] at this
    rw [this, hd]
    cases x.1.enc.big <;> rfl

/-- **C12 (one block of the pipeline, any number of sources).** The block the pipeline emits when every
source has delivered `m ≥ 1` whole frames: frame by frame the sources' frames in source order, channels
in channel order, each sample byte-reversed exactly when its source is big-endian — for every host. -/
theorem C12_block_pipeline (host : Bool) (dest : Enc) (hd : dest.big = false) (sb : List (Src × List Byte))
    (hne : sb ≠ []) (m : Nat) (hm : 0 < m) (hw : 0 < dest.width)
    (hs : ∀ x ∈ sb, x.1.enc.width = dest.width ∧ 0 < x.1.enc.nch ∧ x.2.length = m * x.1.enc.frame) :
    encodeBlock dest.width (applySwaps host dest (sb.map (·.1)) ((sb.map fun x => decodeOne x.1.enc x.2).flatten))
      = ((List.range m).flatMap fun f => sb.flatMap fun x =>
          mapSamples (gOf x.1.enc.big) dest.width ((x.2.drop (f * x.1.enc.frame)).take x.1.enc.frame)).map some := by
  rw [applySwaps_sources host dest hd sb]
  have := C12_block_general dest.width hw (sb.map fun x => (x.1.enc, x.2)) (by
    intro e; exact hne (List.map_eq_nil_iff.mp e)) m hm (by
    intro s hsm
    simp only [List.mem_map] at hsm
    obtain ⟨x, hx, rfl⟩ := hsm
    exact hs x hx)
  simp only [List.map_map, List.flatMap_map] at this
  exact this

/-- non-vacuity: a big-endian interleaved stereo stream next to a little-endian mono stream, two frames. -/
example : encodeBlock 2 (applySwaps true ⟨false, 2, 3, true⟩
      [⟨⟨true, 2, 2, true⟩, []⟩, ⟨⟨false, 2, 1, true⟩, []⟩]
      ((decodeOne ⟨true, 2, 2, true⟩ [1, 2, 3, 4, 5, 6, 7, 8]) ++ (decodeOne ⟨false, 2, 1, true⟩ [9, 10, 11, 12])))
    = [2, 1, 4, 3, 9, 10, 6, 5, 8, 7, 11, 12].map some := by decide

end Smpl.Props.C12
