/-
C13 — `ls` and `export` terminate with bounded resources on any input file.

What a theorem carries here: every loop of the model is a total Lean function (structural
recursion, or well-founded with a proved measure — no `partial`, no fuel that can cut a run short),
and the iteration counts of the loops the property anchors are bounded by the size of what they
scan, for **all** inputs. CPU seconds and resident memory of CPython are not expressible in the
model; they are measured by the harness (see DESIGN.md §4 C13). The statement is therefore partial
by nature and labelled so in the manifest.
-/
import Smpl.Model.Akai
import Smpl.Model.Roland
import Smpl.Model.Cue
import Smpl.Model.AkaiProgram
import Smpl.Props.C07

namespace Smpl.Props.C13
open Smpl Smpl.Alloc

/-! ## chain walks -/

/-- `get_path` on any table (cyclic, self-linked, out of range) ends with a path of at most `size`
sectors or with a reported error. -/
theorem C13_get_path (links : List Link) (size start : Nat) :
    (∃ p, getPath links size start = .ok p ∧ p.length ≤ size) ∨
    (∃ e, getPath links size start = .error e) := by
  rcases Smpl.Props.C07.C07_getPath_total links size start with ⟨p, hp, _, hl⟩ | h | h
  · exact .inl ⟨p, hp, hl⟩
  · exact .inr ⟨_, h⟩
  · exact .inr ⟨_, h⟩

/-- the AKAI SAT walk strictly decreases its measure (non-dirty sectors, then distance to the
table end) at every iteration: this is the decreasing-measure lemma with which Lean's termination
checker accepted `akaiWalk` (restated from `Smpl.Alloc.akai_measure`). -/
theorem C13_akai_walk_measure (d : List Bool) (size sub v : Nat) (hsub : sub < size) (dir : Bool)
    (hlink : dir = false → d[v]? = some false)
    (hnext : (if dir = false then v else sub + 1) < size) :
    Prod.Lex (· < ·) (· < ·)
      (phi (d.set sub true) (if dir = false then v else sub + 1),
        size - (if dir = false then v else sub + 1))
      (phi d sub, size - sub) :=
  Smpl.Alloc.akai_measure d size sub v hsub dir hlink hnext

/-! ## AKAI partition scan -/

open Smpl.Akai in
theorem parsePartition_advance (file : Bytes) (pos k : Nat) (p : Part) (next : Nat)
    (h : parsePartition file pos k = .ok (some (p, next))) : pos + SECTOR ≤ next := by
  unfold parsePartition at h
  split at h
  · split at h
    · simp at h
    · split at h
      · simp at h
      · split at h
        · simp at h
        · rename_i satRaw _
          simp only at h
          cases hd : akaiDecode (words16 satRaw) with
          | error e => simp [hd] at h
          | ok links =>
            simp only [hd] at h
            split at h
            · simp at h
            · rename_i hsz
              simp only [Except.ok.injEq, Option.some.injEq, Prod.mk.injEq] at h
              obtain ⟨_, rfl⟩ := h
              have h1 : 1 ≤ _ := Nat.one_le_iff_ne_zero.mpr hsz
              have := Nat.mul_le_mul_right SECTOR h1
              omega
  · simp at h

open Smpl.Akai in
theorem partitions_past_end (file : Bytes) (fuel pos k : Nat) (h : file.length ≤ pos) :
    partitions file fuel pos k = .ok [] := by
  cases fuel with
  | zero => rfl
  | succ f => simp [partitions, Nat.not_lt.mpr h]

open Smpl.Akai in
/-- **the scan is bounded by the file size**: every accepted partition advances the position by
at least one sector, so at most `⌈(len − pos)/8192⌉` partitions are parsed. -/
theorem C13_partition_count (file : Bytes) (fuel pos k : Nat) (ps : List Part)
    (h : partitions file fuel pos k = .ok ps) : ps.length * SECTOR ≤ (file.length - pos) + SECTOR := by
  induction fuel generalizing pos k ps with
  | zero => simp [partitions] at h; subst h; simp
  | succ f ih =>
    unfold partitions at h
    split at h
    · rename_i hpos
      split at h
      · simp at h
      · simp at h; subst h; simp
      · rename_i p next hpp
        have hadv := parsePartition_advance file pos k p next hpp
        split at h
        · rename_i ps' hrec
          simp at h; subst h
          by_cases hn : file.length ≤ next
          · rw [partitions_past_end file f next (k + 1) hn] at hrec
            simp at hrec; subst hrec; simp
          · have := ih next (k + 1) ps' hrec
            simp only [List.length_cons, Nat.add_mul, Nat.one_mul]
            omega
        · simp at h
    · simp at h; subst h; simp

open Smpl.Akai in
/-- **the fuel never cuts the scan short**: with the fuel the model passes (`len/8192 + 2`), one
more unit of fuel gives the same result — the function is the unbounded loop of the code. -/
theorem C13_partition_fuel (file : Bytes) (fuel pos k : Nat)
    (hf : (file.length - pos) / SECTOR + 1 ≤ fuel) :
    partitions file (fuel + 1) pos k = partitions file fuel pos k := by
  induction fuel generalizing pos k with
  | zero => simp at hf
  | succ f ih =>
    rw [partitions]; conv => rhs; rw [partitions]
    split
    · rename_i hpos
      split
      · rfl
      · rfl
      · rename_i p next hpp
        have hadv := parsePartition_advance file pos k p next hpp
        by_cases hn : file.length ≤ next
        · rw [partitions_past_end file (f + 1) next (k + 1) hn, partitions_past_end file f next (k + 1) hn]
        · rw [ih next (k + 1) (by
            simp only [SECTOR] at *
            omega)]
    · rfl

/-! ## AKAI file table -/

open Smpl.Akai in
/-- at most `k` entries come out of a table scanned for `k = len/24` iterations. -/
theorem C13_file_table (p : Part) (tbl : Bytes) (k i : Nat) (es : List FileEntry)
    (h : fileTable p tbl k i = .ok es) : es.length ≤ k := by
  induction k generalizing i es with
  | zero => simp [fileTable] at h; subst h; simp
  | succ k ih =>
    unfold fileTable at h
    simp only at h
    cases hu : uN tbl (i * FILE_ENTRY_BYTES + 8) 2 with
    | none => simp [hu] at h; subst h; simp
    | some flag =>
      simp only [hu] at h
      by_cases hfl : flag = TABLE_END
      · simp [hfl] at h; subst h; simp
      · simp only [hfl, if_false] at h
        cases hpe : parseEntry p tbl (i * FILE_ENTRY_BYTES) with
        | fatal e => simp [hpe] at h
        | skip => simp only [hpe] at h; exact Nat.le_succ_of_le (ih _ _ h)
        | entry e =>
          simp only [hpe] at h
          cases hrec : fileTable p tbl k (i + 1) with
          | error err => simp [hrec] at h
          | ok rest =>
            simp only [hrec] at h
            have := ih _ _ hrec
            simp at h; subst h
            split <;> simp <;> omega

/-! ## cue sheet -/

open Smpl.Cue in
/-- every track consumes at least its own TRACK line: a FILE block of `n` lines yields ≤ `n` tracks. -/
theorem C13_cue_tracks (fuel : Nat) (ks : List Kind) (ts : List Track)
    (h : fileTracks fuel ks = .ok ts) : ts.length ≤ ks.length := by
  induction fuel generalizing ks ts with
  | zero => simp [fileTracks] at h; subst h; simp
  | succ f ih =>
    cases ks with
    | nil => simp [fileTracks] at h; subst h; simp
    | cons k rest =>
      cases k with
      | blank => simp only [fileTracks] at h; exact Nat.le_succ_of_le (ih _ _ h)
      | track n m =>
        simp only [fileTracks] at h
        split at h
        · rename_i ts' hrec
          simp at h; subst h
          have h1 := ih _ _ hrec
          have h2 := trackBody_length ⟨n, m, none, [], []⟩ rest
          simp only [List.length_cons]; omega
        · simp at h
      | index _ _ _ _ => simp [fileTracks] at h
      | title _ => simp [fileTracks] at h
      | file _ _ => simp [fileTracks] at h
      | other _ => simp [fileTracks] at h

open Smpl.Cue in
/-- the fuel `rest.length + 1` is never exhausted: one more unit changes nothing. -/
theorem C13_cue_fuel (fuel : Nat) (ks : List Kind) (hf : ks.length < fuel) :
    fileTracks (fuel + 1) ks = fileTracks fuel ks := by
  induction fuel generalizing ks with
  | zero => omega
  | succ f ih =>
    cases ks with
    | nil => simp [fileTracks]
    | cons k rest =>
      cases k with
      | blank => simp only [fileTracks]; exact ih rest (by simp at hf; omega)
      | track n m =>
        simp only [fileTracks]
        have h2 := trackBody_length ⟨n, m, none, [], []⟩ rest
        rw [ih _ (by simp at hf; omega)]
      | index _ _ _ _ => simp [fileTracks]
      | title _ => simp [fileTracks]
      | file _ _ => simp [fileTracks]
      | other _ => simp [fileTracks]

/-! ## Roland directory lists -/

open Smpl.Roland in
/-- the volume list has at most `num_volumes` (a 16-bit count) entries. -/
theorem C13_roland_volumes (img : Img) (n : Nat) : (volumeHeads img n).length ≤ n := by
  unfold volumeHeads
  exact Nat.le_trans (List.length_filterMap_le _ _) (by simp)

open Smpl.Roland in
theorem perfScan_length (img : Img) (n i pos : Nat) : (perfScan img n i pos).length ≤ n := by
  induction n generalizing i pos with
  | zero => simp [perfScan]
  | succ n ih =>
    unfold perfScan
    split
    · simp
    · split
      · exact Nat.le_succ_of_le (ih _ _)
      · split
        · simp
        · have := ih (i + 1) (pos + 32)
          simp only [List.length_append]
          split <;> simp <;> omega

open Smpl.Roland in
/-- the orphan search visits the 512 performance slots once. -/
theorem C13_roland_perf_scan (img : Img) : (perfIndices img).length ≤ 512 := by
  unfold perfIndices
  exact Nat.le_trans (perfScan_length img _ _ _) (by simp [maxNum])

open Smpl.Roland in
/-- a cluster chain handed to a sample has at most 65536 clusters, whatever the FAT holds. -/
theorem C13_roland_chain (fat : Fat) (entry top : Nat) (cl : List Nat)
    (h : fileClusters fat entry top = .ok cl) : cl.length ≤ FAT_N := by
  unfold fileClusters at h
  split at h
  · simp at h
  · rename_i path hp
    simp at h; subst h
    rcases Smpl.Props.C07.C07_getPath_total fat.links FAT_N entry with ⟨p, hp', _, hl⟩ | h' | h'
    · rw [hp] at hp'; simp at hp'; subst hp'; simp; omega
    · rw [hp] at h'; simp at h'
    · rw [hp] at h'; simp at h'

/-- the amount of audio a window yields is bounded by the content it is cut from. -/
theorem C13_window_bound (content : Smpl.Roland.Bytes) (start n : Int) (rev : Bool) (w : Smpl.Roland.Bytes)
    (h : Smpl.Roland.windowOf content start n rev = some w) : w.length ≤ content.length := by
  unfold Smpl.Roland.windowOf at h
  split at h
  · simp at h; subst h; simp
  · have hlen : ((content.drop (2 * start.toNat)).take (2 * n.toNat)).length ≤ content.length := by
      simp; omega
    simp only at h
    split at h
    · split at h
      · rename_i heq
        simp at h; subst h
        -- reverseWords never lengthens
        have : ∀ x : Smpl.Roland.Bytes, (Smpl.Roland.reverseWords x).length ≤ x.length := by
          intro x
          induction x using Smpl.ShortRead.reverseWords.induct with
          | case1 a b rest ih => simp [Smpl.ShortRead.reverseWords]; omega
          | case2 t _ => unfold Smpl.ShortRead.reverseWords; split <;> simp_all
        exact Nat.le_trans (this _) hlen
      · simp at h; subst h; simp
    · simp at h; subst h; exact hlen

/-! ## AKAI program keygroup chain -/

open Smpl.AkaiProgram in
/-- the keygroup chain is walked exactly `number_of_keygroups − i` times (a one-byte count: at most
255), whatever next-addresses the keygroups store — a cyclic chain cannot make it longer. -/
theorem C13_keygroups (c : Smpl.Akai.Bytes) (n : Nat) :
    ∀ (k i pos : Nat) (kgs : List Keygroup), n - i = k → parseKeygroups c n i pos = some kgs → kgs.length = k := by
  intro k
  induction k with
  | zero =>
    intro i pos kgs hk h
    rw [parseKeygroups] at h
    have : i ≥ n := by omega
    simp [this] at h
    subst h; rfl
  | succ k ih =>
    intro i pos kgs hk h
    rw [parseKeygroups] at h
    have : ¬ i ≥ n := by omega
    simp only [this, dite_false] at h
    split at h
    · cases h
    · split at h
      · cases h
      · rename_i kg _ rest hrest
        simp only [Option.some.injEq] at h
        subst h
        have := ih (i + 1) _ rest (by omega) hrest
        simp [this]

end Smpl.Props.C13
