/-
C08 — Byte-window views behave as read-only files under any seek/read history.
-/
import Smpl.Model.Stream
import Smpl.Spec.AbsFile
import Smpl.Lemmas.StreamSector

namespace Smpl.Props.C08
open Smpl Smpl.Stream Smpl.Spec

/-! ### arbitrary nestings of views -/

/-- a nesting of views over one OS file; every object carries its identity in the shared store. -/
inductive Shape where
  | base   (i : Nat) (c : List Byte)
  | wrap   (i : Nat) (sub : Shape) (eof : Int)
  | offset (i : Nat) (sub : Shape) (eof off : Int)
  | chain  (i : Nat) (sub : Shape) (L : Nat) (secs : List Nat)
  | sector (i : Nat) (sub : Shape) (L nsec : Nat)
  | mdf    (i : Nat) (sub : Shape) (nsec : Nat)

namespace Shape

def id : Shape → Nat
  | base i _ | wrap i _ _ | offset i _ _ _ | chain i _ _ _ | sector i _ _ _ | mdf i _ _ => i

/-- identities of the object and of everything below it (its footprint). -/
def fp : Shape → List Nat
  | base i _ => [i]
  | wrap i s _ | offset i s _ _ | chain i s _ _ | sector i s _ _ | mdf i s _ => i :: s.fp

/-- the stream object the code would construct. -/
def build : Shape → FileLike
  | base i c => mkBase c i
  | wrap i s eof => mkWrap s.build i eof
  | offset i s eof off => mkOffset s.build i eof off
  | chain i s L secs => mkChain s.build i L secs
  | sector i s L nsec => mkSector s.build i ((nsec * L : Nat) : Int) L
  | mdf i s nsec => mkMdf s.build i ((nsec * MDF_BODY : Nat) : Int)

/-- the logical content (specification; does not mention cursors or reads). -/
def denote : Shape → List Byte
  | base _ c => c
  | wrap _ s eof => slice s.denote 0 eof
  | offset _ s eof off => slice s.denote off eof
  | chain _ s L secs => secContent s.denote L (secs.map (· * L))
  | sector _ s L nsec => secContent s.denote L ((List.range nsec).map (· * L))
  | mdf _ s nsec => secContent s.denote MDF_BODY ((List.range nsec).map (· * MDF_SECTOR + MDF_HEADER))

def isBase : Shape → Bool
  | base _ _ => true
  | _ => false

/-- well-formedness: non-empty window inside the content below it, fresh identity, and the shared
cell-invariant family `ok` says "cursor within [0, length]" for this object. -/
def WF (ok : Nat → Cell → Prop) : Shape → Prop
  | base i _ => ∀ cell, ok i cell ↔ 0 ≤ cell.pos
  | wrap i s eof => s.WF ok ∧ i ∉ s.fp ∧ 0 < eof ∧ eof ≤ s.denote.length ∧
      (∀ cell, ok i cell ↔ (0 ≤ cell.pos ∧ cell.pos ≤ eof))
  | offset i s eof off => s.WF ok ∧ i ∉ s.fp ∧ 0 < eof ∧ 0 ≤ off ∧ off + eof ≤ s.denote.length ∧
      (∀ cell, ok i cell ↔ (0 ≤ cell.pos ∧ cell.pos ≤ eof))
  | chain i s L secs => s.WF ok ∧ i ∉ s.fp ∧ 0 < L ∧ secs ≠ [] ∧
      (∀ sct ∈ secs, (sct + 1) * L ≤ s.denote.length) ∧
      (∀ cell, ok i cell ↔ (0 ≤ cell.pos ∧ cell.pos ≤ ((L * secs.length : Nat) : Int)))
  | sector i s L nsec => s.WF ok ∧ i ∉ s.fp ∧ 0 < L ∧ 0 < nsec ∧ nsec * L ≤ s.denote.length ∧
      (∀ cell, ok i cell ↔ (0 ≤ cell.pos ∧ cell.pos ≤ ((nsec * L : Nat) : Int)))
  | mdf i s nsec => s.WF ok ∧ i ∉ s.fp ∧ 0 < nsec ∧ nsec * MDF_SECTOR ≤ s.denote.length ∧
      (∀ cell, ok i cell ↔ (0 ≤ cell.pos ∧ cell.pos ≤ ((nsec * MDF_BODY : Nat) : Int)))

end Shape

/-- every well-formed nesting offers the substream interface … -/
theorem build_isSub (ok : Nat → Cell → Prop) (sh : Shape) (h : sh.WF ok) :
    IsSub sh.build sh.denote sh.id sh.fp ok := by
  induction sh with
  | base i c => exact mkBase_isSub c i ok h
  | wrap i s eof ih =>
    obtain ⟨h1, h2, h3, h4, h5⟩ := h
    exact (mkWrap_isFile (ih h1) i h2 eof h3 h4 h5).toIsSub
  | offset i s eof off ih =>
    obtain ⟨h1, h2, h3, h4, h5, h6⟩ := h
    exact (mkOffset_isFile (ih h1) i h2 eof off h3 h4 h5 h6).toIsSub
  | chain i s L secs ih =>
    obtain ⟨h1, h2, h3, h4, h5, h6⟩ := h
    exact (mkChain_isFile (ih h1) i h2 L h3 secs h4 h5 h6).toIsSub
  | sector i s L nsec ih =>
    obtain ⟨h1, h2, h3, h4, h5, h6⟩ := h
    exact (mkSector_isFile (ih h1) i h2 L h3 nsec h4 h5 h6).toIsSub
  | mdf i s nsec ih =>
    obtain ⟨h1, h2, h3, h4, h5⟩ := h
    exact (mkMdf_isFile (ih h1) i h2 nsec h3 h4 h5).toIsSub

/-- … and every view (anything but the OS file itself) is a read-only file over its logical content. -/
theorem build_isFile (ok : Nat → Cell → Prop) (sh : Shape) (h : sh.WF ok) (hb : sh.isBase = false) :
    IsFile sh.build sh.denote sh.id sh.fp ok := by
  cases sh with
  | base i c => simp [Shape.isBase] at hb
  | wrap i s eof =>
    obtain ⟨h1, h2, h3, h4, h5⟩ := h
    exact mkWrap_isFile (build_isSub ok s h1) i h2 eof h3 h4 h5
  | offset i s eof off =>
    obtain ⟨h1, h2, h3, h4, h5, h6⟩ := h
    exact mkOffset_isFile (build_isSub ok s h1) i h2 eof off h3 h4 h5 h6
  | chain i s L secs =>
    obtain ⟨h1, h2, h3, h4, h5, h6⟩ := h
    exact mkChain_isFile (build_isSub ok s h1) i h2 L h3 secs h4 h5 h6
  | sector i s L nsec =>
    obtain ⟨h1, h2, h3, h4, h5, h6⟩ := h
    exact mkSector_isFile (build_isSub ok s h1) i h2 L h3 nsec h4 h5 h6
  | mdf i s nsec =>
    obtain ⟨h1, h2, h3, h4, h5⟩ := h
    exact mkMdf_isFile (build_isSub ok s h1) i h2 nsec h3 h4 h5

/-! ### histories -/

def runOps (f : FileLike) : List Op → Store → List Out × Store
  | [], s => ([], s)
  | op :: rest, s =>
    let (o, s1) := runOp f op s
    let (os, s2) := runOps f rest s1
    (o :: os, s2)

/-- one step of a file object is one step of the abstract file; the global invariant and the frame
are preserved. -/
theorem step_refines {f : FileLike} {c : List Byte} {i : Nat} {fp : List Nat}
    {ok : Nat → Cell → Prop} (hf : IsFile f c i fp ok) (op : Op) (hop : opOk op) (s : Store)
    (hs : GInv ok s) :
    (runOp f op s).1 = (absStep c (s i).pos op).1 ∧
    ((runOp f op s).2 i).pos = (absStep c (s i).pos op).2 ∧
    GInv ok (runOp f op s).2 ∧ Frame fp s (runOp f op s).2 := by
  cases op with
  | tell => simp [runOp, absStep, hf.tell, hs, Frame.refl]
  | seek off wh =>
    obtain ⟨s', h1, h2, h3, h4⟩ := hf.seekFull s off wh hs
    simp [runOp, absStep, h1, h2, h3, h4]
  | read n =>
    obtain ⟨s', h1, h2, h3, h4⟩ := hf.read s n hs hop
    simp [runOp, absStep, h1, h2, h3, h4]

/-- **C08 (refinement).** For any object that satisfies the file specification — in particular
every well-formed nesting of windows, sector chains, raw-sector views (`build_isFile`) — and any
history of `tell` / `seek(offset, whence)` / `read(n ≥ 0)`, from any store satisfying the global
invariant (whatever the cursors of the objects underneath are): the answers are exactly those of an
ordinary read-only file over the logical content. -/
theorem C08_refines {f : FileLike} {c : List Byte} {i : Nat} {fp : List Nat}
    {ok : Nat → Cell → Prop} (hf : IsFile f c i fp ok) (ops : List Op) (hops : ∀ op ∈ ops, opOk op)
    (s : Store) (hs : GInv ok s) :
    (runOps f ops s).1 = absRun c (s i).pos ops := by
  induction ops generalizing s with
  | nil => rfl
  | cons op rest ih =>
    obtain ⟨h1, h2, h3, _⟩ := step_refines hf op (hops op (List.mem_cons_self ..)) s hs
    simp only [runOps, absRun]
    rw [h1, ih (fun o ho => hops o (List.mem_cons_of_mem _ ho)) _ h3, h2]

/-- the same, for shapes: any nesting depth. -/
theorem C08_refines_shape (ok : Nat → Cell → Prop) (sh : Shape) (h : sh.WF ok)
    (hb : sh.isBase = false) (ops : List Op) (hops : ∀ op ∈ ops, opOk op) (s : Store)
    (hs : GInv ok s) :
    (runOps sh.build ops s).1 = absRun sh.denote (s sh.id).pos ops :=
  C08_refines (build_isFile ok sh h hb) ops hops s hs

/-- no byte outside the window is ever returned: every read answer is a slice of the logical content. -/
theorem C08_window (c : List Byte) (p : Int) (ops : List Op) :
    ∀ o ∈ absRun c p ops, ∀ b, o = .bytes b → ∃ q n, b = slice c q n := by
  induction ops generalizing p with
  | nil => intro o ho; simp [absRun] at ho
  | cons op rest ih =>
    intro o ho b hb
    simp only [absRun, List.mem_cons] at ho
    rcases ho with rfl | ho
    · cases op with
      | tell => simp [absStep] at hb
      | seek off wh => simp [absStep] at hb
      | read n => simp only [absStep] at hb; injection hb with hb; exact ⟨p, n, hb.symm⟩
    · exact ih _ o ho b hb

/-- the cursor stays inside `[0, length]` and a read never returns more than asked. -/
theorem C08_cursor_bounds (c : List Byte) (p : Int) (op : Op) (h0 : 0 ≤ p) (h1 : p ≤ c.length)
    (hop : opOk op) : 0 ≤ (absStep c p op).2 ∧ (absStep c p op).2 ≤ c.length := by
  cases op with
  | tell => exact ⟨h0, h1⟩
  | seek off wh => exact seekTarget_range _ _ _ _ (by omega)
  | read n =>
    simp only [absStep]
    have := slice_length c p n h0 hop
    omega

/-- the plan of a sector read covers exactly `size` bytes (when the sector length is positive). -/
theorem pieces_total (L : Nat) (hL : 0 < L) (fuel pos size : Nat) (h : size ≤ fuel) :
    ((pieces L fuel pos size).map (fun p => p.2.2)).sum = size := by
  induction fuel generalizing pos size with
  | zero => simp [pieces]; omega
  | succ fuel ih =>
    unfold pieces
    by_cases hs : size = 0
    · simp [hs]
    · simp only [hs, if_false, List.map_cons, List.sum_cons]
      have hlt : pos % L < L := Nat.mod_lt _ hL
      have hn : 0 < min size (L - pos % L) := by omega
      rw [ih (pos + min size (L - pos % L)) (size - min size (L - pos % L)) (by omega)]
      omega

/-! ### non-vacuity: a concrete permuted chain inside an offset window -/

/-- cell invariants for the example objects 0 (file), 1 (window), 2 (chained file). -/
def exOk : Nat → Cell → Prop
  | 0, c => 0 ≤ c.pos
  | 1, c => 0 ≤ c.pos ∧ c.pos ≤ 8
  | 2, c => 0 ≤ c.pos ∧ c.pos ≤ 6
  | _, _ => True

def exShape : Shape :=
  .chain 2 (.offset 1 (.base 0 [16, 17, 18, 19, 20, 21, 22, 23, 24, 25, 26, 27]) 8 2) 2 [3, 0, 1]

example : exShape.WF exOk := by
  simp [exShape, Shape.WF, exOk, Shape.fp, Shape.denote, slice]
example : exShape.denote = [24, 25, 18, 19, 20, 21] := by decide
example : GInv exOk store0 := by
  intro j
  match j with
  | 0 => simp [exOk, store0]
  | 1 => simp [exOk, store0]
  | 2 => simp [exOk, store0]
  | _ + 3 => simp [exOk]

end Smpl.Props.C08
