/-
C08 — Byte-window views behave as read-only files under any seek/read history.
-/
import Smpl.Model.Stream

namespace Smpl.Props.C08
open Smpl Smpl.Stream

/-- the plan of a sector read covers exactly `size` bytes (when the sector length is positive). -/
theorem pieces_total (L : Nat) (hL : 0 < L) (fuel pos size : Nat) (h : size ≤ fuel) :
    ((pieces L fuel pos size).map (fun p => p.2.2)).sum = size := by
  induction fuel generalizing pos size with
  | zero => simp [pieces]; omega
  | succ fuel ih =>
    unfold pieces
    by_cases hs : size = 0
    · simp [hs]
    · simp only [hs, if_false, List.map_cons, List.sum_cons]
      have hlt : pos % L < L := Nat.mod_lt _ hL
      have hn : 0 < min size (L - pos % L) := by omega
      rw [ih (pos + min size (L - pos % L)) (size - min size (L - pos % L)) (by omega)]
      omega

end Smpl.Props.C08
