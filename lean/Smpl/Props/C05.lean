/-
C05 — Left/right pairs merge into one stereo file; no sample is lost or duplicated.
-/
import Smpl.Model.Names
import Smpl.Lemmas.Stereo

namespace Smpl.Props.C05
open Smpl Smpl.Names

private theorem mem_takeWhile_imp' {p : Char → Bool} {l : List Char} {c : Char}
    (h : c ∈ l.takeWhile p) : p c = true := by
  induction l with
  | nil => simp at h
  | cons x xs ih =>
    by_cases hx : p x = true
    · simp only [List.takeWhile_cons, hx, if_true, List.mem_cons] at h
      rcases h with rfl | h
      · exact hx
      · exact ih h
    · simp [List.takeWhile_cons, hx] at h

/-- **Shape of a stereo name.** Whenever the pairing rule recognises a name, the name is
`stem ++ separators ++ [L|R] ++ blanks` with a non-empty run of separators (blanks or hyphens):
two names are paired only if they differ in nothing but that final letter. -/
theorem C05_stereo_shape (s stem sep : Name) (side : Char) (h : stereoMatch s = some (stem, sep, side)) :
    sep ≠ [] ∧ (∀ c ∈ sep, isSep c = true) ∧ (side = 'L' ∨ side = 'R') ∧
    ∃ ws, (∀ c ∈ ws, isWs c = true) ∧ s = stem ++ sep ++ [side] ++ ws := by
  unfold stereoMatch at h
  have hsplit := List.takeWhile_append_dropWhile (p := isWs) (l := s.reverse)
  cases hr : s.reverse.dropWhile isWs with
  | nil => simp [hr] at h
  | cons sd rest =>
    simp only [hr] at h
    by_cases hside : (sd == 'L' || sd == 'R') = true
    · simp only [hside, if_true] at h
      by_cases hemp : (rest.takeWhile isSep).isEmpty = true
      · simp [hemp] at h
      · by_cases hnl : ((rest.dropWhile isSep).reverse.any (· == '\n')) = true
        · simp [hnl] at h
        simp only [hemp, hnl, Bool.or_self, Bool.false_eq_true, if_false, Option.some.injEq, Prod.mk.injEq] at h
        obtain ⟨h1, h2, h3⟩ := h
        subst h1 h2 h3
        refine ⟨?_, ?_, ?_, (s.reverse.takeWhile isWs).reverse, ?_, ?_⟩
        · intro e
          have : (rest.takeWhile isSep).reverse.length = 0 := by rw [e]; rfl
          have hl : (rest.takeWhile isSep).length = 0 := by simpa using this
          exact hemp (by simpa [List.isEmpty_iff] using List.length_eq_zero_iff.mp hl)
        · intro c hc
          have hc' : c ∈ rest.takeWhile isSep := List.mem_reverse.mp hc
          exact (mem_takeWhile_imp' hc')
        · simp only [Bool.or_eq_true, beq_iff_eq] at hside; exact hside
        · intro c hc
          exact mem_takeWhile_imp' (List.mem_reverse.mp hc)
        · have hrest := List.takeWhile_append_dropWhile (p := isSep) (l := rest)
          have : s.reverse = s.reverse.takeWhile isWs ++ sd :: (rest.takeWhile isSep ++ rest.dropWhile isSep) := by
            rw [hrest, ← hr, hsplit]
          have hs := congrArg List.reverse this
          simp only [List.reverse_reverse, List.reverse_append, List.reverse_cons, List.append_assoc] at hs
          refine hs.trans ?_
          simp [List.append_assoc]
    · simp [hside] at h

/-- **No sample is lost or duplicated.** For distinct sibling names that end in their last
non-blank character (export names are stripped), the groups written by the pairing routine contain
every sample exactly once: the indices of all groups, in order, are a permutation of `0 … n-1`. -/
theorem C05_partition (names : List Name) (hnd : names.Nodup) (hnt : ∀ n ∈ names, NoTail n) :
    (covered (combine names)).Perm (List.range names.length) := by
  unfold combine
  have h := go_partition names
    (fun n => (List.range names.length).reverse.find? fun i => names[i]? == some n)
    (by
      intro a j hj
      have := List.find?_some hj
      simpa using this)
    (by
      intro a ha hnone
      rw [List.find?_eq_none] at hnone
      obtain ⟨i, hi, hi2⟩ := List.mem_iff_getElem.mp ha
      have := hnone i (by simp; exact hi)
      simp [List.getElem?_eq_getElem hi, hi2] at this)
    hnd hnt names 0 [] names [] (by simp)
    ⟨by simp [covered], by simp [covered], by intro k hk; omega, by intro m hm; cases hm⟩
  rw [List.perm_ext_iff_of_nodup h.1 List.nodup_range]
  intro k
  rw [h.2 k]; simp

/-- premises satisfiable and the statement non-trivial: three names, one pair. -/
example : covered (combine ["A L".toList, "B".toList, "A R".toList]) = [0, 2, 1] := by decide

-- sanity (kernel-evaluated): recognition and non-recognition
example : stereoMatch "PAD - L".toList = some ("PAD".toList, " - ".toList, 'L') := by decide
example : stereoMatch "PADL".toList = none := by decide
example : stereoMatch "A L L".toList = some ("A L".toList, " ".toList, 'L') := by decide
example : combine ["A L".toList, "B".toList, "A R".toList, "A".toList]
    = [.pair 0 2 "A (2)".toList, .mono 1, .mono 3] := by decide

end Smpl.Props.C05
