/-
C05 — which half goes to which channel: in every pair the routine writes, the first stream is the
sample whose name ends in `L` and the second the one whose name ends in `R`, whatever their order in
the directory.
-/
import Smpl.Props.C05

namespace Smpl.Props.C05
open Smpl Smpl.Names

/-- the two members of a written pair: `l` is named `stem sep L`, `r` is named `stem sep R`
(the one the loop met first is given by its match, the partner by the name that was looked up). -/
def GoodPair (names : List Name) (l r : Nat) : Prop :=
  ∃ stem sep, sep ≠ [] ∧ (∀ c ∈ sep, isSep c = true) ∧
    (((∃ n, names[l]? = some n ∧ stereoMatch n = some (stem, sep, 'L')) ∧ names[r]? = some (stem ++ sep ++ ['R'])) ∨
     (names[l]? = some (stem ++ sep ++ ['L']) ∧ ∃ n, names[r]? = some n ∧ stereoMatch n = some (stem, sep, 'R')))

def GoodGroups (names : List Name) (acc : List Group) : Prop :=
  ∀ l r nm, Group.pair l r nm ∈ acc → GoodPair names l r

theorem go_channels (names : List Name) (lookup : Name → Option Nat)
    (hlk1 : ∀ a j, lookup a = some j → names[j]? = some a) :
    ∀ (rest : List Name) (i : Nat) (marked taken : List Name) (acc : List Group),
      rest = names.drop i → GoodGroups names acc →
      GoodGroups names (combine.go lookup i rest marked taken acc) := by
  intro rest
  induction rest with
  | nil => intro i marked taken acc _ h; simpa [combine.go] using h
  | cons n ns ih =>
    intro i marked taken acc hrest hgood
    have hni : names[i]? = some n := by
      have := congrArg (·[0]?) hrest
      simp at this
      rw [← this]
    have hns : ns = names.drop (i + 1) := by
      have := congrArg List.tail hrest
      simpa using this
    have hmono : GoodGroups names (acc ++ [Group.mono i]) := by
      intro l r nm hm
      rcases List.mem_append.mp hm with h | h
      · exact hgood l r nm h
      · simp at h
    simp only [combine.go]
    by_cases hmk : marked.contains n = true
    · simp only [hmk, if_true]
      exact ih (i + 1) marked taken acc hns hgood
    · simp only [hmk, Bool.false_eq_true, if_false]
      cases hsm : stereoMatch n with
      | none => exact ih (i + 1) _ taken _ hns hmono
      | some t =>
        obtain ⟨stem, sep, side⟩ := t
        simp only
        obtain ⟨hsep, hsepc, hside, _⟩ := C05_stereo_shape n stem sep side hsm
        cases hlk : lookup (stem ++ sep ++ [if (side == 'L') = true then 'R' else 'L']) with
        | none => exact ih (i + 1) _ taken _ hns hmono
        | some j =>
          simp only
          apply ih (i + 1) _ _ _ hns
          intro l r nm hm
          rcases List.mem_append.mp hm with h | h
          · exact hgood l r nm h
          · have hj := hlk1 _ j hlk
            rcases hside with rfl | rfl
            · -- the loop met the left half first
              have e1 : (('L' : Char) == 'L') = true := by simp
              have e2 : (('R' : Char) == 'R') = true := by simp
              simp only [e1, e2, if_true, List.mem_singleton, Group.pair.injEq] at h hj
              obtain ⟨rfl, rfl, _⟩ := h
              exact ⟨stem, sep, hsep, hsepc, Or.inl ⟨⟨n, hni, hsm⟩, hj⟩⟩
            · -- the loop met the right half first
              have e1 : (('R' : Char) == 'L') = false := by simp
              have e2 : (('L' : Char) == 'R') = false := by simp
              simp only [e1, e2, Bool.false_eq_true, if_false, List.mem_singleton, Group.pair.injEq] at h hj
              obtain ⟨rfl, rfl, _⟩ := h
              exact ⟨stem, sep, hsep, hsepc, Or.inr ⟨hj, n, hni, hsm⟩⟩

/-- **C05 (channel order).** In every pair the pairing routine writes — `Group.pair l r _`, whose
first index becomes channel 0 and whose second becomes channel 1 — sample `l` is the one named
`stem sep L` and sample `r` the one named `stem sep R`, with the same stem and the same non-empty
run of separators: whatever the order of the two in the directory, and whatever else it holds. -/
theorem C05_channels (names : List Name) (l r : Nat) (nm : Name)
    (h : Group.pair l r nm ∈ combine names) : GoodPair names l r := by
  unfold combine at h
  exact go_channels names _
    (by
      intro a j hj
      have := List.find?_some hj
      simpa using this)
    names 0 [] names [] (by simp) (by intro l r nm hm; cases hm) l r nm h

/-- non-vacuity: the right half first, the left half later. -/
example : combine ["A R".toList, "B".toList, "A L".toList] = [.pair 2 0 "A".toList, .mono 1] := by decide

end Smpl.Props.C05
