/-
C02 (a sample's clusters, from the raw image bytes): the chain is read off the raw FAT area of the
image, not assumed resolved.
-/
import Smpl.Props.C02
import Smpl.Props.C07RP

namespace Smpl.Props.C02
open Smpl Smpl.Roland Smpl.Alloc Smpl.Props.C07

theorem words16_length : ∀ (n : Nat) (bs : Bytes), bs.length = 2 * n → (words16 bs).length = n := by
  intro n
  induction n with
  | zero => intro bs h; have : bs = [] := List.eq_nil_of_length_eq_zero (by omega); subst this; rfl
  | succ n ih =>
    intro bs h
    match bs, h with
    | a :: b :: rest, h =>
      simp only [words16, List.length_cons]
      rw [ih rest (by simp at h; omega)]

/-- the raw FAT words of an image file. -/
def rawFat (b : Bytes) : List Nat := words16 ((b.drop FAT_OFF).take (2 * FAT_N))

theorem parseFat_links (b : Bytes) (fat : Fat) (h : parseFat (Img.ofBytes b) = .ok fat) :
    rolandDecode (rawFat b) = .ok fat.links ∧ (rawFat b).length = FAT_N := by
  unfold parseFat at h
  split at h
  · cases h
  · rename_i raw hraw
    have hr : raw = (b.drop FAT_OFF).take (2 * FAT_N) ∧ raw.length = 2 * FAT_N := by
      unfold Img.ofBytes at hraw
      simp only at hraw
      split at hraw
      · rename_i hle
        cases hraw
        refine ⟨rfl, ?_⟩
        simp only [List.length_take, List.length_drop]
        omega
      · cases hraw
    simp only at h
    split at h
    · cases h
    · split at h
      · cases h
      · split at h
        · cases h
        · rename_i links hdec
          cases h
          unfold rawFat
          rw [← hr.1]
          exact ⟨hdec, words16_length FAT_N raw hr.2⟩

/-- **C02 (a sample's clusters, from the raw image).** If the FAT area of the image parses, and the
raw FAT holds a chain `c` (each cluster's word names the next cluster, the last one's word is an end
mark) whose head is an allocatable cluster — other FAT words may point at it or into the chain —, then the file that starts at that
head with leading-cluster offset `top` consists of exactly the clusters of `c` after the first
`top`, in chain order — for every order of the clusters. -/
theorem C02_clusters_from_image (b : Bytes) (fat : Fat) (h : parseFat (Img.ofBytes b) = .ok fat)
    (c : List Nat) (hc : RawChain (rawFat b).toArray c) (hc0 : 2 ≤ c.headD 0)
    (hc0hi : c.headD 0 < FAT_N - 9)
    (top : Nat) :
    fileClusters fat (c.headD 0) top = .ok (c.drop top) := by
  obtain ⟨hdec, hlen⟩ := parseFat_links b fat h
  have hwf := C07_roland_complete (rawFat b) fat.links hdec c hc hc0 (by rw [hlen]; exact hc0hi)
  apply C02_file_clusters
  rw [← hlen]
  exact hwf.2

end Smpl.Props.C02
