import Smpl.Model.Akai

/-! Partition names (D23): `A: .. Z:, AA:, AB:, ...`. Every character before the colon is an upper-case
letter - so no partition name is blanked by the listing's clean-up and none changes under the upper-casing
the AKAI path lookup applies - and the first 26 names are the single letters they always were. -/

namespace Smpl.Props.C10P
open Smpl.Akai

theorem char_upper_fin : ∀ r : Fin 26,
    65 ≤ (Char.ofNat (65 + r.val)).toNat ∧ (Char.ofNat (65 + r.val)).toNat ≤ 90 := by decide

theorem char_upper (r : Nat) (h : r < 26) :
    65 ≤ (Char.ofNat (65 + r)).toNat ∧ (Char.ofNat (65 + r)).toNat ≤ 90 := char_upper_fin ⟨r, h⟩

/-- **C10_partition_letters_upper**: every character of a partition's letters is in `A..Z`. -/
theorem C10_partition_letters_upper (k : Nat) :
    ∀ c ∈ partLetters k, 65 ≤ c.toNat ∧ c.toNat ≤ 90 := by
  fun_induction partLetters k with
  | case1 k h =>
    intro c hc
    simp only [List.mem_singleton] at hc
    subst hc
    exact char_upper k h
  | case2 k h ih =>
    intro c hc
    rcases List.mem_append.mp hc with h1 | h2
    · exact ih c h1
    · simp only [List.mem_singleton] at h2
      subst h2
      exact char_upper (k % 26) (Nat.mod_lt _ (by omega))

/-- the first 26 partitions keep their single letters. -/
theorem C10_partition_letters_first (k : Nat) (h : k < 26) : partName k = [Char.ofNat (65 + k), ':'] := by
  unfold partName partLetters
  simp [h]

/-- a partition name is never blank: at least one letter before the colon. -/
theorem C10_partition_letters_nonempty (k : Nat) : partLetters k ≠ [] := by
  fun_induction partLetters k <;> simp

example : partName 0 = "A:".toList ∧ partName 25 = "Z:".toList ∧ partName 26 = "AA:".toList
    ∧ partName 32 = "AG:".toList ∧ partName 701 = "ZZ:".toList ∧ partName 702 = "AAA:".toList := by
  refine ⟨?_, ?_, ?_, ?_, ?_, ?_⟩ <;> simp [partName, partLetters]

end Smpl.Props.C10P
