/-
C12 (stereo pair of any two lengths): two mono sources of the same width and byte order as the
destination, of `Fa` and `Fb` frames: the output starts with the `min Fa Fb` interleaved frames and
has between `min Fa Fb` and `max Fa Fb` frames in all, whatever the internal block size is.
-/
import Smpl.Props.C12M

namespace Smpl.Props.C12
open Smpl.Transcode

/-- `out` starts with the first `m` interleaved frames of `a` and `b` and holds `T` frames. -/
def PairOut (w : Nat) (a b : List Byte) (m T : Nat) (out : List (Option Byte)) : Prop :=
  (∃ rest, out = (interleave2 w a b m).map some ++ rest) ∧ out.length = T * (2 * w)

theorem flatMap_const_length {α β : Type} (l : List α) (f : α → List β) (c : Nat)
    (h : ∀ x ∈ l, (f x).length = c) : (l.flatMap f).length = l.length * c := by
  induction l with
  | nil => simp
  | cons a as ih =>
    simp only [List.flatMap_cons, List.length_append, List.length_cons]
    rw [h a (by simp), ih (fun x hx => h x (by simp [hx])), Nat.succ_mul]
    omega

theorem groups_elem_length (w : Nat) : ∀ (p : Nat) (a : List Byte), p * w ≤ a.length →
    ∀ s ∈ groups w p a, s.length = w := by
  intro p
  induction p with
  | zero => intro a _ s hs; simp [groups] at hs
  | succ p ih =>
    intro a ha s hs
    simp only [groups, List.mem_cons] at hs
    rw [Nat.succ_mul] at ha
    rcases hs with rfl | hs
    · simp; omega
    · exact ih (a.drop w) (by simp; omega) s hs

/-- the slot of one channel in one output frame. -/
def slot (w : Nat) (ch : List Sample) (f : Nat) : List (Option Byte) :=
  match ch[f]? with
  | some smp => smp.map some
  | none => List.replicate w none

theorem slot_length (w : Nat) (ch : List Sample) (h : ∀ s ∈ ch, s.length = w) (f : Nat) :
    (slot w ch f).length = w := by
  unfold slot
  split
  · rename_i smp hs
    simp [h smp (List.mem_of_getElem? hs)]
  · simp

theorem encodeBlock_two (w : Nat) (c1 c2 : List Sample) :
    encodeBlock w [c1, c2] =
      (List.range (max c1.length c2.length)).flatMap fun f => slot w c1 f ++ slot w c2 f := by
  unfold encodeBlock
  simp only [List.map_cons, List.map_nil, List.foldl_cons, List.foldl_nil, List.flatMap_cons,
    List.flatMap_nil, List.append_nil]
  have : max (max 0 c1.length) c2.length = max c1.length c2.length := by omega
  rw [this]
  rfl

theorem encodeBlock_pair_length (w p q : Nat) (a b : List Byte) (ha : p * w ≤ a.length)
    (hb : q * w ≤ b.length) :
    (encodeBlock w [groups w p a, groups w q b]).length = max p q * (2 * w) := by
  rw [encodeBlock_two, groups_length, groups_length]
  rw [flatMap_const_length _ _ (2 * w)]
  · simp
  · intro f _
    simp only [List.length_append]
    rw [slot_length w _ (groups_elem_length w p a ha), slot_length w _ (groups_elem_length w q b hb)]
    omega

theorem encodeBlock_pair_prefix (w p q : Nat) (a b : List Byte) :
    ∃ rest, encodeBlock w [groups w p a, groups w q b] = (interleave2 w a b (min p q)).map some ++ rest := by
  rw [encodeBlock_two, groups_length, groups_length]
  have hsplit : max p q = min p q + (max p q - min p q) := by omega
  rw [hsplit, List.range_add, List.flatMap_append]
  refine ⟨List.flatMap (fun f => slot w (groups w p a) f ++ slot w (groups w q b) f)
    (List.map (fun x => min p q + x) (List.range (max p q - min p q))), ?_⟩
  congr 1
  unfold interleave2
  rw [List.map_flatMap]
  apply flatMap_congr'
  intro f hf
  have hf' : f < min p q := by simpa using hf
  have hp : f < p := by omega
  have hq : f < q := by omega
  simp [slot, groups_get w p a f hp, groups_get w q b f hq]

theorem interleave2_take (w S : Nat) (a b : List Byte) (m : Nat) (h : m * w ≤ S) :
    interleave2 w (a.take S) (b.take S) m = interleave2 w a b m := by
  unfold interleave2
  apply flatMap_congr'
  intro f hf
  have hf' : f < m := by simpa using hf
  have hle : f * w + w ≤ S := by
    have : (f + 1) * w ≤ m * w := Nat.mul_le_mul_right _ (by omega)
    rw [Nat.add_mul] at this; omega
  rw [frameOf_take w S a f hle, frameOf_take w S b f hle]

theorem pipeLoop_left_nil (dest : Enc) (w : Nat) (sgA sgB : Bool) (da db : List Byte) (n1 n2 : Nat)
    (fuel : Nat) (b : List Byte) :
    pipeLoop false dest [⟨monoEnc w sgA, da⟩, ⟨monoEnc w sgB, db⟩] [n1, n2] fuel [[], b] = [] := by
  cases fuel with
  | zero => rfl
  | succ f => simp [pipeLoop, decodeOne_mono_nil]

theorem pipeLoop_right_nil (dest : Enc) (w : Nat) (sgA sgB : Bool) (da db : List Byte) (n1 n2 : Nat)
    (fuel : Nat) (a : List Byte) :
    pipeLoop false dest [⟨monoEnc w sgA, da⟩, ⟨monoEnc w sgB, db⟩] [n1, n2] fuel [a, []] = [] := by
  cases fuel with
  | zero => rfl
  | succ f => simp [pipeLoop, decodeOne_mono_nil]

theorem groups_isEmpty (w n : Nat) (hn : 0 < n) (l : List Byte) : (groups w n l).isEmpty = false := by
  cases hg : groups w n l with
  | nil => have := groups_length w n l; rw [hg] at this; simp at this; omega
  | cons _ _ => rfl

/-- **C12 (stereo pair, any two lengths).** -/
theorem pipeLoop_pair_any (w nf : Nat) (sgA sgB : Bool) (dest : Enc) (hw : 0 < w) (hnf : 0 < nf)
    (hdw : dest.width = w) (hdb : dest.big = false) (da db : List Byte) :
    ∀ (fuel Fa Fb : Nat) (a b : List Byte), a.length = Fa * w → b.length = Fb * w → min Fa Fb < fuel →
      ∃ T, min Fa Fb ≤ T ∧ T ≤ max Fa Fb ∧
        PairOut w a b (min Fa Fb) T
          (pipeLoop false dest [⟨monoEnc w sgA, da⟩, ⟨monoEnc w sgB, db⟩] [nf * w, nf * w] fuel [a, b]).flatten := by
  intro fuel
  induction fuel with
  | zero => intro Fa Fb a b _ _ h; omega
  | succ fuel ih =>
    intro Fa Fb a b ha hb hF
    by_cases h0 : Fa = 0 ∨ Fb = 0
    · -- one source is empty: nothing is produced
      have hnil : pipeLoop false dest [⟨monoEnc w sgA, da⟩, ⟨monoEnc w sgB, db⟩] [nf * w, nf * w] (fuel + 1) [a, b] = [] := by
        rcases h0 with h | h
        · subst h
          have ea : a = [] := by simpa using ha
          subst ea
          exact pipeLoop_left_nil dest w sgA sgB da db _ _ _ b
        · subst h
          have eb : b = [] := by simpa using hb
          subst eb
          exact pipeLoop_right_nil dest w sgA sgB da db _ _ _ a
      rw [hnil]
      have hm : min Fa Fb = 0 := by rcases h0 with h | h <;> simp [h]
      refine ⟨0, by omega, by omega, ?_⟩
      rw [hm]
      exact ⟨⟨[], by simp [interleave2]⟩, by simp⟩
    · have hFa : 0 < Fa := by omega
      have hFb : 0 < Fb := by omega
      -- this block: p and q frames
      have hp0 : 0 < min nf Fa := by omega
      have hq0 : 0 < min nf Fb := by omega
      have hla : (a.take (nf * w)).length = min nf Fa * w := by
        simp only [List.length_take, ha]
        rcases Nat.le_total nf Fa with h | h
        · rw [Nat.min_eq_left h, Nat.min_eq_left (Nat.mul_le_mul_right _ h)]
        · rw [Nat.min_eq_right h, Nat.min_eq_right (Nat.mul_le_mul_right _ h)]
      have hlb : (b.take (nf * w)).length = min nf Fb * w := by
        simp only [List.length_take, hb]
        rcases Nat.le_total nf Fb with h | h
        · rw [Nat.min_eq_left h, Nat.min_eq_left (Nat.mul_le_mul_right _ h)]
        · rw [Nat.min_eq_right h, Nat.min_eq_right (Nat.mul_le_mul_right _ h)]
      simp only [pipeLoop, List.zip_cons_cons, List.zip_nil_right, List.map_cons, List.map_nil]
      rw [decodeOne_mono w _ sgA hw hp0 _ hla, decodeOne_mono w _ sgB hw hq0 _ hlb]
      have hne : ([groups w (min nf Fa) (a.take (nf * w)), groups w (min nf Fb) (b.take (nf * w))].any List.isEmpty) = false := by
        simp [groups_isEmpty w _ hp0, groups_isEmpty w _ hq0]
      simp only [List.flatten_cons, List.flatten_nil, List.append_nil, List.singleton_append, hne,
        Bool.false_eq_true, if_false]
      have hsw : applySwaps false dest [⟨monoEnc w sgA, da⟩, ⟨monoEnc w sgB, db⟩]
          [groups w (min nf Fa) (a.take (nf * w)), groups w (min nf Fb) (b.take (nf * w))]
          = [groups w (min nf Fa) (a.take (nf * w)), groups w (min nf Fb) (b.take (nf * w))] := by
        simp [applySwaps, monoEnc, hdb]
      rw [hsw, hdw]
      have hblen := encodeBlock_pair_length w (min nf Fa) (min nf Fb) (a.take (nf * w)) (b.take (nf * w))
        (by rw [hla]; exact Nat.le_refl _) (by rw [hlb]; exact Nat.le_refl _)
      by_cases hfull : nf ≤ Fa ∧ nf ≤ Fb
      · -- both blocks are full
        obtain ⟨hfa, hfb⟩ := hfull
        obtain ⟨ra, rfl⟩ : ∃ r, Fa = nf + r := ⟨Fa - nf, by omega⟩
        obtain ⟨rb, rfl⟩ : ∃ r, Fb = nf + r := ⟨Fb - nf, by omega⟩
        have epa : min nf (nf + ra) = nf := by omega
        have epb : min nf (nf + rb) = nf := by omega
        rw [epa, epb] at hblen ⊢
        have hra : (a.drop (nf * w)).length = ra * w := by
          simp only [List.length_drop, ha]; rw [Nat.add_mul]; omega
        have hrb : (b.drop (nf * w)).length = rb * w := by
          simp only [List.length_drop, hb]; rw [Nat.add_mul]; omega
        obtain ⟨T', hT1, hT2, ⟨rest, hrest⟩, hlen'⟩ := ih ra rb (a.drop (nf * w)) (b.drop (nf * w)) hra hrb (by omega)
        refine ⟨nf + T', by omega, by omega, ⟨rest, ?_⟩, ?_⟩
        · rw [hrest, encodeBlock_pair]
          have hmin : min (nf + ra) (nf + rb) = nf + min ra rb := by omega
          rw [hmin, interleave2_split w a b nf (min ra rb), List.map_append, List.append_assoc]
        · rw [List.length_append, hblen, hlen', Nat.max_self, Nat.add_mul]
      · -- a short block: the shorter source ends here
        have hshort : Fa < nf ∨ Fb < nf := by omega
        have hrec : pipeLoop false dest [⟨monoEnc w sgA, da⟩, ⟨monoEnc w sgB, db⟩] [nf * w, nf * w] fuel
            [a.drop (nf * w), b.drop (nf * w)] = [] := by
          rcases hshort with h | h
          · have : a.drop (nf * w) = [] := List.drop_of_length_le (by
              rw [ha]; exact Nat.mul_le_mul_right _ (by omega))
            rw [this]
            exact pipeLoop_left_nil dest w sgA sgB da db _ _ _ _
          · have : b.drop (nf * w) = [] := List.drop_of_length_le (by
              rw [hb]; exact Nat.mul_le_mul_right _ (by omega))
            rw [this]
            exact pipeLoop_right_nil dest w sgA sgB da db _ _ _ _
        rw [hrec]
        simp only [List.flatten_nil, List.append_nil]
        have hmin : min Fa Fb = min (min nf Fa) (min nf Fb) := by omega
        obtain ⟨rest, hrest⟩ := encodeBlock_pair_prefix w (min nf Fa) (min nf Fb) (a.take (nf * w)) (b.take (nf * w))
        refine ⟨max (min nf Fa) (min nf Fb), by omega, by omega, ⟨rest, ?_⟩, hblen⟩
        rw [hrest, hmin, interleave2_take w (nf * w) a b _ (Nat.mul_le_mul_right _ (by omega))]

/-- **C12 (stereo pair of any two lengths, through `make_transcoder`).** A left mono stream of `Fa`
frames and a right mono stream of `Fb` frames: the output starts with the `min Fa Fb` interleaved
frames (frame `f` is frame `f` of the left stream followed by frame `f` of the right stream) and
holds `T` frames with `min Fa Fb ≤ T ≤ max Fa Fb`, for every internal buffer size `B`. -/
theorem C12_pair_any (w B Fa Fb : Nat) (sgA sgB sgD : Bool) (hw : 0 < w) (a b : List Byte)
    (ha : a.length = Fa * w) (hb : b.length = Fb * w) :
    ∃ blocks T, transcode false B ⟨false, w, 2, sgD⟩ [⟨monoEnc w sgA, a⟩, ⟨monoEnc w sgB, b⟩] = .ok blocks ∧
      min Fa Fb ≤ T ∧ T ≤ max Fa Fb ∧ PairOut w a b (min Fa Fb) T blocks.flatten := by
  unfold transcode
  simp only [List.isEmpty_cons, Bool.false_eq_true, if_false, List.map_cons, List.map_nil, monoEnc, Enc.chans,
    List.foldl_cons, List.foldl_nil]
  have hnch : ((0 + max 1 1 + max 1 1) != 2) = false := by decide
  simp only [hnch, Bool.false_eq_true, if_false]
  have hnf : 0 < numFrames B [⟨⟨false, w, 1, sgA⟩, a⟩, ⟨⟨false, w, 1, sgB⟩, b⟩] := by
    simp only [numFrames, List.map_cons, List.map_nil, List.foldl_cons, List.foldl_nil]
    omega
  have hfr : (⟨false, w, 1, sgA⟩ : Enc).frame = w ∧ (⟨false, w, 1, sgB⟩ : Enc).frame = w := by
    simp [Enc.frame]
  rw [hfr.1, hfr.2]
  have hFa : Fa ≤ Fa * w := Nat.le_mul_of_pos_right Fa hw
  obtain ⟨T, h1, h2, h3⟩ := pipeLoop_pair_any w _ sgA sgB ⟨false, w, 2, sgD⟩ hw hnf rfl rfl a b
    (0 + a.length + b.length + 1) Fa Fb a b ha hb (by omega)
  exact ⟨_, T, rfl, h1, h2, h3⟩

/-- sources of equal length: exactly that many frames. -/
theorem C12_pair_any_equal (w F T : Nat) (a b : List Byte) (out : List (Option Byte))
    (h1 : min F F ≤ T) (h2 : T ≤ max F F) (h : PairOut w a b (min F F) T out)
    (ha : a.length = F * w) (hb : b.length = F * w) :
    out = (interleave2 w a b F).map some := by
  have hT : T = F := by omega
  subst hT
  obtain ⟨⟨rest, hrest⟩, hlen⟩ := h
  rw [Nat.min_self] at hrest
  have hil : ((interleave2 w a b T).map some).length = T * (2 * w) := by
    have := encodeBlock_pair_length w T T a b (by omega) (by omega)
    rw [encodeBlock_pair, Nat.max_self] at this
    exact this
  rw [hrest, List.length_append, hil] at hlen
  have : rest = [] := List.eq_nil_of_length_eq_zero (by omega)
  rw [hrest, this, List.append_nil]

/-- premises satisfiable and the bound is met: a 3-frame left and a 1-frame right stream, blocks of
two frames: the first frame is interleaved, and the output has 2 frames (between 1 and 3). -/
example : (match transcode false 4 ⟨false, 2, 2, true⟩ [⟨monoEnc 2 true, [1, 2, 3, 4, 5, 6]⟩, ⟨monoEnc 2 true, [7, 8]⟩] with
    | .ok bl => bl.flatten
    | .error _ => []) = [some 1, some 2, some 7, some 8, some 3, some 4, none, none] := by decide

end Smpl.Props.C12
