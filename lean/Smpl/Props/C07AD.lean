/-
C07 (AKAI directory areas): a run of consecutive reserved-flag sectors (0x4000 / 0x8000) that
nothing links into, that is not the continuation of an earlier run, and that is followed by a sector
which is not reserved-flagged, is installed as the chain of exactly those sectors, ending with the
last of the run — whatever the rest of the table holds.
-/
import Smpl.Props.C07AC

namespace Smpl.Props.C07
open Smpl Smpl.Alloc

/-- sectors `d .. d+k-1` -/
def runList (d k : Nat) : List Nat := List.range' d k

structure DirRun (words : Array Nat) (d k : Nat) : Prop where
  pos   : 0 < k
  dir   : ∀ j, j < k → ∃ v, words[d + j]? = some v ∧ isDirWord v = true
  /-- the run is followed by a sector that is not reserved-flagged, or ends with the table's last sector -/
  stop  : (∃ w, words[d + k]? = some w ∧ isDirWord w = false) ∨ d + k = words.size
  first : d = 0 ∨ ∃ u, words[d - 1]? = some u ∧ isDirWord u = false
  nolink : ∀ (y v : Nat), words[y]? = some v → isDirWord v = false → ¬ (d ≤ v ∧ v < d + k)

def inRun (d k x : Nat) : Prop := d ≤ x ∧ x < d + k

theorem addLinks_untouched : ∀ (p : List Nat) (links ls : List Link), addLinks p links = .ok ls →
    ∀ x, x ∉ p → ls[x]? = links[x]? := by
  intro p
  induction p with
  | nil => intro links ls he x _; simp [addLinks] at he; subst he; rfl
  | cons a rest ih =>
    intro links ls he x hx
    have hne : a ≠ x := by intro e; exact hx (by simp [e])
    cases rest with
    | nil =>
      simp only [addLinks] at he
      split at he
      · simp at he; subst he; rw [List.getElem?_set_ne hne]
      · simp at he
    | cons b rest' =>
      simp only [addLinks] at he
      split at he
      · rw [ih _ _ he x (fun h => hx (List.mem_cons_of_mem _ h)), List.getElem?_set_ne hne]
      · simp at he

/-- a dir word is neither free nor the end mark, and (for tables of at most 0x4000 entries) beyond the table. -/
theorem dirWord_facts (v size : Nat) (h : isDirWord v = true) (hs : size ≤ SAT_RES1) :
    v ≠ SAT_FREE ∧ v ≠ SAT_EOF ∧ ¬ v < size := by
  unfold isDirWord at h
  simp only [Bool.or_eq_true, beq_iff_eq] at h
  have e1 : SAT_RES1 = 16384 := rfl
  have e2 : SAT_RES2 = 32768 := rfl
  rcases h with h | h <;> subst h <;> refine ⟨by decide, by decide, ?_⟩ <;> omega

theorem set_true_other (dirt : Array Bool) (sub x : Nat) (h : sub ≠ x) :
    (dirt.setIfInBounds sub true)[x]? = dirt[x]? := Array.getElem?_setIfInBounds_ne h

/-- a walk that starts outside the run, with nothing of the run on its list, never touches the run. -/
theorem akaiWalk_avoids (words : Array Nat) (d k : Nat) (hr : DirRun words d k)
    (st : AkaiSt) (lst : List Nat) (sub : Nat) :
    ∀ st', ¬ inRun d k sub → (∀ x ∈ lst, ¬ inRun d k x) → akaiWalk words st lst sub = .ok st' →
      ∀ x, inRun d k x → st'.links[x]? = st.links[x]? ∧ st'.dirty[x]? = st.dirty[x]? := by
  fun_induction akaiWalk words st lst sub <;> intro st' hsub hlst he x hx
  case case1 => cases he; exact ⟨rfl, rfl⟩
  case case2 =>
    rename_i st lst sub v hw curDir hcond ls hadd
    simp only [List.unattach_reverse, List.unattach_attach] at hadd he
    rw [hadd] at he
    cases he
    refine ⟨?_, rfl⟩
    exact addLinks_untouched _ _ _ hadd x (by intro h; exact hlst x (by simpa using h) hx)
  case case3 =>
    rename_i st lst sub v hw curDir hcond e hadd
    simp only [List.unattach_reverse, List.unattach_attach] at hadd he
    rw [hadd] at he
    cases he
  case case4 =>
    rename_i st lst sub size v hw curDir hc1 hc2 dirty' hc3 ls hadd
    cases he
    have hne : sub ≠ x := by intro e; rw [e] at hsub; exact hsub hx
    refine ⟨?_, by simp only [dirty']; exact set_true_other _ _ _ hne⟩
    simp only
    rw [List.getElem?_set_ne hne]
    apply addLinks_untouched _ _ _ hadd x
    intro h
    simp only [List.reverse_cons, List.mem_append, List.mem_reverse, List.mem_singleton] at h
    rcases h with h | h
    · exact hlst x h hx
    · exact hne h.symm
  case case5 => cases he
  case case6 =>
    rename_i st lst sub size v hw curDir hc1 hc2 dirty' hc3
    cases he
    have hne : sub ≠ x := by intro e; rw [e] at hsub; exact hsub hx
    exact ⟨rfl, by simp only [dirty']; exact set_true_other _ _ _ hne⟩
  case case7 =>
    rename_i st lst sub size v hw curDir hc1 hc2 hc3 ls hadd
    cases he
    have hne : sub ≠ x := by intro e; rw [e] at hsub; exact hsub hx
    refine ⟨?_, set_true_other _ _ _ hne⟩
    apply addLinks_untouched _ _ _ hadd x
    intro h
    simp only [List.reverse_cons, List.mem_append, List.mem_reverse, List.mem_singleton] at h
    rcases h with h | h
    · exact hlst x h hx
    · exact hne h.symm
  case case8 => cases he
  case case9 =>
    rename_i st lst sub size v hw curDir hc1 hc2 hc3 st1 next hlt ih
    have hne : sub ≠ x := by intro e; rw [e] at hsub; exact hsub hx
    have hnext : ¬ inRun d k next := by
      intro hin
      cases hd : isDirWord v with
      | false =>
        have : next = v := by simp [next, curDir, hd]
        rw [this] at hin
        exact hr.nolink sub v hw hd hin
      | true =>
        have hn : next = sub + 1 := by simp [next, curDir, hd]
        rw [hn] at hin
        unfold inRun at hin hsub
        have hsd : sub + 1 = d := by omega
        rcases hr.first with h0 | ⟨u, hu, hud⟩
        · omega
        · have : d - 1 = sub := by omega
          rw [this, hw] at hu
          cases hu
          rw [hd] at hud; cases hud
    have hl' : ∀ y ∈ sub :: lst, ¬ inRun d k y := by
      intro y hy
      rcases List.mem_cons.mp hy with rfl | hy'
      · exact hsub
      · exact hlst y hy'
    obtain ⟨h1, h2⟩ := ih st' hnext hl' he x hx
    exact ⟨h1, by rw [h2]; exact set_true_other _ _ _ hne⟩
  case case10 =>
    rename_i st lst sub size v hw curDir hc1 hc2 hc3 st1 next hlt hdir ls hadd
    cases he
    have hne : sub ≠ x := by intro e; rw [e] at hsub; exact hsub hx
    refine ⟨?_, by simp only [st1]; exact set_true_other _ _ _ hne⟩
    apply addLinks_untouched _ _ _ hadd x
    intro h
    simp only [List.reverse_cons, List.mem_append, List.mem_reverse, List.mem_singleton] at h
    rcases h with h | h
    · exact hlst x h hx
    · exact hne h.symm
  case case11 => cases he
  case case12 =>
    rename_i st lst sub size v hw curDir hc1 hc2 hc3 st1 next hlt hndir
    cases he
    have hne : sub ≠ x := by intro e; rw [e] at hsub; exact hsub hx
    exact ⟨rfl, by simp only [st1]; exact set_true_other _ _ _ hne⟩

theorem runList_succ (d j : Nat) : (runList d (j + 1)).reverse = (d + j) :: (runList d j).reverse := by
  unfold runList
  rw [List.range'_concat]
  simp

theorem mem_runList (d k x : Nat) : x ∈ runList d k ↔ inRun d k x := by
  unfold runList inRun
  rw [List.mem_range']
  constructor
  · rintro ⟨i, hi, rfl⟩; omega
  · intro h; exact ⟨x - d, by omega, by omega⟩

/-- the situation of the walk inside the run: at sector `d + j`, with the first `j` sectors of the run
on the list, the previous sector a directory sector, and those `j` sectors flagged. -/
def AtRun (d k : Nat) (st : AkaiSt) (lst : List Nat) (sub : Nat) : Prop :=
  ∃ j, j ≤ k ∧ sub = d + j ∧ lst = (runList d j).reverse ∧ (0 < j → st.prevDir = true) ∧
    ∀ x, d ≤ x → x < d + j → st.dirty[x]? = some true

/-- inside the run the current word is a directory word — unless the run-end branch fires. -/
theorem atRun_dir (words : Array Nat) (d k : Nat) (hr : DirRun words d k) (st : AkaiSt) (lst : List Nat)
    (sub v : Nat) (hat : AtRun d k st lst sub) (hw : words[sub]? = some v)
    (hc1 : ¬ (!isDirWord v && st.prevDir && !lst.isEmpty) = true) :
    ∃ j, j < k ∧ sub = d + j ∧ isDirWord v = true := by
  obtain ⟨j, hj, rfl, hl, hp, _⟩ := hat
  rcases Nat.lt_or_ge j k with h | h
  · obtain ⟨v', hv', hdv⟩ := hr.dir j h
    rw [hw] at hv'; cases hv'
    exact ⟨j, h, rfl, hdv⟩
  · exfalso
    have hjk : j = k := by omega
    subst hjk
    rcases hr.stop with ⟨w, hw', hwd⟩ | hend
    case inr =>
      have := lt_of_getElem? _ _ _ hw
      omega
    rw [hw] at hw'; cases hw'
    apply hc1
    have hlne : lst.isEmpty = false := by
      rw [hl]
      have : (runList d j).reverse ≠ [] := by
        intro e
        have := congrArg List.length e
        simp [runList] at this
        have := hr.pos
        omega
      cases hh : (runList d j).reverse with
      | nil => exact absurd hh this
      | cons _ _ => rfl
    simp [hwd, hp hr.pos, hlne]

/-- the walk through a directory run installs exactly the run. -/
theorem akaiWalk_run (words : Array Nat) (d k : Nat) (hr : DirRun words d k) (hsize : words.size ≤ SAT_RES1)
    (st : AkaiSt) (lst : List Nat) (sub : Nat) :
    ∀ st', AtRun d k st lst sub → sub < words.size → st.dirty.size = words.size → akaiWalk words st lst sub = .ok st' →
      addLinks (runList d k) st.links = .ok st'.links ∧ ∀ x, inRun d k x → st'.dirty[x]? = some true := by
  have hstople : d + k ≤ words.size := by
    rcases hr.stop with ⟨w, hw, _⟩ | h
    · have := lt_of_getElem? _ _ _ hw; omega
    · omega
  fun_induction akaiWalk words st lst sub <;> intro st' hat hsublt hdsz he
  case case1 =>
    rename_i st lst sub hw
    exfalso
    rw [Array.getElem?_eq_getElem hsublt] at hw; cases hw
  case case2 =>
    rename_i st lst sub v hw curDir hcond ls hadd
    simp only [List.unattach_reverse, List.unattach_attach] at hadd he
    rw [hadd] at he
    cases he
    obtain ⟨j, hj, rfl, hl, hp, hdirty⟩ := hat
    have hnd : isDirWord v = false := by
      simp only [Bool.and_eq_true, Bool.not_eq_true'] at hcond
      exact hcond.1.1
    have hjk : j = k := by
      rcases Nat.lt_or_ge j k with h | h
      · obtain ⟨v', hv', hdv⟩ := hr.dir j h
        rw [hw] at hv'; cases hv'
        rw [hnd] at hdv; cases hdv
      · omega
    subst hjk
    rw [hl, List.reverse_reverse] at hadd
    exact ⟨hadd, fun x hx => hdirty x hx.1 hx.2⟩
  case case3 =>
    rename_i st lst sub v hw curDir hcond e hadd
    simp only [List.unattach_reverse, List.unattach_attach] at hadd he
    rw [hadd] at he
    cases he
  case case9 =>
    rename_i st lst sub size v hw curDir hc1 hc2 hc3 st1 next hlt ih
    obtain ⟨j, hj, rfl, hl, hp, hdirty⟩ := hat
    -- the current sector is a directory sector of the run
    have hjlt : j < k := by
      rcases Nat.lt_or_ge j k with h | h
      · exact h
      · exfalso
        have hjk : j = k := by omega
        subst hjk
        rcases hr.stop with ⟨w, hw', hwd⟩ | hend
        case inr => omega
        rw [hw] at hw'; cases hw'
        apply hc1
        have hlne : lst.isEmpty = false := by
          rw [hl]
          have : (runList d j).reverse ≠ [] := by
            intro e
            have := congrArg List.length e
            simp [runList] at this
            have := hr.pos
            omega
          cases hh : (runList d j).reverse with
          | nil => exact absurd hh this
          | cons _ _ => rfl
        simp [curDir, hwd, hp hr.pos, hlne]
    obtain ⟨v', hv', hdv⟩ := hr.dir j hjlt
    rw [hw] at hv'; cases hv'
    have hnext : next = d + j + 1 := by simp [next, curDir, hdv]
    have hat' : AtRun d k st1 ((d + j) :: lst) next := by
      refine ⟨j + 1, by omega, by rw [hnext]; omega, by rw [runList_succ, hl], fun _ => by simp [st1, curDir, hdv], ?_⟩
      intro x hx1 hx2
      by_cases e : x = d + j
      · subst e
        have : d + j < st.dirty.size := by rw [hdsz]; omega
        simp [st1, this]
      · rw [show st1.dirty = st.dirty.setIfInBounds (d + j) true from rfl, set_true_other _ _ _ (Ne.symm e)]
        exact hdirty x hx1 (by omega)
    have := ih st' hat' (by simp only [size] at hlt; exact hlt) (by simp [st1, hdsz]) he
    exact this
  case case4 =>
    rename_i st lst sub size v hw curDir hc1 hc2 dirty' hc3 ls hadd
    exfalso
    obtain ⟨j, _, _, hdv⟩ := atRun_dir words d k hr st lst sub v hat hw hc1
    obtain ⟨h1, _, h3⟩ := dirWord_facts v words.size hdv hsize
    simp only [Bool.or_eq_true, beq_iff_eq, Bool.and_eq_true, decide_eq_true_eq] at hc2
    rcases hc2 with h | h
    · exact h1 h
    · exact h3 h.1
  case case5 =>
    cases he
  case case6 =>
    rename_i st lst sub size v hw curDir hc1 hc2 dirty' hc3
    exfalso
    obtain ⟨j, _, _, hdv⟩ := atRun_dir words d k hr st lst sub v hat hw hc1
    obtain ⟨h1, _, h3⟩ := dirWord_facts v words.size hdv hsize
    simp only [Bool.or_eq_true, beq_iff_eq, Bool.and_eq_true, decide_eq_true_eq] at hc2
    rcases hc2 with h | h
    · exact h1 h
    · exact h3 h.1
  case case7 =>
    rename_i st lst sub size v hw curDir hc1 hc2 hc3 ls hadd
    exfalso
    obtain ⟨j, _, _, hdv⟩ := atRun_dir words d k hr st lst sub v hat hw hc1
    obtain ⟨_, h2, _⟩ := dirWord_facts v words.size hdv hsize
    exact h2 (by simpa using hc3)
  case case8 =>
    cases he
  case case10 =>
    -- the run ends with the table's last sector: the walk installs it on leaving the table
    rename_i st lst sub size v hw curDir hc1 hc2 hc3 st1 next hlt hdir ls hadd
    cases he
    obtain ⟨j0, hj0k, hsubj0, hdv⟩ := atRun_dir words d k hr st lst sub v hat hw hc1
    obtain ⟨j, hj, hsubj, hl, hp, hdirty⟩ := hat
    have hjj : j = j0 := by omega
    subst hjj
    have hnext : next = sub + 1 := by simp [next, curDir, hdv]
    have hk : k = j + 1 := by
      have : ¬ sub + 1 < words.size := by rw [← hnext]; exact hlt
      omega
    subst hk
    constructor
    · simp only [st1]
      rw [hsubj, hl, ← runList_succ, List.reverse_reverse] at hadd
      exact hadd
    · intro x hx
      unfold inRun at hx
      simp only [st1]
      by_cases e : x = sub
      · subst e
        have : x < st.dirty.size := by rw [hdsz]; exact hsublt
        simp [this]
      · rw [set_true_other _ _ _ (Ne.symm e)]
        exact hdirty x hx.1 (by omega)
  case case11 => cases he
  case case12 =>
    rename_i st lst sub size v hw curDir hc1 hc2 hc3 st1 next hlt hndir
    exfalso
    obtain ⟨j, hjk, hsubj, hdv⟩ := atRun_dir words d k hr st lst sub v hat hw hc1
    simp [curDir, hdv] at hndir

theorem akaiWalk_links_len (words : Array Nat) (st : AkaiSt) (lst : List Nat) (sub : Nat) :
    ∀ st', akaiWalk words st lst sub = .ok st' → st'.links.length = st.links.length := by
  fun_induction akaiWalk words st lst sub <;> intro st' he
  case case1 => cases he; rfl
  case case2 =>
    rename_i st lst sub v hw curDir hcond ls hadd
    simp only [List.unattach_reverse, List.unattach_attach] at hadd he
    rw [hadd] at he
    cases he
    exact addLinks_length _ _ _ hadd
  case case3 =>
    rename_i st lst sub v hw curDir hcond e hadd
    simp only [List.unattach_reverse, List.unattach_attach] at hadd he
    rw [hadd] at he
    cases he
  case case4 =>
    rename_i st lst sub size v hw curDir hc1 hc2 dirty' hc3 ls hadd
    cases he
    simp only [List.length_set]
    exact addLinks_length _ _ _ hadd
  case case5 => cases he
  case case6 => cases he; rfl
  case case7 =>
    rename_i st lst sub size v hw curDir hc1 hc2 hc3 ls hadd
    cases he
    exact addLinks_length _ _ _ hadd
  case case8 => cases he
  case case9 =>
    rename_i st lst sub size v hw curDir hc1 hc2 hc3 st1 next hlt ih
    exact ih st' he
  case case10 =>
    rename_i st lst sub size v hw curDir hc1 hc2 hc3 st1 next hlt hdir ls hadd
    cases he
    exact addLinks_length _ _ _ hadd
  case case11 => cases he
  case case12 => cases he; rfl

theorem chain_congr (ls ls' : List Link) : ∀ c, (∀ x ∈ c, ls'[x]? = ls[x]?) → Chain ls c → Chain ls' c := by
  intro c
  induction c with
  | nil => intro _ h; exact h
  | cons a rest ih =>
    intro heq h
    cases rest with
    | nil =>
      obtain ⟨l, hl, he⟩ := h
      exact ⟨l, by rw [heq a (by simp)]; exact hl, he⟩
    | cons b rest' =>
      obtain ⟨⟨l, hl, h1, h2⟩, hrest⟩ := h
      exact ⟨⟨l, by rw [heq a (by simp)]; exact hl, h1, h2⟩, ih (fun x hx => heq x (List.mem_cons_of_mem _ hx)) hrest⟩

/-- invariant of the outer loop for the run. -/
structure RInv (wa : Array Nat) (d k i : Nat) (st : AkaiSt) : Prop where
  len    : st.links.length = wa.size
  dsize  : st.dirty.size = wa.size
  before : i ≤ d → ∀ x, inRun d k x → st.dirty[x]? = some false
  after  : d < i → Chain st.links (runList d k) ∧ ∀ x, inRun d k x → st.dirty[x]? = some true

theorem run_step (wa : Array Nat) (d k : Nat) (hr : DirRun wa d k) (hsize : wa.size ≤ SAT_RES1)
    (i : Nat) (st st' : AkaiSt) (hinv : RInv wa d k i st) (he : akStep wa st i = .ok st') :
    RInv wa d k (i + 1) st' := by
  have hstople : d + k ≤ wa.size := by
    rcases hr.stop with ⟨w, hw, _⟩ | h
    · have := lt_of_getElem? _ _ _ hw; omega
    · omega
  have hdin : inRun d k d := ⟨Nat.le_refl _, by have := hr.pos; omega⟩
  unfold akStep at he
  by_cases hd : st.dirty[i]?.getD true = true
  · simp only [hd, if_true, pure, Except.pure, Except.ok.injEq] at he
    subst he
    refine ⟨hinv.len, hinv.dsize, fun h => hinv.before (by omega), ?_⟩
    intro h
    by_cases e : i = d
    · subst e
      exfalso
      have := hinv.before (Nat.le_refl _) i hdin
      rw [this] at hd
      simp at hd
    · exact hinv.after (by omega)
  · simp only [hd, Bool.false_eq_true, if_false] at he
    have hlen' : st'.links.length = wa.size := by rw [akaiWalk_links_len wa st [] i st' he]; exact hinv.len
    have hds' : st'.dirty.size = wa.size := by rw [(akaiWalk_dirty wa st [] i st' he).1]; exact hinv.dsize
    by_cases e : i = d
    · -- the walk from the first sector of the run
      subst e
      have hat : AtRun i k st [] i := ⟨0, by omega, by omega, by simp [runList], fun h => by omega, fun x h1 h2 => by omega⟩
      obtain ⟨hadd, hdirty⟩ := akaiWalk_run wa i k hr hsize st [] i st' hat (by have := hr.pos; omega) hinv.dsize he
      refine ⟨hlen', hds', fun h => by omega, fun _ => ⟨?_, hdirty⟩⟩
      obtain ⟨ls, h1, _, h3, _⟩ := C07_addLinks_chain (runList i k) st.links
        (by intro e; have := congrArg List.length e; simp [runList] at this; have := hr.pos; omega)
        (by unfold runList; exact List.nodup_range')
        (by intro s hs; rw [mem_runList] at hs; rw [hinv.len]; unfold inRun at hs; omega)
      rw [h1] at hadd
      cases hadd
      exact h3
    · -- a walk from outside the run
      have hout : ¬ inRun d k i := by
        intro hin
        rcases Nat.lt_or_ge d i with h | h
        · have := (hinv.after h).2 i hin
          rw [this] at hd; simp at hd
        · unfold inRun at hin; omega
      have hav := akaiWalk_avoids wa d k hr st [] i st' hout (by intro x hx; cases hx) he
      refine ⟨hlen', hds', ?_, ?_⟩
      · intro h x hx
        rw [(hav x hx).2]
        exact hinv.before (by omega) x hx
      · intro h
        obtain ⟨hc, hdt⟩ := hinv.after (by omega)
        refine ⟨chain_congr st.links st'.links _ (fun x hx => (hav x ((mem_runList d k x).mp hx)).1) hc, ?_⟩
        intro x hx
        rw [(hav x hx).2]
        exact hdt x hx

theorem run_fold (wa : Array Nat) (d k : Nat) (hr : DirRun wa d k) (hsize : wa.size ≤ SAT_RES1) :
    ∀ (len a : Nat) (st st' : AkaiSt), RInv wa d k a st →
      (List.range' a len).foldlM (akStep wa) st = .ok st' → RInv wa d k (a + len) st' := by
  intro len
  induction len with
  | zero => intro a st st' h he; simp at he; cases he; simpa using h
  | succ len ih =>
    intro a st st' h he
    rw [List.range'_succ] at he
    simp only [List.foldlM] at he
    cases hs : akStep wa st a with
    | error e => rw [hs] at he; simp [bind, Except.bind] at he
    | ok st1 =>
      rw [hs] at he
      simp only [bind, Except.bind] at he
      have h1 := run_step wa d k hr hsize a st st1 h hs
      have := ih (a + 1) st1 st' h1 he
      have e : a + 1 + len = a + (len + 1) := by omega
      rw [e] at this; exact this

/-- **AKAI directory areas are decoded as runs.** In a table of at most 0x4000 entries (the real one
has 11386), a run of `k ≥ 1` consecutive reserved-flag sectors starting at `d` that no link word
points into, that does not continue an earlier run, and that is followed by a sector which is not
reserved-flagged — or ends with the last sector of the table (after the `fix:` of D18) —, is installed as the chain `d, d+1, …, d+k-1` ending with the last sector of the
run: `get_path` from `d` resolves exactly it — whatever the rest of the table holds, and whatever
word (end mark, link, free) the sector after the run carries. -/
theorem C07_akai_dir_run (words : List Nat) (links : List Link) (h : akaiDecode words = .ok links)
    (hsize : words.length ≤ SAT_RES1) (d k : Nat) (hr : DirRun words.toArray d k) :
    Chain links (runList d k) ∧ getPath links words.length d = .ok (runList d k) := by
  have hstople : d + k ≤ words.length := by
    rcases hr.stop with ⟨w, hw, _⟩ | h
    · have := lt_of_getElem? _ _ _ hw; simp at this; omega
    · simp at h; omega
  have hchain : Chain links (runList d k) := by
    unfold akaiDecode akaiDecodeSt at h
    simp only at h
    have hfun : (fun (st : AkaiSt) i => if st.dirty[i]?.getD true = true then pure st else akaiWalk words.toArray st [] i)
        = akStep words.toArray := by
      funext st i; rfl
    rw [hfun] at h
    have hrg : List.range words.length = List.range' 0 words.length := List.range_eq_range'
    rw [hrg] at h
    cases hfold : (List.range' 0 words.length).foldlM (akStep words.toArray)
        ({ links := List.replicate words.length Link.dflt, dirty := Array.replicate words.length false, prevDir := true } : AkaiSt) with
    | error e => rw [hfold] at h; simp [Except.map] at h
    | ok st' =>
      rw [hfold] at h
      simp only [Except.map, Except.ok.injEq] at h
      subst h
      have hinv0 : RInv words.toArray d k 0
          ({ links := List.replicate words.length Link.dflt, dirty := Array.replicate words.length false, prevDir := true } : AkaiSt) := by
        refine ⟨by simp, by simp, ?_, by intro hlt; omega⟩
        intro _ x hx
        unfold inRun at hx
        rw [Array.getElem?_replicate]
        have : x < words.length := by omega
        simp [this]
      have hfin := run_fold words.toArray d k hr (by simpa using hsize) words.length 0 _ st' hinv0 hfold
      exact (hfin.after (by have := hr.pos; omega)).1
  refine ⟨hchain, ?_⟩
  have := C07_getPath_wf links words.length (runList d k) hchain (by simp [runList]; omega)
  have hhead : (runList d k).headD 0 = d := by
    unfold runList
    have := hr.pos
    cases k with
    | zero => omega
    | succ k' => simp [List.range'_succ]
  rw [hhead] at this
  exact this

/-- premises satisfiable: a two-sector run 3,4 (mixed flags) followed by an end mark, after a free
sector, next to a file chain. -/
example : DirRun #[0x4000, 0xC000, 0, 0x8000, 0x4000, 0xC000, 7, 0xC000] 3 2 := by
  refine ⟨by decide, ?_, Or.inl ⟨0xC000, by decide, by decide⟩, Or.inr ⟨0, by decide, by decide⟩, ?_⟩
  · intro j hj
    match j, hj with
    | 0, _ => exact ⟨0x8000, by decide, by decide⟩
    | 1, _ => exact ⟨0x4000, by decide, by decide⟩
  · intro y v hy hd hin
    have hylt : y < 8 := lt_of_getElem? _ _ _ hy
    match y, hylt with
    | 0, _ => simp at hy; subst hy; simp [isDirWord, SAT_RES1, SAT_RES2] at hd
    | 1, _ => simp at hy; subst hy; omega
    | 2, _ => simp at hy; subst hy; omega
    | 3, _ => simp at hy; subst hy; simp [isDirWord, SAT_RES1, SAT_RES2] at hd
    | 4, _ => simp at hy; subst hy; simp [isDirWord, SAT_RES1, SAT_RES2] at hd
    | 5, _ => simp at hy; subst hy; omega
    | 6, _ => simp at hy; subst hy; omega
    | 7, _ => simp at hy; subst hy; omega

/-- premises satisfiable for the other ending: a run 6,7 that ends with the table's last sector. -/
example : DirRun #[0x4000, 0xC000, 0, 0, 0, 0, 0x8000, 0x4000] 6 2 := by
  refine ⟨by decide, ?_, Or.inr (by decide), Or.inr ⟨0, by decide, by decide⟩, ?_⟩
  · intro j hj
    match j, hj with
    | 0, _ => exact ⟨0x8000, by decide, by decide⟩
    | 1, _ => exact ⟨0x4000, by decide, by decide⟩
  · intro y v hy hd hin
    have hylt : y < 8 := lt_of_getElem? _ _ _ hy
    match y, hylt with
    | 0, _ => simp at hy; subst hy; simp [isDirWord, SAT_RES1, SAT_RES2] at hd
    | 1, _ => simp at hy; subst hy; omega
    | 2, _ => simp at hy; subst hy; omega
    | 3, _ => simp at hy; subst hy; omega
    | 4, _ => simp at hy; subst hy; omega
    | 5, _ => simp at hy; subst hy; omega
    | 6, _ => simp at hy; subst hy; simp [isDirWord, SAT_RES1, SAT_RES2] at hd
    | 7, _ => simp at hy; subst hy; simp [isDirWord, SAT_RES1, SAT_RES2] at hd

end Smpl.Props.C07
