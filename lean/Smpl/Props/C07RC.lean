/-
C07 (Roland FAT decoding, completeness): a chain that is well formed in the raw FAT and whose head
no entry points to is installed whole, so `get_path` resolves exactly it.
-/
import Smpl.Props.C07R

namespace Smpl.Props.C07
open Smpl Smpl.Alloc

/-- a word that continues a chain: not free, reserved, error, and below the end marks. -/
def isLinkWord (v : Nat) : Prop := v ≠ FAT_FREE ∧ v ≠ FAT_RESERVED ∧ v ≠ FAT_ERROR ∧ v < FAT_END

/-- `c` is a chain of the raw FAT: each cluster's word is the next cluster (a link word), the last
cluster's word is an end mark. -/
def RawChain (words : Array Nat) : List Nat → Prop
  | [] => False
  | [a] => ∃ v, words[a]? = some v ∧ v ≥ FAT_END
  | a :: b :: rest => (words[a]? = some b ∧ isLinkWord b) ∧ RawChain words (b :: rest)

theorem rawChain_pathOK (words : Array Nat) : ∀ c, RawChain words c → PathOK words c := by
  intro c
  induction c with
  | nil => intro h; exact absurd h (by simp [RawChain])
  | cons a rest ih =>
    intro h
    cases rest with
    | nil => exact h
    | cons b rest' => exact ⟨⟨h.1.1, h.1.2.2.2.2⟩, ih h.2⟩

/-- the walk along a raw chain is determined: it ends by installing the whole chain (or with the
error `addLinks` reports). `pre` is what has been walked already. -/
theorem rolandWalk_chain (words : Array Nat) :
    ∀ (suf pre : List Nat) (fuel : Nat) (st st' : RolSt), suf ≠ [] → RawChain words suf → suf.length ≤ fuel →
      rolandWalk words fuel st pre.reverse (suf.headD 0) = .ok st' →
      addLinks (pre ++ suf) st.links = .ok st'.links := by
  intro suf
  induction suf with
  | nil => intro pre fuel st st' h; exact absurd rfl h
  | cons a rest ih =>
    intro pre fuel st st' _ hc hf he
    simp only [List.headD_cons] at he
    cases rest with
    | nil =>
      obtain ⟨v, hv, hend⟩ := hc
      unfold rolandWalk at he
      simp only [hv] at he
      have h1 : (v == FAT_ERROR) = false := by
        simp only [beq_eq_false_iff_ne]; unfold FAT_ERROR; unfold FAT_END at hend; omega
      have h2 : (v == FAT_RESERVED || v == FAT_FREE) = false := by
        simp only [Bool.or_eq_false_iff, beq_eq_false_iff_ne]; unfold FAT_RESERVED FAT_FREE; unfold FAT_END at hend; omega
      simp only [h1, h2, Bool.false_eq_true, if_false] at he
      cases fuel with
      | zero => simp at hf
      | succ f =>
        simp only [hend, if_true] at he
        split at he
        · rename_i ls hadd
          simp only [Except.ok.injEq] at he
          subst he
          simpa [List.reverse_cons] using hadd
        · cases he
    | cons b rest' =>
      obtain ⟨⟨hv, hl1, hl2, hl3, hl4⟩, hrest⟩ := hc
      unfold rolandWalk at he
      simp only [hv] at he
      have h1 : (b == FAT_ERROR) = false := by simpa using hl3
      have h2 : (b == FAT_RESERVED || b == FAT_FREE) = false := by
        simp only [Bool.or_eq_false_iff, beq_eq_false_iff_ne]; exact ⟨hl2, hl1⟩
      simp only [h1, h2, Bool.false_eq_true, if_false] at he
      cases fuel with
      | zero => simp at hf
      | succ f =>
        have hnend : ¬ b ≥ FAT_END := by omega
        simp only [hnend, if_false] at he
        have := ih (pre ++ [a]) f { links := st.links, dirty := st.dirty.setIfInBounds a true } st' (by simp) hrest
          (by simp at hf ⊢; omega) (by simpa [List.reverse_append] using he)
        simpa [List.append_assoc] using this

/-! ## what is installed stays installed -/

/-- every cluster of `c` carries the link its FAT word denotes. -/
def Installed (words : Array Nat) (c : List Nat) (links : List Link) : Prop :=
  ∀ x ∈ c, ∃ v, words[x]? = some v ∧ links[x]? = some (ofWord v)

theorem installed_set (words : Array Nat) (c : List Nat) (links : List Link) (a : Nat) (l : Link)
    (ha : a < links.length) (h : Installed words c links)
    (hl : ∃ v, words[a]? = some v ∧ l = ofWord v) : Installed words c (links.set a l) := by
  intro x hx
  by_cases e : a = x
  · subst e
    obtain ⟨v, hv, hlv⟩ := hl
    exact ⟨v, hv, by simp [ha, hlv]⟩
  · obtain ⟨v, hv, hlk⟩ := h x hx
    exact ⟨v, hv, by rw [List.getElem?_set_ne e]; exact hlk⟩

theorem addLinks_installed (words : Array Nat) (c : List Nat) :
    ∀ (p : List Nat) (links ls : List Link), Installed words c links → PathOK words p →
      addLinks p links = .ok ls → Installed words c ls := by
  intro p
  induction p with
  | nil => intro links ls h _ he; simp [addLinks] at he; subst he; exact h
  | cons a rest ih =>
    intro links ls h hp he
    cases rest with
    | nil =>
      simp only [addLinks] at he
      split at he
      · rename_i ha
        simp at he; subst he
        obtain ⟨v, hv, hend⟩ := hp
        exact installed_set words c links a _ ha h ⟨v, hv, by unfold ofWord; simp [hend]⟩
      · simp at he
    | cons b rest' =>
      simp only [addLinks] at he
      split at he
      · rename_i ha
        obtain ⟨⟨hw, hb⟩, hrest⟩ := hp
        apply ih (links.set a ⟨b, false⟩) ls _ hrest he
        apply installed_set words c links a _ ha h
        refine ⟨b, hw, ?_⟩
        unfold ofWord
        have : ¬ b ≥ FAT_END := by omega
        simp [this]
      · simp at he

/-- `addLinks` installs its own path. -/
theorem addLinks_installs_path (words : Array Nat) :
    ∀ (p : List Nat) (links ls : List Link), PathOK words p → addLinks p links = .ok ls →
      Installed words p ls := by
  intro p
  induction p with
  | nil => intro links ls _ _ x hx; cases hx
  | cons a rest ih =>
    intro links ls hp he
    cases rest with
    | nil =>
      simp only [addLinks] at he
      split at he
      · rename_i ha
        simp at he; subst he
        obtain ⟨v, hv, hend⟩ := hp
        intro x hx
        simp at hx; subst hx
        exact ⟨v, hv, by simp [ha, ofWord, hend]⟩
      · simp at he
    | cons b rest' =>
      have hp' := hp
      simp only [addLinks] at he
      split at he
      · rename_i ha
        obtain ⟨⟨hw, hb⟩, hrest⟩ := hp
        have htail := ih (links.set a ⟨b, false⟩) ls hrest he
        -- `a` itself: installed by the `set`, kept by the rest of the path
        have ha_inst : Installed words [a] (links.set a ⟨b, false⟩) := by
          intro x hx
          simp at hx; subst hx
          refine ⟨b, hw, ?_⟩
          have : ¬ b ≥ FAT_END := by omega
          simp [ha, ofWord, this]
        have ha_kept := addLinks_installed words [a] (b :: rest') _ ls ha_inst hrest he
        intro x hx
        rcases List.mem_cons.mp hx with rfl | hx
        · exact ha_kept x (by simp)
        · exact htail x hx
      · simp at he

theorem rolandWalk_installed (words : Array Nat) (c : List Nat) :
    ∀ (fuel : Nat) (st : RolSt) (lst : List Nat) (sub : Nat) (st' : RolSt),
      Installed words c st.links → RevOK words lst sub →
      rolandWalk words fuel st lst sub = .ok st' → Installed words c st'.links := by
  intro fuel
  induction fuel with
  | zero =>
    intro st lst sub st' h hr he
    unfold rolandWalk at he
    split at he
    · simp at he; subst he; exact h
    · simp only at he
      split at he
      · simp at he
      · split at he
        · split at he
          · simp at he; subst he; exact h
          · simp at he
        · simp at he
  | succ f ih =>
    intro st lst sub st' h hr he
    unfold rolandWalk at he
    split at he
    · simp at he; subst he; exact h
    · rename_i v hv
      simp only at he
      split at he
      · simp at he
      · split at he
        · split at he
          · simp at he; subst he; exact h
          · simp at he
        · split at he
          · rename_i hend
            split at he
            · rename_i ls hadd
              simp at he; subst he
              simp only
              apply addLinks_installed words c _ _ ls h _ hadd
              have hp : PathOK words [sub] := ⟨v, hv, hend⟩
              have := pathOK_of_rev words lst sub [] hr hp
              simpa [List.reverse_cons] using this
            · simp at he
          · rename_i hend
            exact ih { links := st.links, dirty := st.dirty.setIfInBounds sub true } (sub :: lst) v st' h ⟨⟨hv, by omega⟩, hr⟩ he

/-- an installed raw chain is a chain of the link table. -/
theorem chain_of_installed (words : Array Nat) (links : List Link) :
    ∀ c, RawChain words c → Installed words c links → Chain links c := by
  intro c
  induction c with
  | nil => intro h; exact absurd h (by simp [RawChain])
  | cons a rest ih =>
    intro hc hi
    cases rest with
    | nil =>
      obtain ⟨v, hv, hend⟩ := hc
      obtain ⟨v', hv', hl⟩ := hi a (by simp)
      rw [hv] at hv'; cases hv'
      exact ⟨ofWord v, hl, by simp [ofWord, hend]⟩
    | cons b rest' =>
      obtain ⟨⟨hv, _, _, _, hlt⟩, hrest⟩ := hc
      obtain ⟨v', hv', hl⟩ := hi a (by simp)
      rw [hv] at hv'; cases hv'
      have hn : ¬ b ≥ FAT_END := by omega
      refine ⟨⟨ofWord b, hl, by simp [ofWord, hn], by simp [ofWord, hn]⟩, ?_⟩
      exact ih hrest (fun x hx => hi x (List.mem_cons_of_mem _ hx))

/-! ## which clusters can have been visited -/

/-- a visited cluster is one of the two reserved ones, an earlier start of the outer loop, or the
target of some FAT word. -/
def DOK (words : Array Nat) (i : Nat) (d : Array Bool) : Prop :=
  ∀ x, d[x]? = some true → x < 2 ∨ x < i ∨ ∃ y : Nat, words[y]? = some x

theorem dok_set (words : Array Nat) (i : Nat) (d : Array Bool) (sub : Nat) (h : DOK words i d)
    (hs : sub < 2 ∨ sub < i ∨ ∃ y : Nat, words[y]? = some sub) : DOK words i (d.setIfInBounds sub true) := by
  intro x hx
  by_cases e : sub = x
  · subst e; exact hs
  · rw [Array.getElem?_setIfInBounds_ne e] at hx
    exact h x hx

theorem rolandWalk_dok (words : Array Nat) (i : Nat) :
    ∀ (fuel : Nat) (st : RolSt) (lst : List Nat) (sub : Nat) (st' : RolSt),
      DOK words i st.dirty → (sub < 2 ∨ sub < i ∨ ∃ y : Nat, words[y]? = some sub) →
      rolandWalk words fuel st lst sub = .ok st' → DOK words i st'.dirty := by
  intro fuel
  induction fuel with
  | zero =>
    intro st lst sub st' h hs he
    unfold rolandWalk at he
    split at he
    · simp at he; subst he; exact h
    · simp only at he
      split at he
      · simp at he
      · split at he
        · split at he
          · simp at he; subst he; exact dok_set words i _ sub h hs
          · simp at he
        · simp at he
  | succ f ih =>
    intro st lst sub st' h hs he
    unfold rolandWalk at he
    split at he
    · simp at he; subst he; exact h
    · rename_i v hv
      simp only at he
      split at he
      · simp at he
      · split at he
        · split at he
          · simp at he; subst he; exact dok_set words i _ sub h hs
          · simp at he
        · split at he
          · split at he
            · simp at he; subst he; exact dok_set words i _ sub h hs
            · simp at he
          · exact ih { links := st.links, dirty := st.dirty.setIfInBounds sub true } (sub :: lst) v st'
              (dok_set words i _ sub h hs) (Or.inr (Or.inr ⟨sub, hv⟩)) he

/-! ## the outer loop -/

/-- the step of the outer loop. -/
def rolStep (wa : Array Nat) (n : Nat) (st : RolSt) (i : Nat) : Except Err RolSt :=
  if st.dirty[i]?.getD true then pure st else rolandWalk wa n st [] i

/-- invariant of the outer loop at index `i` for a raw chain `c` with head `c0`. -/
structure LoopInv (wa : Array Nat) (c : List Nat) (c0 i : Nat) (st : RolSt) : Prop where
  dok  : DOK wa i st.dirty
  size : st.dirty.size = wa.size
  inst : c0 < i → Installed wa c st.links

theorem rolandWalk_size (words : Array Nat) :
    ∀ (fuel : Nat) (st : RolSt) (lst : List Nat) (sub : Nat) (st' : RolSt),
      rolandWalk words fuel st lst sub = .ok st' → st'.dirty.size = st.dirty.size := by
  intro fuel
  induction fuel with
  | zero =>
    intro st lst sub st' he
    unfold rolandWalk at he
    split at he
    · simp at he; subst he; rfl
    · simp only at he
      split at he
      · simp at he
      · split at he
        · split at he
          · simp at he; subst he; simp
          · simp at he
        · simp at he
  | succ f ih =>
    intro st lst sub st' he
    unfold rolandWalk at he
    split at he
    · simp at he; subst he; rfl
    · simp only at he
      split at he
      · simp at he
      · split at he
        · split at he
          · simp at he; subst he; simp
          · simp at he
        · split at he
          · split at he
            · simp at he; subst he; simp
            · simp at he
          · have := ih _ _ _ _ he
            simpa using this

theorem loop_step (wa : Array Nat) (n : Nat) (c : List Nat) (c0 : Nat) (hc : RawChain wa c)
    (hhead : c.headD 0 = c0) (hc0 : 2 ≤ c0) (hnopred : ∀ y : Nat, wa[y]? ≠ some c0) (hlen : c.length ≤ n)
    (hc0lt : c0 < wa.size)
    (i : Nat) (st st' : RolSt) (hinv : LoopInv wa c c0 i st) (he : rolStep wa n st i = .ok st') :
    LoopInv wa c c0 (i + 1) st' := by
  unfold rolStep at he
  have hcne : c ≠ [] := by intro e; rw [e] at hc; exact hc
  by_cases hd : st.dirty[i]?.getD true = true
  · -- skipped
    simp only [hd, if_true, pure, Except.pure, Except.ok.injEq] at he
    subst he
    refine ⟨?_, hinv.size, ?_⟩
    · intro x hx
      rcases hinv.dok x hx with h | h | h
      · exact Or.inl h
      · exact Or.inr (Or.inl (by omega))
      · exact Or.inr (Or.inr h)
    · intro hlt
      by_cases hi : i = c0
      · -- the head cannot have been visited before its turn
        subst hi
        exfalso
        have hsome : st.dirty[i]? = some true := by
          have hlt' : i < st.dirty.size := by rw [hinv.size]; exact hc0lt
          rw [Array.getElem?_eq_getElem hlt'] at hd ⊢
          simpa using hd
        rcases hinv.dok i hsome with h | h | ⟨y, hy⟩
        · omega
        · omega
        · exact hnopred y hy
      · exact hinv.inst (by omega)
  · simp only [hd, Bool.false_eq_true, if_false] at he
    have hdok : DOK wa (i + 1) st'.dirty := by
      have h0 : DOK wa (i + 1) st.dirty := by
        intro x hx
        rcases hinv.dok x hx with h | h | h
        · exact Or.inl h
        · exact Or.inr (Or.inl (by omega))
        · exact Or.inr (Or.inr h)
      exact rolandWalk_dok wa (i + 1) n st [] i st' h0 (Or.inr (Or.inl (by omega))) he
    refine ⟨hdok, by rw [rolandWalk_size wa n st [] i st' he]; exact hinv.size, ?_⟩
    intro hlt
    by_cases hi : i = c0
    · subst hi
      have hwalk := rolandWalk_chain wa c [] n st st' hcne hc hlen (by rw [hhead]; exact he)
      simp only [List.nil_append] at hwalk
      exact addLinks_installs_path wa c st.links st'.links (rawChain_pathOK wa c hc) hwalk
    · exact rolandWalk_installed wa c n st [] i st' (hinv.inst (by omega)) trivial he

theorem loop_fold (wa : Array Nat) (n : Nat) (c : List Nat) (c0 : Nat) (hc : RawChain wa c)
    (hhead : c.headD 0 = c0) (hc0 : 2 ≤ c0) (hnopred : ∀ y : Nat, wa[y]? ≠ some c0) (hlen : c.length ≤ n)
    (hc0lt : c0 < wa.size) :
    ∀ (len a : Nat) (st st' : RolSt), LoopInv wa c c0 a st →
      (List.range' a len).foldlM (rolStep wa n) st = .ok st' → LoopInv wa c c0 (a + len) st' := by
  intro len
  induction len with
  | zero => intro a st st' h he; simp [List.foldlM] at he; cases he; simpa using h
  | succ len ih =>
    intro a st st' h he
    rw [List.range'_succ] at he
    simp only [List.foldlM] at he
    cases hs : rolStep wa n st a with
    | error e => rw [hs] at he; simp [bind, Except.bind] at he
    | ok st1 =>
      rw [hs] at he
      simp only [bind, Except.bind] at he
      have h1 := loop_step wa n c c0 hc hhead hc0 hnopred hlen hc0lt a st st1 h hs
      have := ih (a + 1) st1 st' h1 he
      have e : a + 1 + len = a + (len + 1) := by omega
      rw [e] at this; exact this

/-! ## a raw chain visits no cluster twice -/

theorem rawChain_det (words : Array Nat) : ∀ c1 c2, RawChain words c1 → RawChain words c2 →
    c1.head? = c2.head? → c1 = c2 := by
  intro c1
  induction c1 with
  | nil => intro c2 h; exact absurd h (by simp [RawChain])
  | cons a r1 ih =>
    intro c2 h1 h2 hh
    cases c2 with
    | nil => exact absurd h2 (by simp [RawChain])
    | cons a' r2 =>
      simp at hh; subst hh
      cases r1 with
      | nil =>
        cases r2 with
        | nil => rfl
        | cons b2 r2' =>
          exfalso
          obtain ⟨v, hv, hend⟩ := h1
          rw [h2.1.1] at hv; cases hv
          have := h2.1.2.2.2.2
          omega
      | cons b1 r1' =>
        cases r2 with
        | nil =>
          exfalso
          obtain ⟨v, hv, hend⟩ := h2
          rw [h1.1.1] at hv; cases hv
          have := h1.1.2.2.2.2
          omega
        | cons b2 r2' =>
          have e : b1 = b2 := by
            have := h1.1.1; rw [h2.1.1] at this; cases this; rfl
          subst e
          rw [ih (b1 :: r2') h1.2 h2.2 rfl]

theorem rawChain_suffix (words : Array Nat) : ∀ (l1 : List Nat) (a : Nat) (l2 : List Nat),
    RawChain words (l1 ++ a :: l2) → RawChain words (a :: l2) := by
  intro l1
  induction l1 with
  | nil => intro a l2 h; simpa using h
  | cons x r ih =>
    intro a l2 h
    cases r with
    | nil => exact h.2
    | cons y r' => exact ih a l2 h.2

theorem rawChain_nodup (words : Array Nat) : ∀ c, RawChain words c → c.Nodup := by
  intro c
  induction c with
  | nil => intro h; exact absurd h (by simp [RawChain])
  | cons a rest ih =>
    intro h
    rw [List.nodup_cons]
    constructor
    · intro hm
      obtain ⟨l1, l2, e⟩ := List.append_of_mem hm
      have hs : RawChain words (a :: l2) := by
        apply rawChain_suffix words (a :: l1) a l2
        rw [e] at h; exact h
      have := rawChain_det words (a :: rest) (a :: l2) h hs rfl
      rw [e] at this
      have hl := congrArg List.length this
      simp at hl
      omega
    · cases rest with
      | nil => simp
      | cons b r => exact ih h.2

theorem rawChain_lt (words : Array Nat) : ∀ c, RawChain words c → ∀ x ∈ c, x < words.size := by
  intro c
  induction c with
  | nil => intro h; exact absurd h (by simp [RawChain])
  | cons a rest ih =>
    intro h x hx
    have hlt : ∀ (y v : Nat), words[y]? = some v → y < words.size := by
      intro y v hv
      rcases Nat.lt_or_ge y words.size with h' | h'
      · exact h'
      · rw [Array.getElem?_eq_none h'] at hv; cases hv
    cases rest with
    | nil =>
      simp at hx; subst hx
      obtain ⟨v, hv, _⟩ := h
      exact hlt _ _ hv
    | cons b r =>
      rcases List.mem_cons.mp hx with rfl | hx'
      · exact hlt _ _ h.1.1
      · exact ih h.2 x hx'

theorem rawChain_length (words : Array Nat) (c : List Nat) (hc : RawChain words c) :
    c.length ≤ words.size := by
  have hsub : c ⊆ List.range words.size := by
    intro x hx
    rw [List.mem_range]
    exact rawChain_lt words c hc x hx
  have := List.Nodup.length_le_of_subset (rawChain_nodup words c hc) hsub
  simpa using this

/-- **Roland FAT decoding is complete for well-formed chains.** If the raw FAT holds a chain `c`
(each cluster's word names the next, the last one's word is an end mark) that starts at an
allocatable cluster no FAT word points to, and the decoder accepts the table, then the decoded
link table contains `c` as a chain — so `get_path` from its head resolves exactly `c`, in order. -/
theorem C07_roland_wf (words : List Nat) (links : List Link) (h : rolandDecode words = .ok links)
    (c : List Nat) (hc : RawChain words.toArray c) (hc0 : 2 ≤ c.headD 0)
    (hc0hi : c.headD 0 < words.length - 9) (hnopred : ∀ y : Nat, words.toArray[y]? ≠ some (c.headD 0)) :
    Chain links c ∧ getPath links words.length (c.headD 0) = .ok c := by
  have hlen : c.length ≤ words.length := by simpa using rawChain_length words.toArray c hc
  have hchain : Chain links c := by
    unfold rolandDecode at h
    simp only at h
    have hfun : (fun st i => if st.dirty[i]?.getD true = true then pure st else rolandWalk words.toArray words.length st [] i)
        = rolStep words.toArray words.length := by
      funext st i; rfl
    rw [hfun] at h
    have hr : (List.range (words.length - 9)).drop 2 = List.range' 2 (words.length - 9 - 2) := by
      rw [List.range_eq_range', List.drop_range']
    rw [hr] at h
    cases hfold : (List.range' 2 (words.length - 9 - 2)).foldlM (rolStep words.toArray words.length)
        ({ links := List.replicate words.length Link.dflt,
           dirty := (Array.replicate words.length false).setIfInBounds 0 true |>.setIfInBounds 1 true } : RolSt) with
    | error e => rw [hfold] at h; simp [Except.map] at h
    | ok st' =>
      rw [hfold] at h
      simp only [Except.map, Except.ok.injEq] at h
      subst h
      have hinv0 : LoopInv words.toArray c (c.headD 0) 2
          ({ links := List.replicate words.length Link.dflt,
             dirty := (Array.replicate words.length false).setIfInBounds 0 true |>.setIfInBounds 1 true } : RolSt) := by
        refine ⟨?_, by simp, by intro hlt; omega⟩
        intro x hx
        by_cases h0 : x = 0
        · left; omega
        · by_cases h1 : x = 1
          · left; omega
          · exfalso
            rw [Array.getElem?_setIfInBounds_ne (by omega), Array.getElem?_setIfInBounds_ne (by omega)] at hx
            rw [Array.getElem?_replicate] at hx
            split at hx <;> simp at hx
      have hfin := loop_fold words.toArray words.length c (c.headD 0) hc rfl hc0 hnopred hlen
        (by have := hc0hi; simp only [List.size_toArray]; omega) (words.length - 9 - 2) 2 _ st' hinv0 hfold
      exact chain_of_installed words.toArray st'.links c hc (hfin.inst (by
        have := hc0hi
        simp only [List.headD_eq_head?_getD] at *
        omega))
  exact ⟨hchain, C07_getPath_wf links words.length c hchain hlen⟩

end Smpl.Props.C07
