/-
C11 — Sample streams sharing one image file handle do not disturb one another.
-/
import Smpl.Props.C08

namespace Smpl.Props.C11
open Smpl Smpl.Stream Smpl.Spec Smpl.Props.C08

/-- one stream object together with its logical content, identity and footprint. -/
structure FileSpec where
  f  : FileLike
  c  : List Byte
  i  : Nat
  fp : List Nat

/-- cursor of file `k` of the family in store `s`. -/
def curOf (fs : List FileSpec) (s : Store) (k : Nat) : Int :=
  match fs[k]? with
  | some x => (s x.i).pos
  | none => 0

/-- Hypotheses of C11: every stream is a read-only file over its own content (w.r.t. one shared
invariant family), and no stream's own cell lies in the footprint of another stream. The footprints
themselves may overlap arbitrarily: the streams may share the partition window, the data-area
window, a raw-sector view and the OS file. -/
structure Family (ok : Nat → Cell → Prop) (fs : List FileSpec) : Prop where
  isFile : ∀ x ∈ fs, IsFile x.f x.c x.i x.fp ok
  apart  : ∀ (a b : Nat) (x y : FileSpec), fs[a]? = some x → fs[b]? = some y → a ≠ b → y.i ∉ x.fp

/-- **C11 (non-interference).** Any schedule — any interleaving of `tell`/`seek`/`read` on any of
the streams, any block sizes — run against the real objects over one shared store gives exactly the
answers of a family of *independent* files, each with its own cursor. -/
theorem C11_noninterference {ok : Nat → Cell → Prop} {fs : List FileSpec} (hfam : Family ok fs)
    (sched : List (Nat × Op)) (hops : ∀ e ∈ sched, opOk e.2) (s : Store) (hs : GInv ok s) :
    (runSched (fs.map (·.f)) sched s).1 = absSched (fs.map (·.c)) (curOf fs s) sched := by
  induction sched generalizing s with
  | nil => rfl
  | cons e rest ih =>
    obtain ⟨k, op⟩ := e
    simp only [runSched, absSched, List.getElem?_map]
    cases hk : fs[k]? with
    | none =>
      simp only [Option.map_none]
      exact ih (fun e he => hops e (List.mem_cons_of_mem _ he)) s hs
    | some x =>
      simp only [Option.map_some]
      have hx : x ∈ fs := List.mem_of_getElem? hk
      have hop : opOk op := hops (k, op) (List.mem_cons_self ..)
      obtain ⟨h1, h2, h3, h4⟩ := step_refines (hfam.isFile x hx) op hop s hs
      have hcur : curOf fs s k = (s x.i).pos := by simp [curOf, hk]
      have hnext : curOf fs (runOp x.f op s).2
          = fun j => if j = k then (absStep x.c (curOf fs s k) op).2 else curOf fs s j := by
        funext j
        by_cases hj : j = k
        · subst hj; simp [curOf, hk, h2]
        · simp only [hj, if_false, curOf]
          cases hy : fs[j]? with
          | none => rfl
          | some y =>
            have : y.i ∉ x.fp := hfam.apart k j x y hk hy (fun e => hj e.symm)
            simp [h4 y.i this]
      rw [ih (fun e he => hops e (List.mem_cons_of_mem _ he)) _ h3, hnext, hcur, h1]

/-- in the family of independent files, what one file answers depends only on its own operations:
its answers within any schedule are those of running its operations alone. -/
theorem C11_projection (cs : List (List Byte)) (cur : Nat → Int) (sched : List (Nat × Op))
    (hvalid : ∀ e ∈ sched, e.1 < cs.length) (a : Nat) (c : List Byte) (ha : cs[a]? = some c) :
    ((sched.zip (absSched cs cur sched)).filter (fun p => p.1.1 = a)).map (·.2)
      = absRun c (cur a) (opsOf a sched) := by
  induction sched generalizing cur with
  | nil => simp [absSched, opsOf, absRun]
  | cons e rest ih =>
    obtain ⟨k, op⟩ := e
    have hk : k < cs.length := hvalid (k, op) (List.mem_cons_self ..)
    have hrest : ∀ e ∈ rest, e.1 < cs.length := fun e he => hvalid e (List.mem_cons_of_mem _ he)
    simp only [absSched, List.getElem?_eq_getElem hk]
    by_cases hka : k = a
    · subst hka
      have hc : cs[k] = c := by
        rw [List.getElem?_eq_getElem hk] at ha; exact Option.some.inj ha
      simp only [List.zip_cons_cons, List.filter_cons, decide_true, if_true, List.map_cons, opsOf,
        absRun, hc]
      congr 1
      have := ih (fun j => if j = k then (absStep c (cur k) op).2 else cur j) hrest
      simpa [opsOf] using this
    · have hne : ¬ (k = a) := hka
      simp only [List.zip_cons_cons, List.filter_cons, hne, decide_false, opsOf]
      have := ih (fun j => if j = k then (absStep cs[k] (cur k) op).2 else cur j) hrest
      have hcur : (if a = k then (absStep cs[k] (cur k) op).2 else cur a) = cur a := by
        have : ¬ a = k := fun e => hka e.symm
        simp [this]
      simp only [hcur, opsOf] at this
      simpa using this

private theorem opsOf_alt0 (blocks : List (Int × Int)) :
    opsOf 0 (blocks.flatMap fun b => [(0, Op.read b.1), (1, Op.read b.2)])
      = blocks.map fun b => Op.read b.1 := by
  induction blocks with
  | nil => rfl
  | cons b bs ih =>
    simp only [opsOf] at ih ⊢
    simp [List.flatMap_cons, List.filter_cons, ih]

private theorem opsOf_alt1 (blocks : List (Int × Int)) :
    opsOf 1 (blocks.flatMap fun b => [(0, Op.read b.1), (1, Op.read b.2)])
      = blocks.map fun b => Op.read b.2 := by
  induction blocks with
  | nil => rfl
  | cons b bs ih =>
    simp only [opsOf] at ih ⊢
    simp [List.flatMap_cons, List.filter_cons, ih]

/-- **C11, stereo instance.** The alternating block reads of a left and a right stream during a
stereo export (`decode_frame`: read left block, read right block, …) see exactly what isolated
sequential reads of each stream would see. -/
theorem C11_stereo {ok : Nat → Cell → Prop} {l r : FileSpec} (hfam : Family ok [l, r])
    (blocks : List (Int × Int)) (hb : ∀ b ∈ blocks, 0 ≤ b.1 ∧ 0 ≤ b.2) (s : Store) (hs : GInv ok s) :
    let sched := blocks.flatMap fun b => [(0, Op.read b.1), (1, Op.read b.2)]
    let outs := (runSched [l.f, r.f] sched s).1
    ((sched.zip outs).filter (fun p => p.1.1 = 0)).map (·.2)
        = absRun l.c (s l.i).pos (blocks.map fun b => Op.read b.1) ∧
    ((sched.zip outs).filter (fun p => p.1.1 = 1)).map (·.2)
        = absRun r.c (s r.i).pos (blocks.map fun b => Op.read b.2) := by
  intro sched outs
  have hops : ∀ e ∈ sched, opOk e.2 := by
    intro e he
    obtain ⟨b, hbm, he'⟩ := List.mem_flatMap.mp he
    have := hb b hbm
    simp only [List.mem_cons, List.mem_nil_iff, or_false] at he'
    rcases he' with rfl | rfl <;> simp [opOk, this.1, this.2]
  have hvalid : ∀ e ∈ sched, e.1 < [l.c, r.c].length := by
    intro e he
    obtain ⟨b, _, he'⟩ := List.mem_flatMap.mp he
    simp only [List.mem_cons, List.mem_nil_iff, or_false] at he'
    rcases he' with rfl | rfl <;> simp
  have hrun : outs = absSched [l.c, r.c] (curOf [l, r] s) sched :=
    C11_noninterference hfam sched hops s hs
  have hopsL : opsOf 0 sched = blocks.map fun b => Op.read b.1 := opsOf_alt0 blocks
  have hopsR : opsOf 1 sched = blocks.map fun b => Op.read b.2 := opsOf_alt1 blocks
  constructor
  · rw [hrun, C11_projection [l.c, r.c] _ sched hvalid 0 l.c rfl, hopsL]; rfl
  · rw [hrun, C11_projection [l.c, r.c] _ sched hvalid 1 r.c rfl, hopsR]; rfl

/-! ### non-vacuity: two chained files over one shared window over one OS file -/

def exOk2 : Nat → Cell → Prop
  | 0, c => 0 ≤ c.pos
  | 1, c => 0 ≤ c.pos ∧ c.pos ≤ 8
  | 2, c => 0 ≤ c.pos ∧ c.pos ≤ 4
  | 3, c => 0 ≤ c.pos ∧ c.pos ≤ 4
  | _, _ => True

def exWin : Shape := .offset 1 (.base 0 [16, 17, 18, 19, 20, 21, 22, 23, 24, 25, 26, 27]) 8 2
def exA : Shape := .chain 2 exWin 2 [3, 0]
def exB : Shape := .chain 3 exWin 2 [1, 2]

def specOf (sh : Shape) : FileSpec := ⟨sh.build, sh.denote, sh.id, sh.fp⟩

/-- the two files share object 1 (the window) and object 0 (the OS file) and still form a family. -/
example : Family exOk2 [specOf exA, specOf exB] where
  isFile := by
    intro x hx
    simp only [List.mem_cons, List.mem_nil_iff, or_false] at hx
    rcases hx with rfl | rfl
    · exact build_isFile exOk2 exA (by simp [exA, exWin, Shape.WF, exOk2, Shape.fp, Shape.denote, slice]) rfl
    · exact build_isFile exOk2 exB (by simp [exB, exWin, Shape.WF, exOk2, Shape.fp, Shape.denote, slice]) rfl
  apart := by
    intro a b x y ha hb hab
    match a, b with
    | 0, 0 => exact absurd rfl hab
    | 1, 1 => exact absurd rfl hab
    | 0, 1 =>
      simp only [List.getElem?_cons_zero, List.getElem?_cons_succ] at ha hb
      cases ha; cases hb
      simp [specOf, exA, exB, exWin, Shape.id, Shape.fp]
    | 1, 0 =>
      simp only [List.getElem?_cons_zero, List.getElem?_cons_succ] at ha hb
      cases ha; cases hb
      simp [specOf, exA, exB, exWin, Shape.id, Shape.fp]
    | 0, b + 2 => simp at hb
    | 1, b + 2 => simp at hb
    | a + 2, _ => simp at ha

end Smpl.Props.C11
