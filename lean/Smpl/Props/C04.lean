/-
C04 — Every exported file is a structurally valid RIFF/WAVE PCM file.
-/
import Smpl.Model.Wav
import Smpl.Spec.Riff

namespace Smpl.Props.C04
open Smpl Smpl.Wav Smpl.Spec.Riff

/-! ### reader lemmas (the validator consumes exactly what the builder appended) -/

theorem expect_append (tag r : List Nat) : expect tag (tag ++ r) = some r := by
  simp [expect]

theorem takeN_append (a r : List Nat) : takeN a.length (a ++ r) = some (a, r) := by
  simp [takeN]

theorem u32n_ok {v : Nat} {bs : List Nat} (h : u32n v = .ok bs) :
    bs.length = 4 ∧ le bs = v := by
  unfold u32n at h
  by_cases hv : v < 4294967296
  · simp only [hv, if_true] at h
    injection h with h; subst h
    refine ⟨rfl, ?_⟩
    simp only [le]; omega
  · simp [hv] at h

theorem u16n_ok {v : Nat} {bs : List Nat} (h : u16n v = .ok bs) :
    bs.length = 2 ∧ le bs = v := by
  unfold u16n at h
  by_cases hv : v < 65536
  · simp only [hv, if_true] at h
    injection h with h; subst h
    refine ⟨rfl, ?_⟩
    simp only [le]; omega
  · simp [hv] at h

theorem readLe_append (n : Nat) (a r : List Nat) (h : a.length = n) :
    readLe n (a ++ r) = some (le a, r) := by
  subst h; simp [readLe, takeN_append]

theorem u32_ok {v : Int} {bs : List Nat} (h : u32 v = .ok bs) :
    bs.length = 4 ∧ (le bs : Int) = v := by
  unfold u32 at h
  by_cases hv : 0 ≤ v
  · simp only [hv, if_true] at h
    obtain ⟨h1, h2⟩ := u32n_ok h
    exact ⟨h1, by rw [h2]; omega⟩
  · simp [hv] at h

/-! ### the smpl chunk: size = 36 + 24 × declared loop count -/

theorem loopBody_length {l : Loop} {bs : List Nat} (h : loopBody l = .ok bs) : bs.length = 24 := by
  unfold loopBody at h
  simp only [bind, Except.bind, pure, Except.pure] at h
  cases ha : u32 l.cueId <;> simp only [ha] at h; try cases h
  cases hb : u32 l.typ <;> simp only [hb] at h; try cases h
  cases hc : u32 l.start <;> simp only [hc] at h; try cases h
  cases hd : u32 l.end_ <;> simp only [hd] at h; try cases h
  cases he : u32 l.frac <;> simp only [he] at h; try cases h
  cases hf : u32 l.playCnt <;> simp only [hf] at h; try cases h
  injection h with h; subst h
  simp [(u32_ok ha).1, (u32_ok hb).1, (u32_ok hc).1, (u32_ok hd).1, (u32_ok he).1, (u32_ok hf).1]

theorem loopsBody_length {ls : List Loop} {bs : List Nat} (h : loopsBody ls = .ok bs) :
    bs.length = 24 * ls.length := by
  induction ls generalizing bs with
  | nil => simp [loopsBody] at h; subst h; rfl
  | cons l ls ih =>
    simp only [loopsBody, bind, Except.bind, pure, Except.pure] at h
    cases ha : loopBody l <;> simp only [ha] at h; try cases h
    cases hr : loopsBody ls <;> simp only [hr] at h; try cases h
    injection h with h; subst h
    simp [loopBody_length ha, ih hr]; omega

/-- **C04 (smpl size).** The `smpl` body is 36 + 24 × (number of loops) bytes long and the loop
count it declares (bytes 28..31) is that number. -/
theorem C04_smpl_size {s : Smpl} {bs : List Nat} (h : smplBody s = .ok bs) :
    bs.length = 36 + 24 * s.loops.length ∧ smplOk bs = true := by
  unfold smplBody at h
  simp only [bind, Except.bind, pure, Except.pure] at h
  cases hz : u32 0 <;> simp only [hz] at h; try cases h
  cases hp : u32 s.period <;> simp only [hp] at h; try cases h
  cases hn : u32 s.note <;> simp only [hn] at h; try cases h
  cases hf : u32 s.fraction <;> simp only [hf] at h; try cases h
  cases hc : u32n s.loops.length <;> simp only [hc] at h; try cases h
  cases hl : loopsBody s.loops <;> simp only [hl] at h; try cases h
  injection h with h
  rename_i z p n f cnt ls
  have lz := (u32_ok hz).1
  have lp := (u32_ok hp).1
  have ln := (u32_ok hn).1
  have lf := (u32_ok hf).1
  have lc := u32n_ok hc
  have ll := loopsBody_length hl
  have hlen : bs.length = 36 + 24 * s.loops.length := by
    subst h; simp [lz, lp, ln, lf, lc.1, ll]; omega
  refine ⟨hlen, ?_⟩
  -- the validator reads the count at offset 28
  have hsplit : bs = (z ++ z ++ p ++ n ++ f ++ z ++ z) ++ (cnt ++ (z ++ ls)) := by
    subst h; simp [List.append_assoc]
  have h28 : (z ++ z ++ p ++ n ++ f ++ z ++ z).length = 28 := by simp [lz, lp, ln, lf]
  unfold smplOk
  rw [hsplit, ← h28, takeN_append]
  simp only [readLe_append 4 cnt (z ++ ls) lc.1, lc.2]
  rw [← hsplit, hlen]
  simp

/-! ### the whole file -/

/-- the 16-byte `fmt ` body passes the validator and yields block align = channels × 2 (16-bit PCM). -/
theorem fmt_ok {m : Meta} {bs : List Nat} (h : fmtBody m = .ok bs) (hb : m.bits = 16) :
    bs.length = 16 ∧ fmtOk bs = some (m.channels * 2) := by
  unfold fmtBody at h
  simp only [bind, Except.bind, pure, Except.pure] at h
  cases ha : u16n 1 <;> simp only [ha] at h; try cases h
  cases hc : u16n m.channels <;> simp only [hc] at h; try cases h
  cases hr : u32n m.rate <;> simp only [hr] at h; try cases h
  cases hbr : u32n (m.rate * m.channels * m.bits / 8) <;> simp only [hbr] at h; try cases h
  cases hba : u16n (m.channels * m.bits / 8) <;> simp only [hba] at h; try cases h
  cases hbi : u16n m.bits <;> simp only [hbi] at h; try cases h
  injection h with h
  rename_i a c r br ba b
  have ea := u16n_ok ha
  have ec := u16n_ok hc
  have er := u32n_ok hr
  have ebr := u32n_ok hbr
  have eba := u16n_ok hba
  have ebi := u16n_ok hbi
  have hlen : bs.length = 16 := by subst h; simp [ea.1, ec.1, er.1, ebr.1, eba.1, ebi.1]
  refine ⟨hlen, ?_⟩
  have hsplit : bs = a ++ (c ++ (r ++ (br ++ (ba ++ (b ++ []))))) := by subst h; simp [List.append_assoc]
  rw [hsplit]
  unfold fmtOk
  simp only [bind, Option.bind, readLe_append 2 a _ ea.1, readLe_append 2 c _ ec.1,
    readLe_append 4 r _ er.1, readLe_append 4 br _ ebr.1, readLe_append 2 ba _ eba.1,
    readLe_append 2 b _ ebi.1, ea.2, ec.2, er.2, ebr.2, eba.2, ebi.2]
  have h1 : m.channels * m.bits / 8 = m.channels * 2 := by rw [hb]; omega
  have h2 : m.rate * m.channels * m.bits / 8 = m.rate * (m.channels * 2) := by
    have hP : m.rate * m.channels * 16 / 8 = m.rate * m.channels * 2 := by omega
    rw [hb, hP, Nat.mul_assoc]
  rw [hb] at h1 h2
  simp [hb, h1, h2]

/-- **C04.** Every file the builder produces for 16-bit PCM whose data is a whole number of frames
is accepted by the independent validator: RIFF size = length − 8; a 16-byte PCM `fmt ` chunk, an
optional `smpl` chunk of size 36 + 24 × its loop count, a `data` chunk, in that order, sizes adding
up exactly to the file; block align = channels × 2; byte rate = rate × block align; the data length
is a whole number of frames. For every rate, note, tuning and loop table for which building succeeds. -/
theorem C04_wellformed (m : Meta) (pcm bs : List Nat) (h : buildWav m pcm = .ok bs)
    (hbits : m.bits = 16) (hch : 0 < m.channels) (hal : pcm.length % (m.channels * 2) = 0) :
    wellFormed bs = true := by
  unfold buildWav at h
  simp only [bind, Except.bind, pure, Except.pure] at h
  cases hf : fmtBody m <;> simp only [hf] at h; try cases h
  rename_i f
  obtain ⟨hflen, hfok⟩ := fmt_ok hf hbits
  simp only [chunk, bind, Except.bind, pure, Except.pure] at h
  cases hfn : u32n f.length <;> simp only [hfn] at h; try cases h
  rename_i fn
  have efn := u32n_ok hfn
  -- the optional smpl chunk, as bytes `sc` that the validator will skip
  have key : ∀ sc : List Nat,
      (sc = [] ∨ ∃ sb sn, sc = SMPL ++ sn ++ sb ∧ sn.length = 4 ∧ le sn = sb.length ∧ smplOk sb = true) →
      ∀ dn tn : List Nat, dn.length = 4 → le dn = pcm.length → tn.length = 4 →
        le tn = (WAVE ++ (FMT ++ fn ++ f) ++ sc ++ (DATA ++ dn ++ pcm)).length →
        wellFormed (RIFF ++ tn ++ (WAVE ++ (FMT ++ fn ++ f) ++ sc ++ (DATA ++ dn ++ pcm))) = true := by
    intro sc hsc dn tn hdn hdv htn htv
    have hskip : skipSmpl (sc ++ (DATA ++ dn ++ pcm)) = some (DATA ++ dn ++ pcm) := by
      unfold skipSmpl
      rcases hsc with rfl | ⟨sb, sn, rfl, hsn, hsv, hso⟩
      · have : expect tagSmpl (DATA ++ dn ++ pcm) = none := by
          simp [expect, tagSmpl, DATA]
        simp only [List.nil_append, this]
      · have e1 : expect tagSmpl (SMPL ++ sn ++ sb ++ (DATA ++ dn ++ pcm))
            = some (sn ++ (sb ++ (DATA ++ dn ++ pcm))) := by
          have : SMPL ++ sn ++ sb ++ (DATA ++ dn ++ pcm) = tagSmpl ++ (sn ++ (sb ++ (DATA ++ dn ++ pcm))) := by
            simp [SMPL, tagSmpl, List.append_assoc]
          rw [this, expect_append]
        simp only [e1, readLe_append 4 sn _ hsn, hsv, takeN_append, hso, if_true]
    have hfmt : fmtChunk (tagFmt ++ (fn ++ (f ++ (sc ++ (DATA ++ dn ++ pcm)))))
        = some (m.channels * 2, sc ++ (DATA ++ dn ++ pcm)) := by
      unfold fmtChunk
      have ht16 : takeN 16 (f ++ (sc ++ (DATA ++ dn ++ pcm))) = some (f, sc ++ (DATA ++ dn ++ pcm)) := by
        rw [← hflen, takeN_append]
      simp only [expect_append, readLe_append 4 fn _ efn.1, efn.2, hflen, ne_eq, not_true_eq_false,
        if_false, ht16, hfok]
    have hdata : dataOk (m.channels * 2) (DATA ++ dn ++ pcm) = true := by
      unfold dataOk
      have eD : DATA ++ dn ++ pcm = tagData ++ (dn ++ pcm) := by simp [DATA, tagData, List.append_assoc]
      rw [eD]
      simp only [expect_append, readLe_append 4 dn _ hdn, hdv]
      have : 0 < m.channels * 2 := by omega
      simp [this, hal]
    unfold wellFormed
    have eR : RIFF ++ tn ++ (WAVE ++ (FMT ++ fn ++ f) ++ sc ++ (DATA ++ dn ++ pcm))
        = tagRIFF ++ (tn ++ (tagWAVE ++ (tagFmt ++ (fn ++ (f ++ (sc ++ (DATA ++ dn ++ pcm))))))) := by
      simp [RIFF, tagRIFF, WAVE, tagWAVE, FMT, tagFmt, List.append_assoc]
    have hlenAll : (tagRIFF ++ (tn ++ (tagWAVE ++ (tagFmt ++ (fn ++ (f ++ (sc ++ (DATA ++ dn ++ pcm)))))))).length
        = le tn + 8 := by
      rw [htv]; simp [tagRIFF, tagWAVE, WAVE, tagFmt, FMT, htn, List.append_assoc]; omega
    rw [eR]
    simp only [expect_append, readLe_append 4 tn _ htn, hlenAll, hfmt, hskip, hdata]
    simp
  -- now split on the smpl option
  cases hs : m.smpl with
  | none =>
    simp only [hs] at h
    cases hdn : u32n pcm.length <;> simp only [hdn] at h; try cases h
    rename_i dn
    cases htn : u32n (WAVE ++ (FMT ++ fn ++ f) ++ [] ++ (DATA ++ dn ++ pcm)).length <;>
      simp only [htn] at h; try cases h
    rename_i tn
    injection h with h; subst h
    exact key [] (Or.inl rfl) dn tn (u32n_ok hdn).1 (u32n_ok hdn).2 (u32n_ok htn).1 (u32n_ok htn).2
  | some s =>
    simp only [hs] at h
    cases hsb : smplBody s <;> simp only [hsb] at h; try cases h
    rename_i sb
    cases hsn : u32n sb.length <;> simp only [hsn] at h; try cases h
    rename_i sn
    cases hdn : u32n pcm.length <;> simp only [hdn] at h; try cases h
    rename_i dn
    cases htn : u32n (WAVE ++ (FMT ++ fn ++ f) ++ (SMPL ++ sn ++ sb) ++ (DATA ++ dn ++ pcm)).length <;>
      simp only [htn] at h; try cases h
    rename_i tn
    injection h with h; subst h
    exact key (SMPL ++ sn ++ sb)
      (Or.inr ⟨sb, sn, rfl, (u32n_ok hsn).1, (u32n_ok hsn).2, (C04_smpl_size hsb).2⟩)
      dn tn (u32n_ok hdn).1 (u32n_ok hdn).2 (u32n_ok htn).1 (u32n_ok htn).2

-- non-vacuity: a concrete mono file with one loop passes
example : (buildWav ⟨1, 44100, 16, some ⟨22676, 60, 0, [⟨0, 0, 10, 20, 0, 3⟩]⟩⟩ [1, 2, 3, 4]).toOption.map wellFormed
    = some true := by decide

/-- the MIDI unity note written into the `smpl` chunk is always a MIDI note number (0..127),
whatever root note and tuning the sample header holds (after the `fix:` of D15). -/
theorem C04_unity_note_range (g : GenSample) (s : Smpl) (h : smplOf g = some s) :
    0 ≤ s.note ∧ s.note ≤ 127 := by
  unfold smplOf at h
  split at h
  · cases h
  · simp only [Option.some.injEq] at h
    subst h
    simp only
    split <;> (try split) <;> omega

end Smpl.Props.C04
