/-
C17 — Cue sheets are read the same regardless of case, spacing and unknown lines.
-/
import Smpl.Model.Cue

namespace Smpl.Props.C17
open Smpl Smpl.Cue

/-- the parser is a function of the classified lines only (by construction of the model; the model's
`classify` is tied to the four `re` objects by the correspondence). -/
theorem C17_machine (lines : List (List Char)) : parse lines = parseKinds (lines.map classify) := rfl

/-! ### spacing: a line's kind does not depend on surrounding blanks -/

private theorem dropWhile_nil_of_all (p : Char → Bool) (l : List Char) (h : ∀ c ∈ l, p c = true) :
    l.dropWhile p = [] := by
  induction l with
  | nil => rfl
  | cons c cs ih =>
    simp only [List.dropWhile_cons, h c (List.mem_cons_self ..), if_true]
    exact ih (fun x hx => h x (List.mem_cons_of_mem _ hx))

private theorem all_of_dropWhile_nil (p : Char → Bool) (l : List Char) (h : l.dropWhile p = []) :
    ∀ c ∈ l, p c = true := by
  induction l with
  | nil => intro c hc; cases hc
  | cons x xs ih =>
    by_cases hx : p x = true
    · simp only [List.dropWhile_cons, hx, if_true] at h
      intro c hc
      rcases List.mem_cons.mp hc with rfl | hc
      · exact hx
      · exact ih h c hc
    · simp [List.dropWhile_cons, hx] at h

theorem stripL_ws_append (ws l : List Char) (h : ∀ c ∈ ws, isWs c = true) :
    stripL (ws ++ l) = stripL l := by
  induction ws with
  | nil => rfl
  | cons c cs ih =>
    have hc : isWs c = true := h c (List.mem_cons_self ..)
    simp only [stripL, List.cons_append, List.dropWhile_cons, hc, if_true] at ih ⊢
    exact ih (fun x hx => h x (List.mem_cons_of_mem _ hx))

theorem strip_ws (ws l ws' : List Char) (h : ∀ c ∈ ws, isWs c = true) (h' : ∀ c ∈ ws', isWs c = true) :
    strip (ws ++ l ++ ws') = strip l := by
  unfold strip
  rw [List.append_assoc, stripL_ws_append ws _ h]
  -- trailing blanks: after stripping the left side the reversed list starts with ws'.reverse
  by_cases hl : stripL l = []
  · -- the whole line is blank
    have hall : ∀ c ∈ l, isWs c = true := all_of_dropWhile_nil isWs l hl
    have h1 : stripL (l ++ ws') = [] := by
      apply dropWhile_nil_of_all
      intro c hc
      rcases List.mem_append.mp hc with hc | hc
      · exact hall c hc
      · exact h' c hc
    rw [h1, hl]
  · -- `stripL (l ++ ws') = stripL l ++ ws'`
    have h1 : stripL (l ++ ws') = stripL l ++ ws' := by
      unfold stripL
      unfold stripL at hl
      induction l with
      | nil => simp at hl
      | cons c cs ih =>
        by_cases hc : isWs c = true
        · simp only [List.cons_append, List.dropWhile_cons, hc, if_true] at hl ⊢
          exact ih hl
        · simp [List.dropWhile_cons, hc]
    rw [h1, List.reverse_append, stripL_ws_append ws'.reverse _ (by
      intro c hc; exact h' c (List.mem_reverse.mp hc))]

/-- **C17 (blanks).** Leading and trailing blanks (any of TAB LF VT FF CR FS GS RS US SPACE) do not
change what a line is. -/
theorem C17_blanks (ws l ws' : List Char) (h : ∀ c ∈ ws, isWs c = true) (h' : ∀ c ∈ ws', isWs c = true) :
    classify (ws ++ l ++ ws') = classify l := by
  unfold classify
  rw [strip_ws ws l ws' h h']

/-- an all-blank line is `blank`. -/
theorem C17_blank_line (ws : List Char) (h : ∀ c ∈ ws, isWs c = true) : classify ws = .blank := by
  have := C17_blanks ws [] [] h (by simp)
  simp only [List.append_nil] at this
  rw [this]; rfl

/-! ### letter case of keywords -/

/-- **C17 (case).** Keyword recognition ignores letter case: two spellings with the same lower-casing
are recognised alike, whatever follows. -/
theorem C17_case (k p p' rest : List Char) (hlen : p.length = k.length)
    (hlow : p.map lowerC = p'.map lowerC) : kw k (p ++ rest) = kw k (p' ++ rest) := by
  induction k generalizing p p' with
  | nil =>
    have : p = [] := List.length_eq_zero_iff.mp hlen
    subst this
    have : p' = [] := by simpa using hlow.symm
    subst this; rfl
  | cons kc ks ih =>
    cases p with
    | nil => simp at hlen
    | cons c cs =>
      cases p' with
      | nil => simp at hlow
      | cons c' cs' =>
        simp only [List.map_cons, List.cons.injEq] at hlow
        simp only [List.cons_append, kw, hlow.1]
        split
        · exact ih cs cs' (by simpa using hlen) hlow.2
        · rfl

/-! ### the consumer: blank lines, unknown lines, missing FILE -/

def isFileKind : Kind → Bool
  | .file _ _ => true
  | _ => false

/-- **C17 (no FILE).** Text without a FILE line is not a cue sheet. -/
theorem C17_no_file (ks : List Kind) (h : ∀ k ∈ ks, isFileKind k = false) :
    parseKinds ks = .error .badCue := by
  induction ks with
  | nil => rfl
  | cons k ks ih =>
    have hk := h k (List.mem_cons_self ..)
    cases k <;> simp [isFileKind] at hk <;>
      simpa [parseKinds] using ih (fun x hx => h x (List.mem_cons_of_mem _ hx))

/-- **C17 (lines before FILE).** Whatever precedes the first FILE line — REM, PERFORMER, TITLE,
CATALOG, stray TRACK/INDEX lines, blanks — is ignored. -/
theorem C17_before_file (pre ks : List Kind) (h : ∀ k ∈ pre, isFileKind k = false) :
    parseKinds (pre ++ ks) = parseKinds ks := by
  induction pre with
  | nil => rfl
  | cons k pre ih =>
    have hk := h k (List.mem_cons_self ..)
    cases k <;> simp [isFileKind] at hk <;>
      simpa [parseKinds] using ih (fun x hx => h x (List.mem_cons_of_mem _ hx))

def notOther : Kind → Bool
  | .other _ => false
  | .blank => false
  | _ => true

/-- unknown and blank lines inside a track body only ever reach the track's `unparsed` list. -/
theorem trackBody_filter (t t' : Track) (hm : t.meaning = t'.meaning) (ks : List Kind) :
    (trackBody t ks).1.meaning = (trackBody t' (ks.filter notOther)).1.meaning ∧
    (trackBody t ks).2.filter notOther = (trackBody t' (ks.filter notOther)).2 := by
  induction ks generalizing t t' with
  | nil => simp [trackBody, hm]
  | cons k ks ih =>
    cases k with
    | blank =>
      have e : (Kind.blank :: ks).filter notOther = ks.filter notOther := by simp [List.filter_cons, notOther]
      rw [e]; simpa [trackBody] using ih t t' hm
    | other x =>
      have e : (Kind.other x :: ks).filter notOther = ks.filter notOther := by simp [List.filter_cons, notOther]
      have := ih { t with unparsed := t.unparsed ++ [x] } t' (by simpa [Track.meaning] using hm)
      rw [e]; simpa [trackBody] using this
    | track n m =>
      have e : (Kind.track n m :: ks).filter notOther = Kind.track n m :: ks.filter notOther := by
        simp [List.filter_cons, notOther]
      rw [e]; simp [trackBody, hm, List.filter_cons, notOther]
    | index i m s f =>
      have := ih { t with indices := t.indices ++ [⟨i, m, s, f⟩] } { t' with indices := t'.indices ++ [⟨i, m, s, f⟩] }
        (by simp only [Track.meaning, Prod.mk.injEq] at hm ⊢; simp [hm.1, hm.2.1, hm.2.2.1, hm.2.2.2])
      have e : (Kind.index i m s f :: ks).filter notOther = Kind.index i m s f :: ks.filter notOther := by
        simp [List.filter_cons, notOther]
      rw [e]; simpa [trackBody] using this
    | title x =>
      have := ih { t with title := some x } { t' with title := some x }
        (by simp only [Track.meaning, Prod.mk.injEq] at hm ⊢; simp [hm.1, hm.2.1, hm.2.2.2])
      have e : (Kind.title x :: ks).filter notOther = Kind.title x :: ks.filter notOther := by
        simp [List.filter_cons, notOther]
      rw [e]; simpa [trackBody] using this
    | file n x =>
      -- a FILE line inside a track is `unparsed` text as well; it is kept by the filter on both sides
      have := ih { t with unparsed := t.unparsed ++ [x] } { t' with unparsed := t'.unparsed ++ [x] }
        (by simpa [Track.meaning] using hm)
      have e : (Kind.file n x :: ks).filter notOther = Kind.file n x :: ks.filter notOther := by
        simp [List.filter_cons, notOther]
      rw [e]; simpa [trackBody] using this

/-- the list that follows a FILE line, once the first TRACK line has been reached: it is empty or
starts with a TRACK line (this is what `trackBody` always leaves behind). -/
def startsWithTrack : List Kind → Prop
  | [] => True
  | .track _ _ :: _ => True
  | _ => False

theorem trackBody_rest_starts (t : Track) (ks : List Kind) : startsWithTrack (trackBody t ks).2 := by
  induction ks generalizing t with
  | nil => simp [trackBody, startsWithTrack]
  | cons k ks ih =>
    cases k with
    | track n m => simp [trackBody, startsWithTrack]
    | blank => simpa [trackBody] using ih t
    | other x => simpa [trackBody] using ih _
    | file a b => simpa [trackBody] using ih _
    | index a b c d => simpa [trackBody] using ih _
    | title a => simpa [trackBody] using ih _

/-- **C17 (unknown and blank lines inside tracks).** After the first TRACK line, removing every
unrecognised line (FLAGS, PREGAP, ISRC, REM …) and every blank line leaves the tracks' numbers,
modes, titles and index times unchanged — for any number of tracks and any placement. -/
theorem C17_in_track (fuel fuel' : Nat) (ks : List Kind) (hs : startsWithTrack ks)
    (hf : ks.length < fuel) (hf' : (ks.filter notOther).length < fuel') :
    (fileTracks fuel ks).map (·.map Track.meaning)
      = (fileTracks fuel' (ks.filter notOther)).map (·.map Track.meaning) := by
  induction fuel generalizing fuel' ks with
  | zero => omega
  | succ fuel ih =>
    cases fuel' with
    | zero => omega
    | succ fuel' =>
      cases ks with
      | nil => rfl
      | cons k ks =>
        cases k with
        | track n m =>
          have e : (Kind.track n m :: ks).filter notOther = Kind.track n m :: ks.filter notOther := by
            simp [List.filter_cons, notOther]
          rw [e] at hf' ⊢
          simp only [fileTracks]
          simp only [List.length_cons] at hf hf'
          obtain ⟨h1, h2⟩ := trackBody_filter ⟨n, m, none, [], []⟩ ⟨n, m, none, [], []⟩ rfl ks
          have hlen := trackBody_length ⟨n, m, none, [], []⟩ ks
          have hlen' := trackBody_length ⟨n, m, none, [], []⟩ (ks.filter notOther)
          have := ih fuel' (trackBody ⟨n, m, none, [], []⟩ ks).2 (trackBody_rest_starts _ _)
            (by omega) (by rw [h2]; omega)
          rw [h2] at this
          cases hA : fileTracks fuel (trackBody ⟨n, m, none, [], []⟩ ks).2 <;>
            cases hB : fileTracks fuel' (trackBody ⟨n, m, none, [], []⟩ (ks.filter notOther)).2 <;>
            simp only [hA, hB, Except.map] at this ⊢
          · exact this
          · cases this
          · cases this
          · injection this with this
            simp [h1, this]
        | blank => simp [startsWithTrack] at hs
        | other x => simp [startsWithTrack] at hs
        | file a b => simp [startsWithTrack] at hs
        | index a b c d => simp [startsWithTrack] at hs
        | title a => simp [startsWithTrack] at hs

-- sanity: classification of typical lines (kernel-evaluated)
example : classify "  track 01 audio\n".toList = .track 1 "audio".toList := by decide
example : classify "FILE \"a\"b.bin\" BINARY".toList = .file "a\"b.bin".toList "FILE \"a\"b.bin\" BINARY".toList := by decide
example : classify "REM TRACK 01 AUDIO".toList = .other "REM TRACK 01 AUDIO".toList := by decide
example : classify "INDEX 01 00:02:33".toList = .index 1 0 2 33 := by decide

end Smpl.Props.C17
