/-
C01 (the writer's side, partition header): a partition written as header fields, volume table,
segment allocation table and body parses to exactly the volumes and the table written.
-/
import Smpl.Props.C01T

set_option linter.unusedSimpArgs false

namespace Smpl.Props.C01
open Smpl Smpl.Akai Smpl.Alloc

/-- what a writer stores in one 16-byte volume table slot. -/
structure VolImg where
  nameRaw : Bytes
  typeRaw : Nat
  start : Nat

def VolImg.byteAt (v : VolImg) (i : Nat) : Nat :=
  if i < 12 then v.nameRaw.getD i 0
  else if i < 14 then digit v.typeRaw (i - 12)
  else digit v.start (i - 14)

def VolImg.bytes (v : VolImg) : Bytes := (List.range 16).map v.byteAt
theorem VolImg.bytes_length (v : VolImg) : v.bytes.length = 16 := by simp [VolImg.bytes]

structure VolImg.Ok (v : VolImg) (name : Smpl.Names.Name) : Prop where
  len : v.nameRaw.length = 12
  name : akaiStr v.nameRaw = some name
  typeRaw : v.typeRaw < 65536 ∧ v.typeRaw % 4 ≠ 2
  start : v.start < 65536

def VolImg.toVol (v : VolImg) (name : Smpl.Names.Name) : VolEntry := ⟨name, v.typeRaw % 4, v.start⟩

theorem rd_vol (v : VolImg) (rest : Bytes) (off n : Nat) (h : off + n ≤ 16) :
    rd (v.bytes ++ rest) off n = some ((List.range' off n).map v.byteAt) := rd_map 16 v.byteAt rest off n h

theorem parseVolEntries_written :
    ∀ (vs : List (VolImg × Smpl.Names.Name)) (pre rest : Bytes),
      (∀ x ∈ vs, x.1.Ok x.2) →
      parseVolEntries (pre ++ (vs.flatMap (fun x => x.1.bytes) ++ rest)) pre.length vs.length
        = some (vs.map fun x => x.1.toVol x.2) := by
  intro vs
  induction vs with
  | nil => intro pre rest _; rfl
  | cons x vs ih =>
    intro pre rest hok
    obtain ⟨v, name⟩ := x
    have hv : v.Ok name := hok (v, name) (by simp)
    have hshape : pre ++ (List.flatMap (fun x => x.1.bytes) ((v, name) :: vs) ++ rest)
        = pre ++ (v.bytes ++ (List.flatMap (fun x => x.1.bytes) vs ++ rest)) := by
      simp [List.flatMap_cons, List.append_assoc]
    have hnext : pre ++ (v.bytes ++ (List.flatMap (fun x => x.1.bytes) vs ++ rest))
        = (pre ++ v.bytes) ++ (List.flatMap (fun x => x.1.bytes) vs ++ rest) := by
      simp [List.append_assoc]
    have hl := hv.len
    match hn : v.nameRaw, hl with
    | [a0, a1, a2, a3, a4, a5, a6, a7, a8, a9, a10, a11], _ =>
      have hraw : rd (pre ++ (v.bytes ++ (List.flatMap (fun x => x.1.bytes) vs ++ rest))) pre.length 12 = some v.nameRaw := by
        have := rd_skip pre (v.bytes ++ (List.flatMap (fun x => x.1.bytes) vs ++ rest)) 0 12
        rw [Nat.add_zero] at this
        rw [this, rd_vol v _ 0 12 (by omega)]
        simp [List.range'_succ, VolImg.byteAt, hn]
      have hty : uN (pre ++ (v.bytes ++ (List.flatMap (fun x => x.1.bytes) vs ++ rest))) (pre.length + 12) 2 = some v.typeRaw := by
        unfold uN
        rw [rd_skip, rd_vol v _ 12 2 (by omega)]
        simp only [List.range'_succ, List.range'_zero, List.map_cons, List.map_nil, VolImg.byteAt, Option.map_some]
        simp only [Nat.reduceLT, Nat.reduceSub, if_true, if_false, Nat.reduceAdd]
        congr 1
        exact le2 _ hv.typeRaw.1
      have hst : uN (pre ++ (v.bytes ++ (List.flatMap (fun x => x.1.bytes) vs ++ rest))) (pre.length + 14) 2 = some v.start := by
        unfold uN
        rw [rd_skip, rd_vol v _ 14 2 (by omega)]
        simp only [List.range'_succ, List.range'_zero, List.map_cons, List.map_nil, VolImg.byteAt, Option.map_some]
        simp only [Nat.reduceLT, Nat.reduceSub, if_true, if_false, Nat.reduceAdd]
        congr 1
        exact le2 _ hv.start
      have hrec := ih (pre ++ v.bytes) rest (fun y hy => hok y (by simp [hy]))
      rw [List.length_append, v.bytes_length] at hrec
      rw [hshape]
      simp only [List.length_cons, parseVolEntries, hraw, hv.name, hty, hst, bind, Option.bind, pure]
      have hne : (v.typeRaw % 4 == 2) = false := by simpa using hv.typeRaw.2
      simp only [hne, Bool.false_eq_true, if_false]
      rw [hnext]
      unfold VOL_ENTRY_BYTES
      rw [hrec]
      simp [VolImg.toVol]

/-- little-endian 16-bit words -/
def encWords (ws : List Nat) : Bytes := ws.flatMap fun w => [w % 256, w / 256]

theorem words16_encWords (ws : List Nat) (h : ∀ w ∈ ws, w < 65536) : words16 (encWords ws) = ws := by
  induction ws with
  | nil => rfl
  | cons w ws ih =>
    have hw := h w (by simp)
    simp only [encWords, List.flatMap_cons, List.cons_append, List.nil_append, words16]
    have : w % 256 + 256 * (w / 256) = w := by omega
    rw [this]
    congr 1
    exact ih (fun x hx => h x (by simp [hx]))

theorem encWords_length (ws : List Nat) : (encWords ws).length = 2 * ws.length := by
  induction ws with
  | nil => rfl
  | cons w ws ih =>
    simp only [encWords, List.flatMap_cons, List.length_append, List.length_cons, List.length_nil] at *
    omega

theorem rd_prefix (a x : Bytes) : rd (a ++ x) 0 a.length = some a := by
  unfold rd
  simp

theorem rd_skipL (a x : Bytes) (L k n : Nat) (hL : a.length = L) (hk : L ≤ k) :
    rd (a ++ x) k n = rd x (k - L) n := by
  have := rd_skip a x (k - L) n
  rw [hL] at this
  rw [← this]
  congr 1
  omega

/-- what a writer stores in one partition. -/
structure PartImg where
  size : Nat
  b198 : Bytes
  vols : List (VolImg × Smpl.Names.Name)
  sat : List Nat
  body : Bytes

def PartImg.volBytes (P : PartImg) : Bytes := P.vols.flatMap fun x => x.1.bytes

def PartImg.bytes (P : PartImg) : Bytes :=
  [digit P.size 0, digit P.size 1] ++ ([0, 0] ++ (MAGIC ++ (P.b198 ++ ([0x2F, 0x00] ++ (P.volBytes ++ (encWords P.sat ++ P.body))))))

structure PartImg.Ok (P : PartImg) (links : List Link) : Prop where
  size : 0 < P.size ∧ P.size < 65536
  b198 : P.b198.length = 2
  nvols : P.vols.length = VOL_ENTRIES
  vols : ∀ x ∈ P.vols, x.1.Ok x.2
  nsat : P.sat.length = SAT_ENTRIES
  sat : ∀ w ∈ P.sat, w < 65536
  decode : akaiDecode P.sat = .ok links
  total : P.bytes.length = P.size * SECTOR

theorem magic_length : MAGIC.length = 194 := by decide +kernel

theorem volBytes_length (P : PartImg) : P.volBytes.length = P.vols.length * 16 := by
  unfold PartImg.volBytes
  induction P.vols with
  | nil => simp
  | cons x xs ih =>
    simp only [List.flatMap_cons, List.length_append, List.length_cons, x.1.bytes_length, ih]
    omega

/-- **C01 (the partition a writer stores is the partition the parser reads).** A partition written
as: size in sectors, two zero bytes, the 194 magic bytes, two free bytes, `2F 00`, one hundred
16-byte volume slots, the 11386 words of the segment allocation table, and a body that fills the
declared size — placed anywhere in a file — parses to exactly the written volume slots (name, type
bits, start sector) and the decoded table, with the partition window being the written bytes; the
scan continues right after it. -/
theorem C01_written_partition (P : PartImg) (links : List Link) (hok : P.Ok links)
    (pre post : Bytes) (letter : Nat) :
    parsePartition (pre ++ (P.bytes ++ post)) pre.length letter
      = .ok (some (⟨letter, P.bytes, P.vols.map fun x => x.1.toVol x.2, links⟩, pre.length + P.size * SECTOR)) := by
  -- the file, with the fields of the header as successive segments
  let S : Bytes := [digit P.size 0, digit P.size 1]
  let R7 := P.body ++ post
  let R6 := encWords P.sat ++ R7
  let R5 := P.volBytes ++ R6
  let R4 : Bytes := [0x2F, 0x00] ++ R5
  let R3 := P.b198 ++ R4
  let R2 := MAGIC ++ R3
  let R1 : Bytes := [0, 0] ++ R2
  have hfile : pre ++ (P.bytes ++ post) = pre ++ (S ++ R1) := by
    simp [PartImg.bytes, S, R1, R2, R3, R4, R5, R6, R7, List.append_assoc]
  have hS : S.length = 2 := rfl
  have hZ : ([0, 0] : Bytes).length = 2 := rfl
  have hT : ([0x2F, 0x00] : Bytes).length = 2 := rfl
  -- field reads
  have r0 : uN (pre ++ (S ++ R1)) pre.length 2 = some P.size := by
    unfold uN
    have := rd_skip pre (S ++ R1) 0 2
    rw [Nat.add_zero] at this
    rw [this, show (2 : Nat) = S.length from rfl, rd_prefix]
    simp only [Option.map_some, S]
    congr 1
    exact le2 _ hok.size.2
  have r2 : rd (pre ++ (S ++ R1)) (pre.length + 2) 2 = some [0, 0] := by
    rw [rd_skip, rd_skipL S R1 2 2 2 hS (by omega)]
    exact rd_prefix [0, 0] R2
  have r4 : rd (pre ++ (S ++ R1)) (pre.length + 4) 194 = some MAGIC := by
    rw [rd_skip, rd_skipL S R1 2 4 194 hS (by omega), rd_skipL [0, 0] R2 2 2 194 hZ (by omega)]
    have := rd_prefix MAGIC R3
    rw [magic_length] at this
    exact this
  have r198 : rd (pre ++ (S ++ R1)) (pre.length + 198) 2 = some P.b198 := by
    rw [rd_skip, rd_skipL S R1 2 198 2 hS (by omega), rd_skipL [0, 0] R2 2 196 2 hZ (by omega),
      rd_skipL MAGIC R3 194 194 2 magic_length (by omega)]
    have := rd_prefix P.b198 R4
    rw [hok.b198] at this
    exact this
  have r200 : rd (pre ++ (S ++ R1)) (pre.length + 200) 2 = some [0x2F, 0x00] := by
    rw [rd_skip, rd_skipL S R1 2 200 2 hS (by omega), rd_skipL [0, 0] R2 2 198 2 hZ (by omega),
      rd_skipL MAGIC R3 194 196 2 magic_length (by omega), rd_skipL P.b198 R4 2 2 2 hok.b198 (by omega)]
    exact rd_prefix [0x2F, 0x00] R5
  -- volume table and SAT
  let H : Bytes := pre ++ (S ++ ([0, 0] ++ (MAGIC ++ (P.b198 ++ [0x2F, 0x00]))))
  have hH : H.length = pre.length + HEADER_BYTES := by
    simp only [H, List.length_append, hS, hZ, hT, magic_length, hok.b198]
    unfold HEADER_BYTES; omega
  have hfileV : pre ++ (S ++ R1) = H ++ (P.volBytes ++ R6) := by
    simp [H, R1, R2, R3, R4, R5, List.append_assoc]
  have rv : parseVolEntries (pre ++ (S ++ R1)) (pre.length + HEADER_BYTES) VOL_ENTRIES
      = some (P.vols.map fun x => x.1.toVol x.2) := by
    rw [hfileV, ← hH, ← hok.nvols]
    exact parseVolEntries_written P.vols H R6 hok.vols
  let H2 : Bytes := H ++ P.volBytes
  have hH2 : H2.length = pre.length + HEADER_BYTES + VOL_ENTRIES * VOL_ENTRY_BYTES := by
    simp only [H2, List.length_append, hH, volBytes_length, hok.nvols]
    unfold VOL_ENTRY_BYTES; omega
  have hfileW : pre ++ (S ++ R1) = H2 ++ (encWords P.sat ++ R7) := by
    rw [hfileV]; simp [H2, R6, List.append_assoc]
  have rw_ : rd (pre ++ (S ++ R1)) (pre.length + HEADER_BYTES + VOL_ENTRIES * VOL_ENTRY_BYTES) (2 * SAT_ENTRIES)
      = some (encWords P.sat) := by
    rw [hfileW, ← hH2]
    have := rd_skip H2 (encWords P.sat ++ R7) 0 (2 * SAT_ENTRIES)
    rw [Nat.add_zero] at this
    rw [this]
    have hl : (encWords P.sat).length = 2 * SAT_ENTRIES := by rw [encWords_length, hok.nsat]
    rw [← hl]
    exact rd_prefix _ _
  -- the window
  have hwin : ((pre ++ (P.bytes ++ post)).drop pre.length).take (P.size * SECTOR) = P.bytes := by
    rw [List.drop_append_of_le_length (Nat.le_refl _), List.drop_length, List.nil_append]
    rw [← hok.total, List.take_append_of_le_length (Nat.le_refl _), List.take_length]
  have hsz : ¬ P.size = 0 := by have := hok.size.1; omega
  rw [hfile] at hwin ⊢
  unfold parsePartition
  simp only [r0, r2, r4, r198, r200, rv, rw_, words16_encWords P.sat hok.sat, hok.decode, hsz, if_false,
    ne_eq, not_true_eq_false, or_self, hwin]

/-- the partitions a written disc denotes, lettered from `k`. -/
def toParts : Nat → List (PartImg × List Link) → List Part
  | _, [] => []
  | k, (P, links) :: rest => ⟨k, P.bytes, P.vols.map fun x => x.1.toVol x.2, links⟩ :: toParts (k + 1) rest

/-- **C01 (the disc a writer stores is the list of partitions the parser scans).** A file that is a
sequence of written partitions (after any prefix the scan has already passed) is scanned into exactly
those partitions, lettered consecutively, each with its written volume slots, decoded table and
window. -/
theorem C01_written_disc : ∀ (Ps : List (PartImg × List Link)) (pre : Bytes) (k fuel : Nat),
    (∀ x ∈ Ps, x.1.Ok x.2) → Ps.length < fuel →
    partitions (pre ++ Ps.flatMap (fun x => x.1.bytes)) fuel pre.length k = .ok (toParts k Ps) := by
  intro Ps
  induction Ps with
  | nil =>
    intro pre k fuel _ hf
    cases fuel with
    | zero => omega
    | succ f => simp [partitions, toParts]
  | cons x Ps ih =>
    intro pre k fuel hok hf
    obtain ⟨P, links⟩ := x
    have hP : P.Ok links := hok (P, links) (by simp)
    cases fuel with
    | zero => simp at hf
    | succ f =>
      have hpos : 0 < P.bytes.length := by
        rw [hP.total]
        have := hP.size.1
        exact Nat.mul_pos this (by decide)
      have hlt : pre.length < (pre ++ List.flatMap (fun x => x.1.bytes) ((P, links) :: Ps)).length := by
        simp only [List.flatMap_cons, List.length_append]
        omega
      have hshape : pre ++ List.flatMap (fun x => x.1.bytes) ((P, links) :: Ps)
          = pre ++ (P.bytes ++ List.flatMap (fun x => x.1.bytes) Ps) := by
        simp [List.flatMap_cons]
      have hparse := C01_written_partition P links hP pre (List.flatMap (fun x => x.1.bytes) Ps) k
      have hnext : pre ++ (P.bytes ++ List.flatMap (fun x => x.1.bytes) Ps)
          = (pre ++ P.bytes) ++ List.flatMap (fun x => x.1.bytes) Ps := by simp [List.append_assoc]
      have hrec := ih (pre ++ P.bytes) (k + 1) f (fun y hy => hok y (by simp [hy])) (by simp at hf; omega)
      rw [List.length_append, hP.total] at hrec
      simp only [partitions, hlt, if_true]
      rw [hshape, hparse]
      simp only
      rw [hnext, hrec]
      simp [toParts]

theorem disc_length_ge : ∀ (Ps : List (PartImg × List Link)), (∀ x ∈ Ps, x.1.Ok x.2) →
    Ps.length * SECTOR ≤ (Ps.flatMap fun x => x.1.bytes).length := by
  intro Ps
  induction Ps with
  | nil => intro _; simp
  | cons x Ps ih =>
    intro hok
    have hx := hok x (by simp)
    have := ih (fun y hy => hok y (by simp [hy]))
    simp only [List.flatMap_cons, List.length_append, List.length_cons, hx.total]
    have h1 : SECTOR ≤ x.1.size * SECTOR := Nat.le_mul_of_pos_left _ hx.size.1
    rw [Nat.succ_mul]
    omega

/-- **C01 (the tree of a written disc).** The directory tree the tool builds from a file that is a
sequence of written partitions is the tree of exactly those partitions: `A:`, `B:`, … in order, each
with the volumes of its written volume table (`C01_written_volume` for each volume, `C01_written_sample`
for each sample file). -/
theorem C01_written_tree (Ps : List (PartImg × List Link)) (hok : ∀ x ∈ Ps, x.1.Ok x.2)
    (programOk : Bytes → Bool) :
    tree (Ps.flatMap fun x => x.1.bytes) programOk = tree.go programOk (toParts 0 Ps) := by
  have hscan := C01_written_disc Ps [] 0 ((Ps.flatMap fun x => x.1.bytes).length / SECTOR + 2) hok (by
    have := disc_length_ge Ps hok
    have : Ps.length ≤ (Ps.flatMap fun x => x.1.bytes).length / SECTOR :=
      (Nat.le_div_iff_mul_le (by decide)).mpr this
    omega)
  simp only [List.nil_append, List.length_nil] at hscan
  unfold tree
  rw [hscan]

end Smpl.Props.C01
