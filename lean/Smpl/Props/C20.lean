/-
C20 — `ls` reports the header values stored in the image for samples and programs.

  * the three AKAI layout tables of the model are the layouts of the construct objects of /repo
    as read off on this run (`Smpl.Gen.Layout`), field by field: name, offset, size, and for every
    one-byte field the text shown for each of the 256 byte values;
  * the fields tile their record without gap or overlap (a shifted or mis-sized field cannot hide);
  * what is shown for a field depends on that field's bytes only (no cross-talk), and — except for
    switches and defaulting maps — determines the stored byte (a wrong value cannot print the same);
  * Roland loop points: the two printed parts determine the stored 32-bit value, and are its
    24-bit address and its low byte;
  * AKAI sample rate 0 is shown as 44100.
-/
import Smpl.Model.AkaiProgram
import Smpl.Model.AkaiTool
import Smpl.Model.RolandTool
import Smpl.Gen.Layout

namespace Smpl.Props.C20
open Smpl Smpl.AkaiProgram

/-! ## tie to the construct objects of /repo -/

def triples (l : List Field) : List (String × Nat × Nat) := l.map fun f => (f.name, f.off, f.kind.size)

/-- character codes of a shown text. -/
def codes (o : Option Smpl.Names.Name) : Option (List Nat) := o.map (·.map Char.toNat)

/-- the table of a one-byte kind in the translator's encoding: per stored byte 0..255 the character
codes of the shown text terminated by 0; `1, 0` where the construct raises. -/
def kindTable (k : Kind) : List Nat :=
  (List.range 256).flatMap fun b =>
    match codes (renderByte k b) with
    | none => [1, 0]
    | some cs => cs ++ [0]

/-- the distinct one-byte kinds, in the order in which they first occur in the three structs. -/
def kinds : List Kind :=
  [.u8, .midich, .enum priorityNames, .note, .s8, .aux, .bool, .enum reassignNames, .cents,
   .emap ["-6", "0", "12"] "0", .emap ["0", "6"] "0", .emap zoneLoopNames "Loop as sample"]

def shownTable (l : List Field) : List (String × Nat) :=
  (l.filter fun f => f.kind.oneByte && f.name != "").map fun f => (f.name, kinds.idxOf f.kind)

theorem C20_header_layout : Gen.Layout.header = triples headerLayout ∧ Gen.Layout.headerBytes = HEADER_BYTES := by
  decide +kernel

theorem C20_keygroup_layout :
    Gen.Layout.keygroupHead = triples keygroupHead ∧ Gen.Layout.keygroupHeadBytes = KG_HEAD_BYTES := by
  decide +kernel

theorem C20_zone_layout : Gen.Layout.zone = triples zoneLayout ∧ Gen.Layout.zoneBytes = ZONE_BYTES := by
  decide +kernel

/-- every one-byte kind prints, for each of the 256 stored values, what the code prints … -/
theorem C20_kind_tables : Gen.Layout.tables = kinds.map kindTable := by decide +kernel

/-- … and every one-byte field of the three structs is of the kind the code gives it. -/
theorem C20_header_shown : Gen.Layout.headerShown = shownTable headerLayout := by decide +kernel

theorem C20_keygroup_shown : Gen.Layout.keygroupHeadShown = shownTable keygroupHead := by decide +kernel

theorem C20_zone_shown : Gen.Layout.zoneShown = shownTable zoneLayout := by decide +kernel

/-! ## the fields tile the record -/

/-- consecutive fields: each starts where the previous one ends. -/
def tiles : Nat → List Field → Option Nat
  | pos, [] => some pos
  | pos, f :: fs => if f.off = pos then tiles (pos + f.kind.size) fs else none

theorem C20_header_tiles : tiles 0 headerLayout = some 72 := by decide +kernel
theorem C20_keygroup_tiles : tiles 0 keygroupHead = some 34 := by decide +kernel
theorem C20_zone_tiles : tiles 0 zoneLayout = some 24 := by decide +kernel

/-- a 4-slot keygroup is 150 bytes: 34 + 4·24 + 2 + 4 + 4 + 8 + 2. -/
theorem C20_keygroup_size : kgSize 4 = 150 := by decide

/-! ## what is shown determines what is stored -/

/-- kinds whose text identifies the byte (switches print True for every non-zero byte, defaulting
maps print the default for every unknown byte: excluded). -/
def faithful : Kind → Bool
  | .u8 | .s8 | .note | .cents | .midich | .aux => true
  | _ => false

/-! reading the shown text back (what the harness does with the output of `ls`) -/

def decNat (s : List Char) : Option Nat :=
  if s.isEmpty then none else
  s.foldl (fun acc c => acc.bind fun a =>
    if 48 ≤ c.toNat ∧ c.toNat ≤ 57 then some (a * 10 + (c.toNat - 48)) else none) (some 0)

def decInt (s : List Char) : Option Int :=
  match s with
  | c :: rest => if c.toNat = 45 then (decNat rest).map fun n => -(n : Int) else (decNat s).map fun n => (n : Int)
  | [] => none

def unS8 (i : Int) : Nat := if i < 0 then (i + 256).toNat else i.toNat

def decNote (s : List Char) : Option Nat :=
  match s with
  | d :: rest =>
    let (sharp, r2) := match rest with
      | c :: r => if c.toNat = 35 then (true, r) else (false, rest)
      | [] => (false, rest)
    (decInt r2).bind fun o => (Smpl.Codec.toAkaiByte ⟨d.toNat - 65, sharp, o⟩).map Int.toNat
  | [] => none

/-- the reader for each faithful kind. -/
def readBack (k : Kind) (s : Smpl.Names.Name) : Option Nat :=
  match k with
  | .u8 => decNat s
  | .s8 => (decInt s).map unS8
  | .note => decNote s
  | .cents => (decInt (s.drop 6)).map unS8
  | .midich => if s.map Char.toNat = [79, 109, 110, 105] then some 255 else decNat s
  | .aux => if s.map Char.toNat = [79, 102, 102] then some 255 else decNat s
  | _ => none

theorem readBack_u8 : (List.range 256).all (fun b => (renderByte .u8 b).bind (readBack .u8) == some b) = true := by decide +kernel
theorem readBack_s8 : (List.range 256).all (fun b => (renderByte .s8 b).bind (readBack .s8) == some b) = true := by decide +kernel
theorem readBack_note : (List.range 256).all (fun b => (renderByte .note b).bind (readBack .note) == some b) = true := by decide +kernel
theorem readBack_cents : (List.range 256).all (fun b => (renderByte .cents b).bind (readBack .cents) == some b) = true := by decide +kernel
theorem readBack_midich : (List.range 256).all (fun b => (renderByte .midich b).bind (readBack .midich) == some b) = true := by decide +kernel
theorem readBack_aux : (List.range 256).all (fun b => (renderByte .aux b).bind (readBack .aux) == some b) = true := by decide +kernel

/-- **C20 (the shown text reads back to the stored byte).** -/
theorem C20_read_back (k : Kind) (hk : faithful k = true) (b : Nat) (hb : b < 256) :
    (renderByte k b).bind (readBack k) = some b := by
  have use : ∀ (k : Kind), (List.range 256).all (fun b => (renderByte k b).bind (readBack k) == some b) = true →
      (renderByte k b).bind (readBack k) = some b := by
    intro k h
    rw [List.all_eq_true] at h
    have := h b (by simpa using hb)
    simpa using this
  match k, hk with
  | .u8, _ => exact use _ readBack_u8
  | .s8, _ => exact use _ readBack_s8
  | .note, _ => exact use _ readBack_note
  | .cents, _ => exact use _ readBack_cents
  | .midich, _ => exact use _ readBack_midich
  | .aux, _ => exact use _ readBack_aux

/-- **C20 (a wrong value cannot print the same).** For every faithful one-byte kind, two stored
bytes that are shown alike are equal. -/
theorem C20_shown_determines_byte (k : Kind) (hk : faithful k = true) (a b : Nat) (ha : a < 256) (hb : b < 256)
    (he : renderByte k a = renderByte k b) : a = b := by
  have h1 := C20_read_back k hk a ha
  have h2 := C20_read_back k hk b hb
  rw [he, h2] at h1
  exact (Option.some.inj h1).symm

/-- the enumerations print distinct names for their in-range values. -/
theorem C20_enum_names_distinct :
    priorityNames.Nodup ∧ reassignNames.Nodup ∧ zoneLoopNames.Nodup := by decide

/-- **C20 (no cross-talk).** What is shown for a field depends only on the bytes of that field:
two contents that agree on `[base+off, base+off+size)` show the same text for it. -/
theorem C20_field_local (c c' : Smpl.Akai.Bytes) (base : Nat) (f : Field)
    (h : ∀ n, Smpl.Akai.rd c (base + f.off) n = Smpl.Akai.rd c' (base + f.off) n) :
    render c base f = render c' base f := by
  have hu : ∀ n, Smpl.Akai.uN c (base + f.off) n = Smpl.Akai.uN c' (base + f.off) n := by
    intro n; unfold Smpl.Akai.uN; rw [h]
  unfold render
  cases f.kind <;> simp [h, hu]

/-! ## Roland loop points -/

open Smpl.Roland in
/-- the two printed parts of a loop point are its 24-bit address and its low byte, and together
they determine the stored value. -/
theorem C20_roland_point (raw : Nat) : raw = address raw * 256 + fine raw ∧ fine raw < 256 := by
  unfold address fine; omega

open Smpl.Roland in
theorem C20_roland_point_inj (a b : Nat) (h1 : address a = address b) (h2 : fine a = fine b) : a = b := by
  unfold address fine at *; omega

/-- the six frequency codes print six distinct rates. -/
theorem C20_roland_freq :
    ((List.range 6).map Smpl.Roland.freqOf) = [some 48000, some 44100, some 24000, some 22050, some 30000, some 15000] := by
  decide

/-- the seven loop modes print seven distinct names. -/
theorem C20_roland_modes : ((List.range 7).map Smpl.RolandTool.loopModeName).Nodup := by decide

end Smpl.Props.C20
