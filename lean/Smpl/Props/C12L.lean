/-
C12 — the block loop for ANY number of sources that hold the same number of frames: the output is
exactly the frame-wise interleaving of all of them, whatever the internal block size.
-/
import Smpl.Props.C12G

namespace Smpl.Props.C12
open Smpl.Transcode

/-- a source with what is left of its data. -/
abbrev St := List (Src × List Byte)

theorem zip_map_map {α β γ : Type} (f : α → β) (g : α → γ) : ∀ (l : List α),
    (l.map f).zip (l.map g) = l.map (fun x => (f x, g x)) := by
  intro l
  induction l with
  | nil => rfl
  | cons a as ih => simp [ih]

/-- the frame-wise interleaving of `R` frames of every source of the state. -/
def expected (w : Nat) (st : St) (R : Nat) : List (Option Byte) :=
  ((List.range R).flatMap fun f => st.flatMap fun x =>
    mapSamples (gOf x.1.enc.big) w ((x.2.drop (f * x.1.enc.frame)).take x.1.enc.frame)).map some

def advance (nf : Nat) (st : St) : St := st.map fun x => (x.1, x.2.drop (nf * x.1.enc.frame))

theorem advance_srcs (nf : Nat) (st : St) : (advance nf st).map (·.1) = st.map (·.1) := by
  unfold advance; rw [List.map_map]; rfl

/-- one step of the loop, on the state. -/
theorem pipeLoop_step (host : Bool) (dest : Enc) (nf : Nat) (fuel : Nat) (st : St) :
    pipeLoop host dest (st.map (·.1)) (st.map fun x => nf * x.1.enc.frame) (fuel + 1) (st.map (·.2)) =
      let sb : St := st.map fun x => (x.1, x.2.take (nf * x.1.enc.frame))
      let chs := (sb.map fun x => decodeOne x.1.enc x.2).flatten
      if chs.any List.isEmpty then []
      else encodeBlock dest.width (applySwaps host dest (st.map (·.1)) chs) ::
        pipeLoop host dest ((advance nf st).map (·.1)) ((advance nf st).map fun x => nf * x.1.enc.frame) fuel
          ((advance nf st).map (·.2)) := by
  rw [advance_srcs]
  have hsz : ((advance nf st).map fun x => nf * x.1.enc.frame) = st.map fun x => nf * x.1.enc.frame := by
    unfold advance; rw [List.map_map]; rfl
  rw [hsz]
  conv => lhs; unfold pipeLoop
  simp only [zip_map_map, List.map_map]
  have hb : (List.map ((fun x : List Byte × Nat => List.take x.2 x.1) ∘ fun x : Src × List Byte => (x.2, nf * x.1.enc.frame)) st)
      = st.map (fun x => x.2.take (nf * x.1.enc.frame)) := rfl
  have hr : (List.map ((fun x : List Byte × Nat => List.drop x.2 x.1) ∘ fun x : Src × List Byte => (x.2, nf * x.1.enc.frame)) st)
      = (advance nf st).map (·.2) := by
    unfold advance; rw [List.map_map]; rfl
  rw [hr]
  rfl

/-- all sources of the state hold `R` whole frames of `w`-byte samples in `nch ≥ 1` channels. -/
def Uniform (w : Nat) (st : St) (R : Nat) : Prop :=
  ∀ x ∈ st, x.1.enc.width = w ∧ 0 < x.1.enc.nch ∧ x.2.length = R * x.1.enc.frame

theorem take_drop_take (l : List Byte) (N a k : Nat) (h : a + k ≤ N) :
    ((l.take N).drop a).take k = (l.drop a).take k := by
  rw [List.drop_take, List.take_take]
  congr 1
  omega

theorem expected_zero (w : Nat) (st : St) : expected w st 0 = [] := by
  simp [expected]

/-- the first `m` frames come from the block, the rest from the advanced state. -/
theorem expected_split (w nf : Nat) (st : St) (R m : Nat) (hm : m ≤ R) (hmn : m ≤ nf)
    (hrest : m < R → m = nf) :
    expected w st R =
      expected w (st.map fun x => (x.1, x.2.take (nf * x.1.enc.frame))) m ++ expected w (advance nf st) (R - m) := by
  unfold expected
  rw [← List.map_append]
  congr 1
  have hR : R = m + (R - m) := by omega
  conv => lhs; rw [hR, List.range_add, List.flatMap_append]
  congr 1
  · apply flatMap_congr'
    intro f hf
    have hf' := List.mem_range.mp hf
    rw [List.flatMap_map]
    apply flatMap_congr'
    intro x _
    simp only
    rw [take_drop_take]
    have : (f + 1) * x.1.enc.frame ≤ nf * x.1.enc.frame := Nat.mul_le_mul_right _ (by omega)
    rw [Nat.add_mul] at this; omega
  · rw [List.flatMap_map]
    apply flatMap_congr'
    intro f hf
    have hf' := List.mem_range.mp hf
    have hmnf : m = nf := hrest (by omega)
    unfold advance
    rw [List.flatMap_map]
    apply flatMap_congr'
    intro x _
    simp only
    rw [List.drop_drop, hmnf, Nat.add_mul]

theorem uniform_advance (w nf : Nat) (st : St) (R : Nat) (h : Uniform w st R) : Uniform w (advance nf st) (R - nf) := by
  intro y hy
  unfold advance at hy
  simp only [List.mem_map] at hy
  obtain ⟨x, hx, rfl⟩ := hy
  obtain ⟨h1, h2, h3⟩ := h x hx
  refine ⟨h1, h2, ?_⟩
  simp only [List.length_drop, h3, Nat.sub_mul]

/-- **the loop**: `R` frames in every source, any block size `nf ≥ 1`. -/
theorem pipeLoop_uniform (host : Bool) (dest : Enc) (hd : dest.big = false) (hw : 0 < dest.width) (nf : Nat) (hnf : 0 < nf) :
    ∀ (fuel R : Nat) (st : St), st ≠ [] → Uniform dest.width st R → R < fuel →
      (pipeLoop host dest (st.map (·.1)) (st.map fun x => nf * x.1.enc.frame) fuel (st.map (·.2))).flatten
        = expected dest.width st R := by
  intro fuel
  induction fuel with
  | zero => intro R st _ _ h; omega
  | succ fuel ih =>
    intro R st hne hu hlt
    rw [pipeLoop_step]
    simp only
    -- the block: min(nf, R) frames of every source
    have hsbu : Uniform dest.width (st.map fun x => (x.1, x.2.take (nf * x.1.enc.frame))) (min nf R) := by
      intro y hy
      simp only [List.mem_map] at hy
      obtain ⟨x, hx, rfl⟩ := hy
      obtain ⟨h1, h2, h3⟩ := hu x hx
      refine ⟨h1, h2, ?_⟩
      simp only [List.length_take, h3]
      rcases Nat.le_total nf R with h | h
      · rw [Nat.min_eq_left h, Nat.min_eq_left (Nat.mul_le_mul_right _ h)]
      · rw [Nat.min_eq_right h, Nat.min_eq_right (Nat.mul_le_mul_right _ h)]
    have hsbne : (st.map fun x : Src × List Byte => (x.1, x.2.take (nf * x.1.enc.frame))) ≠ [] := by
      intro e; exact hne (List.map_eq_nil_iff.mp e)
    by_cases hR : R = 0
    · -- nothing left: every channel of the block is empty
      subst hR
      obtain ⟨x, rest, rfl⟩ := List.exists_cons_of_ne_nil hne
      obtain ⟨h1, h2, h3⟩ := hu x (by simp)
      have hx0 : x.2 = [] := List.eq_nil_of_length_eq_zero (by simpa using h3)
      have hany : ((List.map (fun x : Src × List Byte => decodeOne x.1.enc x.2)
          (List.map (fun x : Src × List Byte => (x.1, x.2.take (nf * x.1.enc.frame))) (x :: rest))).flatten).any List.isEmpty = true := by
        simp only [List.map_cons, List.flatten_cons, List.any_append, hx0, List.take_nil]
        have hfr : 0 < x.1.enc.frame := by unfold Enc.frame; exact Nat.mul_pos h2 (by rw [h1]; exact hw)
        rw [decodeOne_short x.1.enc [] (by simpa using hfr)]
        have hpos : 0 < x.1.enc.chans := by unfold Enc.chans; omega
        cases hk : x.1.enc.chans with
        | zero => omega
        | succ k => simp [List.replicate_succ]
      rw [if_pos hany, expected_zero]
      rfl
    · have hmpos : 0 < min nf R := by omega
      have hany : ((List.map (fun x : Src × List Byte => decodeOne x.1.enc x.2)
          (List.map (fun x : Src × List Byte => (x.1, x.2.take (nf * x.1.enc.frame))) st)).flatten).any List.isEmpty = false := by
        cases hc : ((List.map (fun x : Src × List Byte => decodeOne x.1.enc x.2)
          (List.map (fun x : Src × List Byte => (x.1, x.2.take (nf * x.1.enc.frame))) st)).flatten).any List.isEmpty with
        | false => rfl
        | true =>
          exfalso
          rw [List.any_eq_true] at hc
          obtain ⟨ch, hch, hemp⟩ := hc
          simp only [List.mem_flatten, List.mem_map] at hch
          obtain ⟨l, ⟨y, ⟨x, hx, rfl⟩, rfl⟩, hchl⟩ := hch
          obtain ⟨h1, h2, h3⟩ := hsbu _ (List.mem_map.mpr ⟨x, hx, rfl⟩)
          have := decodeOne_channel_length x.1.enc (by rw [h1]; exact hw) h2 _ (min nf R) hmpos h3 ch hchl
          rw [List.isEmpty_iff] at hemp
          rw [hemp] at this
          simp only [List.length_nil] at this; omega
      rw [if_neg (by rw [hany]; simp)]
      simp only [List.flatten_cons]
      have hblock := C12_block_pipeline host dest hd (st.map fun x : Src × List Byte => (x.1, x.2.take (nf * x.1.enc.frame))) hsbne
        (min nf R) hmpos hw hsbu
      have hsrcs : (st.map fun x : Src × List Byte => (x.1, x.2.take (nf * x.1.enc.frame))).map (·.1) = st.map (·.1) := by
        rw [List.map_map]; rfl
      rw [hsrcs] at hblock
      rw [hblock]
      have hadvne : advance nf st ≠ [] := by
        unfold advance; intro e; exact hne (List.map_eq_nil_iff.mp e)
      rw [ih (R - nf) (advance nf st) hadvne (uniform_advance dest.width nf st R hu) (by omega)]
      rw [expected_split dest.width nf st R (min nf R) (Nat.min_le_right _ _) (Nat.min_le_left _ _) (by
        intro h; rcases Nat.le_total nf R with h' | h'
        · exact Nat.min_eq_left h'
        · rw [Nat.min_eq_right h'] at h; omega)]
      congr 1
      rcases Nat.le_total nf R with h' | h'
      · rw [Nat.min_eq_left h']
      · rw [Nat.min_eq_right h']
        have e1 : R - nf = 0 := by omega
        simp [e1, expected_zero]

/-- **C12 (any number of sources of equal length, through `make_transcoder`).** Two or more source
streams of one sample width, each with `nch ≥ 1` interleaved channels and its own byte order, all
holding `F` whole frames, are written as exactly `F` output frames: frame `f` is, source by source
in source order, frame `f` of that source with its channels in order, each sample byte-reversed exactly
when its source is big-endian — one output channel per source channel — for every host byte order and
every internal buffer size `B`. -/
theorem C12_equal_lengths (host : Bool) (B : Nat) (dest : Enc) (hd : dest.big = false) (hw : 0 < dest.width)
    (srcs : List Src) (hlen : 2 ≤ srcs.length) (F : Nat)
    (hs : ∀ s ∈ srcs, s.enc.width = dest.width ∧ 0 < s.enc.nch ∧ s.data.length = F * s.enc.frame)
    (hch : (srcs.map (·.enc.chans)).foldl (· + ·) 0 = dest.nch) :
    ∃ blocks, transcode host B dest srcs = .ok blocks ∧
      blocks.flatten = expected dest.width (srcs.map fun s => (s, s.data)) F := by
  have hne : srcs ≠ [] := by intro e; rw [e] at hlen; simp at hlen
  unfold transcode
  have h1 : srcs.isEmpty = false := by
    cases srcs with
    | nil => exact absurd rfl hne
    | cons _ _ => rfl
  have h2 : ((srcs.map (·.enc.chans)).foldl (· + ·) 0 != dest.nch) = false := by rw [hch]; simp
  simp only [h1, h2, Bool.false_eq_true, if_false]
  have hnf : 0 < numFrames B srcs := by
    unfold numFrames
    cases hm : srcs.map (fun s => max 1 (B / s.enc.frame)) with
    | nil => simp
    | cons x xs =>
      have hall : ∀ y ∈ x :: xs, 0 < y := by
        intro y hy
        rw [← hm] at hy
        simp only [List.mem_map] at hy
        obtain ⟨s, _, rfl⟩ := hy
        omega
      simp only
      have : ∀ (l : List Nat) (acc : Nat), 0 < acc → (∀ y ∈ l, 0 < y) → 0 < l.foldl min acc := by
        intro l
        induction l with
        | nil => intro acc h _; exact h
        | cons a as ih =>
          intro acc h hl
          simp only [List.foldl_cons]
          exact ih (min acc a) (by have := hl a (by simp); omega) (fun y hy => hl y (by simp [hy]))
      exact this xs x (hall x (by simp)) (fun y hy => hall y (by simp [hy]))
  have hst : (srcs.map fun s : Src => (s, s.data)).map (·.1) = srcs := by
    rw [List.map_map]; show List.map (fun s : Src => s) srcs = srcs; simp
  have hst2 : (srcs.map fun s : Src => (s, s.data)).map (·.2) = srcs.map (·.data) := by rw [List.map_map]; rfl
  have hsz : (srcs.map fun s : Src => (s, s.data)).map (fun x => numFrames B srcs * x.1.enc.frame)
      = srcs.map fun s => numFrames B srcs * s.enc.frame := by rw [List.map_map]; rfl
  have hloop := pipeLoop_uniform host dest hd hw (numFrames B srcs) hnf
    ((srcs.map (·.data.length)).foldl (· + ·) 0 + 1) F (srcs.map fun s => (s, s.data))
    (by intro e; exact hne (List.map_eq_nil_iff.mp e))
    (by
      intro y hy
      simp only [List.mem_map] at hy
      obtain ⟨s, hsm, rfl⟩ := hy
      exact hs s hsm)
    (by
      -- F ≤ the length of the first source ≤ the sum of the lengths
      obtain ⟨s, rest, rfl⟩ := List.exists_cons_of_ne_nil hne
      obtain ⟨a1, a2, a3⟩ := hs s (by simp)
      have hfr : 0 < s.enc.frame := by unfold Enc.frame; exact Nat.mul_pos a2 (by rw [a1]; exact hw)
      have hF : F ≤ s.data.length := by rw [a3]; exact Nat.le_mul_of_pos_right F hfr
      have hsum : ∀ (l : List Nat) (acc : Nat), acc ≤ l.foldl (· + ·) acc := by
        intro l
        induction l with
        | nil => intro acc; exact Nat.le_refl _
        | cons a as ih => intro acc; simp only [List.foldl_cons]; exact Nat.le_trans (Nat.le_add_right _ _) (ih _)
      simp only [List.map_cons, List.foldl_cons, Nat.zero_add]
      have := hsum (rest.map (·.data.length)) s.data.length
      omega)
  rw [hst, hst2, hsz] at hloop
  cases srcs with
  | nil => exact absurd rfl hne
  | cons s rest =>
    cases rest with
    | nil => simp at hlen
    | cons s2 rest2 => exact ⟨_, rfl, hloop⟩

/-- non-vacuity: three sources (big-endian stereo, little-endian mono, big-endian mono), two frames, block of one frame. -/
example : (transcode true 2 ⟨false, 2, 4, true⟩
      [⟨⟨true, 2, 2, true⟩, [1, 2, 3, 4, 5, 6, 7, 8]⟩, ⟨⟨false, 2, 1, true⟩, [9, 10, 11, 12]⟩, ⟨⟨true, 2, 1, false⟩, [13, 14, 15, 16]⟩]).toOption.map List.flatten
    = some ([2, 1, 4, 3, 9, 10, 14, 13, 6, 5, 8, 7, 11, 12, 16, 15].map some) := by decide

end Smpl.Props.C12
