/-
C06 — the characters of the names the de-duplication assigns: whatever property the candidate
names share that `_add_count_to_name` preserves is shared by every assigned name; in particular
the character set of the property (word characters, blank, `-`, `.`, `#`, `(`, `)`), the digits of
the counter being digits.
-/
import Smpl.Props.C06
import Smpl.Props.C05

namespace Smpl.Props.C06
open Smpl Smpl.Names

/-- the decimal digits of a counter are digits. -/
theorem natChars_digits (n : Nat) : ∀ c ∈ natChars n, c.isDigit = true := by
  intro c hc
  unfold natChars at hc
  have : (toString n).toList = Nat.toDigits 10 n := by
    show (Nat.repr n).toList = _
    simp [Nat.repr]
  rw [this] at hc
  exact Nat.isDigit_of_mem_toDigits (by decide) (by decide) hc

theorem nextFree_is_addCount (name : Name) (used : List Name) :
    ∀ (fuel i i2 : Nat) (nm : Name), nextFree name used fuel i = some (i2, nm) → nm = addCount name i2 := by
  intro fuel
  induction fuel with
  | zero => intro i i2 nm h; simp [nextFree] at h
  | succ f ih =>
    intro i i2 nm h
    simp only [nextFree] at h
    by_cases hc : used.contains (addCount name i) = true
    · simp only [hc, if_true] at h
      exact ih (i + 1) i2 nm h
    · simp only [hc, Bool.false_eq_true, if_false, Option.some.injEq, Prod.mk.injEq] at h
      obtain ⟨rfl, rfl⟩ := h
      rfl

section generic
variable (P : Name → Prop) (hadd : ∀ n k, P n → P (addCount n k))
include hadd

theorem assignGroup_P (name : Name) (hname : P name) :
    ∀ (members : List Nat) (i : Nat) (used : List Name) (out : List (Nat × Name))
      (used' : List Name) (out' : List (Nat × Name)),
      assignGroup name members i used out = .ok (used', out') →
      (∀ x ∈ out, P x.2) → ∀ x ∈ out', P x.2 := by
  intro members
  induction members with
  | nil =>
    intro i used out used' out' h hout
    simp only [assignGroup, Except.ok.injEq, Prod.mk.injEq] at h
    obtain ⟨_, rfl⟩ := h
    exact hout
  | cons e es ih =>
    intro i used out used' out' h hout
    simp only [assignGroup] at h
    by_cases hi : i + 1 > 1
    · simp only [hi, if_true] at h
      cases hnf : nextFree name used (used.length + 2) (i + 1) with
      | none => simp [hnf] at h
      | some r =>
        obtain ⟨i2, nm⟩ := r
        simp only [hnf] at h
        have hnm := nextFree_is_addCount name used _ _ _ _ hnf
        apply ih i2 (nm :: used) (out ++ [(e, nm)]) used' out' h
        intro x hx
        rcases List.mem_append.mp hx with hx | hx
        · exact hout x hx
        · simp at hx; subst hx; simp only; rw [hnm]; exact hadd name i2 hname
    · simp only [hi, if_false] at h
      apply ih (i + 1) used (out ++ [(e, name)]) used' out' h
      intro x hx
      rcases List.mem_append.mp hx with hx | hx
      · exact hout x hx
      · simp at hx; subst hx; exact hname

theorem loop_P :
    ∀ (gs : List (Name × List Nat)) (used : List Name) (out out' : List (Nat × Name)),
      dedupe.loop gs used out = .ok out' → (∀ g ∈ gs, P g.1) → (∀ x ∈ out, P x.2) → ∀ x ∈ out', P x.2 := by
  intro gs
  induction gs with
  | nil =>
    intro used out out' h _ hout
    simp only [dedupe.loop, Except.ok.injEq] at h
    subst h; exact hout
  | cons g gs ih =>
    intro used out out' h hgs hout
    obtain ⟨name, members⟩ := g
    have hname : P name := hgs (name, members) (by simp)
    have hgs' : ∀ g ∈ gs, P g.1 := fun g hg => hgs g (by simp [hg])
    simp only [dedupe.loop] at h
    split at h
    · apply ih used _ out' h hgs'
      intro x hx
      rcases List.mem_append.mp hx with hx | hx
      · exact hout x hx
      · simp at hx; subst hx; exact hname
    · split at h
      · cases h
      · rename_i used' o hag
        apply ih used' _ out' h hgs'
        intro x hx
        rcases List.mem_append.mp hx with hx | hx
        · exact hout x hx
        · exact assignGroup_P P hadd name hname members 0 used [] used' o hag (by intro x hx; cases hx) x hx

omit hadd in
theorem groupBy_go_keys :
    ∀ (cs : List Name) (i : Nat) (acc : List (Name × List Nat)), (∀ g ∈ acc, P g.1) → (∀ c ∈ cs, P c) →
      ∀ g ∈ groupBy.go i acc cs, P g.1 := by
  intro cs
  induction cs with
  | nil => intro i acc h _; simpa [groupBy.go] using h
  | cons c cs ih =>
    intro i acc hacc hcs
    simp only [groupBy.go]
    apply ih (i + 1) _ _ (fun x hx => hcs x (by simp [hx]))
    intro g hg
    split at hg
    · simp only [List.mem_map] at hg
      obtain ⟨g0, hg0, rfl⟩ := hg
      obtain ⟨k, v⟩ := g0
      simp only
      split
      · exact hacc (k, v) hg0
      · exact hacc (k, v) hg0
    · rcases List.mem_append.mp hg with hg | hg
      · exact hacc g hg
      · simp at hg; subst hg; exact hcs c (by simp)

/-- every assigned name has the property the candidates share, if adding a counter preserves it. -/
theorem dedupe_P (hnil : P []) (cands res : List Name) (h : dedupe cands = .ok res)
    (hc : ∀ n ∈ cands, P n) : ∀ n ∈ res, P n := by
  unfold dedupe at h
  simp only at h
  cases hl : dedupe.loop (groupBy cands) ((groupBy cands).map (·.1)) [] with
  | error e => simp [hl] at h
  | ok out =>
    simp only [hl, Except.ok.injEq] at h
    have hkeys : ∀ g ∈ groupBy cands, P g.1 := by
      unfold groupBy
      exact groupBy_go_keys P cands 0 [] (by intro g hg; cases hg) hc
    have hout := loop_P P hadd (groupBy cands) _ [] out hl hkeys (by intro x hx; cases hx)
    subst h
    intro n hn
    simp only [List.mem_map, List.mem_range] at hn
    obtain ⟨i, _, rfl⟩ := hn
    cases hf : out.find? (·.1 == i) with
    | none => simpa using hnil
    | some x =>
      simp only [Option.map_some, Option.getD_some]
      exact hout x (List.mem_of_find?_eq_some hf)

end generic

/-- the characters the property allows in a path component. -/
def pathKeep (c : Char) : Bool := exportKeep c || c == '(' || c == ')'

theorem isDigit_exportKeep (c : Char) (h : c.isDigit = true) : exportKeep c = true := by
  unfold exportKeep isWord
  unfold Char.isDigit at h
  simp only [Bool.and_eq_true, decide_eq_true_eq] at h
  have h1 : 48 ≤ c.toNat := by
    have := h.1; simp only [UInt32.le_iff_toNat_le] at this; simpa using this
  have h2 : c.toNat ≤ 57 := by
    have := h.2; simp only [UInt32.le_iff_toNat_le] at this; simpa using this
  simp [h1, h2]

/-- adding a counter keeps a name inside the character set. -/
theorem addCount_pathKeep (name : Name) (k : Nat) (h : ∀ c ∈ name, pathKeep c = true) :
    ∀ c ∈ addCount name k, pathKeep c = true := by
  have hcnt : ∀ c ∈ ('(' :: (natChars k ++ [')'])), pathKeep c = true := by
    intro c hc
    simp only [List.mem_cons, List.mem_append, List.mem_nil_iff, or_false] at hc
    rcases hc with rfl | hc | rfl
    · decide
    · unfold pathKeep; rw [isDigit_exportKeep c (natChars_digits k c hc)]; rfl
    · decide
  intro c hc
  unfold addCount at hc
  simp only at hc
  split at hc
  · rename_i stem sep side hsm
    obtain ⟨_, _, _, ws, _, hs⟩ := Smpl.Props.C05.C05_stereo_shape name stem sep side hsm
    simp only [List.mem_append, List.mem_cons, List.mem_nil_iff, or_false] at hc
    rcases hc with ((hc | rfl) | hc) | hc
    · exact h c (by rw [hs]; simp [hc])
    · decide
    · exact hcnt c (by simpa using hc)
    · rcases hc with rfl | rfl
      · decide
      · exact h c (by rw [hs]; simp)
  · simp only [List.mem_append, List.mem_cons, List.mem_nil_iff, or_false] at hc
    rcases hc with (hc | rfl) | hc
    · exact h c hc
    · decide
    · exact hcnt c (by simpa using hc)

/-- **C06 (character set of every assigned name).** Whatever the stored names of the siblings: the
names assigned to them — the export names, de-duplicated with `(n)` counters — consist only of word
characters, blank, `-`, `.`, `#`, `(` and `)`; the counter's digits are digits. -/
theorem C06_assigned_charset (stored : List (Name × Bool)) (res : List Name)
    (h : dedupe (stored.map fun (n, f) => makeExportName n f) = .ok res) :
    ∀ n ∈ res, ∀ c ∈ n, pathKeep c = true := by
  apply dedupe_P (fun n => ∀ c ∈ n, pathKeep c = true) (fun n k hn => addCount_pathKeep n k hn)
    (by intro c hc; cases hc) _ res h
  intro n hn
  simp only [List.mem_map] at hn
  obtain ⟨⟨nm, f⟩, _, rfl⟩ := hn
  intro c hc
  unfold pathKeep
  rw [C06_charset nm f c hc]; rfl

/-- non-vacuity: three siblings stored under one name. -/
example : (match dedupe ["a b".toList, "a b".toList, "a b".toList] with
    | .ok r => r == ["a b".toList, "a b (2)".toList, "a b (3)".toList]
    | .error _ => false) = true := by decide

end Smpl.Props.C06
