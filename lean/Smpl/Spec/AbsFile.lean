/-
Specification: the ordinary read-only file (C08) and a family of independent read-only files (C11).
Independent of the stream classes: only `Op`/`Out`, `slice` and the clamping rule are shared.
-/
import Smpl.Model.Stream
import Smpl.Lemmas.StreamSpec

namespace Smpl.Spec
open Smpl.Stream

/-- one operation on a read-only file with content `c` and cursor `p`:
`tell` returns `p`; `seek(off, whence)` clamps `base + off` into `[0, len]`;
`read(n)` returns `c[p : p+n]` clipped at the end and advances by the number of bytes returned. -/
def absStep (c : List Byte) (p : Int) : Op → Out × Int
  | .tell => (.pos p, p)
  | .seek off wh => (.pos (seekTarget c.length p off wh), seekTarget c.length p off wh)
  | .read n => (.bytes (slice c p n), p + (slice c p n).length)

def absRun (c : List Byte) : Int → List Op → List Out
  | _, [] => []
  | p, op :: rest => (absStep c p op).1 :: absRun c (absStep c p op).2 rest

/-- reads in a history have non-negative sizes (`read(None)` / `read(-1)` is not modelled). -/
def opOk : Op → Prop
  | .read n => 0 ≤ n
  | _ => True

/-- a family of independent files: file `k` has content `cs[k]` and its own cursor `cur k`;
an operation on file `k` touches cursor `k` only. -/
def absSched (cs : List (List Byte)) : (Nat → Int) → List (Nat × Op) → List Out
  | _, [] => []
  | cur, (k, op) :: rest =>
    match cs[k]? with
    | none => absSched cs cur rest
    | some c =>
      (absStep c (cur k) op).1 ::
        absSched cs (fun j => if j = k then (absStep c (cur k) op).2 else cur j) rest

/-- the operations of one file within a schedule. -/
def opsOf (k : Nat) (sched : List (Nat × Op)) : List Op := (sched.filter (·.1 = k)).map (·.2)

end Smpl.Spec
