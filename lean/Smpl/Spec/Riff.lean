/-
Specification: an independent structural validator for RIFF/WAVE PCM files (property C04).
Written from the RIFF/WAVE layout, not from the code that builds the files: it *reads* a byte list.
-/
namespace Smpl.Spec.Riff

abbrev Byte := Nat

/-- little-endian value of a byte string. -/
def le : List Byte → Nat
  | [] => 0
  | b :: bs => b + 256 * le bs

/-- consume a fixed tag. -/
def expect (tag : List Byte) (bs : List Byte) : Option (List Byte) :=
  if bs.take tag.length = tag then some (bs.drop tag.length) else none

/-- consume `n` bytes (fails when fewer are left). -/
def takeN (n : Nat) (bs : List Byte) : Option (List Byte × List Byte) :=
  if n ≤ bs.length then some (bs.take n, bs.drop n) else none

def readLe (n : Nat) (bs : List Byte) : Option (Nat × List Byte) :=
  (takeN n bs).map fun (a, r) => (le a, r)

def tagRIFF : List Byte := [0x52, 0x49, 0x46, 0x46]
def tagWAVE : List Byte := [0x57, 0x41, 0x56, 0x45]
def tagFmt  : List Byte := [0x66, 0x6d, 0x74, 0x20]
def tagSmpl : List Byte := [0x73, 0x6d, 0x70, 0x6c]
def tagData : List Byte := [0x64, 0x61, 0x74, 0x61]

/-- the 16-byte PCM `fmt ` body: tag 1, 16 bits, block align = channels × 2,
byte rate = sample rate × block align. Returns the block align. -/
def fmtOk (body : List Byte) : Option Nat := do
  let (tag, r) ← readLe 2 body
  let (ch, r) ← readLe 2 r
  let (rate, r) ← readLe 4 r
  let (byteRate, r) ← readLe 4 r
  let (blockAlign, r) ← readLe 2 r
  let (bits, r) ← readLe 2 r
  if r = [] ∧ tag = 1 ∧ bits = 16 ∧ blockAlign = ch * 2 ∧ byteRate = rate * blockAlign then some blockAlign
  else none

/-- the `smpl` body: its size is 36 + 24 × its declared loop count. -/
def smplOk (body : List Byte) : Bool :=
  match takeN 28 body with
  | none => false
  | some (_, r) =>
    match readLe 4 r with
    | none => false
    | some (cnt, _) => body.length == 36 + 24 * cnt

/-- the `fmt ` chunk: tag, declared size 16, a valid PCM body. Returns (block align, rest). -/
def fmtChunk (r : List Byte) : Option (Nat × List Byte) :=
  match expect tagFmt r with
  | none => none
  | some r1 =>
    match readLe 4 r1 with
    | none => none
    | some (n, r2) =>
      if n ≠ 16 then none
      else
        match takeN 16 r2 with
        | none => none
        | some (body, r3) =>
          match fmtOk body with
          | none => none
          | some ba => some (ba, r3)

/-- an optional `smpl` chunk: when present its declared size must fit and its body must be valid. -/
def skipSmpl (r : List Byte) : Option (List Byte) :=
  match expect tagSmpl r with
  | none => some r
  | some r1 =>
    match readLe 4 r1 with
    | none => none
    | some (n, r2) =>
      match takeN n r2 with
      | none => none
      | some (body, r3) => if smplOk body then some r3 else none

/-- the `data` chunk must be last, its declared size must be exactly what is left, and it must hold
a whole number of frames. -/
def dataOk (blockAlign : Nat) (r : List Byte) : Bool :=
  match expect tagData r with
  | none => false
  | some r1 =>
    match readLe 4 r1 with
    | none => false
    | some (n, r2) => n == r2.length && decide (0 < blockAlign) && n % blockAlign == 0

/-- A well-formed file: `RIFF` size = length − 8; `WAVE`; a 16-byte `fmt ` chunk, an optional `smpl`
chunk, a `data` chunk, in that order, whose declared sizes add up exactly to the file; the data
length is a whole number of frames. -/
def wellFormed (bs : List Byte) : Bool :=
  match expect tagRIFF bs with
  | none => false
  | some r =>
    match readLe 4 r with
    | none => false
    | some (size, r) =>
      size + 8 == bs.length &&
      match expect tagWAVE r with
      | none => false
      | some r =>
        match fmtChunk r with
        | none => false
        | some (ba, r) =>
          match skipSmpl r with
          | none => false
          | some r => dataOk ba r

end Smpl.Spec.Riff
