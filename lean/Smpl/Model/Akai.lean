/-
Layer L6 (AKAI): whole-image parsing, directory tree, sample headers, export (properties C01, C14,
C16, C20; used by C09, C13, C15).

Python sources mirrored:
  smpl_extract/akai/image.py       AkaiImageParser._load_partitions
  smpl_extract/akai/partition.py   PartitionHeaderConstruct, PartitionParser
  smpl_extract/akai/volume.py      VolumeEntryConstruct, VolumesAdapter, Volume._realize_files
  smpl_extract/akai/file_entry.py  FileEntryConstruct, FileEntriesAdapter  (entries re-aligned: `fix:` of D9)
  smpl_extract/akai/file.py        FileConstruct (Switch on the file type)
  smpl_extract/akai/sample.py      SampleHeaderConstruct, LoopEntryAdapter, SampleAdapter, AkaiSample.to_generalized
The parser reads every view through its logical content (C08 ties the stream objects to it).
Programs (file types 0x70 / 0xf0) are handled by `Smpl.Model.AkaiProgram`.
-/
import Smpl.Model.Basic
import Smpl.Model.ShortRead
import Smpl.Model.Codec
import Smpl.Model.Alloc
import Smpl.Model.Names
import Smpl.Model.Wav
import Smpl.Model.Transcode

namespace Smpl.Akai
open Smpl Smpl.Alloc Smpl.Names

abbrev Bytes := List Nat

def SECTOR : Nat := 8192
def SAT_ENTRIES : Nat := 11386
def VOL_ENTRIES : Nat := 100
def HEADER_BYTES : Nat := 202
def VOL_ENTRY_BYTES : Nat := 16
def FILE_ENTRY_BYTES : Nat := 24
def SAMPLE_HEADER_BYTES : Nat := 140
def TABLE_END : Nat := 0xD747

/-- the least-significant 16 bits (little-endian) of the first 97 multiples of 3333. -/
def MAGIC : Bytes := (List.range 97).flatMap fun i => let v := (3333 * (i + 1)) % 65536; [v % 256, v / 256]

/-- `n` bytes at `off` (None when the content is too short: construct's StreamError). -/
def rd (c : Bytes) (off n : Nat) : Option Bytes :=
  if off + n ≤ c.length then some ((c.drop off).take n) else none

def leVal : Bytes → Nat
  | [] => 0
  | b :: bs => b + 256 * leVal bs

def uN (c : Bytes) (off n : Nat) : Option Nat := (rd c off n).map leVal

/-- consecutive little-endian 16-bit words. -/
def words16 : Bytes → List Nat
  | a :: b :: rest => (a + 256 * b) :: words16 rest
  | _ => []

def s8 (v : Nat) : Int := if v < 128 then v else (v : Int) - 256

/-- `AkaiPaddedString(12)`: strip trailing AKAI blanks (0x0A), map to ASCII; invalid code ⇒ error. -/
def akaiStr (raw : Bytes) : Option Name :=
  let stripped := (raw.reverse.dropWhile (· == 0x0A)).reverse
  (Smpl.Codec.akaiToAsciiStr stripped).map (·.map Char.ofNat)

structure VolEntry where
  name  : Name
  vtype : Nat              -- type_raw & 3 (1 = S1000, 3 = S3000; 0 inactive)
  start : Nat
deriving Repr

structure Part where
  letter  : Nat            -- 0 = "A:", 1 = "B:" …
  content : Bytes          -- the partition window of the file
  vols    : List VolEntry
  links   : List Link      -- decoded SAT
deriving Repr

def parseVolEntries (c : Bytes) (off : Nat) : Nat → Option (List VolEntry)
  | 0 => some []
  | k + 1 => do
    let raw ← rd c off 12
    let name ← akaiStr raw
    let typeRaw ← uN c (off + 12) 2
    let start ← uN c (off + 14) 2
    if typeRaw % 4 == 2 then none                          -- VolumeType(2) does not exist
    let rest ← parseVolEntries c (off + VOL_ENTRY_BYTES) k
    pure (⟨name, typeRaw % 4, start⟩ :: rest)

/-- one partition at byte `pos` of the file; returns it and the position after it.
`none` = InvalidPartition / ConstructError (the scan stops). -/
def parsePartition (file : Bytes) (pos : Nat) (letter : Nat) : Except Err (Option (Part × Nat)) :=
  match uN file pos 2, rd file (pos + 2) 2, rd file (pos + 4) 194, rd file (pos + 198) 2, rd file (pos + 200) 2 with
  | some size, some z, some magic, some _, some tail =>
    if z ≠ [0, 0] ∨ magic ≠ MAGIC ∨ tail ≠ [0x2F, 0x00] then .ok none
    else
      match parseVolEntries file (pos + HEADER_BYTES) VOL_ENTRIES with
      | none => .ok none
      | some vols =>
        match rd file (pos + HEADER_BYTES + VOL_ENTRIES * VOL_ENTRY_BYTES) (2 * SAT_ENTRIES) with
        | none => .ok none
        | some satRaw =>
          let words := words16 satRaw
          match akaiDecode words with
          | .error e => .error e                                  -- InvalidFatDefinition is not caught
          | .ok links =>
            if size = 0 then .ok none
            else
              let total := size * SECTOR
              .ok (some (⟨letter, (file.drop pos).take total, vols, links⟩, pos + total))
  | _, _, _, _, _ => .ok none

/-- `_load_partitions`: scan while the position is inside the file; stop at the first failure. -/
def partitions (file : Bytes) : Nat → Nat → Nat → Except Err (List Part)
  | 0, _, _ => .ok []
  | fuel + 1, pos, k =>
    if pos < file.length then
      match parsePartition file pos k with
      | .error e => .error e
      | .ok none => .ok []
      | .ok (some (p, next)) =>
        match partitions file fuel next (k + 1) with
        | .ok ps => .ok (p :: ps)
        | .error e => .error e
    else .ok []

/-- content of a sector chain inside a partition (`Segment`): the sectors in chain order. -/
def segment (p : Part) (path : List Nat) : Bytes :=
  path.flatMap fun s => (p.content.drop (s * SECTOR)).take SECTOR

structure FileEntry where
  name  : Name
  ftype : Nat
  size  : Nat
  start : Nat
deriving Repr

def validFileType (t : Nat) : Bool := [0x64, 0x70, 0x71, 0x73, 0x78, 0xf0, 0xf3].contains t

inductive EntryRes where
  | entry (e : FileEntry)
  | skip                      -- ConstructError / RequestedInvalidSector: swallowed
  | fatal (e : Err)           -- InvalidFatDefinition out of get_segment: not caught

/-- one 24-byte table entry at `off` (the entry is complete: `off + 24 ≤ len`). -/
def parseEntry (p : Part) (tbl : Bytes) (off : Nat) : EntryRes :=
  match rd tbl off 12, uN tbl (off + 16) 1, uN tbl (off + 17) 3, uN tbl (off + 20) 2 with
  | some raw, some ft, some size, some start =>
    match akaiStr raw with
    | none => .skip
    | some name =>
      if !validFileType ft then .skip
      else
        -- `file_stream` is computed eagerly: `get_segment(start)` must succeed
        match getPath p.links SAT_ENTRIES start with
        | .error .invalidSector => .skip
        | .error e => .fatal e
        | .ok _ => .entry ⟨name, ft, size, start⟩
  | _, _, _, _ => .skip

/-- `FileEntriesAdapter._parse`: at most `len/24` entries, stop at the end marker (0xD747 at +8) or
when the marker cannot be read; every iteration starts on an entry boundary. -/
def fileTable (p : Part) (tbl : Bytes) : Nat → Nat → Except Err (List FileEntry)
  | 0, _ => .ok []
  | k + 1, i =>
    let off := i * FILE_ENTRY_BYTES
    match uN tbl (off + 8) 2 with
    | none => .ok []
    | some flag =>
      if flag = TABLE_END then .ok []
      else
        match parseEntry p tbl off with
        | .fatal e => .error e
        | .skip => fileTable p tbl k (i + 1)
        | .entry e =>
          match fileTable p tbl k (i + 1) with
          | .error err => .error err
          | .ok rest => .ok (if e.start > 0 then e :: rest else rest)

structure LoopEntry where
  pos      : Nat
  coarse   : Nat
  duration : Nat
deriving Repr

structure SampleHdr where
  id       : Nat              -- 1 | 3
  note     : Nat
  sname    : Name
  loopType : Nat              -- 0..4
  cents    : Nat              -- raw byte
  semi     : Nat              -- raw byte
  cnt      : Nat
  start    : Nat
  end_     : Nat
  loops    : List LoopEntry   -- all 8 table entries
  rate     : Nat
deriving Repr

def parseLoops (c : Bytes) (off : Nat) : Nat → Option (List LoopEntry)
  | 0 => some []
  | k + 1 => do
    let pos ← uN c off 4
    let coarse ← uN c (off + 6) 4
    let dur ← uN c (off + 10) 2
    let rest ← parseLoops c (off + 12) k
    pure (⟨pos, coarse, dur⟩ :: rest)

/-- `SampleHeaderConstruct` over the file content (`StreamWrapper(segment, size)`). -/
def parseSampleHdr (c : Bytes) : Option SampleHdr := do
  let id ← uN c 0 1
  if id ≠ 1 ∧ id ≠ 3 then none
  let note ← uN c 2 1
  let raw ← rd c 3 12
  let sname ← akaiStr raw
  let lt ← uN c 19 1
  if lt > 4 then none
  let cents ← uN c 20 1
  let semi ← uN c 21 1
  let cnt ← uN c 26 4
  let st ← uN c 30 4
  let en ← uN c 34 4
  let loops ← parseLoops c 38 8
  let rate ← uN c 138 2
  pure ⟨id, note, sname, lt, cents, semi, cnt, st, en, loops, rate⟩

inductive FileKind where
  | sample (h : SampleHdr) (data : Bytes)       -- data = bytes of the window [140+2·start, +2·(end−start))
  | program (content : Bytes)                    -- parsed by Smpl.AkaiProgram
deriving Repr

structure FileNode where
  name : Name
  ftype : Nat
  kind : FileKind
deriving Repr

def isSampleType (t : Nat) : Bool := t == 0x73 || t == 0xf3
def isProgramType (t : Nat) : Bool := t == 0x70 || t == 0xf0

/-- window `[off, off+size)` of `c`, clipped (a window of non-positive size is empty). -/
def window (c : Bytes) (off : Nat) (size : Int) : Bytes :=
  if size ≤ 0 then [] else (c.drop off).take size.toNat

/-- the sectors of a chain as they can be read: up to and including the first sector that is not
wholly in the partition window (a read that touches the missing part raises `SectorReadError`). -/
def segmentPrefix (p : Part) : List Nat → Bytes
  | [] => []
  | s :: rest =>
    let sec := (p.content.drop (s * SECTOR)).take SECTOR
    if sec.length < SECTOR then sec else sec ++ segmentPrefix p rest

/-- the chain content in declared coordinates, with the bytes that are not in the file as holes. -/
def segmentHoley (p : Part) (path : List Nat) : Smpl.ShortRead.Holey :=
  Smpl.ShortRead.ofPieces SECTOR (path.map fun s => (p.content.drop (s * SECTOR)).take SECTOR)

/-- realise one file entry (`FileEntry.file`): `none` = not listed (unknown type or parse error).
The header is parsed from what can be read sequentially; the audio is read in blocks. -/
def realizeFile (p : Part) (e : FileEntry) (programOk : Bytes → Bool) : Option FileNode :=
  match getPath p.links SAT_ENTRIES e.start with
  | .error _ => none
  | .ok path =>
    let content := (segmentPrefix p path).take e.size
    if isSampleType e.ftype then
      (parseSampleHdr content).map fun h =>
        let size : Int := 2 * ((h.end_ : Int) - h.start)
        let data := if size ≤ 0 then []
          else Smpl.ShortRead.readForward ((segmentHoley p path).clip e.size) (SAMPLE_HEADER_BYTES + 2 * h.start) size.toNat
        ⟨e.name, e.ftype, .sample h data⟩
    else if isProgramType e.ftype then
      if programOk content then some ⟨e.name, e.ftype, .program content⟩ else none
    else none

structure VolNode where
  name  : Name
  vtype : Nat
  files : List FileNode
  /-- files are realised when the volume is first entered: an error of that step is raised then,
  not when the partition is listed. -/
  failed : Option Err := none
deriving Repr

/-- the volumes of one partition with their files (`VolumesAdapter`, `Volume._realize_files`). -/
def volumes (p : Part) (programOk : Bytes → Bool) : List VolEntry → Except Err (List VolNode)
  | [] => .ok []
  | v :: vs =>
    if v.vtype = 0 then volumes p programOk vs
    else
      let node : VolNode :=
        match getPath p.links SAT_ENTRIES v.start with
        | .error e => ⟨v.name, v.vtype, [], some e⟩                 -- RequestedInvalidSector / InvalidFatDefinition: not caught
        | .ok path =>
          let tbl := segmentPrefix p path
          match fileTable p tbl (tbl.length / FILE_ENTRY_BYTES) 0 with
          | .error e => ⟨v.name, v.vtype, [], some e⟩
          | .ok entries => ⟨v.name, v.vtype, entries.filterMap (realizeFile p · programOk), none⟩
      match volumes p programOk vs with
      | .error e => .error e
      | .ok rest => .ok (node :: rest)

structure PartNode where
  letter : Nat
  vols   : List VolNode
deriving Repr

/-- `AkaiImageParser._partition_letters`: A .. Z, then AA, AB, ... (D23). -/
def partLetters (k : Nat) : List Char :=
  if k < 26 then [Char.ofNat (65 + k)]
  else partLetters (k / 26 - 1) ++ [Char.ofNat (65 + k % 26)]
termination_by k
decreasing_by omega

def partName (k : Nat) : Name := partLetters k ++ [':']

/-- the whole directory tree of an image. -/
def tree (file : Bytes) (programOk : Bytes → Bool) : Except Err (List PartNode) :=
  match partitions file (file.length / SECTOR + 2) 0 0 with
  | .error e => .error e
  | .ok ps =>
    let rec go : List Part → Except Err (List PartNode)
      | [] => .ok []
      | p :: rest =>
        match volumes p programOk p.vols with
        | .error e => .error e
        | .ok vs =>
          match go rest with
          | .error e => .error e
          | .ok r => .ok (⟨p.letter, vs⟩ :: r)
    go ps

/-! ## sample → generalized sample → WAV -/

def sampleTypeName (id : Nat) : Name := (if id = 1 then "S1000 Sample" else "S3000 Sample").toList
def volTypeName (t : Nat) : Name := (if t = 1 then "S1000 Volume" else "S3000 Volume").toList

/-- `SampleAdapter._decode_element` + `AkaiSample.to_generalized`: the fields the WAV writer reads. -/
def genSample (h : SampleHdr) : Smpl.Wav.GenSample :=
  let rate := if h.rate = 0 then 44100 else h.rate
  let entries := if h.loopType ≠ 2 then h.loops.filter (·.duration > 0) else []
  let regions : List Smpl.Wav.LoopRegion := entries.filterMap fun l =>
    let ls : Int := if (l.pos : Int) - 1 - l.coarse < 0 then 0 else (l.pos : Int) - 1 - l.coarse
    let forever := l.duration ≥ 9999
    if forever then some ⟨ls, l.pos, 1, true, none, some (Float.ofNat l.duration)⟩
    else
      let total := Float.ofInt ((l.pos : Int) - ls) / Float.ofNat rate
      if total == Float.ofNat 0 then none
      else some ⟨ls, l.pos, 1, false, some (Smpl.Wav.pyRound (Float.ofNat l.duration / total)), some (Float.ofNat l.duration)⟩
  { rate := rate, channels := 1, width := 2, loops := regions,
    note := some (Smpl.Codec.fromAkaiByte h.note), semi := some (s8 h.semi),
    cents := some (Smpl.Codec.parseCents (s8 h.cents)) }

end Smpl.Akai
