/-
Shared basics for the model: the error enum (exception classes the code keeps apart) and
small helpers.  Core Lean only.
-/
namespace Smpl

/-- Exception classes of the implementation that callers distinguish (DESIGN §2.1). -/
inductive Err where
  | construct        -- construct.ConstructError family (StreamError, ConstError, MappingError, …)
  | sectorRead       -- util.stream.SectorReadError
  | index            -- IndexError
  | invalidSector    -- util.fat.RequestedInvalidSector
  | invalidFat       -- util.fat.InvalidFatDefinition
  | badAlign         -- util.stream.BadAlign
  | badReadSize      -- util.stream.BadReadSize
  | beyondBuffer     -- util.stream.AttemptToReadBeyondBuffer
  | badCue           -- cuesheet.BadCueSheet
  | name             -- structural.CouldNotDetermineName
  | other
deriving DecidableEq, Repr, Inhabited

def Err.toString : Err → String
  | .construct => "ConstructError"
  | .sectorRead => "SectorReadError"
  | .index => "IndexError"
  | .invalidSector => "RequestedInvalidSector"
  | .invalidFat => "InvalidFatDefinition"
  | .badAlign => "BadAlign"
  | .badReadSize => "BadReadSize"
  | .beyondBuffer => "AttemptToReadBeyondBuffer"
  | .badCue => "BadCueSheet"
  | .name => "CouldNotDetermineName"
  | .other => "Other"

instance : ToString Err := ⟨Err.toString⟩

end Smpl
