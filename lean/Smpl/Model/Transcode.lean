/-
Layer L3 (part 1): the PCM transcoder at byte level (property C12; used by C01–C05, C15).

Python source mirrored: smpl_extract/transcoder.py (make_transcoder, PassthroughTranscoder,
PipelineTranscoder, decode_frame, encode_frame, pad_channels, swap_endianess[_multi],
get_buffer_sizes, resize_buffer) and data_streams.py (StreamEncoding.__eq__, frame_size).

A sample is a group of `width` bytes.  numpy interprets the bytes in host order and writes them back
in host order, and the pipeline never does arithmetic on samples of equal width (`astype` to the
same dtype), so a sample's bytes are either reversed (`byteswap`) or kept.  Padding samples produced
by `np.pad(…, "linear_ramp")` are unspecified (`none`): no property constrains them.
-/
import Smpl.Model.Basic
namespace Smpl.Transcode

abbrev Byte := Nat
abbrev Sample := List Byte                 -- `width` bytes

structure Enc where
  big    : Bool                            -- Endianess.BIG
  width  : Nat                             -- sample_width
  nch    : Nat                             -- num_interleaved_channels
  signed : Bool
deriving DecidableEq, Repr

structure Src where
  enc  : Enc
  data : List Byte                         -- what successive `stream.read` calls deliver
deriving Repr

def Enc.frame (e : Enc) : Nat := e.nch * e.width            -- DataStream.frame_size
def Enc.chans (e : Enc) : Nat := max 1 e.nch                -- max(1, num_interleaved_channels)
def Enc.interleaved (e : Enc) : Bool := e.nch > 1

/-- `StreamEncoding.__eq__`: channel counts only matter for interleaved encodings. -/
def encEq (a b : Enc) : Bool :=
  a.big == b.big && a.width == b.width && a.signed == b.signed && a.interleaved == b.interleaved &&
  (!a.interleaved || a.nch == b.nch)

/-- `get_buffer_sizes`: the same number of frames for every stream. -/
def numFrames (B : Nat) (srcs : List Src) : Nat :=
  match srcs.map fun s => max 1 (B / s.enc.frame) with
  | [] => 1
  | x :: xs => xs.foldl min x

/-- `resize_buffer`: drop trailing bytes that do not form a whole frame. -/
def wholeFrames (frame : Nat) (buf : List Byte) : List Byte := buf.take (buf.length / frame * frame)

/-- split into consecutive groups of `w` (the buffer length is a multiple of `w`). -/
def groups (w : Nat) : Nat → List Byte → List (List Byte)
  | 0, _ => []
  | n + 1, l => l.take w :: groups w n (l.drop w)

def samplesOf (w : Nat) (buf : List Byte) : List Sample := groups w (buf.length / w) buf

/-- every `n`-th element starting at `c`:  `reshape((-1, n)).T[c]`. -/
def everyNth (n c : Nat) (l : List Sample) : List Sample :=
  ((List.range l.length).filter fun i => i % n == c).filterMap fun i => l[i]?

/-- one stream's part of `decode_frame`: whole frames of the block, split into its channels. -/
def decodeOne (e : Enc) (buf : List Byte) : List (List Sample) :=
  let b := wholeFrames e.frame buf
  if b.isEmpty then List.replicate e.chans []
  else
    let ss := samplesOf e.width b
    if e.chans > 1 then (List.range e.chans).map fun c => everyNth e.chans c ss else [ss]

/-- per-channel input swap flags (after the `fix:` of D8 the per-stream flag is repeated for every
channel of the stream). -/
def swapFlags (host : Bool) (srcs : List Src) : List Bool :=
  srcs.flatMap fun s => List.replicate s.enc.chans (s.enc.big != host)

/-- the process list built by `make_transcoder`, applied to one block of channels. -/
def applySwaps (host : Bool) (dest : Enc) (srcs : List Src) (chs : List (List Sample)) :
    List (List Sample) :=
  let perStream := srcs.map fun s => s.enc.big != host
  let chs1 :=
    if perStream.any id then
      if perStream.all id then chs.map (·.map List.reverse)                       -- swap_endianess
      else (chs.zip (swapFlags host srcs)).map fun (ch, f) =>                     -- swap_endianess_multi
        if f then ch.map List.reverse else ch
    else chs
  if dest.big != host then chs1.map (·.map List.reverse) else chs1

/-- `pad_channels` + `encode_frame`: pad to the longest channel (unspecified samples), interleave. -/
def encodeBlock (w : Nat) (chs : List (List Sample)) : List (Option Byte) :=
  let target := (chs.map List.length).foldl max 0
  (List.range target).flatMap fun f =>
    chs.flatMap fun ch =>
      match ch[f]? with
      | some smp => smp.map some
      | none => List.replicate w none

/-- `PipelineTranscoder.__next__` iterated: stops at the first block in which any channel is empty. -/
def pipeLoop (host : Bool) (dest : Enc) (srcs : List Src) (sizes : List Nat) :
    Nat → List (List Byte) → List (List (Option Byte))
  | 0, _ => []
  | fuel + 1, rems =>
    let bufs := (rems.zip sizes).map fun (r, n) => r.take n
    let rems' := (rems.zip sizes).map fun (r, n) => r.drop n
    let chs := ((srcs.zip bufs).map fun (s, b) => decodeOne s.enc b).flatten
    if chs.any List.isEmpty then []
    else encodeBlock dest.width (applySwaps host dest srcs chs) :: pipeLoop host dest srcs sizes fuel rems'

/-- `PassthroughTranscoder.__next__` iterated. -/
def passLoop (frame size : Nat) : Nat → List Byte → List (List (Option Byte))
  | 0, _ => []
  | fuel + 1, rem =>
    let b := wholeFrames frame (rem.take size)
    if b.isEmpty then [] else b.map some :: passLoop frame size fuel (rem.drop size)

inductive TErr where
  | noDataStream
  | incompatibleChannels
deriving DecidableEq, Repr

/-- `make_transcoder(data_streams, dest_encoding)` and the blocks the returned iterator yields. -/
def transcode (host : Bool) (B : Nat) (dest : Enc) (srcs : List Src) :
    Except TErr (List (List (Option Byte))) :=
  if srcs.isEmpty then .error .noDataStream
  else if (srcs.map (·.enc.chans)).foldl (· + ·) 0 != dest.nch then .error .incompatibleChannels
  else
    let nf := numFrames B srcs
    let sizes := srcs.map fun s => nf * s.enc.frame
    let fuel := (srcs.map (·.data.length)).foldl (· + ·) 0 + 1
    match srcs with
    | [s] =>
      if encEq s.enc dest then .ok (passLoop s.enc.frame (nf * s.enc.frame) fuel s.data)
      else .ok (pipeLoop host dest srcs sizes fuel (srcs.map (·.data)))
    | _ => .ok (pipeLoop host dest srcs sizes fuel (srcs.map (·.data)))

end Smpl.Transcode
