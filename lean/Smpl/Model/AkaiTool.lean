/-
`ls` and `export` on AKAI images (properties C01, C10, C14, C16, C20).
Python sources mirrored: smpl_extract/actions.py (ls_action, export_samples_to_wav),
structural.py (Traversable.export_samples, ExportManager), elements.py (LeafElement.get_info/itemize).
-/
import Smpl.Model.Akai
import Smpl.Model.Info
import Smpl.Model.AkaiProgram

namespace Smpl.AkaiTool
open Smpl Smpl.Akai Smpl.Names Smpl.Info Smpl.Wav Smpl.Transcode

/-- assigned (safe, export) names of a list of siblings; `isFile` per element. -/
def assign (raw : List (Name × Bool)) : Except Err (List (Name × Name)) :=
  match dedupe (raw.map fun (n, _) => makeSafeName n), dedupe (raw.map fun (n, f) => makeExportName n f) with
  | .ok s, .ok e => .ok (s.zip e)
  | .error e, _ => .error e
  | _, .error e => .error e

def loopTypeName : Nat → Name
  | 0 => "Loop in release".toList
  | 1 => "Loop until release".toList
  | 2 => "No loop".toList
  | 3 => "Play until end".toList
  | _ => "Loop as sample".toList

def boolName (b : Bool) : Name := (if b then "True" else "False").toList

def intName (i : Int) : Name := (toString i).toList

/-- the tuning byte is shown as Python prints the double; printed floats are never compared as
text — the harness maps the printed number back to its byte (`cents#<signed byte>`). -/
def centsName (raw : Nat) : Name := "cents#".toList ++ intName (s8 raw)

/-- `AkaiSample` itemised (public dataclass fields in declaration order). -/
def sampleItems (fileName : Name) (h : SampleHdr) : Item :=
  let rate := if h.rate = 0 then 44100 else h.rate
  let entries := if h.loopType ≠ 2 then h.loops.filter (·.duration > 0) else []
  let loopItem (l : LoopEntry) : Item :=
    let ls : Int := if (l.pos : Int) - 1 - l.coarse < 0 then 0 else (l.pos : Int) - 1 - l.coarse
    .map [("loop_start".toList, .str (intName ls)), ("loop_end".toList, .str (natChars l.pos)),
          ("loop_duration".toList, .str (natChars l.duration)),
          ("repeat_forever".toList, .str (boolName (l.duration ≥ 9999)))]
  .map [
    ("file_name".toList, .str fileName),
    ("sample_name".toList, .str h.sname),
    ("sample_type".toList, .str (sampleTypeName h.id)),
    ("sample_rate".toList, .str (natChars rate)),
    ("bytes_per_sample".toList, .str (natChars 2)),
    ("samples_cnt".toList, .str (natChars h.cnt)),
    ("start_sample".toList, .str (natChars h.start)),
    ("end_sample".toList, .str (natChars h.end_)),
    ("note_pitch".toList, .str (Smpl.Codec.noteToString (Smpl.Codec.fromAkaiByte h.note))),
    ("pitch_cents".toList, .str (centsName h.cents)),
    ("pitch_semi".toList, .str (intName (s8 h.semi))),
    ("loop_type".toList, .str (loopTypeName h.loopType)),
    ("loop_entries".toList, .seq (entries.map loopItem))]

def fileTypeName (n : FileNode) : Name :=
  match n.kind with
  | .sample h _ => sampleTypeName h.id
  | .program _ => (if n.ftype == 0x70 then "S1000 Program" else "S3000 Program").toList

/-- the image as the generic directory tree of `Names.lookupIdx`, with assigned safe names. -/
def nodeTree (parts : List PartNode) : Except Err Node := do
  let pn ← assign (parts.map fun p => (partName p.letter, false))
  let ps ← (parts.zip pn).mapM fun (p, (sn, _)) => do
    let vn ← assign (p.vols.map fun v => (v.name, false))
    let vs ← (p.vols.zip vn).mapM fun (v, (vsn, _)) => do
      let fn ← assign (v.files.map fun f => (f.name, true))
      pure (Node.node vsn true ((v.files.zip fn).map fun (_, (fsn, _)) => Node.node fsn false []))
    pure (Node.node sn true vs)
  pure (Node.node "AKAI Image".toList true ps)

/-- `ls_action(image, path)`: the printed lines. -/
def lsOf (parts : List PartNode) (path : Name) : Except Err (List Name) := do
  let root ← nodeTree parts
  let toks := tokenize path
  let failedAt (idx : List Nat) : Option Err :=
    match idx with
    | pi :: vi :: _ => ((parts[pi]?).bind (·.vols[vi]?)).bind (·.failed)
    | _ => none
  match lookupIdx true root toks toks 0 [] with
  | .error msg =>
    -- the walk enters a volume before it can miss a file inside it
    match lookupIdx true root (toks.take 2) (toks.take 2) 0 [] with
    | .ok idx2 =>
      match (if toks.length ≥ 3 then failedAt idx2 else none) with
      | some e => .error e
      | none => pure [msg]
    | .error _ => pure [msg]
  | .ok idx =>
    if let some e := failedAt idx then .error e else
    match idx with
    | [] => do
      let pn ← assign (parts.map fun p => (partName p.letter, false))
      pure (table ("Item".toList, "Type".toList) (pn.map fun (s, _) => (s, "Partition".toList)))
    | [pi] =>
      match parts[pi]? with
      | some p => do
        let vn ← assign (p.vols.map fun v => (v.name, false))
        pure (table ("Item".toList, "Type".toList) ((p.vols.zip vn).map fun (v, (s, _)) => (s, volTypeName v.vtype)))
      | none => pure []
    | [pi, vi] =>
      match (parts[pi]?).bind (·.vols[vi]?) with
      | some v => do
        let fn ← assign (v.files.map fun f => (f.name, true))
        pure (table ("Item".toList, "Type".toList) ((v.files.zip fn).map fun (f, (s, _)) => (s, fileTypeName f)))
      | none => pure []
    | [pi, vi, fi] =>
      match (parts[pi]?).bind (·.vols[vi]?) with
      | some v => do
        let fn ← assign (v.files.map fun f => (f.name, true))
        match v.files[fi]?, fn[fi]? with
        | some f, some (s, _) =>
          match f.kind with
          | .sample h _ => pure (treeLines [s, "  ".toList, sampleTypeName h.id] (sampleItems f.name h))
          | .program c =>
            match Smpl.AkaiProgram.parse c with
            | some pr => pure (treeLines [s, "  ".toList, fileTypeName f] (Smpl.AkaiProgram.items f.name pr))
            | none => pure []
        | _, _ => pure []
      | none => pure []
    | _ => pure []

/-- one exported file: relative path, and the WAV bytes (padding samples unspecified). -/
structure Exported where
  path : Name
  wav  : List (Option Nat)

/-- `export_wav` of one (possibly combined) sample of a directory. -/
def exportOne (g : GenSample) (srcs : List Src) : Except Err (List (Option Nat)) :=
  let dest : Enc := ⟨false, 2, g.channels, true⟩
  match transcode false 4096 dest srcs with
  | .error _ => .error .other
  | .ok blocks =>
    let pcm := blocks.flatten
    match buildWav (metaOf g) (pcm.map fun b => b.getD 0) with
    | .error e => .error e
    | .ok bs => .ok ((bs.take (bs.length - pcm.length)).map some ++ pcm)

def monoEnc : Enc := ⟨false, 2, 1, true⟩

/-- the samples of one volume, paired and written (`ExportManager.export_samples`). -/
def exportVolume (dir : List Name) (v : VolNode) : Except Err (List Exported) := do
  if let some e := v.failed then throw e
  let samples := v.files.filterMap fun f =>
    match f.kind with
    | .sample h d => some (f.name, h, d)
    | .program _ => none
  -- export names are assigned among *all* children of the volume (programs included)
  let fn ← assign (v.files.map fun f => (f.name, true))
  let expNames := (v.files.zip fn).filterMap fun (f, (_, e)) =>
    match f.kind with
    | .sample _ _ => some e
    | .program _ => none
  let groups := combine expNames
  groups.mapM fun g =>
    match g with
    | .mono i =>
      match samples[i]?, expNames[i]? with
      | some (_, h, d), some e => do
        let w ← exportOne (genSample h) [⟨monoEnc, d⟩]
        pure ⟨exportPath (dir ++ [e]), w⟩
      | _, _ => .error .other
    | .pair l r nm =>
      match samples[l]?, samples[r]? with
      | some (_, hl, dl), some (_, _, dr) => do
        let w ← exportOne { genSample hl with channels := 2 } [⟨monoEnc, dl⟩, ⟨monoEnc, dr⟩]
        pure ⟨exportPath (dir ++ [nm]), w⟩
      | _, _ => .error .other

/-- `export_samples_to_wav(image, dest)`: files in the order they are written. -/
def exportOf (parts : List PartNode) : Except Err (List Exported) := do
  let pn ← assign (parts.map fun p => (partName p.letter, false))
  let perPart ← (parts.zip pn).mapM fun (p, (_, pe)) => do
    let vn ← assign (p.vols.map fun v => (v.name, false))
    let perVol ← (p.vols.zip vn).mapM fun (v, (_, ve)) => exportVolume [pe, ve] v
    pure perVol.flatten
  pure perPart.flatten

def ls (file : Bytes) (programOk : Bytes → Bool) (path : Name) : Except Err (List Name) := do
  let parts ← tree file programOk
  lsOf parts path

def exportAll (file : Bytes) (programOk : Bytes → Bool) : Except Err (List Exported) := do
  let parts ← tree file programOk
  exportOf parts

end Smpl.AkaiTool
