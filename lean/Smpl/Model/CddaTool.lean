/-
`ls` and `export` on a CDDA image (cue sheet + bin): properties C03, C13, C15, C16, C20.
Python sources mirrored: smpl_extract/cdda/image.py (AudioTrack, CompactDiskAudioImage.children,
to_generalized), smpl_extract/actions.py, structural.py naming routines.
-/
import Smpl.Model.Cdda
import Smpl.Model.Info
import Smpl.Model.AkaiTool

namespace Smpl.CddaTool
open Smpl Smpl.Cdda Smpl.Names Smpl.Info Smpl.Wav Smpl.Transcode

def assign := Smpl.AkaiTool.assign

def intChars (i : Int) : Name := (toString i).toList

/-- `AudioTrack` itemised. -/
def trackItems (w : Window) : Item :=
  .map [("title".toList, .str w.title), ("num_channels".toList, .str "2".toList),
        ("sample_rate".toList, .str "44100".toList), ("bytes_per_sample".toList, .str "2".toList),
        ("num_audio_samples".toList, .str (intChars w.samples))]

def typeName : Name := "CDDA Track".toList

def nodeTree (ws : List Window) : Except Err Node := do
  let tn ← assign (ws.map fun w => (w.title, true))
  pure (Node.node "CDDA Image".toList true (tn.map fun (s, _) => Node.node s false []))

def lsOf (ws : List Window) (path : Name) : Except Err (List Name) := do
  let root ← nodeTree ws
  let toks := tokenize path
  match lookupIdx false root toks toks 0 [] with
  | .error msg => pure [msg]
  | .ok idx =>
    match idx with
    | [] => do
      let tn ← assign (ws.map fun w => (w.title, true))
      pure (table ("Item".toList, "Type".toList) (tn.map fun (s, _) => (s, typeName)))
    | [ti] =>
      match ws[ti]? with
      | some w => do
        let tn ← assign (ws.map fun w => (w.title, true))
        match tn[ti]? with
        | some (s, _) => pure (treeLines [s, "  ".toList, typeName] (trackItems w))
        | none => pure []
      | none => pure []
    | _ => pure []

def stereoEnc : Enc := ⟨false, 2, 2, true⟩

/-- the bytes of a track: its window of the bin file, clipped to the file (a raw file read returns
fewer bytes at the end of the file without an error). -/
def trackData (bin : List Nat) (w : Window) : List Nat :=
  if w.size ≤ 0 ∨ w.offset < 0 then [] else (bin.drop w.offset.toNat).take w.size.toNat

def exportOf (bin : List Nat) (ws : List Window) : Except Err (List Smpl.AkaiTool.Exported) := do
  let tn ← assign (ws.map fun w => (w.title, true))
  (ws.zip tn).mapM fun (w, (_, e)) => do
    let g : GenSample := { rate := 44100, channels := 2, width := 2, loops := [], note := none, semi := none, cents := none }
    let wav ← Smpl.AkaiTool.exportOne g [⟨stereoEnc, trackData bin w⟩]
    pure ⟨exportPath [e], wav⟩

end Smpl.CddaTool
