/-
AKAI S1000/S3000 programs: header, linked keygroups, velocity zones, and what `ls` prints for them
(properties C20, C13).

Python sources mirrored (smpl_extract/akai/):
  program.py   ProgramHeaderConstruct, KeygroupLinkConstruct (Seek to the stored next address),
               ProgramParser (Seek to the first keygroup), ProgramAdapter (field order of the dataclass)
  keygroup.py  KeygroupConstruct, VelocityZoneConstruct, PaddedGeneral (zones with a non-empty name),
               SlicingGeneral (per-zone arrays cut to the number of active zones), KeygroupAdapter
  data_types.py enumerations and their printed names; util/constructs.py BoolConstruct, EnumWrapper, MappingDefault
The three layout tables below are compared with tables regenerated from the construct objects on
every run (`Smpl/Gen/AkaiProgram.lean`).
-/
import Smpl.Model.Akai
import Smpl.Model.Info

namespace Smpl.AkaiProgram
open Smpl Smpl.Akai Smpl.Info Smpl.Names

inductive Kind where
  | u8 | s8 | u16 | name | bool | note | cents | midich | aux | temper
  | enum (names : List String)                     -- EnumWrapper(IntEnum): a value outside the enumeration fails
  | emap (names : List String) (dflt : String)     -- MappingDefault: stored value k ↦ names[k], anything else ↦ dflt
  | pad (n : Nat)
deriving DecidableEq, Repr

structure Field where
  name : String
  off  : Nat
  kind : Kind
deriving DecidableEq, Repr

def Kind.size : Kind → Nat
  | .u16 => 2 | .name => 12 | .temper => 12 | .pad n => n | _ => 1

def priorityNames := ["Low", "Normal", "High", "Hold"]
def reassignNames := ["Oldest", "Quietiest"]
def zoneLoopNames := ["Loop as sample", "Loop in release", "Loop until release", "No loop", "Play until end"]

/-- `ProgramHeaderConstruct` (72 bytes). -/
def headerLayout : List Field := [
  ⟨"program_id", 0, .u8⟩, ⟨"first_keygroup_address", 1, .u16⟩, ⟨"program_name", 3, .name⟩,
  ⟨"midi_program_number", 15, .u8⟩, ⟨"midi_channel", 16, .midich⟩, ⟨"polyphony", 17, .u8⟩,
  ⟨"priority", 18, .enum priorityNames⟩, ⟨"low_key", 19, .note⟩, ⟨"high_key", 20, .note⟩,
  ⟨"octave_shift", 21, .s8⟩, ⟨"aux_output_select", 22, .aux⟩, ⟨"mix_output_level", 23, .u8⟩,
  ⟨"mix_output_pan", 24, .s8⟩, ⟨"volume", 25, .u8⟩, ⟨"vel_to_volume", 26, .s8⟩, ⟨"key_to_volume", 27, .s8⟩,
  ⟨"pres_to_volume", 28, .s8⟩, ⟨"pan_lfo_rate", 29, .u8⟩, ⟨"pan_lfo_depth", 30, .u8⟩, ⟨"pan_lfo_delay", 31, .u8⟩,
  ⟨"key_to_pan", 32, .s8⟩, ⟨"lfo_rate", 33, .u8⟩, ⟨"lfo_depth", 34, .u8⟩, ⟨"lfo_delay", 35, .u8⟩,
  ⟨"mod_to_lfo_depth", 36, .u8⟩, ⟨"pres_to_lfo_depth", 37, .u8⟩, ⟨"vel_to_lfo_depth", 38, .u8⟩,
  ⟨"bend_to_pitch", 39, .u8⟩, ⟨"pres_to_pitch", 40, .s8⟩, ⟨"keygroup_crossfade", 41, .bool⟩,
  ⟨"number_of_keygroups", 42, .u8⟩, ⟨"", 43, .pad 1⟩, ⟨"key_temperaments", 44, .temper⟩,
  ⟨"fx_output", 56, .bool⟩, ⟨"mod_to_pan", 57, .s8⟩, ⟨"stereo_coherence", 58, .bool⟩, ⟨"lfo_desync", 59, .bool⟩,
  ⟨"pitch_law", 60, .u8⟩, ⟨"voice_reassign", 61, .enum reassignNames⟩, ⟨"softped_to_volume", 62, .u8⟩,
  ⟨"softped_to_attack", 63, .u8⟩, ⟨"softped_to_filter", 64, .u8⟩, ⟨"tune_cents", 65, .cents⟩,
  ⟨"tune_semitones", 66, .s8⟩, ⟨"key_to_lfo_rate", 67, .s8⟩, ⟨"key_to_lfo_depth", 68, .s8⟩,
  ⟨"key_to_lfo_delay", 69, .s8⟩, ⟨"voice_output_scale_db", 70, .emap ["-6", "0", "12"] "0"⟩,
  ⟨"stereo_output_scale_db", 71, .emap ["0", "6"] "0"⟩]

def HEADER_BYTES : Nat := 72

/-- the fixed part of `KeygroupConstruct` before the zones (34 bytes). -/
def keygroupHead : List Field := [
  ⟨"block_id", 0, .u8⟩, ⟨"next_keygroup_address", 1, .u16⟩, ⟨"low_key", 3, .note⟩, ⟨"high_key", 4, .note⟩,
  ⟨"tune_cents", 5, .cents⟩, ⟨"tune_semitones", 6, .s8⟩, ⟨"filter_cutoff", 7, .u8⟩, ⟨"key_to_filter_cutoff", 8, .u8⟩,
  ⟨"velocity_to_filter_cutoff", 9, .s8⟩, ⟨"pressure_to_filter_cutoff", 10, .s8⟩, ⟨"env2_to_filter_cutoff", 11, .s8⟩,
  ⟨"env1_attack", 12, .u8⟩, ⟨"env1_decay", 13, .u8⟩, ⟨"env1_sustain", 14, .u8⟩, ⟨"env1_release", 15, .u8⟩,
  ⟨"env1_velocity_to_attack", 16, .s8⟩, ⟨"env1_velocity_to_release", 17, .s8⟩,
  ⟨"env1_off_velocity_to_release", 18, .s8⟩, ⟨"env1_key_to_decay_and_release", 19, .s8⟩,
  ⟨"env2_attack", 20, .u8⟩, ⟨"env2_decay", 21, .u8⟩, ⟨"env2_sustain", 22, .u8⟩, ⟨"env2_release", 23, .u8⟩,
  ⟨"env2_velocity_to_attack", 24, .s8⟩, ⟨"env2_velocity_to_release", 25, .s8⟩,
  ⟨"env2_off_velocity_to_release", 26, .s8⟩, ⟨"env2_key_to_decay_and_release", 27, .s8⟩,
  ⟨"velocity_to_env2_to_filter_cutoff", 28, .s8⟩, ⟨"env2_to_pitch", 29, .s8⟩,
  ⟨"velocity_zone_crossfade", 30, .bool⟩, ⟨"num_velocity_zones", 31, .u8⟩, ⟨"", 32, .pad 2⟩]

def KG_HEAD_BYTES : Nat := 34

/-- `VelocityZoneConstruct` (24 bytes). -/
def zoneLayout : List Field := [
  ⟨"sample_name", 0, .name⟩, ⟨"low_velocity", 12, .u8⟩, ⟨"high_velocity", 13, .u8⟩, ⟨"tune_cents", 14, .cents⟩,
  ⟨"tune_semitones", 15, .s8⟩, ⟨"loudness_offset", 16, .s8⟩, ⟨"filter_cutoff_offset", 17, .s8⟩,
  ⟨"pan_offset", 18, .s8⟩, ⟨"loop_mode", 19, .emap zoneLoopNames "Loop as sample"⟩,
  ⟨"", 20, .pad 2⟩, ⟨"", 22, .pad 1⟩, ⟨"", 23, .pad 1⟩]

def ZONE_BYTES : Nat := 24

/-- size of a keygroup with `nz` zone slots: head, zones, beat_detune, hold, three per-slot arrays
(1, 1 and 2 bytes per slot), velocity_to_volume_offset, one pad byte. -/
def kgSize (nz : Nat) : Nat := KG_HEAD_BYTES + ZONE_BYTES * nz + 2 + nz + nz + 2 * nz + 2

def s16 (v : Nat) : Int := if v < 32768 then v else (v : Int) - 65536

def str (s : String) : Item := .str s.toList

def intName (i : Int) : Name := (toString i).toList

/-- what `ls` shows for the stored byte `b` of a one-byte field (`none` = the construct raises). -/
def renderByte (k : Kind) (b : Nat) : Option Name :=
  match k with
  | .u8 => some (natChars b)
  | .s8 => some (intName (Smpl.Akai.s8 b))
  | .bool => some (if b = 0 then "False" else "True").toList
  | .note => some (Smpl.Codec.noteToString (Smpl.Codec.fromAkaiByte b))
  | .cents => some ("cents#".toList ++ intName (Smpl.Akai.s8 b))
  | .midich => some (if b = 255 then "Omni".toList else natChars b)
  | .aux => some (if b = 255 then "Off".toList else natChars b)
  | .enum names => (names[b]?).map String.toList
  | .emap names d => some (names[b]?.getD d).toList
  | _ => none

def Kind.oneByte : Kind → Bool
  | .u8 | .s8 | .bool | .note | .cents | .midich | .aux | .enum _ | .emap _ _ => true
  | _ => false

/-- one stored field as `ls` shows it (`none` = the construct raises: the file is not listed). -/
def render (c : Bytes) (base : Nat) (f : Field) : Option Item := do
  match f.kind with
  | .u16 => let b ← uN c (base + f.off) 2; pure (.str (natChars b))
  | .name => let raw ← rd c (base + f.off) 12; let n ← akaiStr raw; pure (.str n)
  | .temper => let raw ← rd c (base + f.off) 12; pure (.seq (raw.map fun b => .str (natChars b)))
  | .pad n => let _ ← rd c (base + f.off) n; pure (.str [])
  | k => let b ← uN c (base + f.off) 1; let s ← renderByte k b; pure (.str s)

/-- all fields of a layout, in order; `none` if any fails. -/
def renderAll (c : Bytes) (base : Nat) : List Field → Option (List (Name × Item))
  | [] => some []
  | f :: fs => do
    let v ← render c base f
    let rest ← renderAll c base fs
    pure ((f.name.toList, v) :: rest)

structure Keygroup where
  fields : List (Name × Item)       -- head fields (all of them, incl. the ones `ls` does not show)
  zones  : List (List (Name × Item))  -- the non-empty zones, in stored order, with the per-zone extras
  tail   : List (Name × Item)       -- beat_detune, hold_attack_until_loop, velocity_to_volume_offset
  next   : Nat
  size   : Nat

/-- `KeygroupConstruct` + `KeygroupAdapter` at byte `pos` of the file. -/
def parseKeygroup (c : Bytes) (pos : Nat) : Option Keygroup := do
  let head ← renderAll c pos keygroupHead
  let next ← uN c (pos + 1) 2
  let nz ← uN c (pos + 31) 1
  let zonesAll ← (List.range nz).mapM fun z => renderAll c (pos + KG_HEAD_BYTES + ZONE_BYTES * z) zoneLayout
  let active := zonesAll.filter fun z =>
    match z.head? with
    | some (_, .str n) => !n.isEmpty
    | _ => false
  let p1 := pos + KG_HEAD_BYTES + ZONE_BYTES * nz
  let beat ← render c p1 ⟨"beat_detune", 0, .s8⟩
  let hold ← render c p1 ⟨"hold_attack_until_loop", 1, .bool⟩
  let kt ← (List.range nz).mapM fun z => render c (p1 + 2) ⟨"", z, .bool⟩
  let ao ← (List.range nz).mapM fun z => render c (p1 + 2 + nz) ⟨"", z, .u8⟩
  let vs ← (List.range nz).mapM fun z => do
    let v ← uN c (p1 + 2 + 2 * nz + 2 * z) 2
    pure (Item.str (intName (s16 v)))
  let vvo ← render c (p1 + 2 + 4 * nz) ⟨"velocity_to_volume_offset", 0, .s8⟩
  let _ ← rd c (p1 + 3 + 4 * nz) 1
  -- SlicingGeneral: the first `active.length` entries of each per-slot array go with the active zones, by position
  let zones := (List.range active.length).filterMap fun j =>
    match active[j]?, kt[j]?, ao[j]?, vs[j]? with
    | some z, some a, some b, some d =>
      some ((z.filter fun (k, _) => !k.isEmpty) ++
        [("enable_key_tracking".toList, a), ("aux_out_offset".toList, b), ("velocity_to_sample_start".toList, d)])
    | _, _, _, _ => none
  pure ⟨head, zones, [("beat_detune".toList, beat), ("hold_attack_until_loop".toList, hold),
        ("velocity_to_volume_offset".toList, vvo)], next, kgSize nz⟩

/-- `KeygroupLinkConstruct[number_of_keygroups]`: follow the stored next address while it is
non-zero and this is not the last keygroup; otherwise continue right behind the keygroup. -/
def parseKeygroups (c : Bytes) (n : Nat) : Nat → Nat → Option (List Keygroup)
  | i, pos =>
    if h : i ≥ n then some []
    else
      match parseKeygroup c pos with
      | none => none
      | some kg =>
        let pos' := if kg.next > 0 ∧ i + 1 < n then kg.next else pos + kg.size
        match parseKeygroups c n (i + 1) pos' with
        | none => none
        | some rest => some (kg :: rest)
termination_by i _ => n - i

structure Program where
  header    : List (Name × Item)
  keygroups : List Keygroup

/-- `ProgramParser` over the file content. -/
def parse (c : Bytes) : Option Program := do
  let header ← renderAll c 0 headerLayout
  let first ← uN c 1 2
  let n ← uN c 42 1
  let pos := if first > 0 ∧ n > 0 then first else HEADER_BYTES
  let kgs ← parseKeygroups c n 0 pos
  pure ⟨header, kgs⟩

def hidden : List String := ["", "first_keygroup_address", "next_keygroup_address", "num_velocity_zones"]

/-- `Program` itemised: the header dataclass fields, the keygroups, the file name. -/
def items (fileName : Name) (p : Program) : Item :=
  let vis (l : List (Name × Item)) := l.filter fun (k, _) => !hidden.contains (String.ofList k)
  let kgItem (k : Keygroup) : Item :=
    .map (vis k.fields ++ k.tail ++ [("velocity_zones".toList, .seq (k.zones.map .map))])
  .map (vis p.header ++ [("keygroups".toList, .seq (p.keygroups.map kgItem)), ("file_name".toList, .str fileName)])

end Smpl.AkaiProgram
