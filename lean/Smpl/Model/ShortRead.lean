/-
Reading sample data through a sector chain when some of the chain's bytes are not in the file
(truncated image, chain running beyond the partition / the end of the file): properties C13, C15.

Python sources mirrored:
  util/sector.py   SectorStream._read: a sector read that returns fewer bytes than asked raises SectorReadError
  util/stream.py   StreamWrapper.read clips a request to the window; StreamReversed reads blocks from the end
  transcoder.py    PassthroughTranscoder / PipelineTranscoder: read blocks of 4096 bytes per mono 16-bit stream;
                   SectorReadError ends the data stream (StopIteration)
A chain's content is described in *declared* coordinates (sector k of the chain occupies
[k·L, (k+1)·L)); bytes that are not in the file are holes.
-/
import Smpl.Model.Basic

namespace Smpl.ShortRead

abbrev Bytes := List Nat

structure Holey where
  bytes : Bytes                    -- declared-length content; hole positions hold an arbitrary filler
  holes : List (Nat × Nat)         -- missing half-open intervals [x, y)
deriving Repr

/-- every byte of `[a, b)` is in the file. -/
def Holey.avail (h : Holey) (a b : Nat) : Bool :=
  h.holes.all fun (x, y) => y ≤ x || y ≤ a || b ≤ x || b ≤ a

def Holey.complete (h : Holey) : Bool := h.holes.all fun (x, y) => y ≤ x

/-- the chain content from per-sector pieces (each piece = the bytes of that sector present in the file). -/
def ofPieces (L : Nat) (pieces : List Bytes) : Holey :=
  let rec go : Nat → List Bytes → Bytes × List (Nat × Nat)
    | _, [] => ([], [])
    | k, p :: ps =>
      let (bs, hs) := go (k + 1) ps
      let q := p.take L
      (q ++ List.replicate (L - q.length) 0 ++ bs, if q.length < L then (k * L + q.length, (k + 1) * L) :: hs else hs)
  let (bs, hs) := go 0 pieces
  ⟨bs, hs⟩

/-- clip the declared length (a `StreamWrapper(size)` on top: bytes beyond `size` do not exist, silently). -/
def Holey.clip (h : Holey) (size : Nat) : Holey := ⟨h.bytes.take size, h.holes⟩

def READ_BLOCK : Nat := 4096

/-- how many of the blocks `k, k+1, …` (at most `n`) can be read in a row. -/
def countOk (p : Nat → Bool) : Nat → Nat → Nat
  | 0, _ => 0
  | n + 1, k => if p k then 1 + countOk p n (k + 1) else 0

/-- forward block reads of the window `[off, off+len)` (clipped to the declared length): blocks of
`READ_BLOCK` bytes from the window start, until the first block that touches a hole. -/
def readForward (h : Holey) (off len : Nat) : Bytes :=
  let W := min (off + len) h.bytes.length - off
  let nb := (W + READ_BLOCK - 1) / READ_BLOCK
  let m := countOk (fun k => h.avail (off + k * READ_BLOCK) (min (off + (k + 1) * READ_BLOCK) (off + W))) nb 0
  (h.bytes.drop off).take (min (m * READ_BLOCK) W)

/-- reverse the order of the 2-byte samples. -/
def reverseWords : Bytes → Bytes
  | a :: b :: rest => reverseWords rest ++ [a, b]
  | _ => []

/-- reversed block reads (StreamReversed, width 2) of a window that lies inside the declared
length: blocks from the *end* of the window, each reversed word-wise, until the first block that
touches a hole — i.e. the word-reversed tail of the window that the readable blocks cover. -/
def readReversed (h : Holey) (off len : Nat) : Bytes :=
  let nb := (len + READ_BLOCK - 1) / READ_BLOCK
  let m := countOk (fun k => h.avail (off + len - min ((k + 1) * READ_BLOCK) len) (off + len - k * READ_BLOCK)) nb 0
  let covered := min (m * READ_BLOCK) len
  reverseWords ((h.bytes.drop (off + len - covered)).take covered)

end Smpl.ShortRead
