/-
Layer L5 (part 1): cue sheet parsing (property C17; used by C03, C09).

Python source mirrored: smpl_extract/cuesheet.py
  get_nonempty_entry, CueSheetTrackAdapter.parse, CueSheetFileAdapter.parse, parse_cue_sheet
  and the four `re.match(…, flags=re.I)` line patterns
    TRACK  \s*TRACK\s+(\d+)\s+([A-z\d\/]+)
    TITLE  \s*TITLE\s+\"(.*?)\"
    INDEX  \s*INDEX\s+(\d+)\s+(\d+):(\d+):(\d+)
    FILE   \s*FILE\s+\"(.*?)\"\s+BINARY
Cue sheets are opened with encoding="ascii", so characters are ASCII; `\s`, `\d` and `str.strip`
are the ASCII tables below (regenerated and compared by the translator: Gen.Cue).
-/
import Smpl.Model.Basic
namespace Smpl.Cue

/-- Python `str.isspace` / regex `\s` on ASCII: TAB LF VT FF CR, FS GS RS US, SPACE. -/
def isWs (c : Char) : Bool :=
  let n := c.toNat
  (9 ≤ n && n ≤ 13) || (28 ≤ n && n ≤ 32)

def isDigit (c : Char) : Bool := 48 ≤ c.toNat && c.toNat ≤ 57

/-- ASCII lower-casing (`re.I` on ASCII text). -/
def lowerC (c : Char) : Char := if 65 ≤ c.toNat && c.toNat ≤ 90 then Char.ofNat (c.toNat + 32) else c

/-- the class `[A-z\d\/]` (under `re.I`): every code from 'A' to 'z', digits, '/'. -/
def isModeChar (c : Char) : Bool :=
  (65 ≤ c.toNat && c.toNat ≤ 122) || isDigit c || c == '/'

def stripL (s : List Char) : List Char := s.dropWhile isWs
/-- `str.strip()`. -/
def strip (s : List Char) : List Char := (stripL (stripL s).reverse).reverse

/-- case-insensitive keyword at the start of `s`; returns the rest. -/
def kw : List Char → List Char → Option (List Char)
  | [], s => some s
  | _ :: _, [] => none
  | k :: ks, c :: cs => if lowerC c == lowerC k then kw ks cs else none

/-- `\s+`: at least one blank; returns the rest. -/
def ws1 (s : List Char) : Option (List Char) :=
  match s with
  | c :: _ => if isWs c then some (s.dropWhile isWs) else none
  | [] => none

def digitsVal (ds : List Char) : Nat := ds.foldl (fun acc d => acc * 10 + (d.toNat - 48)) 0

/-- `(\d+)`: greedy run of digits, at least one; returns (`int(group)`, rest). -/
def digits1 (s : List Char) : Option (Nat × List Char) :=
  let ds := s.takeWhile isDigit
  if ds.isEmpty then none else some (digitsVal ds, s.dropWhile isDigit)

inductive Kind where
  | blank
  | file (name : List Char) (text : List Char)
  | track (n : Nat) (mode : List Char)
  | index (i m s f : Nat)
  | title (t : List Char)
  | other (text : List Char)
deriving DecidableEq, Repr

def matchTrack (s : List Char) : Option Kind := do
  let r ← kw "TRACK".toList (stripL s)
  let r ← ws1 r
  let (n, r) ← digits1 r
  let r ← ws1 r
  let mode := r.takeWhile isModeChar
  if mode.isEmpty then none else some (.track n mode)

def matchIndex (s : List Char) : Option Kind := do
  let r ← kw "INDEX".toList (stripL s)
  let r ← ws1 r
  let (i, r) ← digits1 r
  let r ← ws1 r
  let (m, r) ← digits1 r
  let r ← kw [':'] r
  let (sec, r) ← digits1 r
  let r ← kw [':'] r
  let (f, _) ← digits1 r
  some (.index i m sec f)

/-- `"(.*?)"`: text up to the first later quote. -/
def matchTitle (s : List Char) : Option Kind := do
  let r ← kw "TITLE".toList (stripL s)
  let r ← ws1 r
  let r ← kw ['"'] r
  if r.contains '"' then some (.title (r.takeWhile (· != '"'))) else none

/-- `"(.*?)"\s+BINARY`: the shortest name such that the closing quote is followed by blanks and
`BINARY` (the regex engine backtracks over later quotes). `acc` holds the name so far, reversed. -/
def fileName : List Char → List Char → Option (List Char)
  | _, [] => none
  | acc, c :: cs =>
    if c == '"' then
      match (ws1 cs).bind (kw "BINARY".toList) with
      | some _ => some acc.reverse
      | none => fileName (c :: acc) cs
    else fileName (c :: acc) cs

def matchFile (s : List Char) : Option Kind := do
  let r ← kw "FILE".toList (stripL s)
  let r ← ws1 r
  let r ← kw ['"'] r
  let n ← fileName [] r
  some (.file n s)

/-- one raw line → its kind (the four keywords are pairwise incompatible, so the order of the
attempts does not matter). -/
def classify (raw : List Char) : Kind :=
  let t := strip raw
  if t.isEmpty then .blank
  else
    match matchFile t with
    | some k => k
    | none =>
      match matchTrack t with
      | some k => k
      | none =>
        match matchIndex t with
        | some k => k
        | none =>
          match matchTitle t with
          | some k => k
          | none => .other t

structure Index where
  number : Nat
  m : Nat
  s : Nat
  f : Nat
deriving DecidableEq, Repr

structure Track where
  number   : Nat
  mode     : List Char
  title    : Option (List Char)
  indices  : List Index
  unparsed : List (List Char)
deriving DecidableEq, Repr

structure CueFile where
  binName : List Char
  tracks  : List Track
deriving DecidableEq, Repr

/-- the body of `CueSheetTrackAdapter.parse` after the TRACK line: consume until the next TRACK
line (left in place) or the end. -/
def trackBody (t : Track) : List Kind → Track × List Kind
  | [] => (t, [])
  | .blank :: rest => trackBody t rest
  | .track n m :: rest => (t, .track n m :: rest)
  | .index i m s f :: rest => trackBody { t with indices := t.indices ++ [⟨i, m, s, f⟩] } rest
  | .title x :: rest => trackBody { t with title := some x } rest
  | .file _ x :: rest => trackBody { t with unparsed := t.unparsed ++ [x] } rest
  | .other x :: rest => trackBody { t with unparsed := t.unparsed ++ [x] } rest

theorem trackBody_length (t : Track) (ks : List Kind) : (trackBody t ks).2.length ≤ ks.length := by
  induction ks generalizing t with
  | nil => simp [trackBody]
  | cons k ks ih =>
    cases k <;> simp only [trackBody] <;> first | exact Nat.le_succ_of_le (ih _) | simp

/-- `CueSheetFileAdapter.parse` after the FILE line: every following non-blank line must start a
track (`CueSheetTrackAdapter.parse` raises `BadCueSheet` otherwise). -/
def fileTracks : Nat → List Kind → Except Err (List Track)
  | 0, _ => .ok []
  | _ + 1, [] => .ok []
  | fuel + 1, .blank :: rest => fileTracks fuel rest
  | fuel + 1, .track n m :: rest =>
    let (t, rest') := trackBody ⟨n, m, none, [], []⟩ rest
    match fileTracks fuel rest' with
    | .ok ts => .ok (t :: ts)
    | .error e => .error e
  | _ + 1, _ :: _ => .error .badCue

/-- `parse_cue_sheet`: skip to the first FILE line; its parse consumes everything after it; the
first FILE entry is the result. -/
def parseKinds : List Kind → Except Err CueFile
  | [] => .error .badCue                                  -- "No FILE entry"
  | .file name _ :: rest =>
    match fileTracks (rest.length + 1) rest with
    | .ok ts => .ok ⟨name, ts⟩
    | .error e => .error e
  | _ :: rest => parseKinds rest

def parse (lines : List (List Char)) : Except Err CueFile := parseKinds (lines.map classify)

/-- what C17 calls the meaning of a cue sheet: everything but the `unparsed` lists. -/
def Track.meaning (t : Track) : Nat × List Char × Option (List Char) × List Index :=
  (t.number, t.mode, t.title, t.indices)

def CueFile.meaning (c : CueFile) := (c.binName, c.tracks.map Track.meaning)

end Smpl.Cue
