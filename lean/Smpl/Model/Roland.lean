/-
Layer L6 (Roland S-7xx): whole-image parsing, directory tree, sample parameters, export
(properties C02, C13, C14, C15, C20).

Python sources mirrored (smpl_extract/roland/s7xx/):
  image.py            IdAreaStruct / IdAreaAdapter (signature regexes), RolandS7xxImageStruct
  fat.py              FatAreaStruct / FatAreaAdapter (id, version flags, link decoding), get_file
  directory_area.py   DirectoryEntryStruct
  volume_entry.py     VolumeParamEntryStruct, VolumeEntryConstruct, VolumeEntriesList (orphan pseudo-volume)
  performance_entry.py, patch_entry.py, partial_entry.py, sample_entry.py   record addressing and pointer lists
  sample_file.py      loop mode -> data window, reversal, loop regions; SampleFileListAdapter
The image is accessed through `rd offset n` so that the driver can serve a 3 MB file without
turning it into a list first; `Img.ofBytes` is the list-backed image used in statements.
-/
import Smpl.Model.Basic
import Smpl.Model.ShortRead
import Smpl.Model.Alloc
import Smpl.Model.Names
import Smpl.Model.Wav
import Smpl.Model.Transcode

namespace Smpl.Roland
open Smpl Smpl.Alloc Smpl.Names

abbrev Bytes := List Nat

structure Img where
  size : Nat
  rd   : Nat → Nat → Option Bytes        -- `n` bytes at `offset`; none when the file is too short

def Img.ofBytes (b : Bytes) : Img :=
  { size := b.length, rd := fun off n => if off + n ≤ b.length then some ((b.drop off).take n) else none }

def CLUSTER : Nat := 0x2400
def FAT_OFF : Nat := 0x80800
def FAT_N : Nat := 0x10000
def DATA_FAT_OFF : Nat := 0x2b1000

inductive Kind where | vol | perf | patch | part | samp
deriving DecidableEq, Repr

def dirOff : Kind → Nat
  | .vol => 0xa0800 | .perf => 0xa1800 | .patch => 0xa5800 | .part => 0xad800 | .samp => 0xcd800
def parOff : Kind → Nat
  | .vol => 0x10d800 | .perf => 0x115800 | .patch => 0x155800 | .part => 0x1d5800 | .samp => 0x255800
def parSize : Kind → Nat
  | .vol => 0x100 | .perf => 0x200 | .patch => 0x200 | .part => 0x80 | .samp => 0x30
def maxNum : Kind → Nat
  | .vol => 0x80 | .perf => 0x200 | .patch => 0x400 | .part => 0x1000 | .samp => 0x2000

def leVal : Bytes → Nat
  | [] => 0
  | b :: bs => b + 256 * leVal bs

def s16 (v : Nat) : Int := if v < 32768 then v else (v : Int) - 65536

def words16 : Bytes → List Nat
  | a :: b :: rest => (a + 256 * b) :: words16 rest
  | _ => []

/-- `PaddedString(n, "ascii")`: strip trailing NULs, decode ASCII (`none` = UnicodeDecodeError). -/
def padded (raw : Bytes) : Option Name :=
  let s := (raw.reverse.dropWhile (· == 0)).reverse
  if s.all (· < 128) then some (s.map Char.ofNat) else none

/-! ## signature (ID area) -/

def isWs (c : Char) : Bool := Smpl.Names.isWs c
def lowerC (c : Char) : Char := if 65 ≤ c.toNat && c.toNat ≤ 90 then Char.ofNat (c.toNat + 32) else c
def isDigit (c : Char) : Bool := 48 ≤ c.toNat && c.toNat ≤ 57
/-- `[A-z]` -/
def isAz (c : Char) : Bool := 65 ≤ c.toNat && c.toNat ≤ 122

def kw : List Char → List Char → Option (List Char)
  | [], s => some s
  | _ :: _, [] => none
  | k :: ks, c :: cs => if lowerC c == lowerC k then kw ks cs else none

def ws1 (s : List Char) : Option (List Char) :=
  match s with
  | c :: _ => if isWs c then some (s.dropWhile isWs) else none
  | [] => none

/-- `\s*S7\d\d\s+MR25A` -/
def matchS7xx (s : List Char) : Bool :=
  match kw "S7".toList (s.dropWhile isWs) with
  | some (a :: b :: rest) =>
    isDigit a && isDigit b && ((ws1 rest).bind (kw "MR25A".toList)).isSome
  | _ => false

/-- `\s*Copyright\s+Roland` -/
def matchCopyright (s : List Char) : Bool :=
  ((kw "Copyright".toList (s.dropWhile isWs)).bind ws1 |>.bind (kw "Roland".toList)).isSome

/-- tails of a list (all suffixes). -/
def tails : List Char → List (List Char)
  | [] => [[]]
  | c :: cs => (c :: cs) :: tails cs

/-- after `…Disk`: `\s?([A-z\s]*?)\s+Ver\.?\s*(\d…)`: some suffix position, reachable through
`[A-z\s]` characters only, starts with blanks, `Ver`, optional dot, blanks, a digit. -/
def matchAfterDisk (s : List Char) : Bool :=
  let rec go : Nat → List Char → Bool
    | 0, _ => false
    | fuel + 1, t =>
      let here := match ws1 t with
        | some r =>
          match kw "Ver".toList r with
          | some r2 =>
            let r3 := match r2 with | '.' :: x => x | x => x
            match r3.dropWhile isWs with
            | d :: _ => isDigit d
            | [] => false
          | none => false
        | none => false
      -- a `\s+` may also start later inside a blank run: try every suffix reachable through [A-z\s]
      here || (match t with
        | c :: rest => (isAz c || isWs c) && go fuel rest
        | [] => false)
  go (s.length + 1) s

/-- `\s*([Ss][A-z]*-\d+)\s+([A-z\s\-]*?Disk)\s?([A-z\s]*?)\s+Ver\.?\s*(\d(\.\d+)?[\w-]*)\s*` (existence of a match). -/
def matchVersion (s : List Char) : Bool :=
  match s.dropWhile isWs with
  | c :: rest =>
    if lowerC c != 's' then false
    else
      let r1 := rest.dropWhile isAz
      match r1 with
      | '-' :: r2 =>
        let ds := r2.takeWhile isDigit
        if ds.isEmpty then false
        else
          match ws1 (r2.dropWhile isDigit) with
          | none => false
          | some r3 =>
            -- lazily extend a `[A-z\s\-]` prefix until "Disk" follows and the rest matches
            let rec scan : Nat → List Char → Bool
              | 0, _ => false
              | fuel + 1, t =>
                (match kw "Disk".toList t with
                  | some after => matchAfterDisk after
                  | none => false) ||
                (match t with
                  | c :: rest => (isAz c || isWs c || c == '-') && scan fuel rest
                  | [] => false)
            scan (r3.length + 1) r3
      | _ =>
        -- `[A-z]*` is greedy but may give characters back; '-' must follow some prefix of the run
        false
  | [] => false

/-- `is_roland_s7xx_image`: the ID area parses (all strings ASCII) and the three patterns match. -/
def isRoland (img : Img) : Bool :=
  match img.rd 0 286 with
  | none => false
  | some ida =>
    match padded ((ida.drop 4).take 10), padded ((ida.drop 16).take 15), padded ((ida.drop 32).take 31),
          padded ((ida.drop 64).take 31), padded ((ida.drop 256).take 16) with
    | some s7, some _, some ver, some cp, some _ => matchS7xx s7 && matchVersion ver && matchCopyright cp
    | _, _, _, _, _ => false

/-! ## records -/

structure DirRec where
  name     : Name
  ftype    : Nat
  fatEntry : Nat
deriving Repr

/-- `DirectoryEntryStruct` at `dirOff kind + 32·i`. -/
def dirRec (img : Img) (k : Kind) (i : Nat) : Option DirRec := do
  let raw ← img.rd (dirOff k + 32 * i) 32
  let name ← padded (raw.take 16)
  pure ⟨name, raw.getD 16 0, leVal ((raw.drop 28).take 2)⟩

/-- pointer lists: signed 16-bit, negatives dropped, `np.unique` (sorted, de-duplicated). -/
def ptrList (raw : Bytes) : List Nat :=
  let vals := (words16 raw).filterMap fun w => if w < 32768 then some w else none
  let sorted := vals.mergeSort (· ≤ ·)
  sorted.eraseDups

/-- the parameter record of `kind` at index `i` (whole record must be readable; name must be ASCII). -/
def parRec (img : Img) (k : Kind) (i : Nat) : Option Bytes := do
  let raw ← img.rd (parOff k + parSize k * i) (parSize k)
  let _ ← padded (raw.take 16)
  pure raw

structure SampleRec where
  index    : Nat
  name     : Name                 -- directory name
  pname    : Name                 -- parameter name
  fatEntry : Nat
  points   : List Nat             -- five raw u32 loop points (start, sus start, sus end, rel start, rel end)
  loopMode : Nat                  -- raw byte
  susEnable : Nat
  susTune  : Nat
  relTune  : Nat
  clusterTop : Nat
  options  : Nat                  -- raw option byte (mode nibble, frequency nibble)
  key      : Nat
deriving Repr

def freqOf : Nat → Option Nat
  | 0 => some 48000 | 1 => some 44100 | 2 => some 24000 | 3 => some 22050 | 4 => some 30000 | 5 => some 15000
  | _ => none

/-- `SampleEntryConstruct(i)`: validator `i < 8192`, directory and parameter records. -/
def sampleRec (img : Img) (i : Nat) : Option SampleRec := do
  if i ≥ maxNum .samp then none
  let d ← dirRec img .samp i
  let p ← img.rd (parOff .samp + 48 * i) 48
  let pname ← padded (p.take 16)
  let pts := (List.range 5).map fun k => leVal ((p.drop (16 + 4 * k)).take 4)
  let opt := p.getD 44 0
  let _ ← freqOf (opt % 16)                     -- MappingDefault without default: unknown nibble fails
  pure ⟨i, d.name, pname, d.fatEntry, pts, p.getD 36 0, p.getD 37 0, p.getD 38 0, p.getD 39 0,
        leVal ((p.drop 40).take 2), opt, p.getD 45 0⟩

structure Fat where
  version : Nat
  links   : List Link
deriving Repr

/-- `FatAreaAdapter._decode`: id word, version flags, link decoding. -/
def parseFat (img : Img) : Except Err Fat :=
  match img.rd FAT_OFF (2 * FAT_N) with
  | none => .error .construct
  | some raw =>
    let ws := words16 raw
    if ws.headD 0 ≠ 0xfffa then .error .construct
    else
      let f1 := ws.getD (FAT_N - 2) 0
      let f2 := ws.getD (FAT_N - 1) 0
      let ver : Except Err Nat :=
        if f1 ≠ 0xffff then (if f1 = 0xfffe then .ok 2 else .error .construct)
        else if f2 ≠ 0xffff then (if f2 = 0xfffe then .ok 2 else .error .construct)
        else .ok 1
      match ver with
      | .error e => .error e
      | .ok v =>
        match rolandDecode ws with
        | .error e => .error e
        | .ok links => .ok ⟨v, links⟩

/-- content of `fat.get_file(entry, cluster_top)`: the clusters of the chain after the first `top`. -/
def fileClusters (fat : Fat) (entry top : Nat) : Except Err (List Nat) :=
  match getPath fat.links FAT_N entry with
  | .error e => .error e
  | .ok path => .ok (path.drop top)

/-! ## tree -/

structure SampleNode where
  rec_ : SampleRec
  clusters : List Nat
deriving Repr

structure PatchNode where
  index : Nat
  name  : Name
  samples : List SampleNode       -- per patch, de-duplicated by sample index, in partial/slot order
deriving Repr

structure PerfNode where
  index : Nat
  name  : Name
  patches : List PatchNode
deriving Repr

structure VolNode where
  name  : Name
  perfs : List PerfNode
deriving Repr

/-- the up-to-four samples of one partial (`PartialEntryAdapter`): a slot is skipped when its
selection is negative or its record fails to parse; a chain error is not caught. -/
def partialSamples (img : Img) (fat : Fat) (r : Nat) : Except Err (Option (List SampleNode)) :=
  if r ≥ maxNum .part then .ok none
  else
    match dirRec img .part r, parRec img .part r with
    | some _, some p =>
      let slots := [16, 32, 48, 64].map fun o => leVal ((p.drop o).take 2)
      let rec go : List Nat → Except Err (List SampleNode)
        | [] => .ok []
        | w :: ws =>
          if w ≥ 32768 then go ws
          else
            match sampleRec img w with
            | none => go ws
            | some sr =>
              match fileClusters fat sr.fatEntry sr.clusterTop with
              | .error e => .error e
              | .ok cl =>
                match go ws with
                | .error e => .error e
                | .ok rest => .ok (⟨sr, cl⟩ :: rest)
      match go slots with
      | .error e => .error e
      | .ok l => .ok (some l)
    | _, _ => .ok none

def dedupSamples : List SampleNode → List Nat → List SampleNode
  | [], _ => []
  | s :: rest, seen => if seen.contains s.rec_.index then dedupSamples rest seen
                       else s :: dedupSamples rest (s.rec_.index :: seen)

def patchNode (img : Img) (fat : Fat) (q : Nat) : Except Err (Option PatchNode) :=
  if q ≥ maxNum .patch then .ok none
  else
    match dirRec img .patch q, parRec img .patch q with
    | some d, some p =>
      let parts := ptrList ((p.drop 256).take 176)
      let rec go : List Nat → Except Err (List SampleNode)
        | [] => .ok []
        | r :: rs =>
          match partialSamples img fat r with
          | .error e => .error e
          | .ok none => go rs
          | .ok (some l) =>
            match go rs with
            | .error e => .error e
            | .ok rest => .ok (l ++ rest)
      match go parts with
      | .error e => .error e
      | .ok all => .ok (some ⟨q, d.name, dedupSamples all []⟩)
    | _, _ => .ok none

def perfNode (img : Img) (fat : Fat) (f : Nat) : Except Err (Option PerfNode) :=
  if f ≥ maxNum .perf then .ok none
  else
    match dirRec img .perf f, parRec img .perf f with
    | some d, some p =>
      let patches := ptrList ((p.drop 256).take 64)
      let rec go : List Nat → Except Err (List PatchNode)
        | [] => .ok []
        | q :: qs =>
          match patchNode img fat q with
          | .error e => .error e
          | .ok none => go qs
          | .ok (some n) =>
            match go qs with
            | .error e => .error e
            | .ok rest => .ok (n :: rest)
      match go patches with
      | .error e => .error e
      | .ok ps => .ok (some ⟨f, d.name, ps⟩)
    | _, _ => .ok none

def perfNodes (img : Img) (fat : Fat) : List Nat → Except Err (List PerfNode)
  | [] => .ok []
  | f :: fs =>
    match perfNode img fat f with
    | .error e => .error e
    | .ok none => perfNodes img fat fs
    | .ok (some n) =>
      match perfNodes img fat fs with
      | .error e => .error e
      | .ok rest => .ok (n :: rest)

/-- the volumes named in the volume directory (SafeList over `num_volumes`), each with its pointer list. -/
def volumeHeads (img : Img) (numVolumes : Nat) : List (Name × List Nat) :=
  (List.range numVolumes).filterMap fun i =>
    if i ≥ maxNum .vol then none
    else
      match dirRec img .vol i, parRec img .vol i with
      | some d, some p => some (d.name, ptrList ((p.drop 32).take 128))
      | _, _ => none

/-- the orphan search parses the whole performance directory *sequentially* (`Pointer(area, SafeListConstruct(512,
DirectoryEntryParser))`): a record whose name does not decode has consumed only its 16 name bytes, so the
next slot is read 16 bytes early and, once the stream is back on a record boundary, every later record is seen
under a slot number that is too high. `n` slots remain, the next one is slot `i`, the stream stands at `pos`.
A short read leaves the stream at its end, so nothing parses after it. -/
def perfScan (img : Img) : Nat → Nat → Nat → List Nat
  | 0, _, _ => []
  | n + 1, i, pos =>
    match img.rd pos 16 with
    | none => []
    | some nm =>
      match padded nm with
      | none => perfScan img n (i + 1) (pos + 16)
      | some _ =>
        match img.rd (pos + 16) 16 with
        | none => []
        | some rest => (if rest.getD 0 0 == 0x41 then [i] else []) ++ perfScan img n (i + 1) (pos + 32)

/-- slot numbers under which the orphan search sees a record with the performance type byte. -/
def perfIndices (img : Img) : List Nat := perfScan img (maxNum .perf) 0 (dirOff .perf)

/-- the whole tree: named volumes, plus the orphan pseudo-volume when fewer distinct performances
are referenced than the ID area declares. -/
def tree (img : Img) : Except Err (List VolNode) :=
  match img.rd 276 4 with
  | none => .error .construct
  | some cnt =>
    let numVolumes := leVal (cnt.take 2)
    let numPerf := leVal (cnt.drop 2)
    match parseFat img with
    | .error e => .error e
    | .ok fat =>
      let heads := volumeHeads img numVolumes
      let referenced := (heads.flatMap (·.2)).mergeSort (· ≤ ·) |>.eraseDups
      let heads' :=
        if referenced.length < numPerf then
          let orphans := (perfIndices img).filter fun i => !referenced.contains i
          heads ++ [((if heads.isEmpty then "All Performances" else "_Orphan_perf").toList, orphans)]
        else heads
      let rec go : List (Name × List Nat) → Except Err (List VolNode)
        | [] => .ok []
        | (n, ptrs) :: rest =>
          match perfNodes img fat ptrs with
          | .error e => .error e
          | .ok ps =>
            match go rest with
            | .error e => .error e
            | .ok r => .ok (⟨n, ps⟩ :: r)
      go heads'

/-! ## sample window and loops -/

def address (raw : Nat) : Nat := raw / 256
def fine (raw : Nat) : Nat := raw % 256

/-- loop mode → (first word, number of words, reversed?) : modes 1 and 3 run to the release end,
the others to the sustain end; 5 and 6 are reversed. Unknown mode bytes behave as mode 0. -/
def sampleWindow (mode : Nat) (pts : List Nat) : Int × Int × Bool :=
  let start : Int := address (pts.getD 0 0)
  let susEnd : Int := address (pts.getD 2 0)
  let relEnd : Int := address (pts.getD 4 0)
  let m := if mode ≤ 6 then mode else 0
  let endp := if m = 1 ∨ m = 3 then relEnd else susEnd
  (start, endp - start + 1, m = 5 || m = 6)

/-- loop regions of `to_generalized`. -/
def loopRegions (mode : Nat) (pts : List Nat) : List Smpl.Wav.LoopRegion :=
  let a (k : Nat) : Int := address (pts.getD k 0)
  let rel (x : Int) : Int := if x - a 0 < 0 then 0 else x - a 0
  let m := if mode ≤ 6 then mode else 0
  let mk (s e : Int) (typ : Nat) (forever : Bool) : Smpl.Wav.LoopRegion := ⟨s, e, typ, forever, none, none⟩
  match m with
  | 0 => [mk (rel (a 1)) (rel (a 2)) 1 true]
  | 1 => [mk (rel (a 1)) (rel (a 2)) 1 false, mk (rel (a 3)) (rel (a 4)) 1 true]
  | 2 => []
  | 3 => [mk (rel (a 1)) (rel (a 2)) 1 false]
  | 4 => [mk (rel (a 1)) (rel (a 2)) 2 false]
  | 5 => []
  | _ => [mk (if a 2 - a 0 < 0 then 0 else a 2 - a 0) (if a 2 - a 1 < 0 then 0 else a 2 - a 1) 1 true]

/-- reverse the order of the 2-byte samples of a window (`StreamReversed`, width 2). -/
abbrev reverseWords : Bytes → Bytes := Smpl.ShortRead.reverseWords

/-- one cluster of the data area; the data-area window is clipped at the end of the file. -/
def clusterData (img : Img) (c : Nat) : Bytes :=
  let dataLen := img.size - DATA_FAT_OFF
  let off := c * CLUSTER
  if off ≥ dataLen then []
  else (img.rd (DATA_FAT_OFF + off) (min CLUSTER (dataLen - off))).getD []

/-- the bytes of a cluster chain, in chain order. -/
def chainContent (img : Img) (cl : List Nat) : Bytes := cl.flatMap (clusterData img)

/-- the window of a content selected by (start, n, reversed); a reversed window that reaches beyond
the data yields nothing (the first block read is short: after the `fix:` of D17). -/
def windowOf (content : Bytes) (start n : Int) (rev : Bool) : Option Bytes :=
  if n ≤ 0 then some []
  else
    let w := (content.drop (2 * start.toNat)).take (2 * n.toNat)
    if rev then (if w.length = 2 * n.toNat then some (reverseWords w) else some []) else some w

/-- the chain content in declared coordinates (cluster k of the chain at [k·9216, (k+1)·9216)),
with the bytes that are not in the file as holes. -/
def chainHoley (img : Img) (cl : List Nat) : Smpl.ShortRead.Holey :=
  Smpl.ShortRead.ofPieces CLUSTER (cl.map (clusterData img))

/-- bytes of a sample's data stream: its clusters (after `cluster_top`) from the data area,
the window selected by the loop mode, read in blocks (forward, or from the end for the reverse
modes); a block that touches bytes which are not in the file ends the stream.
A reversed window that reaches beyond the chain yields no audio (after the `fix:` of D17; the pinned
code raised a numpy reshape error that aborted the whole export). -/
def sampleData (img : Img) (s : SampleNode) : Option Bytes :=
  let (start, n, rev) := sampleWindow s.rec_.loopMode s.rec_.points
  let h := chainHoley img s.clusters
  if n ≤ 0 then some []
  else if rev then
    if 2 * (start.toNat + n.toNat) ≤ h.bytes.length then some (Smpl.ShortRead.readReversed h (2 * start.toNat) (2 * n.toNat))
    else some []                      -- the first block (at the end of the window) is short: the stream ends at once
  else some (Smpl.ShortRead.readForward h (2 * start.toNat) (2 * n.toNat))

def genSample (s : SampleNode) : Smpl.Wav.GenSample :=
  { rate := (freqOf (s.rec_.options % 16)).getD 48000, channels := 1, width := 2,
    loops := loopRegions s.rec_.loopMode s.rec_.points,
    note := some (Smpl.Codec.fromMidiByte s.rec_.key), semi := some 0, cents := some (Float.ofNat 0) }

end Smpl.Roland
