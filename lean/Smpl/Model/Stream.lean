/-
Layer L1: the byte-window classes over a shared store (properties C08, C11; used by C01–C03, C09, C15).

Python sources mirrored (observable interface `tell / seek(offset, whence) / read(size)`):
  smpl_extract/util/stream.py   StreamWrapper, StreamOffset, StreamReversed
  smpl_extract/util/sector.py   SectorStream  (after the `fix:` of D2: a zero-size `_read` returns b"")
  smpl_extract/util/fat.py      FileStream
  smpl_extract/alcohol/mdf.py   MdfStream

Objects live in one store indexed by object identity; every Python attribute that an operation
reads or writes (`position`, `true_size`) is a store cell, so sharing of substreams and leftover
cursor state are part of the model.  An operation always returns the store, also when it raises
(the Python object keeps whatever it had mutated before the exception).
-/
import Smpl.Model.Basic
namespace Smpl.Stream

abbrev Byte := Nat

structure Cell where
  pos   : Int            -- `self.position` (for the OS file / BytesIO: its cursor)
  tsize : Int            -- `self.true_size`
deriving Repr, DecidableEq, Inhabited

abbrev Store := Nat → Cell

def Store.set (s : Store) (i : Nat) (c : Cell) : Store := fun j => if j = i then c else s j

@[simp] theorem Store.set_same (s : Store) (i : Nat) (c : Cell) : (s.set i c) i = c := by
  simp [Store.set]
@[simp] theorem Store.set_other (s : Store) (i j : Nat) (c : Cell) (h : j ≠ i) :
    (s.set i c) j = s j := by
  simp [Store.set, h]

abbrev Res (α : Type) := Except Err α × Store

/-- the file-like interface every stream class offers to its users and to the class wrapped around it. -/
structure FileLike where
  tell : Store → Int
  seek : Int → Int → Store → Res Int            -- offset, whence (0 SET, 1 CUR, 2 END)
  read : Int → Store → Res (List Byte)          -- size ≥ 0  (size None / < 0 = readall: not modelled)

/-- Python slice `c[a : a+n]` for `a, n ≥ 0`. -/
def slice (c : List Byte) (a n : Int) : List Byte :=
  if a < 0 ∨ n < 0 then [] else (c.drop a.toNat).take n.toNat

/-! ## the underlying OS file (BytesIO / BufferedReader semantics) -/

def mkBase (c : List Byte) (i : Nat) : FileLike where
  tell s := (s i).pos
  seek off wh s :=
    if wh = 0 then
      if off < 0 then (.error .other, s)                 -- ValueError: negative seek value
      else (.ok off, s.set i { s i with pos := off })
    else if wh = 1 ∨ wh = 2 then
      let start : Int := if wh = 1 then (s i).pos else c.length
      let p := if start + off < 0 then 0 else start + off
      (.ok p, s.set i { s i with pos := p })
    else (.error .other, s)                              -- ValueError: invalid whence
  read n s :=
    let p := (s i).pos
    let r := slice c p n
    (.ok r, s.set i { s i with pos := p + r.length })

/-! ## `StreamWrapper` skeleton shared by all window classes -/

def clampPos (eof x : Int) : Int := if x > eof then eof else if x < 0 then 0 else x

/-- `StreamWrapper.seek`. `tr tsize addr` is `_translate_addr` (may raise; sees `true_size`). -/
def wrapSeek (sub : FileLike) (i : Nat) (eof : Int) (tr : Int → Int → Except Err Int)
    (off wh : Int) (s : Store) : Res Int :=
  let start : Int := if wh = 1 then (s i).pos else if wh = 2 then eof else 0
  let new := clampPos eof (start + off)
  let s1 := s.set i { s i with tsize := 0 }                       -- self.true_size = 0
  match tr 0 new with                                              -- self._seek(new_position)
  | .error e => (.error e, s1)
  | .ok a =>
    match sub.seek a 0 s1 with
    | (.error e, s2) => (.error e, s2)
    | (.ok _, s2) => (.ok new, s2.set i { s2 i with pos := new })  -- self.position = new_position

/-- `if expected_position != true_position: self._seek(self.position)`. -/
def syncSub (sub : FileLike) (expected : Int) (s1 : Store) : Res Unit :=
  if expected ≠ sub.tell s1 then
    match sub.seek expected 0 s1 with
    | (.error e, s2) => (.error e, s2)
    | (.ok _, s2) => (.ok (), s2)
  else (.ok (), s1)

/-- `StreamWrapper.read(size)` for `size ≥ 0`. `raw pos size` is `_read` (sees `self.position`). -/
def wrapRead (sub : FileLike) (i : Nat) (eof : Int) (tr : Int → Int → Except Err Int)
    (raw : Int → Int → Store → Res (List Byte)) (size : Int) (s : Store) : Res (List Byte) :=
  let pos := (s i).pos
  let ts0 := min (eof - pos) size                                  -- clip to the window (also an empty one)
  let ts := if ts0 < 0 then 0 else ts0
  let s1 := s.set i { s i with tsize := ts }
  match tr ts pos with
  | .error e => (.error e, s1)
  | .ok expected =>
    match syncSub sub expected s1 with
    | (.error e, s2) => (.error e, s2)
    | (.ok _, s2) =>
      match raw pos ts s2 with
      | (.error e, s3) => (.error e, s3)
      | (.ok bytes, s3) => (.ok bytes, s3.set i { s3 i with pos := pos + ts })

def trId : Int → Int → Except Err Int := fun _ a => .ok a

/-- plain `StreamWrapper(substream, size)`. -/
def mkWrap (sub : FileLike) (i : Nat) (eof : Int) : FileLike where
  tell s := (s i).pos
  seek := wrapSeek sub i eof trId
  read := wrapRead sub i eof trId (fun _ n s => sub.read n s)

/-- `StreamOffset(substream, size, offset)`. -/
def mkOffset (sub : FileLike) (i : Nat) (eof off : Int) : FileLike where
  tell s := (s i).pos
  seek := wrapSeek sub i eof (fun _ a => .ok (off + a))
  read := wrapRead sub i eof (fun _ a => .ok (off + a)) (fun _ n s => sub.read n s)

/-! ## sector streams -/

/-- the read plan of `SectorStream._read`: first partial sector, full middle sectors, last partial
sector — as (sector index, offset in sector, length) triples. Written greedily: each piece takes
`min(remaining, L − offset)`; `fuel` ≥ `size` (every piece holds ≥ 1 byte when `L > 0`). -/
def pieces (L : Nat) : Nat → Nat → Nat → List (Nat × Nat × Nat)
  | 0, _, _ => []
  | fuel + 1, pos, size =>
    if size = 0 then []
    else
      let off := pos % L
      let n := min size (L - off)
      (pos / L, off, n) :: pieces L fuel (pos + n) (size - n)

/-- `_read_sector` for each piece in turn: absolute seek on the substream, then read. -/
def readPieces (sub : FileLike) (addr : Nat → Nat → Except Err Int) :
    List (Nat × Nat × Nat) → Store → Res (List Byte)
  | [], s => (.ok [], s)
  | (idx, off, n) :: rest, s =>
    match addr idx off with
    | .error e => (.error e, s)
    | .ok a =>
      match sub.seek a 0 s with
      | (.error e, s1) => (.error e, s1)
      | (.ok _, s1) =>
        match sub.read n s1 with
        | (.error e, s2) => (.error e, s2)
        | (.ok b, s2) =>
          match readPieces sub addr rest s2 with
          | (.error e, s3) => (.error e, s3)
          | (.ok bs, s3) => (.ok (b ++ bs), s3)

/-- `SectorStream._read(size)`: all pieces, then `len(result) != size → SectorReadError`.
(`size = 0` reads nothing — the repaired behaviour; before the fix it indexed the sector list.) -/
def sectorRaw (sub : FileLike) (L : Nat) (addr : Nat → Nat → Except Err Int)
    (pos size : Int) (s : Store) : Res (List Byte) :=
  if size ≤ 0 then (.ok [], s) else
  match readPieces sub addr (pieces L size.toNat pos.toNat size.toNat) s with
  | (.error e, s1) => (.error e, s1)
  | (.ok bs, s1) => if (bs.length : Int) ≠ size then (.error .sectorRead, s1) else (.ok bs, s1)

/-- `SectorStream(parent, size, sector_length)`: `_translate_addr` is the identity (the class
defines `_translate_address`, which nothing calls). -/
def mkSector (sub : FileLike) (i : Nat) (eof : Int) (L : Nat) : FileLike where
  tell s := (s i).pos
  seek := wrapSeek sub i eof trId
  read := wrapRead sub i eof trId (sectorRaw sub L fun idx off => .ok ((idx * L + off : Nat) : Int))

/-- `FileStream(parent, sector_size, sector_list)`: size = sector_size · len(sector_list);
`sector_list[idx]` raises `IndexError` beyond the chain. -/
def chainAddr (L : Nat) (secs : List Nat) (idx off : Nat) : Except Err Int :=
  match secs[idx]? with
  | none => .error .index
  | some sct => .ok ((sct * L + off : Nat) : Int)

def mkChain (sub : FileLike) (i : Nat) (L : Nat) (secs : List Nat) : FileLike where
  tell s := (s i).pos
  seek := wrapSeek sub i ((L * secs.length : Nat) : Int) trId
  read := wrapRead sub i ((L * secs.length : Nat) : Int) trId (sectorRaw sub L (chainAddr L secs))

def MDF_SECTOR : Nat := 2352
def MDF_HEADER : Nat := 16
def MDF_BODY : Nat := 2048

/-- `MdfStream(parent)`: `eof = (parent_size // 2352) · 2048` is computed by the caller. -/
def mkMdf (sub : FileLike) (i : Nat) (eof : Int) : FileLike where
  tell s := (s i).pos
  seek := wrapSeek sub i eof trId
  read := wrapRead sub i eof trId
    (sectorRaw sub MDF_BODY fun idx off => .ok ((idx * MDF_SECTOR + MDF_HEADER + off : Nat) : Int))

/-! ## `StreamReversed` -/

/-- `StreamReversed._translate_addr`: needs the size of the read in flight (`true_size`). -/
def revTr (eof : Int) (w : Nat) (ts addr : Int) : Except Err Int :=
  if ts % (w : Int) ≠ 0 then .error .badReadSize
  else
    let t := eof - (addr + ts)
    if t % (w : Int) ≠ 0 then .error .badAlign else .ok t

/-- split into rows of `w` bytes (`np.reshape(arr, [rows, w])`). -/
def chunks (w : Nat) : Nat → List Byte → List (List Byte)
  | 0, _ => []
  | rows + 1, l => l.take w :: chunks w rows (l.drop w)

/-- `StreamReversed._read`: read forward, flip the rows (samples), flatten. -/
def revRaw (sub : FileLike) (w : Nat) (_pos size : Int) (s : Store) : Res (List Byte) :=
  match sub.read size s with
  | (.error e, s1) => (.error e, s1)
  | (.ok raw, s1) =>
    let rows := size.toNat / w
    if raw.length ≠ size.toNat then (.error .sectorRead, s1)      -- the window reaches beyond the data (after the `fix:` of D17)
    else if w = 0 ∨ raw.length ≠ rows * w then (.error .other, s1)     -- numpy reshape ValueError
    else (.ok (chunks w rows raw).reverse.flatten, s1)

def mkRev (sub : FileLike) (i : Nat) (eof : Int) (w : Nat) : FileLike where
  tell s := (s i).pos
  seek := wrapSeek sub i eof (revTr eof w)
  read := wrapRead sub i eof (revTr eof w) (revRaw sub w)

/-! ## running operation histories -/

inductive Op where
  | tell
  | seek (off wh : Int)
  | read (n : Int)
deriving Repr, DecidableEq

inductive Out where
  | pos (p : Int)
  | bytes (b : List Byte)
  | err (e : Err)
deriving Repr, DecidableEq

def runOp (f : FileLike) (op : Op) (s : Store) : Out × Store :=
  match op with
  | .tell => (.pos (f.tell s), s)
  | .seek off wh =>
    match f.seek off wh s with
    | (.ok p, s') => (.pos p, s')
    | (.error e, s') => (.err e, s')
  | .read n =>
    match f.read n s with
    | (.ok b, s') => (.bytes b, s')
    | (.error e, s') => (.err e, s')

/-- a schedule: operations on several objects (by index into `objs`) over one shared store. -/
def runSched (objs : List FileLike) : List (Nat × Op) → Store → List Out × Store
  | [], s => ([], s)
  | (k, op) :: rest, s =>
    match objs[k]? with
    | none => runSched objs rest s
    | some f =>
      let (o, s1) := runOp f op s
      let (os, s2) := runSched objs rest s1
      (o :: os, s2)

def store0 : Store := fun _ => { pos := 0, tsize := 0x1000 }   -- position = 0, true_size = buffer_length

end Smpl.Stream
