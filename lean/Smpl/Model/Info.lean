/-
`ls` rendering (properties C10, C20): InfoTable.print_table and InfoTree.print_tree.
Python source mirrored: smpl_extract/info.py, smpl_extract/util/dataclass.py (itemize_general), elements.py.
-/
import Smpl.Model.Names
namespace Smpl.Info
open Smpl.Names

/-- the item structure `itemize` produces: a string, a mapping (ordered), or a sequence. -/
inductive Item where
  | str (s : Name)
  | map (kvs : List (Name × Item))
  | seq (xs : List Item)

def ljust (s : Name) (w : Nat) : Name := s ++ List.replicate (w - s.length) ' '

/-- `InfoTable.print_table` for 2-column rows (header ("Item","Type")); lines without the final newline handling of print(). -/
def table (header : Name × Name) (rows : List (Name × Name)) : List Name :=
  if rows.isEmpty then ["(*empty*)".toList]
  else
    let all := rows ++ [header]
    let w0 := all.foldl (fun w r => max w r.1.length) 20
    let w1 := all.foldl (fun w r => max w r.2.length) 20
    let line (r : Name × Name) : Name := ljust r.1 w0 ++ [' '] ++ ljust r.2 w1
    [line header, List.replicate (w0 + w1 + 1) '-'] ++ rows.map line

structure Row where
  content : List Name
  depth   : Nat

def idxKey (prev : Name) (i : Nat) : Name := prev ++ ['['] ++ natChars i ++ [']']

def itemLen : Item → Nat
  | .str s => s.length
  | .map kvs => kvs.length
  | .seq xs => xs.length

mutual
/-- `build_inner`: one row per key; containers are expanded one level deeper. -/
def rowsOf : Item → Nat → Name → List Row
  | .str _, _, _ => []
  | .map kvs, depth, _ => rowsKvs kvs depth
  | .seq xs, depth, prev => rowsSeq xs depth prev 0

def rowsKvs : List (Name × Item) → Nat → List Row
  | [], _ => []
  | (k, v) :: rest, depth =>
    let head : Row := match v with
      | .str s => ⟨[k ++ [':'], s], depth⟩
      | _ => if itemLen v = 0 then ⟨[k ++ [':'], "None".toList], depth⟩ else ⟨[k ++ [':']], depth⟩
    head :: (rowsOf v (depth + 1) k ++ rowsKvs rest depth)

def rowsSeq : List Item → Nat → Name → Nat → List Row
  | [], _, _, _ => []
  | v :: rest, depth, prev, i =>
    let k := idxKey prev i
    let head : Row := match v with
      | .str s => ⟨[k ++ [':'], s], depth⟩
      | _ => if itemLen v = 0 then ⟨[k ++ [':'], "None".toList], depth⟩ else ⟨[k ++ [':']], depth⟩
    head :: (rowsOf v (depth + 1) k ++ rowsSeq rest depth prev (i + 1))
end

def joinSp (xs : List Name) : Name := (List.intersperse [' '] xs).flatten

/-- `InfoTree.print_tree`: header row, divider, rows; 80-column cut, 300-row cap. -/
def treeLines (header : List Name) (items : Item) : List Name :=
  let rows : List (Option Row) := some ⟨header, 0⟩ :: none :: (rowsOf items 0 []).map some
  let render (r : Option Row) : Name :=
    match r with
    | none => List.replicate 80 '-'
    | some row =>
      let line := joinSp (List.replicate row.depth [' '] ++ row.content)
      if line.length > 80 then line.take 77 ++ "...".toList else line
  let shown := (rows.take 301).map render
  if rows.length > 301 then shown ++ [[], "(...) exceeded 300 lines".toList] else shown

end Smpl.Info
