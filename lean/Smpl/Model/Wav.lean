/-
Layer L3 (part 2): RIFF/WAVE assembly (property C04; used by C01–C03, C05, C15).

Python sources mirrored:
  smpl_extract/formats/wav.py      RiffStruct / WavRiffBodyStruct / WavRiffChunkStruct (nested Prefixed(Int32ul, …)),
                                   WavFormatChunkStruct (Rebuild byte_rate, block_align), WavSampleChunkStruct, WavLoopStruct
  smpl_extract/generalized/wav.py  WavSampleAdapter._encode (which chunks, in which order), get_fmt_chunk_data,
                                   get_smpl_chunk_data, get_smpl_normalized_pitch

Every integer field is range-checked as `struct.pack` does (out of range ⇒ construct error), so
"export succeeds" is the `.ok` branch.
-/
import Smpl.Model.Basic
import Smpl.Model.Codec
namespace Smpl.Wav

abbrev Byte := Nat

def u16n (v : Nat) : Except Err (List Byte) :=
  if v < 65536 then .ok [v % 256, v / 256] else .error .construct

def u32n (v : Nat) : Except Err (List Byte) :=
  if v < 4294967296 then .ok [v % 256, v / 256 % 256, v / 65536 % 256, v / 16777216]
  else .error .construct

/-- `Int32ul.build` of a Python int (negative ⇒ `struct.error` ⇒ construct error). -/
def u32 (v : Int) : Except Err (List Byte) :=
  if 0 ≤ v then u32n v.toNat else .error .construct

structure Loop where
  cueId   : Int
  typ     : Int            -- WavLoopType value
  start   : Int
  end_    : Int
  frac    : Int
  playCnt : Int
deriving Repr, DecidableEq

structure Smpl where
  period   : Int           -- round(1e9 / rate)
  note     : Int           -- adjusted MIDI note byte
  fraction : Int           -- normalised cents
  loops    : List Loop
deriving Repr, DecidableEq

structure Meta where
  channels : Nat           -- dest_encoding.num_interleaved_channels = sample.num_channels
  rate     : Nat           -- sample.sample_rate (unsigned header field / constant)
  bits     : Nat           -- 8 * sample_width
  smpl     : Option Smpl   -- present iff note/semi/cents is not None or there are loop regions
deriving Repr, DecidableEq

def FMT  : List Byte := [0x66, 0x6d, 0x74, 0x20]    -- "fmt "
def SMPL : List Byte := [0x73, 0x6d, 0x70, 0x6c]    -- "smpl"
def DATA : List Byte := [0x64, 0x61, 0x74, 0x61]    -- "data"
def RIFF : List Byte := [0x52, 0x49, 0x46, 0x46]
def WAVE : List Byte := [0x57, 0x41, 0x56, 0x45]

/-- `WavFormatChunkStruct` (16 bytes): `byte_rate` and `block_align` are rebuilt from the other fields. -/
def fmtBody (m : Meta) : Except Err (List Byte) := do
  let a ← u16n 1
  let c ← u16n m.channels
  let r ← u32n m.rate
  let br ← u32n (m.rate * m.channels * m.bits / 8)
  let ba ← u16n (m.channels * m.bits / 8)
  let b ← u16n m.bits
  pure (a ++ c ++ r ++ br ++ ba ++ b)

def loopBody (l : Loop) : Except Err (List Byte) := do
  let a ← u32 l.cueId
  let b ← u32 l.typ
  let c ← u32 l.start
  let d ← u32 l.end_
  let e ← u32 l.frac
  let f ← u32 l.playCnt
  pure (a ++ b ++ c ++ d ++ e ++ f)

def loopsBody : List Loop → Except Err (List Byte)
  | [] => .ok []
  | l :: ls => do
    let a ← loopBody l
    let r ← loopsBody ls
    pure (a ++ r)

/-- `WavSampleChunkStruct`: 9 × u32 header (loop count and sampler-data size rebuilt), loops, 0 sampler bytes. -/
def smplBody (s : Smpl) : Except Err (List Byte) := do
  let z ← u32 0
  let p ← u32 s.period
  let n ← u32 s.note
  let f ← u32 s.fraction
  let cnt ← u32n s.loops.length
  let ls ← loopsBody s.loops
  pure (z ++ z ++ p ++ n ++ f ++ z ++ z ++ cnt ++ z ++ ls)

/-- `WavRiffChunkStruct`: id, `Prefixed(Int32ul, body)`. -/
def chunk (id : List Byte) (body : List Byte) : Except Err (List Byte) := do
  let n ← u32n body.length
  pure (id ++ n ++ body)

/-- `RiffStruct.build`: "RIFF", length prefix, "WAVE", fmt chunk, optional smpl chunk, data chunk. -/
def buildWav (m : Meta) (pcm : List Byte) : Except Err (List Byte) := do
  let f ← fmtBody m
  let fc ← chunk FMT f
  let sc ← match m.smpl with
    | none => pure []
    | some s => do
      let b ← smplBody s
      chunk SMPL b
  let dc ← chunk DATA pcm
  let body := WAVE ++ fc ++ sc ++ dc
  let n ← u32n body.length
  pure (RIFF ++ n ++ body)

/-! ## smpl chunk contents (doubles, as CPython) -/

/-- Python `round(x)` for a double: half to even, symmetric in sign. -/
def pyRound (x : Float) : Int :=
  if x < Float.ofNat 0 then -((Smpl.Codec.pyRoundNonneg (-x) : Nat) : Int)
  else ((Smpl.Codec.pyRoundNonneg x : Nat) : Int)

/-- `round(1e9 / rate)` for `rate > 0`. -/
def samplePeriod (rate : Nat) : Int := pyRound (Float.ofScientific 1 false 9 / Float.ofNat rate)

/-- `get_smpl_normalized_pitch(semi, cents)`: `(note_offset, cents_normalized)`.
`comb = 50*semi + cents`; Python float `//` and `%` by 100 (floor semantics). -/
def normalizedPitch (semi : Int) (cents : Float) : Int × Int :=
  let comb := Float.ofInt (50 * semi) + cents
  let k := (comb / Float.ofNat 100).floor
  let off := comb - Float.ofNat 100 * k
  let centsDiv := Float.ofNat 0x80000000 / Float.ofNat 50
  (k.toInt64.toInt, pyRound (off * centsDiv))

/-- `generalized.sample.LoopRegion` (the fields the WAV writer reads). -/
structure LoopRegion where
  start         : Int
  end_          : Int
  typ           : Nat              -- 1 FORWARD, 2 ALTERNATING, 3 REVERSE (enum.auto); anything else maps to FORWARD
  repeatForever : Bool
  playCnt       : Option Int
  duration      : Option Float

/-- `generalized.sample.Sample` (the fields the WAV writer reads). -/
structure GenSample where
  rate     : Nat
  channels : Nat
  width    : Nat
  loops    : List LoopRegion
  note     : Option Smpl.Codec.Note
  semi     : Option Int
  cents    : Option Float

def wavLoopType (t : Nat) : Int := if t = 2 then 1 else if t = 3 then 2 else 0

/-- the loop headers of `get_smpl_chunk_data` (`enumerate` index as cue id; a zero-length loop that is
not repeated forever is skipped). -/
def loopHeaders (rate : Nat) : Nat → List LoopRegion → List Loop
  | _, [] => []
  | i, l :: ls =>
    let rest := loopHeaders rate (i + 1) ls
    let mk (pc : Int) : Loop := ⟨i, wavLoopType l.typ, l.start, l.end_, 0, pc⟩
    match l.playCnt with
    | some pc => mk pc :: rest
    | none =>
      match l.repeatForever, l.duration with
      | false, some d =>
        let total := Float.ofInt (l.end_ - l.start) / Float.ofNat rate
        if total == Float.ofNat 0 then rest else mk (pyRound (d / total)) :: rest
      | _, _ => mk 0 :: rest

/-- `requires_smpl_chunk` and `get_smpl_chunk_data`. -/
def smplOf (g : GenSample) : Option Smpl :=
  if g.note.isNone && g.semi.isNone && g.cents.isNone && g.loops.isEmpty then none
  else
    let rate := if g.rate = 0 then 44100 else g.rate
    let (noteOff, frac) := normalizedPitch (g.semi.getD 0) (g.cents.getD (Float.ofNat 0))
    let base : Int := match g.note with
      | some n => (Smpl.Codec.toMidiByte n).getD 0
      | none => 72                                                   -- MidiNote.from_string("C4").to_midi_byte()
    -- the unity note is clamped to the MIDI range 0..127 (fix 15: a low root note with a large negative tuning)
    let raw := base + noteOff
    let clamped : Int := if raw < 0 then 0 else if raw > 127 then 127 else raw
    some { period := samplePeriod rate, note := clamped, fraction := frac,
           loops := loopHeaders rate 0 g.loops }

def metaOf (g : GenSample) : Meta :=
  { channels := g.channels, rate := g.rate, bits := 8 * g.width, smpl := smplOf g }

end Smpl.Wav
