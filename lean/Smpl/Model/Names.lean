/-
Layer L4: name sanitising, sibling de-duplication, stereo pairing, path tokenising and lookup
(properties C05, C06, C10).

Python sources mirrored:
  smpl_extract/structural.py  Image.make_safe_name / make_export_name / _add_count_to_name /
                              sanitize_names_general / combine_stereo_routine, Traversable.parse_path
  smpl_extract/akai/image.py  AkaiImageParser._sanitize_string
  smpl_extract/base.py        Element.export_path
All names the three front ends produce are ASCII (AKAI character set, Roland "ascii" strings, cue
sheets opened as ASCII), so `\w`, `\s`, `str.strip`, `str.upper` are the ASCII tables below
(regenerated and compared by the translator: Gen.Names).
-/
import Smpl.Model.Basic
namespace Smpl.Names

abbrev Name := List Char

/-- regex `\w` on ASCII: letters, digits, underscore. -/
def isWord (c : Char) : Bool :=
  let n := c.toNat
  (48 ≤ n && n ≤ 57) || (65 ≤ n && n ≤ 90) || (97 ≤ n && n ≤ 122) || n == 95

/-- regex `\s` / `str.isspace` on ASCII. -/
def isWs (c : Char) : Bool :=
  let n := c.toNat
  (9 ≤ n && n ≤ 13) || (28 ≤ n && n ≤ 32)

def stripL (s : Name) : Name := s.dropWhile isWs
def strip (s : Name) : Name := (stripL (stripL s).reverse).reverse

def upperC (c : Char) : Char := if 97 ≤ c.toNat && c.toNat ≤ 122 then Char.ofNat (c.toNat - 32) else c

/-- characters kept by `_INVALID_CHARS_REPLACE`'s first alternative: `[\w\-=\:.@#&+ ]`. -/
def safeKeep (c : Char) : Bool :=
  isWord c || c == '-' || c == '=' || c == ':' || c == '.' || c == '@' || c == '#' || c == '&' ||
  c == '+' || c == ' '

/-- characters kept by `_INVALID_FILE_NAME`: `[\w\-\.# ]`. -/
def exportKeep (c : Char) : Bool := isWord c || c == '-' || c == '.' || c == '#' || c == ' '

def isQuote (c : Char) : Bool := c == '\'' || c == '"' || c == '`'

theorem dropWhile_length_le (p : Char → Bool) (l : List Char) : (l.dropWhile p).length ≤ l.length := by
  induction l with
  | nil => simp
  | cons c cs ih =>
    simp only [List.dropWhile_cons]
    split
    · exact Nat.le_succ_of_le ih
    · exact Nat.le_refl _

/-- `re.sub(pattern+, " ", s)` for a character-class pattern: every maximal run of characters
outside `keep` becomes one blank. -/
def subRuns (keep : Char → Bool) : Name → Name
  | [] => []
  | c :: cs => if keep c then c :: subRuns keep cs else ' ' :: subRuns keep (cs.dropWhile (fun x => !keep x))
termination_by s => s.length
decreasing_by
  all_goals simp_wf
  all_goals first
    | omega
    | (have := dropWhile_length_le (fun x => !keep x) cs; omega)

/-- `_INVALID_CHARS_REPLACE.sub(" ", s)`: runs outside `safeKeep` become one blank, and a run of
colons that is *not preceded by a word character* becomes one blank (`(?<!\w)\:+`).
`prev` is the previous character of the original string. -/
def safeReplace : Option Char → Name → Name
  | _, [] => []
  | prev, c :: cs =>
    if !safeKeep c then ' ' :: safeReplace none (cs.dropWhile (fun x => !safeKeep x))
    else if c == ':' && !(prev.map isWord).getD false then
      ' ' :: safeReplace (some ':') (cs.dropWhile (· == ':'))
    else c :: safeReplace (some c) cs
termination_by _ s => s.length
decreasing_by
  all_goals simp_wf
  all_goals first
    | omega
    | (have := dropWhile_length_le (fun x => !safeKeep x) cs; omega)
    | (have := dropWhile_length_le (· == ':') cs; omega)

/-- `make_safe_name`: drop quotes, replace, strip. -/
def makeSafeName (name : Name) : Name :=
  strip (safeReplace none (name.filter (!isQuote ·)))

/-- `_SAFE_ENDING` = `(.+?)\s*\.?\s*$` on a stripped string: drop trailing blanks, then one optional
dot, then blanks again — but keep at least one character. -/
def dropDot : Name → Name
  | '.' :: rest => rest.dropWhile isWs
  | r => r

def safeEnding (s : Name) : Name :=
  let r1 := dropDot (s.reverse.dropWhile isWs)
  if r1.isEmpty then
    -- `(.+?)` needs one character: the shortest admissible group is the first character
    s.take 1
  else r1.reverse

def expBase (name : Name) : Name := strip (subRuns exportKeep name)
def expEnding (e0 : Name) : Name := if e0.isEmpty then e0 else safeEnding e0
def expNonEmpty (e1 : Name) : Name := if e1.isEmpty then ['0'] else e1
def expWordHead : Name → Name
  | [] => []
  | c :: cs => if isWord c then c :: cs else '0' :: c :: cs
def expDirTail (isFile : Bool) (e3 : Name) : Name :=
  if isFile then e3
  else
    match e3.getLast? with
    | some c => if c == '.' || c == '-' then e3 ++ ['0'] else e3
    | none => e3

/-- `make_export_name(name, is_file)` (the replacement is applied to the raw name):
replace, strip, `_SAFE_ENDING`, empty ↦ "0", non-word first character ↦ prefix "0",
directories ending in `.` or `-` get a "0" appended. -/
def makeExportName (name : Name) (isFile : Bool) : Name :=
  expDirTail isFile (expWordHead (expNonEmpty (expEnding (expBase name))))

def isSep (c : Char) : Bool := isWs c || c == '-'

/-- `_STEREO_FILENAME` = `(.*?)([\s-]+)(L|R)\s*$`: (stem, separator run, side).
`.` does not match a line feed: a stem that contains one cannot be matched (names of real images never do). -/
def stereoMatch (s : Name) : Option (Name × Name × Char) :=
  let r := s.reverse.dropWhile isWs
  match r with
  | side :: rest =>
    if side == 'L' || side == 'R' then
      let sep := rest.takeWhile isSep
      let stem := (rest.dropWhile isSep).reverse
      if sep.isEmpty || stem.any (· == '\n') then none
      else some (stem, sep.reverse, side)
    else none
  | [] => none

def natChars (n : Nat) : Name := (toString n).toList

/-- `_add_count_to_name`. -/
def addCount (name : Name) (n : Nat) : Name :=
  let cnt := '(' :: (natChars n ++ [')'])
  match stereoMatch name with
  | some (stem, _, side) => stem ++ [' '] ++ cnt ++ [' ', side]
  | none => name ++ [' '] ++ cnt

/-! ## sibling de-duplication (`sanitize_names_general`, after the `fix:` of D3) -/

/-- group elements by candidate name, in first-occurrence order (a Python dict of lists).
Elements are identified by their index. -/
def groupBy (cands : List Name) : List (Name × List Nat) :=
  let rec go (i : Nat) (acc : List (Name × List Nat)) : List Name → List (Name × List Nat)
    | [] => acc
    | c :: cs =>
      let acc' := if acc.any (·.1 == c)
        then acc.map fun (k, v) => if k == c then (k, v ++ [i]) else (k, v)
        else acc ++ [(c, [i])]
      go (i + 1) acc' cs
  go 0 [] cands

/-- the `while next_name in used` loop: first count `i' ≥ i` (stepping by one) whose name is free;
gives up after `fuel` steps (`CouldNotDetermineName`). -/
def nextFree (name : Name) (used : List Name) : Nat → Nat → Option (Nat × Name)
  | 0, _ => none
  | fuel + 1, i =>
    let cand := addCount name i
    if used.contains cand then nextFree name used fuel (i + 1) else some (i, cand)

/-- assign names to the members of one group (the first keeps the candidate name). -/
def assignGroup (name : Name) : List Nat → Nat → List Name → List (Nat × Name) → Except Err (List Name × List (Nat × Name))
  | [], _, used, out => .ok (used, out)
  | e :: es, i, used, out =>
    let i1 := i + 1
    if i1 > 1 then
      match nextFree name used (used.length + 2) i1 with
      | none => .error .name
      | some (i2, nm) => assignGroup name es i2 (nm :: used) (out ++ [(e, nm)])
    else assignGroup name es i1 used (out ++ [(e, name)])

/-- `sanitize_names_general` on the candidate names of the siblings; result: assigned name per
element index, in element order. -/
def dedupe (cands : List Name) : Except Err (List Name) :=
  let groups := groupBy cands
  let rec loop : List (Name × List Nat) → List Name → List (Nat × Name) → Except Err (List (Nat × Name))
    | [], _, out => .ok out
    | (name, members) :: gs, used, out =>
      match members with
      | [e] => loop gs used (out ++ [(e, name)])
      | _ =>
        match assignGroup name members 0 used [] with
        | .error err => .error err
        | .ok (used', o) => loop gs used' (out ++ o)
  match loop groups (groups.map (·.1)) [] with
  | .error e => .error e
  | .ok out => .ok ((List.range cands.length).map fun i => ((out.find? (·.1 == i)).map (·.2)).getD [])

/-! ## stereo pairing (`combine_stereo_routine`, after the `fix:` of D4) -/

inductive Group where
  | mono (idx : Nat)
  | pair (left right : Nat) (name : Name)
deriving DecidableEq, Repr

/-- a stem that is already a sibling's name (or an earlier pair's) gets a `(n)` suffix. -/
def freeStem (stem : Name) (taken : List Name) : Nat → Nat → Name
  | 0, _ => stem
  | fuel + 1, i =>
    let cand := if i ≤ 1 then stem else stem ++ [' ', '('] ++ natChars i ++ [')']
    if taken.contains cand then freeStem stem taken fuel (i + 1) else cand

/-- `combine_stereo_routine` on the export names of the samples of one directory (in order). -/
def combine (names : List Name) : List Group :=
  let lookup (n : Name) : Option Nat :=
    -- `sample_dict[name]`: later duplicates overwrite earlier ones
    (List.range names.length).reverse.find? fun i => names[i]? == some n
  let rec go (i : Nat) (rest : List Name) (marked : List Name) (taken : List Name) (acc : List Group) :
      List Group :=
    match rest with
    | [] => acc
    | n :: ns =>
      if marked.contains n then go (i + 1) ns marked taken acc
      else
        match stereoMatch n with
        | some (stem, sep, side) =>
          let altSide := if side == 'L' then 'R' else 'L'
          let alt := stem ++ sep ++ [altSide]
          match lookup alt with
          | some j =>
            let nm := freeStem stem taken (taken.length + 2) 1
            let g := if altSide == 'R' then Group.pair i j nm else Group.pair j i nm
            go (i + 1) ns (n :: alt :: marked) (nm :: taken) (acc ++ [g])
          | none => go (i + 1) ns (n :: marked) taken (acc ++ [.mono i])
        | none => go (i + 1) ns (n :: marked) taken (acc ++ [.mono i])
  go 0 names [] names []

/-! ## paths -/

/-- `re.split(r"(\\{1,2}|\/)", s)` keeping the even positions: split at `/`, `\` or `\\`. -/
def splitPath (s : Name) : List Name :=
  let rec go (cur : Name) (acc : List Name) : Name → List Name
    | [] => (cur.reverse :: acc).reverse
    | '/' :: rest => go [] (cur.reverse :: acc) rest
    | '\\' :: '\\' :: rest => go [] (cur.reverse :: acc) rest
    | '\\' :: rest => go [] (cur.reverse :: acc) rest
    | c :: rest => go (c :: cur) acc rest
  go [] [] s

/-- the token list of `parse_path`: strip, split, drop one trailing empty token. -/
def tokenize (path : Name) : List Name :=
  let ts := splitPath (strip path)
  match ts.getLast? with
  | some [] => ts.dropLast
  | _ => ts

/-- `Traversable._sanitize_string` (plain) and `AkaiImageParser._sanitize_string`. -/
def sanitizeToken (akai : Bool) (t : Name) : Name :=
  if akai then
    let u := strip (t.map upperC)
    match u.getLast? with
    | some ':' => u.dropLast
    | _ => u
  else strip t

/-- a directory tree as `ls` sees it: safe name, traversable?, children. -/
inductive Node where
  | node (name : Name) (dir : Bool) (children : List Node)

def Node.name : Node → Name | .node n _ _ => n
def Node.isDir : Node → Bool | .node _ d _ => d
def Node.children : Node → List Node | .node _ _ c => c

/-- `parse_path`: walk the tokens; the first child whose sanitised safe name equals the sanitised
token; a leaf cannot be traversed. Returns the node or the index of the failing token. -/
def lookup (akai : Bool) : Node → List Name → Nat → Except Nat Node
  | n, [], _ => .ok n
  | n, t :: ts, i =>
    if n.isDir then
      match n.children.find? (fun c => sanitizeToken akai c.name == sanitizeToken akai t) with
      | some c => lookup akai c ts (i + 1)
      | none => .error i
    else .error i

/-- does child `k` carry the (normalised) name of token `t`? -/
def childMatches (akai : Bool) (kids : List Node) (t : Name) (k : Nat) : Bool :=
  match kids[k]? with
  | some c => sanitizeToken akai c.name == sanitizeToken akai t
  | none => false

/-- `next(x for x in children if sanitize(x.safe_name) == sanitize(token))`: first matching child. -/
def findChild (akai : Bool) (kids : List Node) (t : Name) : Option Nat :=
  (List.range kids.length).find? (childMatches akai kids t)

/-- index path of the node found, or the `ErrorInvalidPath` message of `parse_path`. -/
def lookupIdx (akai : Bool) : Node → List Name → List Name → Nat → List Nat → Except Name (List Nat)
  | _, [], _, _, acc => .ok acc.reverse
  | n, t :: ts, all, i, acc =>
    let fail : Except Name (List Nat) :=
      let sofar : Name := if i == 0 then "image".toList
        else (List.intersperse ['/'] (all.take i)).flatten ++ ['/']
      .error ("The entity \"".toList ++ t ++ "\" was not found in \"".toList ++ sofar ++ "\".".toList)
    if n.isDir then
      match findChild akai n.children t with
      | some k =>
        match n.children[k]? with
        | some c => lookupIdx akai c ts all (i + 1) (k :: acc)
        | none => fail
      | none => fail
    else fail

/-- `Element.export_path` + `ExportManager.make_output_path`: export names from below the image down. -/
def exportPath (components : List Name) : Name := (List.intersperse ['/'] components).flatten ++ ".wav".toList

end Smpl.Names
