/-
Model of the streaming de-emphasis filters (layer L7, property C19).

Python/Cython sources mirrored (observable interface: `process(block)`, `get_remaining()`, `reset_state()`):
  smpl_extract/filters/fir.pyx   FirFilter, ChickSysCustomFirFilter, _c_chicken_sys_convolve_valid, _c_bound_and_fix
  smpl_extract/filters/iir.pyx   IirFilter/_c_process, ChickSysCustomIirFilter/_c_chickensys_process, _c_bound, _c_fix_int
  smpl_extract/filters/common.py presets

The generic filters are polymorphic in the sample type and its operations and the split theorems use
no algebraic law, so they hold for IEEE doubles with whatever evaluation order the code fixes.
-/
namespace Smpl.Filter

/-! ## FIR -/

/-- all contiguous windows of length `n` in time order; `[]` when the signal is shorter than `n`
(`np.convolve(x, h, "valid")` guarded by `np.size(x) < np.size(h)`). -/
def windows {α : Type} (n : Nat) (x : List α) : List (List α) :=
  (List.range (x.length + 1 - n)).map fun i => (x.drop i).take n

/-- Python `x[-k:]` for `k ≥ 0`: `x[-0:]` is the whole list; `k > len x` gives the whole list. -/
def pyLast {α : Type} (k : Nat) (x : List α) : List α :=
  if k = 0 then x else x.drop (x.length - k)

/-- the last `k` elements (at most), `[]` for `k = 0` — what a correct history needs. -/
def lastN {α : Type} (k : Nat) (x : List α) : List α := x.drop (x.length - k)

structure Fir (α : Type) where
  n     : Nat                 -- number of taps N = len(h)
  m0    : Nat                 -- delay_offset
  dot   : List α → α          -- one output sample from one window (time order); hides h and the sum order
  zero  : α
  xprev : List α

namespace Fir
variable {α : Type}

def m1 (f : Fir α) : Nat := f.n - f.m0 - 1

def init (n m0 : Nat) (dot : List α → α) (zero : α) : Fir α :=
  { n := n, m0 := m0, dot := dot, zero := zero, xprev := List.replicate (n - m0 - 1) zero }

def convValid (f : Fir α) (x : List α) : List α := (windows f.n x).map f.dot

/-- `FirFilter.process` as written: history is taken from the *new block only* (`x[-(N-1):]`). -/
def process (f : Fir α) (x : List α) : List α × Fir α :=
  (f.convValid (f.xprev ++ x), { f with xprev := pyLast (f.n - 1) x })

/-- the repaired `process`: history is the tail of `x_prev ++ x`. -/
def processFixed (f : Fir α) (x : List α) : List α × Fir α :=
  (f.convValid (f.xprev ++ x), { f with xprev := lastN (f.n - 1) (f.xprev ++ x) })

def reset (f : Fir α) : Fir α := { f with xprev := List.replicate f.m1 f.zero }

/-- `get_remaining`: flush the delayed tail, then reset. -/
def flush (f : Fir α) : List α × Fir α :=
  (f.convValid (f.xprev ++ List.replicate f.m0 f.zero), f.reset)

/-- feed blocks one by one; outputs per block. -/
def run (step : Fir α → List α → List α × Fir α) (f : Fir α) : List (List α) → List (List α) × Fir α
  | [] => ([], f)
  | b :: bs =>
    let (y, f') := step f b
    let (ys, f'') := run step f' bs
    (y :: ys, f'')

/-- everything a caller gets: outputs of all blocks, then the flush. -/
def runAll (step : Fir α → List α → List α × Fir α) (f : Fir α) (blocks : List (List α)) : List α :=
  let (ys, f') := run step f blocks
  ys.flatten ++ (flush f').1

end Fir

/-! ## IIR (direct form I; circular buffers = "most recent first" shift registers) -/

structure Ops (α : Type) where
  zero : α
  add  : α → α → α
  sub  : α → α → α
  mul  : α → α → α
  div  : α → α → α

/-- `inner_prod_double_cbuffer`: left-to-right accumulation exactly as the C loop: `((0 + A0*b0) + A1*b1) + …`. -/
def dotAcc {α : Type} (o : Ops α) (acc : α) : List α → List α → α
  | a :: as, b :: bs => dotAcc o (o.add acc (o.mul a b)) as bs
  | _, _ => acc

structure Iir (α : Type) where
  ops   : Ops α
  b     : List α              -- B
  a     : List α              -- A (A[0] = gain)
  post  : α → α               -- applied to y before it is fed back (`_c_bound` for ChickenSys, id otherwise)
  xprev : List α              -- most recent first, length len(B) - 1
  yprev : List α              -- most recent first, length len(A) - 1

namespace Iir
variable {α : Type}

def init (o : Ops α) (b a : List α) (post : α → α) : Iir α :=
  { ops := o, b := b, a := a, post := post,
    xprev := List.replicate (b.length - 1) o.zero, yprev := List.replicate (a.length - 1) o.zero }

/-- one sample: push x, `y = (B·xwin − A[1:]·ywin) / A[0]`, post-process, push y. -/
def step (f : Iir α) (x : α) : α × Iir α :=
  let o := f.ops
  let xwin := x :: f.xprev                                   -- window of len(B) entries
  let num := o.sub (dotAcc o o.zero f.b xwin) (dotAcc o o.zero (f.a.drop 1) f.yprev)
  let y := f.post (o.div num (f.a.headD o.zero))
  (y, { f with xprev := xwin.take (f.b.length - 1), yprev := (y :: f.yprev).take (f.a.length - 1) })

/-- `process`: the loop over one block, state saved at the end. -/
def process (f : Iir α) : List α → List α × Iir α
  | [] => ([], f)
  | x :: xs =>
    let (y, f') := f.step x
    let (ys, f'') := process f' xs
    (y :: ys, f'')

def reset (f : Iir α) : Iir α :=
  { f with xprev := List.replicate (f.b.length - 1) f.ops.zero,
           yprev := List.replicate (f.a.length - 1) f.ops.zero }

/-- `get_remaining`: nothing is delayed; resets. -/
def flush (f : Iir α) : List α × Iir α := ([], f.reset)

def run (f : Iir α) : List (List α) → List (List α) × Iir α
  | [] => ([], f)
  | b :: bs =>
    let (y, f') := f.process b
    let (ys, f'') := run f' bs
    (y :: ys, f'')

def runAll (f : Iir α) (blocks : List (List α)) : List α :=
  let (ys, f') := f.run blocks
  ys.flatten ++ (flush f').1

end Iir

/-! ## saturation helpers -/

/-- `_c_bound` (ChickenSys IIR): clamp to [lo, hi] (`lo = -32767`, `hi = 32767`). -/
def bound {α : Type} [LT α] [DecidableRel (α := α) (· < ·)] (lo hi x : α) : α :=
  if hi < x then hi else if x < lo then lo else x

/-- C `round`: half away from zero, on the exact quotient `p / k` (`k > 0`). -/
def roundHalfAwayDiv (p : Int) (k : Int) : Int :=
  if 0 ≤ p then (2 * p + k) / (2 * k) else -((2 * (-p) + k) / (2 * k))

/-- `_c_bound_and_fix` on an integer-valued accumulator. -/
def boundAndFix (y : Int) : Int :=
  if 32767 < y then 32767 else if y < -32768 then -32768 else y

/-- one output of `_c_chicken_sys_convolve_valid`: window in time order against `h` reversed
(`h_index` runs downwards), each product divided by `k` and rounded *before* summing. -/
def csDot (h : List Int) (k : Int) (w : List Int) : Int :=
  boundAndFix ((List.zipWith (fun x c => roundHalfAwayDiv (x * c) k) w h.reverse).foldl (· + ·) 0)

/-- plain integer FIR dot product (window in time order against reversed `h`) = `np.convolve` on
integer-valued doubles. -/
def intDot (h : List Int) (w : List Int) : Int :=
  (List.zipWith (· * ·) w h.reverse).foldl (· + ·) 0

/-! ## presets (`filters/common.py`) -/

def chickSysRolandH : List Int :=
  [1, -2, 5, -11, 25, -65, 176, -460, 9981, 32767, 9981, -460, 176, -65, 25, -11, 5, -2, 1]
def chickSysRolandK : Int := 52067
def chickSysRolandM0 : Nat := 7

def floatOps : Ops Float :=
  { zero := Float.ofNat 0, add := (· + ·), sub := (· - ·), mul := (· * ·), div := (· / ·) }

def floatBound (x : Float) : Float :=
  let hi : Float := Float.ofNat 32767
  let lo : Float := Float.ofInt (-32767)
  if x > hi then hi else if x < lo then lo else x

/-- ChickenSys IIR over doubles: `B = [c0, c1]`, `A = [1, -c2]`, feedback of the bounded value. -/
def csIir (c0 c1 c2 : Float) : Iir Float :=
  Iir.init floatOps [c0, c1] [Float.ofNat 1, -c2] floatBound

/-- the three ChickenSys IIR presets (`filters/common.py`): coefficient triples `(c0, c1, c2)`. -/
def csStandard : Float × Float × Float := (0.5923, 0.1516, 0.2560)
def csDarker : Float × Float × Float := (0.7071, 0.1213, 0.1716)
def csSpecial : Float × Float × Float :=
  (1.0 * 22082 / 32767, 1.0 * 4967 / 32767, 1.0 * 8411 / 32767)

/-- `_c_fix_int`: `<short> trunc(x)` for |x| ≤ 32767. -/
def fixInt (x : Float) : Int := x.toInt64.toInt

end Smpl.Filter
