/-
Model of the stand-alone codecs (layer L7, property C18).

Python sources mirrored (observable interface only):
  smpl_extract/akai/akai_string.py   _char_format_convert_byte, _fast_akai_to_ascii_byte
  smpl_extract/midi.py               MidiNote.from_int_a0 / to_int_a0 / to_string / from_string
  smpl_extract/akai/data_types.py    parse_akai_tune_cents / build_akai_tune_cents

Core Lean only (no Mathlib): these definitions are both what the theorems in
`Smpl/Props/C18.lean` are about and what `Driver.lean` executes.
-/
namespace Smpl.Codec

/-! ## AKAI character set <-> ASCII -/

/-- `_fast_akai_to_ascii_byte` / `_char_format_convert_byte(_, AKAI, ASCII)`;
`none` = `InvalidCharacter`. -/
def akaiToAscii (b : Nat) : Option Nat :=
  if b ≤ 0x09 then some (b + 0x30)            -- '0'..'9'
  else if 0x0B ≤ b ∧ b ≤ 0x24 then some (b - 0x0B + 0x41)  -- 'A'..'Z'
  else if b = 0x0A then some 0x20             -- ' '
  else if b = 0x25 then some 0x23             -- '#'
  else if b = 0x26 then some 0x2B             -- '+'
  else if b = 0x27 then some 0x2D             -- '-'
  else if b = 0x28 then some 0x2E             -- '.'
  else none

/-- `_char_format_convert_byte(_, ASCII, AKAI)`; `none` = `InvalidCharacter`. -/
def asciiToAkai (a : Nat) : Option Nat :=
  if 0x30 ≤ a ∧ a ≤ 0x39 then some (a - 0x30)
  else if 0x41 ≤ a ∧ a ≤ 0x5A then some (a - 0x41 + 0x0B)
  else if a = 0x20 then some 0x0A
  else if a = 0x23 then some 0x25
  else if a = 0x2B then some 0x26
  else if a = 0x2D then some 0x27
  else if a = 0x2E then some 0x28
  else none

/-- `char_akai_to_ascii` on a whole byte string (fails on the first invalid byte). -/
def akaiToAsciiStr : List Nat → Option (List Nat)
  | [] => some []
  | b :: bs => do
      let a ← akaiToAscii b
      let r ← akaiToAsciiStr bs
      pure (a :: r)

/-- `char_ascii_to_akai` on a byte string (already upper-cased). -/
def asciiToAkaiStr : List Nat → Option (List Nat)
  | [] => some []
  | a :: as => do
      let b ← asciiToAkai a
      let r ← asciiToAkaiStr as
      pure (b :: r)

/-! ## MIDI notes -/

/-- `ScaleDegree` A=0 … G=6. -/
structure Note where
  degree : Nat
  sharp  : Bool
  octave : Int
deriving DecidableEq, Repr

/-- `scale_table` of `from_int_a0`, indexed by `n % 12`. -/
def scaleOfIdx : Nat → Nat × Bool
  | 0 => (0, false) | 1 => (0, true) | 2 => (1, false) | 3 => (2, false)
  | 4 => (2, true)  | 5 => (3, false) | 6 => (3, true) | 7 => (4, false)
  | 8 => (5, false) | 9 => (5, true) | 10 => (6, false) | _ => (6, true)

/-- `scale_table` of `to_int_a0` (B# = C, E# = F); `none` = `KeyError`. -/
def idxOfScale : Nat × Bool → Option Nat
  | (0, false) => some 0 | (0, true) => some 1 | (1, false) => some 2 | (1, true) => some 3
  | (2, false) => some 3 | (2, true) => some 4 | (3, false) => some 5 | (3, true) => some 6
  | (4, false) => some 7 | (4, true) => some 8 | (5, false) => some 8 | (5, true) => some 9
  | (6, false) => some 10 | (6, true) => some 11
  | _ => none

/-- `MidiNote.from_int_a0` (Python `//` and `%` are floor division: for the positive divisor 12
they coincide with Lean's Euclidean `/`, `%` on `Int`). -/
def fromIntA0 (n : Int) : Note :=
  let p := scaleOfIdx (n % 12).toNat
  { degree := p.1, sharp := p.2, octave := n / 12 }

/-- `MidiNote.to_int_a0`. -/
def toIntA0 (x : Note) : Option Int :=
  match idxOfScale (x.degree, x.sharp) with
  | some i => some (Int.ofNat i + 12 * x.octave)
  | none => none

def A0 : Int := 21
def fromAkaiByte (b : Int) : Note := fromIntA0 (b - A0)
def toAkaiByte (x : Note) : Option Int := (toIntA0 x).map (· + A0)
def fromMidiByte (b : Int) : Note := fromIntA0 (b - A0)
def toMidiByte (x : Note) : Option Int := (toIntA0 x).map (· + A0)

def degreeChar (d : Nat) : Char := Char.ofNat (d + 65)

/-- decimal rendering of a natural number as characters (Python `str`). -/
def natDigits (n : Nat) : List Char := (Nat.toDigits 10 n)

def intChars (i : Int) : List Char :=
  match i with
  | .ofNat n => natDigits n
  | .negSucc n => '-' :: natDigits (n + 1)

/-- `MidiNote.to_string`. -/
def noteToString (x : Note) : List Char :=
  degreeChar x.degree :: ((if x.sharp then ['#'] else []) ++ intChars x.octave)

/-- ASCII `str.upper` on one char (inputs of this codec are ASCII). -/
def upperC (c : Char) : Char :=
  if 'a'.toNat ≤ c.toNat ∧ c.toNat ≤ 'z'.toNat then Char.ofNat (c.toNat - 32) else c

/-- Python `str.strip()` whitespace over ASCII. -/
def isPySpace (c : Char) : Bool :=
  let n := c.toNat
  (9 ≤ n ∧ n ≤ 13) || (28 ≤ n ∧ n ≤ 32)

def stripL (s : List Char) : List Char := s.dropWhile isPySpace
def strip (s : List Char) : List Char := (stripL (stripL s).reverse).reverse

/-- `MidiNote.from_string`: upper, strip, `re.match("([A-Ga-g])(#?)(\d)")` (prefix match). -/
def noteFromString (s : List Char) : Option Note :=
  match strip (s.map upperC) with
  | d :: rest =>
    if 'A'.toNat ≤ d.toNat ∧ d.toNat ≤ 'G'.toNat then
      let (sharp, rest') := match rest with
        | '#' :: r => (true, r)
        | r => (false, r)
      match rest' with
      | o :: _ =>
        if '0'.toNat ≤ o.toNat ∧ o.toNat ≤ '9'.toNat then
          some { degree := d.toNat - 65, sharp := sharp, octave := ((o.toNat - 48 : Nat) : Int) }
        else none
      | [] => none
    else none
  | [] => none

/-! ## Tuning byte <-> cents (IEEE doubles, as CPython) -/

/-- Python `round(x)` for a non-negative double below 2^63: round half to even. -/
def pyRoundNonneg (x : Float) : Nat :=
  let t := x.toUInt64            -- truncation toward zero
  let tf := Float.ofNat t.toNat
  let frac := x - tf
  let half : Float := Float.ofScientific 5 true 1
  if frac > half then t.toNat + 1
  else if frac < half then t.toNat
  else if t.toNat % 2 = 0 then t.toNat else t.toNat + 1

/-- `parse_akai_tune_cents` for a signed byte `x` (−128..127). Result as a double
(the Python function returns the int `0` for `x = 0`; as a number that is `0.0`). -/
def parseCents (x : Int) : Float :=
  if x = 0 then Float.ofNat 0
  else
    let m : Float := Float.ofNat 100 / Float.ofNat 255
    m * Float.ofInt (x + 128) + Float.ofInt (-50)

/-- `build_akai_tune_cents` on the doubles that `parseCents` can produce (range [-50, 50]). -/
def buildCents (c : Float) : Int :=
  if c == Float.ofNat 0 then 0
  else
    let m : Float := Float.ofNat 255 / Float.ofNat 100
    (pyRoundNonneg (m * (c - Float.ofInt (-50))) : Int) + (-128)

end Smpl.Codec
