/-
Layer L5 (part 3): container detection and unwrapping (property C09).
Python sources mirrored: smpl_extract/alcohol/mdf.py (is_mdf_image, MdfStream),
smpl_extract/alcohol/mdx.py (is_mdx_image, MdxStream), smpl_extract/actions.py (determine_image_type).
-/
import Smpl.Model.Basic
namespace Smpl.Container

abbrev Bytes := List Nat

def MDF_SECTOR : Nat := 2352
def MDF_HEADER : Nat := 16
def MDF_BODY : Nat := 2048
def MDF_FOOTER : Nat := 288

/-- 12-byte raw-sector sync pattern. -/
def MDF_SYNC : Bytes := [0x00, 0xFF, 0xFF, 0xFF, 0xFF, 0xFF, 0xFF, 0xFF, 0xFF, 0xFF, 0xFF, 0x00]

/-- `is_mdf_image`: sync (12), sector id (3, any), mode byte 0x01. -/
def isMdf (f : Bytes) : Bool :=
  f.take 12 == MDF_SYNC && 16 ≤ f.length && f[15]? == some 0x01

/-- "MEDIA DESCRIPTOR" -/
def MDX_MAGIC : Bytes := [0x4D, 0x45, 0x44, 0x49, 0x41, 0x20, 0x44, 0x45, 0x53, 0x43, 0x52, 0x49, 0x50, 0x54, 0x4F, 0x52]
def MDX_HEADER : Nat := 64

/-- `is_mdx_image`: magic (16), version (2, any), copyright (26) starting with 0xA9, padding (4),
`eof` (8), padding (8): all 64 bytes must be there. -/
def isMdx (f : Bytes) : Bool :=
  f.take 16 == MDX_MAGIC && 64 ≤ f.length && f[18]? == some 0xA9

def leVal : Bytes → Nat
  | [] => 0
  | b :: bs => b + 256 * leVal bs

/-- `eof` field of the MDX header. -/
def mdxEof (f : Bytes) : Nat := leVal ((f.drop 48).take 8)

/-- logical content of `MdfStream(file)`: the 2048 user-data bytes of every complete 2352-byte sector. -/
def mdfView (f : Bytes) : Bytes :=
  (List.range (f.length / MDF_SECTOR)).flatMap fun i => (f.drop (i * MDF_SECTOR + MDF_HEADER)).take MDF_BODY

/-- logical content of `MdxStream(file)`: `eof − 64` bytes after the header. -/
def mdxView (f : Bytes) : Bytes := (f.drop MDX_HEADER).take (mdxEof f - MDX_HEADER)

inductive Wrap where
  | raw
  | mdf
  | mdx
deriving DecidableEq, Repr

/-- the container test cascade of `determine_image_type` (MDF before MDX). -/
def detectWrap (f : Bytes) : Wrap := if isMdf f then .mdf else if isMdx f then .mdx else .raw

/-- the bytes the image parsers see. -/
def view (f : Bytes) : Bytes :=
  match detectWrap f with
  | .raw => f
  | .mdf => mdfView f
  | .mdx => mdxView f

end Smpl.Container
