/-
Layer L2: link tables, chain walk, AKAI SAT decoding, Roland FAT decoding (property C07).

Python sources mirrored:
  smpl_extract/util/fat.py        SectorLink, add_to_sector_links, FileAllocationTable.get_path
  smpl_extract/akai/sat.py        SegmentAllocationTableAdapter._decode
  smpl_extract/roland/s7xx/fat.py FatAreaAdapter._decode (link part)
-/
import Smpl.Model.Basic
namespace Smpl.Alloc

/-- `SectorLink(next, end)`; the default `SectorLink()` is `(0, True)`. -/
structure Link where
  next  : Nat
  isEnd : Bool
deriving DecidableEq, Repr, Inhabited

def Link.dflt : Link := ⟨0, true⟩

/-! ## `get_path` (with the loop counter incremented, i.e. after the `fix:` of D6) -/

/-- chain walk bounded by `fuel` iterations (= `self.size`): `loop_cnt` counts up to `size`. -/
def walk (links : List Link) : Nat → Nat → Except Err (List Nat)
  | 0, _ => .error .invalidFat                       -- `loop_cnt >= self.size`
  | fuel + 1, cur =>
    match links[cur]? with
    | none => .error .invalidSector                   -- `current_sector >= len(self.sector_links)`
    | some l =>
      if l.isEnd then .ok [cur]
      else match walk links fuel l.next with
        | .ok p => .ok (cur :: p)
        | .error e => .error e

/-- `FileAllocationTable.get_path(starting_sector)`. -/
def getPath (links : List Link) (size : Nat) (start : Nat) : Except Err (List Nat) :=
  walk links size start

/-! ## `add_to_sector_links` -/

/-- install `l[0] → l[1] → … → l[k]` (last one marked end). `IndexError → InvalidFatDefinition`. -/
def addLinks : List Nat → List Link → Except Err (List Link)
  | [], links => .ok links                               -- (callers never pass an empty list)
  | [a], links => if a < links.length then .ok (links.set a ⟨0, true⟩) else .error .invalidFat
  | a :: b :: rest, links =>
    if a < links.length then addLinks (b :: rest) (links.set a ⟨b, false⟩) else .error .invalidFat

/-! ## AKAI SAT decoding -/

def SAT_FREE : Nat := 0x0000
def SAT_EOF : Nat := 0xC000
def SAT_RES1 : Nat := 0x4000
def SAT_RES2 : Nat := 0x8000

def isDirWord (v : Nat) : Bool := v == SAT_RES1 || v == SAT_RES2

/-- decoder state. `dirty` (the visited flags) is an `Array` so that the driver can decode real
11386-entry tables quickly; all reasoning goes through `dirty.toList`. -/
structure AkaiSt where
  links   : List Link
  dirty   : Array Bool
  prevDir : Bool
deriving Repr

def nondirty (d : List Bool) : Nat := d.count false

/-- potential used for termination of the inner walk. -/
def phi (d : List Bool) (sub : Nat) : Nat :=
  2 * nondirty d - (if d[sub]? = some false then 1 else 0)

theorem nondirty_set_le (d : List Bool) (i : Nat) : nondirty (d.set i true) ≤ nondirty d := by
  unfold nondirty
  by_cases h : i < d.length
  · rw [List.count_set h]; simp
  · rw [List.set_eq_of_length_le (by omega)]; exact Nat.le_refl _

theorem nondirty_set_lt (d : List Bool) (i : Nat) (h : d[i]? = some false) :
    nondirty (d.set i true) + 1 = nondirty d := by
  unfold nondirty
  have hi : i < d.length := by
    rcases Nat.lt_or_ge i d.length with h' | h'
    · exact h'
    · rw [List.getElem?_eq_none h'] at h; cases h
  have hv : d[i] = false := by
    rw [List.getElem?_eq_getElem hi] at h; exact Option.some.inj h
  rw [List.count_set hi]
  have hpos : 0 < d.count false := List.count_pos_iff.mpr (hv ▸ List.getElem_mem hi)
  simp [hv]; omega

theorem nondirty_set_same (d : List Bool) (i : Nat) (h : d[i]? ≠ some false) :
    nondirty (d.set i true) = nondirty d := by
  unfold nondirty
  by_cases hi : i < d.length
  · have hv : d[i] = true := by
      rw [List.getElem?_eq_getElem hi] at h
      cases hb : d[i] with
      | true => rfl
      | false => rw [hb] at h; exact absurd rfl h
    rw [List.count_set hi]; simp [hv]
  · rw [List.set_eq_of_length_le (by omega)]

theorem getElem?_set_true_ne (d : List Bool) (i j : Nat) (h : i ≠ j) :
    (d.set i true)[j]? = d[j]? := by
  simp [List.getElem?_set, h]

/-- the termination argument of the inner walk, as one lemma. -/
theorem akai_measure (d : List Bool) (size sub v : Nat) (hsub : sub < size)
    (dir : Bool)
    (hlink : dir = false → d[v]? = some false)
    (hnext : (if dir = false then v else sub + 1) < size) :
    Prod.Lex (· < ·) (· < ·)
      (phi (d.set sub true) (if dir = false then v else sub + 1),
        size - (if dir = false then v else sub + 1))
      (phi d sub, size - sub) := by
  unfold phi
  by_cases hs : d[sub]? = some false
  · -- the current sector was clean: the count of clean sectors drops
    have h1 := nondirty_set_lt d sub hs
    apply Prod.Lex.left
    simp only [hs, if_true]
    split <;> omega
  · have h1 := nondirty_set_same d sub hs
    simp only [hs, if_false, h1]
    cases dir with
    | false =>
      have hv := hlink rfl
      have hne : sub ≠ v := by intro e; rw [e] at hs; exact hs hv
      have hv' : (d.set sub true)[v]? = some false := by rw [getElem?_set_true_ne d sub v hne]; exact hv
      have hpos : 0 < nondirty d := by
        unfold nondirty
        have hlt : v < d.length := by
          rcases Nat.lt_or_ge v d.length with h' | h'
          · exact h'
          · rw [List.getElem?_eq_none h'] at hv; cases hv
        have : d[v] = false := by
          rw [List.getElem?_eq_getElem hlt] at hv; exact Option.some.inj hv
        exact List.count_pos_iff.mpr (this ▸ List.getElem_mem hlt)
      apply Prod.Lex.left
      simp only [if_true, hv']
      omega
    | true =>
      simp only [Bool.true_eq_false, if_false] at hnext ⊢
      by_cases hq : (d.set sub true)[sub + 1]? = some false
      · apply Prod.Lex.left
        simp only [hq, if_true]
        have hpos : 0 < nondirty (d.set sub true) := by
          unfold nondirty
          have hlt : sub + 1 < (d.set sub true).length := by
            rcases Nat.lt_or_ge (sub + 1) (d.set sub true).length with h' | h'
            · exact h'
            · rw [List.getElem?_eq_none h'] at hq; cases hq
          have : (d.set sub true)[sub + 1] = false := by
            rw [List.getElem?_eq_getElem hlt] at hq; exact Option.some.inj hq
          exact List.count_pos_iff.mpr (this ▸ List.getElem_mem hlt)
        omega
      · simp only [hq, if_false]
        apply Prod.Lex.right
        omega

/-- The inner `while` of `_decode` for one starting sector. `lst` is kept in reverse.
Returns `none` only for `InvalidFatDefinition` out of `add_to_sector_links` (cannot happen:
every walked index is `< size`; kept so that the model does not silently drop the error path). -/
def akaiWalk (words : Array Nat) (st : AkaiSt) (lst : List Nat) (sub : Nat) :
    Except Err AkaiSt :=
  let size := words.size
  match hw : words[sub]? with
  | none => .ok st                                                  -- `subpath_index >= size`
  | some v =>
    let curDir := isDirWord v
    if !curDir && st.prevDir && !lst.isEmpty then
      match addLinks lst.reverse st.links with
      | .ok ls => .ok { st with links := ls, prevDir := false }
      | .error e => .error e
    else if v == SAT_FREE || (v < size && st.dirty[v]?.getD true) then
      -- (after the `fix:` of D1) a chain running into an already decoded chain keeps what was walked
      let dirty' := st.dirty.setIfInBounds sub true
      if v != SAT_FREE && !curDir then
        match addLinks (sub :: lst).reverse st.links with
        | .ok ls => .ok { links := ls.set sub ⟨v, false⟩, dirty := dirty', prevDir := false }
        | .error e => .error e
      else .ok { st with dirty := dirty', prevDir := false }
    else if v == SAT_EOF then
      match addLinks (sub :: lst).reverse st.links with
      | .ok ls => .ok { links := ls, dirty := st.dirty.setIfInBounds sub true, prevDir := curDir }
      | .error e => .error e
    else
      let st' : AkaiSt := { st with dirty := st.dirty.setIfInBounds sub true, prevDir := curDir }
      let next := if !curDir then v else sub + 1
      if next < size then akaiWalk words st' (sub :: lst) next
      else if curDir then
        -- (after the `fix:` of D18) a directory run that ends with the table's last sector is installed
        match addLinks (sub :: lst).reverse st.links with
        | .ok ls => .ok { st' with links := ls }
        | .error e => .error e
      else .ok st'                                                  -- next iteration breaks at once
termination_by (phi st.dirty.toList sub, words.size - sub)
decreasing_by
  simp_wf
  rename_i h3 h2 h1 hn
  have hsub : sub < words.size := by
    rcases Nat.lt_or_ge sub words.size with h' | h'
    · exact h'
    · rw [Array.getElem?_eq_none h'] at hw; cases hw
  apply akai_measure st.dirty.toList words.size sub v hsub (isDirWord v)
  · intro hdir
    have hvlt : v < words.size := by
      simp only [next, curDir, hdir] at hn; simpa using hn
    simp only [size, Bool.or_eq_true, Bool.and_eq_true, decide_eq_true_eq, not_or, not_and] at h2
    have := h2.2 hvlt
    have hconv : st.dirty.toList[v]? = st.dirty[v]? := by simp
    rw [hconv]
    cases hd : st.dirty[v]? with
    | none => simp [hd] at this
    | some b => cases b with
      | false => rfl
      | true => simp [hd] at this
  · simpa [next, curDir, size] using hn

/-- `SegmentAllocationTableAdapter._decode`: the outer `for i in range(size)`. -/
def akaiDecodeSt (words : List Nat) : Except Err AkaiSt :=
  let n := words.length
  let wa := words.toArray
  let st0 : AkaiSt :=
    { links := List.replicate n Link.dflt, dirty := Array.replicate n false, prevDir := true }
  (List.range n).foldlM
    (fun st i => if st.dirty[i]?.getD true then pure st else akaiWalk wa st [] i) st0

def akaiDecode (words : List Nat) : Except Err (List Link) :=
  (akaiDecodeSt words).map (·.links)

/-! ## Roland FAT decoding -/

def FAT_FREE : Nat := 0x0000
def FAT_RESERVED : Nat := 0x0001
def FAT_ERROR : Nat := 0xfff7
def FAT_END : Nat := 0xfff8

structure RolSt where
  links : List Link
  dirty : Array Bool
deriving Repr

/-- inner `while True` of `FatAreaAdapter._decode`, with the loop guard of the `fix:` of D7:
a walk that appends more than `n` entries is a cycle and raises `ConstructError`.
`fuel` = number of appends still allowed (starts at `n + 1`). -/
def rolandWalk (words : Array Nat) : Nat → RolSt → List Nat → Nat → Except Err RolSt
  | fuel, st, lst, sub =>
    match words[sub]? with
    | none => .ok st                                              -- `subpath_index >= FAT_NUM_ENTRIES`
    | some v =>
      let st1 : RolSt := { st with dirty := st.dirty.setIfInBounds sub true }
      if v == FAT_ERROR then .error .construct
      else if v == FAT_RESERVED || v == FAT_FREE then
        if lst.isEmpty then .ok st1 else .error .construct
      else
        match fuel with
        | 0 => .error .construct                                  -- loop guard
        | fuel' + 1 =>
          if v ≥ FAT_END then
            match addLinks (sub :: lst).reverse st1.links with
            | .ok ls => .ok { st1 with links := ls }
            | .error e => .error e
          else rolandWalk words fuel' st1 (sub :: lst) v

/-- the link part of `FatAreaAdapter._decode` for a table of `n = words.length` entries. -/
def rolandDecode (words : List Nat) : Except Err (List Link) :=
  let n := words.length
  let wa := words.toArray
  let st0 : RolSt :=
    { links := List.replicate n Link.dflt,
      dirty := (Array.replicate n false).setIfInBounds 0 true |>.setIfInBounds 1 true }
  ((List.range (n - 9)).drop 2).foldlM
    (fun st i => if st.dirty[i]?.getD true then pure st else rolandWalk wa n st [] i) st0
  |>.map (·.links)

end Smpl.Alloc
