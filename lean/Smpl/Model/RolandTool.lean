/-
`ls` and `export` on Roland S-7xx images (properties C02, C20).
-/
import Smpl.Model.Roland
import Smpl.Model.Info
import Smpl.Model.AkaiTool

namespace Smpl.RolandTool
open Smpl Smpl.Roland Smpl.Names Smpl.Info Smpl.Wav Smpl.Transcode

def assign := Smpl.AkaiTool.assign

/-- children of a performance as `ls` shows them: one program per patch, then the samples. -/
inductive FileItem where
  | program (name : Name)
  | sample (s : SampleNode)

def FileItem.name : FileItem → Name
  | .program n => n
  | .sample s => s.rec_.name

def perfFiles (p : PerfNode) : List FileItem :=
  p.patches.map (fun q => FileItem.program q.name) ++ (p.patches.flatMap (·.samples)).map FileItem.sample

def loopModeName (m : Nat) : Name :=
  (match (if m ≤ 6 then m else 0) with
   | 0 => "Forward End" | 1 => "Forward Release" | 2 => "Oneshot" | 3 => "Forward Oneshot"
   | 4 => "Alternate" | 5 => "Reverse Oneshot" | _ => "Reverse Loop").toList

def pointItem (raw : Nat) : Item :=
  .map [("fine".toList, .str (natChars (fine raw))), ("address".toList, .str (natChars (address raw)))]

/-- `SampleFile` itemised: option fields first (reverse MRO), then the common parameters. -/
def sampleItems (s : SampleRec) : Item :=
  .map [
    ("sample_mode".toList, .str ((if s.options / 16 = 1 then "Stereo" else "Mono").toList)),
    ("sampling_frequency".toList, .str (natChars ((freqOf (s.options % 16)).getD 0))),
    ("sustain_loop_enable".toList, .str (natChars s.susEnable)),
    ("sustain_loop_tune".toList, .str (natChars s.susTune)),
    ("release_loop_tune".toList, .str (natChars s.relTune)),
    ("original_key".toList, .str (Smpl.Codec.noteToString (Smpl.Codec.fromMidiByte s.key))),
    ("loop_mode".toList, .str (loopModeName s.loopMode)),
    ("start_sample".toList, pointItem (s.points.getD 0 0)),
    ("sustain_loop_start".toList, pointItem (s.points.getD 1 0)),
    ("sustain_loop_end".toList, pointItem (s.points.getD 2 0)),
    ("release_loop_start".toList, pointItem (s.points.getD 3 0)),
    ("release_loop_end".toList, pointItem (s.points.getD 4 0))]

def nodeTree (vols : List VolNode) : Except Err Node := do
  let vn ← assign (vols.map fun v => (v.name, false))
  let vs ← (vols.zip vn).mapM fun (v, (vsn, _)) => do
    let pn ← assign (v.perfs.map fun p => (p.name, false))
    let ps ← (v.perfs.zip pn).mapM fun (p, (psn, _)) => do
      let fl := perfFiles p
      let fn ← assign (fl.map fun f => (f.name, true))
      pure (Node.node psn true (fn.map fun (fsn, _) => Node.node fsn false []))
    pure (Node.node vsn true ps)
  pure (Node.node "Roland S-7xx Image".toList true vs)

def lsOf (vols : List VolNode) (path : Name) : Except Err (List Name) := do
  let root ← nodeTree vols
  let toks := tokenize path
  match lookupIdx false root toks toks 0 [] with
  | .error msg => pure [msg]
  | .ok idx =>
    match idx with
    | [] => do
      let vn ← assign (vols.map fun v => (v.name, false))
      pure (table ("Item".toList, "Type".toList) (vn.map fun (s, _) => (s, "Roland S-7xx Volume".toList)))
    | [vi] =>
      match vols[vi]? with
      | some v => do
        let pn ← assign (v.perfs.map fun p => (p.name, false))
        pure (table ("Item".toList, "Type".toList) (pn.map fun (s, _) => (s, "Roland S-7xx Performance".toList)))
      | none => pure []
    | [vi, pi] =>
      match (vols[vi]?).bind (·.perfs[pi]?) with
      | some p => do
        let fl := perfFiles p
        let fn ← assign (fl.map fun f => (f.name, true))
        pure (table ("Item".toList, "Type".toList) ((fl.zip fn).map fun (f, (s, _)) =>
          (s, match f with
              | .program _ => "Roland S-7xx Program".toList
              | .sample _ => "Roland S-7xx Sample".toList)))
      | none => pure []
    | [vi, pi, fi] =>
      match (vols[vi]?).bind (·.perfs[pi]?) with
      | some p => do
        let fl := perfFiles p
        let fn ← assign (fl.map fun f => (f.name, true))
        match fl[fi]?, fn[fi]? with
        | some (.sample s), some (sn, _) =>
          pure (treeLines [sn, "  ".toList, "Roland S-7xx Sample".toList] (sampleItems s.rec_))
        | some (.program _), _ => pure ["<program>".toList]
        | _, _ => pure []
      | none => pure []
    | _ => pure []

def monoEnc : Enc := ⟨false, 2, 1, true⟩

/-- the samples of one performance, paired and written. -/
def exportPerf (img : Img) (dir : List Name) (p : PerfNode) : Except Err (List Smpl.AkaiTool.Exported) := do
  let fl := perfFiles p
  let fn ← assign (fl.map fun f => (f.name, true))
  let samples := (fl.zip fn).filterMap fun (f, (_, e)) =>
    match f with
    | .sample s => some (s, e)
    | .program _ => none
  let groups := combine (samples.map (·.2))
  groups.mapM fun g =>
    match g with
    | .mono i =>
      match samples[i]? with
      | some (s, e) =>
        match sampleData img s with
        | none => .error .other
        | some d => do
          let w ← Smpl.AkaiTool.exportOne (genSample s) [⟨monoEnc, d⟩]
          pure ⟨exportPath (dir ++ [e]), w⟩
      | none => .error .other
    | .pair l r nm =>
      match samples[l]?, samples[r]? with
      | some (sl, _), some (sr, _) =>
        match sampleData img sl, sampleData img sr with
        | some dl, some dr => do
          let w ← Smpl.AkaiTool.exportOne { genSample sl with channels := 2 } [⟨monoEnc, dl⟩, ⟨monoEnc, dr⟩]
          pure ⟨exportPath (dir ++ [nm]), w⟩
        | _, _ => .error .other
      | _, _ => .error .other

def exportOf (img : Img) (vols : List VolNode) : Except Err (List Smpl.AkaiTool.Exported) := do
  let vn ← assign (vols.map fun v => (v.name, false))
  let perVol ← (vols.zip vn).mapM fun (v, (_, ve)) => do
    let pn ← assign (v.perfs.map fun p => (p.name, false))
    let perPerf ← (v.perfs.zip pn).mapM fun (p, (_, pe)) => exportPerf img [ve, pe] p
    pure perPerf.flatten
  pure perVol.flatten

end Smpl.RolandTool
