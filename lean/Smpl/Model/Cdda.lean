/-
Layer L5 (part 2): CDDA track windows (property C03).
Python source mirrored: smpl_extract/cdda/image.py CompactDiskAudioImageAdapter.from_bin_cue,
smpl_extract/cuesheet.py CueSheetIndex.get_total_audio_frames, smpl_extract/actions.py attempt_parse_cue_sheet.
-/
import Smpl.Model.Cue
namespace Smpl.Cdda
open Smpl.Cue

def FRAMES_PER_SECOND : Nat := 75
def SAMPLES_PER_FRAME : Nat := 588
def BYTES_PER_FRAME : Nat := 2352            -- 2 bytes × 2 channels × 588

/-- `CueSheetIndex.get_total_audio_frames`. -/
def msf (i : Index) : Nat := FRAMES_PER_SECOND * (60 * i.m + i.s) + i.f

def isAudio (t : Track) : Bool := t.mode.map lowerC == "audio".toList

structure Window where
  title   : List Char
  offset  : Int
  size    : Int
  samples : Int                 -- num_audio_samples
deriving DecidableEq, Repr

def untitled (i : Nat) : List Char := ("Untitled Track " ++ toString (i + 1)).toList

def titleOf (t : Track) (i : Nat) : List Char :=
  match t.title with
  | some x => if x.isEmpty then untitled i else x          -- `title or f"Untitled Track {i+1}"`
  | none => untitled i

/-- the pairwise walk: `cur` is the current cue track, `i` counts emitted tracks. A pair is emitted
only when both tracks have indices; otherwise the *next* track is dropped and `cur` stays. -/
def walk (binLen : Nat) : Track → Nat → List Track → List Window
  | cur, i, [] =>
    match cur.indices with
    | [] => []
    | ix :: _ =>
      let off : Int := BYTES_PER_FRAME * msf ix
      let size : Int := (binLen : Int) - off
      [⟨titleOf cur i, off, size, SAMPLES_PER_FRAME * (size / BYTES_PER_FRAME)⟩]
  | cur, i, nxt :: rest =>
    match cur.indices, nxt.indices with
    | ix :: _, jx :: _ =>
      let off : Int := BYTES_PER_FRAME * msf ix
      let n : Int := (msf jx : Int) - msf ix
      ⟨titleOf cur i, off, BYTES_PER_FRAME * n, SAMPLES_PER_FRAME * n⟩ :: walk binLen nxt (i + 1) rest
    | _, _ => walk binLen cur i rest

/-- `from_bin_cue`: windows of the audio tracks of the cue file over a bin of `binLen` bytes. -/
def windows (cue : CueFile) (binLen : Nat) : List Window :=
  match cue.tracks.filter isAudio with
  | [] => []
  | t :: ts => walk binLen t 0 ts

inductive Detect where
  | cdda
  | dataTrack        -- a non-audio track: the bin file is opened and detected as a sampler image
deriving DecidableEq, Repr

/-- `attempt_parse_cue_sheet`: a non-audio track makes it a sampler image, otherwise CDDA. -/
def detect (cue : CueFile) : Detect :=
  if cue.tracks.any (fun t => !isAudio t) then .dataTrack else .cdda

end Smpl.Cdda
