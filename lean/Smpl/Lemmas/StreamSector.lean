/-
Sector-chained reads: the read plan of `SectorStream._read` returns exactly the requested slice of
the concatenated sectors (helper lemmas for C07 / C08 / C09).
-/
import Smpl.Lemmas.StreamWrappers

namespace Smpl.Stream

/-- a piece inside sector `idx` of a concatenation of equal-length segments. -/
theorem flatten_seg (L : Nat) (segs : List (List Byte)) (hL : ∀ g ∈ segs, g.length = L)
    (idx off n : Nat) (hidx : idx < segs.length) (hon : off + n ≤ L) :
    (segs.flatten.drop (idx * L + off)).take n = ((segs[idx]).drop off).take n := by
  induction segs generalizing idx with
  | nil => simp at hidx
  | cons g rest ih =>
    have hg : g.length = L := hL g (List.mem_cons_self ..)
    cases idx with
    | zero =>
      simp only [List.flatten_cons, Nat.zero_mul, Nat.zero_add, List.getElem_cons_zero]
      rw [List.drop_append_of_le_length (by omega)]
      rw [List.take_append_of_le_length (by simp; omega)]
    | succ idx' =>
      simp only [List.flatten_cons, List.getElem_cons_succ]
      have e : (idx' + 1) * L + off = g.length + (idx' * L + off) := by rw [hg, Nat.succ_mul]; omega
      rw [e, ← List.drop_drop, List.drop_append_of_le_length (Nat.le_refl _)]
      simp only [List.drop_length, List.nil_append]
      exact ih (fun x hx => hL x (List.mem_cons_of_mem _ hx)) idx' (by simpa using hidx)

theorem flatten_length (L : Nat) (segs : List (List Byte)) (hL : ∀ g ∈ segs, g.length = L) :
    segs.flatten.length = segs.length * L := by
  induction segs with
  | nil => simp
  | cons g rest ih =>
    simp only [List.flatten_cons, List.length_append, List.length_cons]
    rw [ih (fun x hx => hL x (List.mem_cons_of_mem _ hx)), hL g (List.mem_cons_self ..), Nat.succ_mul]
    omega

/-- logical content of a sector-chained view: the sectors at byte addresses `bases` of the substream. -/
def secContent (csub : List Byte) (L : Nat) (bases : List Nat) : List Byte :=
  (bases.map fun b => (csub.drop b).take L).flatten

theorem secContent_segs (csub : List Byte) (L : Nat) (bases : List Nat)
    (hb : ∀ b ∈ bases, b + L ≤ csub.length) :
    ∀ g ∈ bases.map (fun b => (csub.drop b).take L), g.length = L := by
  intro g hg
  obtain ⟨b, hbm, rfl⟩ := List.mem_map.mp hg
  have := hb b hbm
  simp; omega

theorem secContent_length (csub : List Byte) (L : Nat) (bases : List Nat)
    (hb : ∀ b ∈ bases, b + L ≤ csub.length) : (secContent csub L bases).length = bases.length * L := by
  unfold secContent
  rw [flatten_length L _ (secContent_segs csub L bases hb)]; simp

/-- address function of a sector-chained class: byte address of (sector index, offset). -/
def basesAddr (bases : List Nat) (idx off : Nat) : Except Err Int :=
  match bases[idx]? with
  | none => .error .index
  | some b => .ok ((b + off : Nat) : Int)

/-- The read plan returns the requested slice of the concatenated sectors, for any position and size
inside the view, any sector size, any order of the sectors. -/
theorem readPieces_spec {sub : FileLike} {csub : List Byte} {k : Nat} {fpk : List Nat}
    {ok : Nat → Cell → Prop} (hsub : IsSub sub csub k fpk ok) (L : Nat) (hL : 0 < L)
    (bases : List Nat) (hb : ∀ b ∈ bases, b + L ≤ csub.length)
    (addr : Nat → Nat → Except Err Int)
    (haddrs : ∀ idx off (h : idx < bases.length), addr idx off = .ok ((bases[idx] + off : Nat) : Int))
    (fuel pos size : Nat) (hf : size ≤ fuel) (hin : pos + size ≤ bases.length * L)
    (s : Store) (hinv : GInv ok s) :
    ∃ s', readPieces sub addr (pieces L fuel pos size) s
        = (.ok (((secContent csub L bases).drop pos).take size), s') ∧ GInv ok s' ∧ Frame fpk s s' := by
  induction fuel generalizing pos size s with
  | zero =>
    have : size = 0 := by omega
    subst this
    exact ⟨s, by simp [pieces, readPieces], hinv, Frame.refl _ _⟩
  | succ fuel ih =>
    unfold pieces
    by_cases hs : size = 0
    · subst hs
      exact ⟨s, by simp [readPieces], hinv, Frame.refl _ _⟩
    · simp only [hs, if_false]
      -- the first piece
      have hoff : pos % L < L := Nat.mod_lt _ hL
      have hn1 : 0 < min size (L - pos % L) := by omega
      have hidx : pos / L < bases.length := by
        apply (Nat.div_lt_iff_lt_mul hL).mpr; omega
      have hbm : bases[pos / L] ∈ bases := List.getElem_mem hidx
      have hbb := hb _ hbm
      have haddr : addr (pos / L) (pos % L) = .ok ((bases[pos / L] + pos % L : Nat) : Int) :=
        haddrs _ _ hidx
      obtain ⟨r, s1, h1, hi1, hf1, hx1⟩ := hsub.seek s ((bases[pos / L] + pos % L : Nat) : Int) hinv (by omega)
      have hp1 := (hx1 (by omega)).2
      obtain ⟨s2, h2, _, hi2, hf2⟩ := hsub.read s1 ((min size (L - pos % L) : Nat) : Int) hi1 (by omega)
      rw [hp1] at h2
      obtain ⟨s3, h3, hi3, hf3⟩ := ih (pos + min size (L - pos % L)) (size - min size (L - pos % L))
        (by omega) (by omega) s2 hi2
      refine ⟨s3, ?_, hi3, (hf1.trans hf2).trans hf3⟩
      simp only [readPieces, haddr, h1, h2, h3]
      congr 2
      -- bytes: first piece ++ rest = slice of the concatenation
      have hsl : slice csub ((bases[pos / L] + pos % L : Nat) : Int) ((min size (L - pos % L) : Nat) : Int)
          = ((csub.drop (bases[pos / L] + pos % L)).take (min size (L - pos % L))) := by
        unfold slice
        have : ¬ (((bases[pos / L] + pos % L : Nat) : Int) < 0 ∨ ((min size (L - pos % L) : Nat) : Int) < 0) := by
          omega
        simp only [this, if_false, Int.toNat_natCast]
      rw [hsl]
      have hseg := flatten_seg L (bases.map fun b => (csub.drop b).take L)
        (secContent_segs csub L bases hb) (pos / L) (pos % L) (min size (L - pos % L))
        (by simpa using hidx) (by omega)
      have hpos : pos / L * L + pos % L = pos := by
        rw [Nat.mul_comm]; exact Nat.div_add_mod pos L
      rw [hpos] at hseg
      simp only [List.getElem_map] at hseg
      have hfirst : (csub.drop (bases[pos / L] + pos % L)).take (min size (L - pos % L))
          = ((secContent csub L bases).drop pos).take (min size (L - pos % L)) := by
        unfold secContent
        rw [hseg, List.drop_take, List.drop_drop, List.take_take]
        congr 1
        omega
      rw [hfirst]
      have hsz : size = min size (L - pos % L) + (size - min size (L - pos % L)) := by omega
      conv => rhs; rw [hsz, List.take_add]
      rw [List.drop_drop]

theorem basesAddr_ok (bases : List Nat) (idx off : Nat) (h : idx < bases.length) :
    basesAddr bases idx off = .ok ((bases[idx] + off : Nat) : Int) := by
  simp [basesAddr, List.getElem?_eq_getElem h]

/-- `SectorStream._read`: for a read inside the view it returns the slice and passes the length check. -/
theorem sectorRaw_spec {sub : FileLike} {csub : List Byte} {k : Nat} {fpk : List Nat}
    {ok : Nat → Cell → Prop} (hsub : IsSub sub csub k fpk ok) (L : Nat) (hL : 0 < L)
    (bases : List Nat) (hb : ∀ b ∈ bases, b + L ≤ csub.length)
    (addr : Nat → Nat → Except Err Int)
    (haddrs : ∀ idx off (h : idx < bases.length), addr idx off = .ok ((bases[idx] + off : Nat) : Int))
    (pos size : Int) (hp : 0 ≤ pos) (hs0 : 0 ≤ size) (hin : pos + size ≤ (bases.length * L : Nat))
    (s : Store) (hinv : GInv ok s) :
    ∃ s', sectorRaw sub L addr pos size s
        = (.ok (slice (secContent csub L bases) pos size), s') ∧ GInv ok s' ∧ Frame fpk s s' := by
  unfold sectorRaw
  by_cases hz : size ≤ 0
  · have : size = 0 := by omega
    subst this
    refine ⟨s, ?_, hinv, Frame.refl _ _⟩
    simp [slice]
  · simp only [hz, if_false]
    obtain ⟨s', h1, h2, h3⟩ := readPieces_spec hsub L hL bases hb addr haddrs size.toNat pos.toNat
      size.toNat (Nat.le_refl _) (by omega) s hinv
    refine ⟨s', ?_, h2, h3⟩
    rw [h1]
    have hlen : ((((secContent csub L bases).drop pos.toNat).take size.toNat).length : Int) = size := by
      have := secContent_length csub L bases hb
      simp only [List.length_take, List.length_drop, this]
      omega
    have hne : ¬ ((((secContent csub L bases).drop pos.toNat).take size.toNat).length : Int) ≠ size :=
      fun h => h hlen
    simp only [hne, if_false]
    congr 2
    unfold slice
    have : ¬ (pos < 0 ∨ size < 0) := by omega
    simp [this]

/-- any class built from `SectorStream` (identity translation, `_read` = the sector plan). -/
theorem secLike_isFile {sub : FileLike} {csub : List Byte} {k : Nat} {fpk : List Nat}
    {ok : Nat → Cell → Prop} (hsub : IsSub sub csub k fpk ok) (i : Nat) (hi : i ∉ fpk)
    (L : Nat) (hL : 0 < L) (bases : List Nat) (hne : bases ≠ [])
    (hb : ∀ b ∈ bases, b + L ≤ csub.length)
    (addr : Nat → Nat → Except Err Int)
    (haddrs : ∀ idx off (h : idx < bases.length), addr idx off = .ok ((bases[idx] + off : Nat) : Int))
    (eof : Int) (heofv : eof = (bases.length * L : Nat))
    (hok : ∀ cell, ok i cell ↔ (0 ≤ cell.pos ∧ cell.pos ≤ eof))
    (f : FileLike) (hft : ∀ s, f.tell s = (s i).pos)
    (hfs : f.seek = wrapSeek sub i eof trId)
    (hfr : f.read = wrapRead sub i eof trId (sectorRaw sub L addr)) :
    IsFile f (secContent csub L bases) i (i :: fpk) ok := by
  have hlenN := secContent_length csub L bases hb
  have hlen : ((secContent csub L bases).length : Int) = eof := by rw [heofv, hlenN]
  have hblen : 0 < bases.length := List.length_pos_iff.mpr hne
  have heof : 0 < eof := by
    rw [heofv]; exact Int.natCast_pos.mpr (Nat.mul_pos hblen hL)
  have hseekFull : ∀ s (o wh : Int), GInv ok s →
      ∃ s', f.seek o wh s = (.ok (seekTarget eof (s i).pos o wh), s') ∧
        (s' i).pos = seekTarget eof (s i).pos o wh ∧ GInv ok s' ∧ Frame (i :: fpk) s s' := by
    intro s o wh h1
    have hr := seekTarget_range eof (s i).pos o wh (by omega)
    obtain ⟨s', e1, e2, e3, e4⟩ := wrapSeek_spec hsub i hi eof (by omega) hok trId o wh s h1
      (seekTarget eof (s i).pos o wh) rfl hr.1
    exact ⟨s', by rw [hfs]; exact e1, e2, e3, e4⟩
  refine
    { mem := List.mem_cons_self ..
      nonneg := fun cell h => ((hok cell).mp h).1
      tell := hft
      seek := ?_
      read := ?_
      bound := fun cell h => by rw [hlen]; exact ((hok cell).mp h).2
      seekFull := ?_ }
  · intro s a hs ha0
    obtain ⟨s', e1, e2, e3, e4⟩ := hseekFull s a 0 hs
    refine ⟨_, s', e1, e3, e4, fun ha1 => ?_⟩
    rw [hlen] at ha1
    rw [seekTarget_abs eof _ a ha0 ha1] at e2
    exact ⟨seekTarget_abs eof _ a ha0 ha1, e2⟩
  · intro s n h1 hn
    have h2 : 0 ≤ (s i).pos := ((hok _).mp (h1 i)).1
    have h3 : (s i).pos ≤ eof := ((hok _).mp (h1 i)).2
    have hb2 : slice (secContent csub L bases) (s i).pos (min (eof - (s i).pos) n)
        = slice (secContent csub L bases) (s i).pos n := by
      unfold slice
      have c1 : ¬ ((s i).pos < 0 ∨ min (eof - (s i).pos) n < 0) := by omega
      have c2 : ¬ ((s i).pos < 0 ∨ n < 0) := by omega
      simp only [c1, c2, if_false]
      apply List.take_eq_take_iff.mpr
      simp only [List.length_drop, hlenN]
      omega
    have hbl : ((slice (secContent csub L bases) (s i).pos (min (eof - (s i).pos) n)).length : Int)
        = min (eof - (s i).pos) n :=
      slice_length_of_le _ _ _ h2 (by omega) (by rw [hlen]; omega)
    obtain ⟨s', e1, e2, e3, e4⟩ := wrapRead_spec hsub i hi eof heof hok trId (sectorRaw sub L addr) n hn s
      h1 (s i).pos rfl h2
      (slice (secContent csub L bases) (s i).pos (min (eof - (s i).pos) n))
      (by
        intro s2 hi2 _
        exact sectorRaw_spec hsub L hL bases hb addr haddrs (s i).pos (min (eof - (s i).pos) n) h2
          (by omega) (by rw [← heofv]; omega) s2 hi2)
    rw [hb2] at e1
    refine ⟨s', by rw [hfr]; exact e1, ?_, e3, e4⟩
    rw [e2, ← hb2, hbl]
  · intro s o wh hs
    rw [hlen]
    exact hseekFull s o wh hs

end Smpl.Stream

namespace Smpl.Stream

/-- `FileStream(parent, L, secs)` — a sector-chained file — is a read-only file over the
concatenation of its sectors **in chain order**, for any order of the sectors. -/
theorem mkChain_isFile {sub : FileLike} {csub : List Byte} {k : Nat} {fpk : List Nat}
    {ok : Nat → Cell → Prop} (hsub : IsSub sub csub k fpk ok) (i : Nat) (hi : i ∉ fpk)
    (L : Nat) (hL : 0 < L) (secs : List Nat) (hne : secs ≠ [])
    (hb : ∀ sct ∈ secs, (sct + 1) * L ≤ csub.length)
    (hok : ∀ cell, ok i cell ↔ (0 ≤ cell.pos ∧ cell.pos ≤ ((L * secs.length : Nat) : Int))) :
    IsFile (mkChain sub i L secs) (secContent csub L (secs.map (· * L))) i (i :: fpk) ok := by
  apply secLike_isFile hsub i hi L hL (secs.map (· * L)) (by simpa using hne) ?_ (chainAddr L secs) ?_
    ((L * secs.length : Nat) : Int) (by simp [Nat.mul_comm]) hok _ (fun _ => rfl) rfl rfl
  · intro b hbm
    obtain ⟨sct, hs, rfl⟩ := List.mem_map.mp hbm
    have := hb sct hs
    rw [Nat.succ_mul] at this; omega
  · intro idx off h
    have h' : idx < secs.length := by simpa using h
    simp [chainAddr, List.getElem?_eq_getElem h']

set_option maxRecDepth 10000 in
/-- `MdfStream(parent)` — the 2048-byte user-data view of 2352-byte raw sectors. -/
theorem mkMdf_isFile {sub : FileLike} {csub : List Byte} {k : Nat} {fpk : List Nat}
    {ok : Nat → Cell → Prop} (hsub : IsSub sub csub k fpk ok) (i : Nat) (hi : i ∉ fpk)
    (nsec : Nat) (hne : 0 < nsec) (hb : nsec * MDF_SECTOR ≤ csub.length)
    (hok : ∀ cell, ok i cell ↔ (0 ≤ cell.pos ∧ cell.pos ≤ ((nsec * MDF_BODY : Nat) : Int))) :
    IsFile (mkMdf sub i ((nsec * MDF_BODY : Nat) : Int))
      (secContent csub MDF_BODY ((List.range nsec).map (· * MDF_SECTOR + MDF_HEADER))) i (i :: fpk) ok := by
  apply secLike_isFile hsub i hi MDF_BODY (by decide) ((List.range nsec).map (· * MDF_SECTOR + MDF_HEADER))
    (by intro h; have := congrArg List.length h; simp at this; omega) ?_
    (fun idx off => .ok ((idx * MDF_SECTOR + MDF_HEADER + off : Nat) : Int)) ?_
    ((nsec * MDF_BODY : Nat) : Int) (by simp) hok _ (fun _ => rfl) rfl rfl
  · intro b hbm
    obtain ⟨j, hj, rfl⟩ := List.mem_map.mp hbm
    have hj' : j < nsec := List.mem_range.mp hj
    have : (j + 1) * MDF_SECTOR ≤ nsec * MDF_SECTOR := Nat.mul_le_mul_right _ hj'
    rw [Nat.succ_mul] at this
    have e1 : MDF_SECTOR = 2352 := rfl
    have e2 : MDF_HEADER = 16 := rfl
    have e3 : MDF_BODY = 2048 := rfl
    rw [e1] at this hb
    rw [e1, e2, e3]
    omega
  · intro idx off h
    simp

/-- plain `SectorStream(parent, n·L, L)`: the identity chain `0, 1, …, n-1`. -/
theorem mkSector_isFile {sub : FileLike} {csub : List Byte} {k : Nat} {fpk : List Nat}
    {ok : Nat → Cell → Prop} (hsub : IsSub sub csub k fpk ok) (i : Nat) (hi : i ∉ fpk)
    (L : Nat) (hL : 0 < L) (nsec : Nat) (hne : 0 < nsec) (hb : nsec * L ≤ csub.length)
    (hok : ∀ cell, ok i cell ↔ (0 ≤ cell.pos ∧ cell.pos ≤ ((nsec * L : Nat) : Int))) :
    IsFile (mkSector sub i ((nsec * L : Nat) : Int) L)
      (secContent csub L ((List.range nsec).map (· * L))) i (i :: fpk) ok := by
  apply secLike_isFile hsub i hi L hL ((List.range nsec).map (· * L))
    (by intro h; have := congrArg List.length h; simp at this; omega) ?_
    (fun idx off => .ok ((idx * L + off : Nat) : Int)) ?_
    ((nsec * L : Nat) : Int) (by simp) hok _ (fun _ => rfl) rfl rfl
  · intro b hbm
    obtain ⟨j, hj, rfl⟩ := List.mem_map.mp hbm
    have hj' : j < nsec := List.mem_range.mp hj
    have : (j + 1) * L ≤ nsec * L := Nat.mul_le_mul_right _ hj'
    rw [Nat.succ_mul] at this
    omega
  · intro idx off h
    simp

end Smpl.Stream
