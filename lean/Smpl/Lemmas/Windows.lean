import Smpl.Model.Filter
/-! Helper lemmas about `windows` (used by C19). -/
namespace Smpl.Filter

variable {α : Type}

theorem windows_length (n : Nat) (x : List α) : (windows n x).length = x.length + 1 - n := by
  simp [windows]

theorem lastN_length (k : Nat) (x : List α) (h : k ≤ x.length) : (lastN k x).length = k := by
  simp [lastN]; omega

/-- splitting a signal: the windows of `a ++ b` are the windows of `a` followed by the windows of
(the last `n-1` samples of `a`) ++ `b`. Needs `a` to hold at least `n-1` samples. -/
theorem windows_append (n : Nat) (hn : 1 ≤ n) (a b : List α) (h : n - 1 ≤ a.length) :
    windows n (a ++ b) = windows n a ++ windows n (lastN (n - 1) a ++ b) := by
  unfold windows lastN
  have hl : (List.drop (a.length - (n - 1)) a ++ b).length + 1 - n = b.length := by
    simp; omega
  have htot : (a ++ b).length + 1 - n = (a.length + 1 - n) + b.length := by
    simp; omega
  rw [hl, htot, List.range_add, List.map_append, List.map_map]
  congr 1
  · apply List.map_congr_left
    intro i hi
    have hi' : i < a.length + 1 - n := List.mem_range.mp hi
    rw [List.drop_append_of_le_length (by omega)]
    rw [List.take_append_of_le_length (by simp; omega)]
  · apply List.map_congr_left
    intro j _
    simp only [Function.comp]
    have e : a.length + 1 - n = a.length - (n - 1) := by omega
    rw [e, ← List.drop_drop, List.drop_append_of_le_length (by omega)]

theorem windows_short (n : Nat) (x : List α) (h : x.length < n) : windows n x = [] := by
  unfold windows
  have : x.length + 1 - n = 0 := by omega
  simp [this]

end Smpl.Filter

namespace Smpl.Filter
variable {α : Type}

/-- general form (no length hypothesis): also when `a` is shorter than the filter memory. -/
theorem windows_append' (n : Nat) (hn : 1 ≤ n) (a b : List α) :
    windows n (a ++ b) = windows n a ++ windows n (lastN (n - 1) a ++ b) := by
  by_cases h : n - 1 ≤ a.length
  · exact windows_append n hn a b h
  · have h1 : a.length < n := by omega
    have h2 : lastN (n - 1) a = a := by
      unfold lastN
      have : a.length - (n - 1) = 0 := by omega
      simp [this]
    rw [windows_short n a h1, h2]; rfl

theorem lastN_append_lastN (k : Nat) (h b : List α) :
    lastN k (lastN k h ++ b) = lastN k (h ++ b) := by
  unfold lastN
  by_cases hk : k ≤ h.length
  · have e1 : (List.drop (h.length - k) h ++ b).length - k = b.length := by simp; omega
    have e2 : (h ++ b).length - k = (h.length - k) + b.length := by simp; omega
    rw [e1, e2]
    by_cases hb : b.length ≤ k
    · rw [List.drop_append_of_le_length (by simp; omega)]
      rw [← List.drop_drop, List.drop_append_of_le_length (by omega)]
      rw [List.drop_append_of_le_length (by simp; omega)]
    · have hb' : k < b.length := by omega
      rw [List.drop_append, List.drop_append]
      simp
      omega
  · have e : h.length - k = 0 := by omega
    simp [e]

end Smpl.Filter
