/-
Lemmas about sibling de-duplication (`groupBy`, `nextFree`, `assignGroup`, `dedupe`), used by C06.
-/
import Smpl.Model.Names

namespace Smpl.Names

/-! ## `nextFree` -/

theorem nextFree_spec (name : Name) (used : List Name) :
    ∀ (fuel i i2 : Nat) (nm : Name), nextFree name used fuel i = some (i2, nm) → nm ∉ used ∧ i ≤ i2 := by
  intro fuel
  induction fuel with
  | zero => intro i i2 nm h; simp [nextFree] at h
  | succ f ih =>
    intro i i2 nm h
    simp only [nextFree] at h
    by_cases hc : used.contains (addCount name i) = true
    · simp only [hc, if_true] at h
      have := ih (i + 1) i2 nm h
      exact ⟨this.1, by omega⟩
    · simp only [hc, Bool.false_eq_true, if_false, Option.some.injEq, Prod.mk.injEq] at h
      obtain ⟨rfl, rfl⟩ := h
      exact ⟨by simpa using hc, Nat.le_refl _⟩

/-! ## `assignGroup` -/

def names2 (out : List (Nat × Name)) : List Name := out.map (·.2)
def idxs (out : List (Nat × Name)) : List Nat := out.map (·.1)

theorem assignGroup_spec (name : Name) (K : List Name) :
    ∀ (members : List Nat) (i : Nat) (used : List Name) (out : List (Nat × Name))
      (used' : List Name) (out' : List (Nat × Name)),
      assignGroup name members i used out = .ok (used', out') →
      (names2 out).Nodup → (∀ x ∈ names2 out, x ∈ used) → (∀ k ∈ K, k ∈ used) →
      (∀ k ∈ K, k ∉ names2 out) → (i = 0 → name ∈ used ∧ name ∉ names2 out ∧ name ∉ K) →
      (names2 out').Nodup ∧ (∀ x ∈ names2 out', x ∈ used') ∧ (∀ k ∈ K, k ∈ used') ∧
      (∀ k ∈ K, k ∉ names2 out') ∧ idxs out' = idxs out ++ members ∧ (∀ x ∈ used, x ∈ used') := by
  intro members
  induction members with
  | nil =>
    intro i used out used' out' h hnd hu hK hKo hname
    simp only [assignGroup, Except.ok.injEq, Prod.mk.injEq] at h
    obtain ⟨rfl, rfl⟩ := h
    exact ⟨hnd, hu, hK, hKo, by simp, fun x hx => hx⟩
  | cons e es ih =>
    intro i used out used' out' h hnd hu hK hKo hname
    simp only [assignGroup] at h
    by_cases hi : i + 1 > 1
    · simp only [hi, if_true] at h
      cases hnf : nextFree name used (used.length + 2) (i + 1) with
      | none => simp [hnf] at h
      | some r =>
        obtain ⟨i2, nm⟩ := r
        simp only [hnf] at h
        obtain ⟨hfresh, hge⟩ := nextFree_spec name used _ _ _ _ hnf
        have hnm_out : nm ∉ names2 out := fun hx => hfresh (hu nm hx)
        have := ih i2 (nm :: used) (out ++ [(e, nm)]) used' out' h
          (by
            simp only [names2, List.map_append, List.map_cons, List.map_nil]
            rw [List.nodup_append]
            refine ⟨hnd, by simp, ?_⟩
            intro a ha b hb e'
            simp at hb; subst hb; subst e'
            exact hnm_out ha)
          (by
            intro x hx
            simp only [names2, List.map_append, List.map_cons, List.map_nil, List.mem_append, List.mem_singleton] at hx
            rcases hx with hx | rfl
            · exact List.mem_cons_of_mem _ (hu x hx)
            · exact List.mem_cons_self)
          (fun k hk => List.mem_cons_of_mem _ (hK k hk))
          (by
            intro k hk hx
            simp only [names2, List.map_append, List.map_cons, List.map_nil, List.mem_append, List.mem_singleton] at hx
            rcases hx with hx | rfl
            · exact hKo k hk hx
            · exact hfresh (hK k hk))
          (by intro h0; omega)
        obtain ⟨a1, a2, a3, a4, a5, a6⟩ := this
        refine ⟨a1, a2, a3, a4, ?_, fun x hx => a6 x (List.mem_cons_of_mem _ hx)⟩
        rw [a5]; simp [idxs]
    · have hi0 : i = 0 := by omega
      simp only [hi, if_false] at h
      obtain ⟨hn1, hn2, hn3⟩ := hname hi0
      have := ih (i + 1) used (out ++ [(e, name)]) used' out' h
        (by
          simp only [names2, List.map_append, List.map_cons, List.map_nil]
          rw [List.nodup_append]
          refine ⟨hnd, by simp, ?_⟩
          intro a ha b hb e'
          simp at hb; subst hb; subst e'
          exact hn2 ha)
        (by
          intro x hx
          simp only [names2, List.map_append, List.map_cons, List.map_nil, List.mem_append, List.mem_singleton] at hx
          rcases hx with hx | rfl
          · exact hu x hx
          · exact hn1)
        hK
        (by
          intro k hk hx
          simp only [names2, List.map_append, List.map_cons, List.map_nil, List.mem_append, List.mem_singleton] at hx
          rcases hx with hx | rfl
          · exact hKo k hk hx
          · exact hn3 hk)
        (by intro h0; omega)
      obtain ⟨a1, a2, a3, a4, a5, a6⟩ := this
      refine ⟨a1, a2, a3, a4, ?_, a6⟩
      rw [a5]; simp [idxs]

/-! ## the loop over the groups -/

theorem loop_spec :
    ∀ (gs : List (Name × List Nat)) (used : List Name) (out out' : List (Nat × Name)),
      dedupe.loop gs used out = .ok out' →
      (gs.map (·.1)).Nodup → (∀ g ∈ gs, g.2 ≠ []) →
      (names2 out).Nodup → (∀ x ∈ names2 out, x ∈ used) → (∀ k ∈ gs.map (·.1), k ∈ used) →
      (∀ k ∈ gs.map (·.1), k ∉ names2 out) →
      (names2 out').Nodup ∧ idxs out' = idxs out ++ gs.flatMap (·.2) := by
  intro gs
  induction gs with
  | nil =>
    intro used out out' h _ _ hnd _ _ _
    simp only [dedupe.loop, Except.ok.injEq] at h
    subst h
    exact ⟨hnd, by simp⟩
  | cons g gs ih =>
    intro used out out' h hkeys hne hnd hu hK hKo
    obtain ⟨name, members⟩ := g
    have hkeys' : (gs.map (·.1)).Nodup := (List.nodup_cons.mp (by simpa using hkeys)).2
    have hname_notin : name ∉ gs.map (·.1) := (List.nodup_cons.mp (by simpa using hkeys)).1
    have hname_used : name ∈ used := hK name (by simp)
    have hname_out : name ∉ names2 out := hKo name (by simp)
    have hK' : ∀ k ∈ gs.map (·.1), k ∈ used := fun k hk => hK k (by simp at hk ⊢; exact Or.inr hk)
    have hKo' : ∀ k ∈ gs.map (·.1), k ∉ names2 out := fun k hk => hKo k (by simp at hk ⊢; exact Or.inr hk)
    have hne' : ∀ g ∈ gs, g.2 ≠ [] := fun g hg => hne g (List.mem_cons_of_mem _ hg)
    -- both branches behave like `assignGroup` on the whole member list
    have single : ∀ e, members = [e] →
        (names2 out').Nodup ∧ idxs out' = idxs out ++ ((name, members) :: gs).flatMap (·.2) := by
      intro e hm
      subst hm
      simp only [dedupe.loop] at h
      have := ih used (out ++ [(e, name)]) out' h hkeys' hne'
        (by
          simp only [names2, List.map_append, List.map_cons, List.map_nil]
          rw [List.nodup_append]
          refine ⟨hnd, by simp, ?_⟩
          intro a ha b hb e'
          simp at hb; subst hb; subst e'
          exact hname_out ha)
        (by
          intro x hx
          simp only [names2, List.map_append, List.map_cons, List.map_nil, List.mem_append, List.mem_singleton] at hx
          rcases hx with hx | rfl
          · exact hu x hx
          · exact hname_used)
        hK'
        (by
          intro k hk hx
          simp only [names2, List.map_append, List.map_cons, List.map_nil, List.mem_append, List.mem_singleton] at hx
          rcases hx with hx | rfl
          · exact hKo' k hk hx
          · exact hname_notin hk)
      refine ⟨this.1, ?_⟩
      rw [this.2]; simp [idxs]
    match members, hne (name, members) List.mem_cons_self, single with
    | [e], _, single => exact single e rfl
    | [], hx, _ => exact absurd rfl hx
    | e1 :: e2 :: es, _, _ =>
      simp only [dedupe.loop] at h
      cases hag : assignGroup name (e1 :: e2 :: es) 0 used [] with
      | error err => simp [hag] at h
      | ok r =>
        obtain ⟨used', o⟩ := r
        simp only [hag] at h
        -- run assignGroup with `out` threaded through: it only appends
        have hthread : ∀ (members : List Nat) (i : Nat) (used : List Name) (o1 : List (Nat × Name)) (u o2),
            assignGroup name members i used [] = .ok (u, o2) →
            assignGroup name members i used o1 = .ok (u, o1 ++ o2) := by
          intro members
          induction members with
          | nil =>
            intro i used o1 u o2 hh
            simp only [assignGroup, Except.ok.injEq, Prod.mk.injEq] at hh
            obtain ⟨rfl, rfl⟩ := hh
            simp [assignGroup]
          | cons e es ihm =>
            intro i used o1 u o2 hh
            -- generalise the accumulator: assignGroup … (acc) = ok (u, acc ++ tail)
            have gen : ∀ (members : List Nat) (i : Nat) (used : List Name) (acc : List (Nat × Name)) (u o2),
                assignGroup name members i used acc = .ok (u, o2) →
                ∀ pre, assignGroup name members i used (pre ++ acc) = .ok (u, pre ++ o2) := by
              intro members
              induction members with
              | nil =>
                intro i used acc u o2 hh pre
                simp only [assignGroup, Except.ok.injEq, Prod.mk.injEq] at hh
                obtain ⟨rfl, rfl⟩ := hh
                simp [assignGroup]
              | cons e es ihg =>
                intro i used acc u o2 hh pre
                simp only [assignGroup] at hh ⊢
                by_cases hi : i + 1 > 1
                · simp only [hi, if_true] at hh ⊢
                  cases hnf : nextFree name used (used.length + 2) (i + 1) with
                  | none => simp [hnf] at hh
                  | some r =>
                    obtain ⟨i2, nm⟩ := r
                    simp only [hnf] at hh ⊢
                    have := ihg i2 (nm :: used) (acc ++ [(e, nm)]) u o2 hh pre
                    simpa [List.append_assoc] using this
                · simp only [hi, if_false] at hh ⊢
                  have := ihg (i + 1) used (acc ++ [(e, name)]) u o2 hh pre
                  simpa [List.append_assoc] using this
            have := gen (e :: es) i used [] u o2 hh o1
            simpa using this
        have hag' := hthread (e1 :: e2 :: es) 0 used out used' o hag
        have spec := assignGroup_spec name (gs.map (·.1)) (e1 :: e2 :: es) 0 used out used' (out ++ o) hag'
          hnd hu hK' hKo' (fun _ => ⟨hname_used, hname_out, hname_notin⟩)
        obtain ⟨b1, b2, b3, b4, b5, _⟩ := spec
        have := ih used' (out ++ o) out' h hkeys' hne' b1 b2 b3 b4
        refine ⟨this.1, ?_⟩
        rw [this.2, b5]; simp

end Smpl.Names

namespace Smpl.Names

/-! ## `groupBy` -/

def members (acc : List (Name × List Nat)) : List Nat := acc.flatMap (·.2)

def upd (c : Name) (i : Nat) : Name × List Nat → Name × List Nat :=
  fun (k, v) => if k == c then (k, v ++ [i]) else (k, v)

theorem upd_fst (c : Name) (i : Nat) (g : Name × List Nat) : (upd c i g).1 = g.1 := by
  obtain ⟨k, v⟩ := g
  simp only [upd]; split <;> rfl

theorem map_upd_keys (c : Name) (i : Nat) (acc : List (Name × List Nat)) :
    (acc.map (upd c i)).map (·.1) = acc.map (·.1) := by
  induction acc with
  | nil => rfl
  | cons g gs ih => simp [upd_fst, ih]

theorem map_upd_id (c : Name) (i : Nat) (acc : List (Name × List Nat)) (h : c ∉ acc.map (·.1)) :
    acc.map (upd c i) = acc := by
  induction acc with
  | nil => rfl
  | cons g gs ih =>
    obtain ⟨k, v⟩ := g
    have hk : k ≠ c := by intro e; subst e; exact h (by simp)
    have : (k == c) = false := by simpa using hk
    simp only [List.map_cons, upd, this]
    rw [ih (fun hx => h (by simp at hx ⊢; exact Or.inr hx))]
    simp

theorem members_upd (c : Name) (i : Nat) :
    ∀ (acc : List (Name × List Nat)), (acc.map (·.1)).Nodup → (members acc).Nodup → i ∉ members acc →
      (members (acc.map (upd c i))).Nodup ∧
      (∀ k, k ∈ members (acc.map (upd c i)) ↔ k ∈ members acc ∨ (k = i ∧ c ∈ acc.map (·.1))) ∧
      (∀ g ∈ acc.map (upd c i), g.2 ≠ [] ∨ ∃ g' ∈ acc, g'.2 = []) := by
  intro acc
  induction acc with
  | nil => intro _ _ _; simp [members]
  | cons g gs ih =>
    intro hkeys hnd hi
    obtain ⟨k, v⟩ := g
    have hkeys' : k ∉ gs.map (·.1) ∧ (gs.map (·.1)).Nodup := by
      have := hkeys
      simp only [List.map_cons] at this
      exact List.nodup_cons.mp this
    simp only [members, List.flatMap_cons] at hnd hi
    rw [List.nodup_append] at hnd
    by_cases hk : (k == c) = true
    · have hkc : k = c := by simpa using hk
      subst hkc
      have hrest : gs.map (upd k i) = gs := map_upd_id k i gs hkeys'.1
      simp only [List.map_cons, upd, hk, if_true, hrest, members, List.flatMap_cons]
      refine ⟨?_, ?_, ?_⟩
      · rw [List.nodup_append]
        refine ⟨?_, hnd.2.1, ?_⟩
        · rw [List.nodup_append]
          refine ⟨hnd.1, by simp, ?_⟩
          intro a ha b hb e
          simp at hb; subst hb; subst e
          exact hi (List.mem_append_left _ ha)
        · intro a ha b hb e
          subst e
          rcases List.mem_append.mp ha with ha | ha
          · exact hnd.2.2 a ha a hb rfl
          · simp at ha; subst ha
            exact hi (List.mem_append_right _ hb)
      · intro x
        simp only [List.mem_append, List.mem_singleton, List.map_cons]
        constructor
        · rintro ((h | h) | h)
          · exact Or.inl (Or.inl h)
          · exact Or.inr ⟨h, List.mem_cons_self⟩
          · exact Or.inl (Or.inr h)
        · rintro ((h | h) | ⟨h, _⟩)
          · exact Or.inl (Or.inl h)
          · exact Or.inr h
          · exact Or.inl (Or.inr h)
      · intro g hg
        rcases List.mem_cons.mp hg with rfl | hg
        · left; simp
        · by_cases he : g.2 = []
          · right; exact ⟨g, List.mem_cons_of_mem _ hg, he⟩
          · left; exact he
    · have hkf : (k == c) = false := by simpa using hk
      have hi' : i ∉ members gs := fun hx => hi (List.mem_append_right _ hx)
      obtain ⟨r1, r2, r3⟩ := ih hkeys'.2 hnd.2.1 hi'
      simp only [List.map_cons, upd, hkf, members, List.flatMap_cons]
      refine ⟨?_, ?_, ?_⟩
      · rw [List.nodup_append]
        refine ⟨hnd.1, r1, ?_⟩
        intro a ha b hb e
        subst e
        rcases (r2 a).mp hb with hb | ⟨rfl, _⟩
        · exact hnd.2.2 a ha a hb rfl
        · exact hi (List.mem_append_left _ ha)
      · intro x
        have hkc : k ≠ c := by simpa using hk
        simp only [List.mem_append, Bool.false_eq_true, if_false, List.map_cons, List.mem_cons]
        rw [show (x ∈ List.flatMap (fun x => x.2) (List.map (upd c i) gs)) = (x ∈ members (gs.map (upd c i))) from rfl, r2 x]
        constructor
        · rintro (h | h | ⟨h1, h2⟩)
          · exact Or.inl (Or.inl h)
          · exact Or.inl (Or.inr h)
          · exact Or.inr ⟨h1, Or.inr h2⟩
        · rintro ((h | h) | ⟨h1, h2 | h2⟩)
          · exact Or.inl h
          · exact Or.inr (Or.inl h)
          · exact absurd h2.symm hkc
          · exact Or.inr (Or.inr ⟨h1, h2⟩)
      · intro g hg
        rcases List.mem_cons.mp hg with rfl | hg
        · by_cases he : v = []
          · right; exact ⟨(k, v), List.mem_cons_self, he⟩
          · left; exact he
        · rcases r3 g hg with h | ⟨g', hg', he⟩
          · left; exact h
          · right; exact ⟨g', List.mem_cons_of_mem _ hg', he⟩

/-- invariant of `groupBy.go`. -/
structure GInv (i : Nat) (acc : List (Name × List Nat)) : Prop where
  keys  : (acc.map (·.1)).Nodup
  nodup : (members acc).Nodup
  mem   : ∀ k, k ∈ members acc ↔ k < i
  ne    : ∀ g ∈ acc, g.2 ≠ []

theorem groupBy_go_spec :
    ∀ (cs : List Name) (i : Nat) (acc : List (Name × List Nat)), GInv i acc →
      GInv (i + cs.length) (groupBy.go i acc cs) := by
  intro cs
  induction cs with
  | nil => intro i acc h; simpa [groupBy.go] using h
  | cons c cs ih =>
    intro i acc h
    simp only [groupBy.go]
    have hlen : i + (c :: cs).length = (i + 1) + cs.length := by simp; omega
    rw [hlen]
    apply ih
    have hi : i ∉ members acc := fun hx => by have := (h.mem i).mp hx; omega
    by_cases hany : acc.any (·.1 == c) = true
    · simp only [hany, if_true]
      have hc : c ∈ acc.map (·.1) := by
        rw [List.any_eq_true] at hany
        obtain ⟨g, hg, he⟩ := hany
        have : g.1 = c := by simpa using he
        exact List.mem_map.mpr ⟨g, hg, this⟩
      have hmap : (acc.map fun x => match x with | (k, v) => if (k == c) = true then (k, v ++ [i]) else (k, v)) = acc.map (upd c i) := by
        apply List.map_congr_left
        intro ⟨k, v⟩ _
        rfl
      rw [hmap]
      obtain ⟨r1, r2, r3⟩ := members_upd c i acc h.keys h.nodup hi
      refine ⟨by rw [map_upd_keys]; exact h.keys, r1, ?_, ?_⟩
      · intro k
        rw [r2 k, h.mem k]
        constructor
        · rintro (hk | ⟨rfl, _⟩) <;> omega
        · intro hk
          rcases Nat.lt_or_ge k i with h1 | h1
          · exact Or.inl h1
          · exact Or.inr ⟨by omega, hc⟩
      · intro g hg
        rcases r3 g hg with h1 | ⟨g', hg', he⟩
        · exact h1
        · exact absurd he (h.ne g' hg')
    · simp only [hany, Bool.false_eq_true, if_false]
      have hc : c ∉ acc.map (·.1) := by
        intro hx
        apply hany
        rw [List.any_eq_true]
        obtain ⟨g, hg, he⟩ := List.mem_map.mp hx
        exact ⟨g, hg, by simpa using he⟩
      refine ⟨?_, ?_, ?_, ?_⟩
      · simp only [List.map_append, List.map_cons, List.map_nil]
        rw [List.nodup_append]
        refine ⟨h.keys, by simp, ?_⟩
        intro a ha b hb e
        simp at hb; subst hb; subst e
        exact hc ha
      · simp only [members, List.flatMap_append, List.flatMap_cons, List.flatMap_nil, List.append_nil]
        rw [List.nodup_append]
        refine ⟨h.nodup, by simp, ?_⟩
        intro a ha b hb e
        simp at hb; subst hb; subst e
        exact hi ha
      · intro k
        simp only [members, List.flatMap_append, List.flatMap_cons, List.flatMap_nil, List.append_nil, List.mem_append, List.mem_singleton]
        have := h.mem k
        simp only [members] at this
        rw [this]; omega
      · intro g hg
        rcases List.mem_append.mp hg with hg | hg
        · exact h.ne g hg
        · simp at hg; subst hg; simp

theorem groupBy_spec (cands : List Name) : GInv cands.length (groupBy cands) := by
  have := groupBy_go_spec cands 0 [] ⟨by simp, by simp [members], by simp [members], by simp⟩
  simpa [groupBy] using this

/-! ## the result -/

theorem inj_of_nodup_map {α β : Type} (g : α → β) :
    ∀ (l : List α), (l.map g).Nodup → ∀ x ∈ l, ∀ y ∈ l, g x = g y → x = y := by
  intro l
  induction l with
  | nil => intro _ x hx; cases hx
  | cons a as ih =>
    intro hnd x hx y hy e
    have h' : g a ∉ as.map g ∧ (as.map g).Nodup := by
      have := hnd
      simp only [List.map_cons] at this
      exact List.nodup_cons.mp this
    rcases List.mem_cons.mp hx with hxa | hx
    · rcases List.mem_cons.mp hy with hya | hy
      · rw [hxa, hya]
      · rw [hxa] at e
        exact absurd (List.mem_map.mpr ⟨y, hy, e.symm⟩) h'.1
    · rcases List.mem_cons.mp hy with hya | hy
      · rw [hya] at e
        exact absurd (List.mem_map.mpr ⟨x, hx, e⟩) h'.1
      · exact ih h'.2 x hx y hy e

/-- **the assigned names of siblings are pairwise distinct**, one per sibling. -/
theorem dedupe_nodup (cands : List Name) (res : List Name) (h : dedupe cands = .ok res) :
    res.Nodup ∧ res.length = cands.length := by
  unfold dedupe at h
  simp only at h
  cases hl : dedupe.loop (groupBy cands) ((groupBy cands).map (·.1)) [] with
  | error e => simp [hl] at h
  | ok out =>
    simp only [hl, Except.ok.injEq] at h
    have g := groupBy_spec cands
    obtain ⟨hn, hidx⟩ := loop_spec (groupBy cands) _ [] out hl g.keys g.ne (by simp [names2]) (by simp [names2])
      (fun k hk => hk) (by simp [names2])
    simp only [idxs, List.map_nil, List.nil_append] at hidx
    subst h
    refine ⟨?_, by simp⟩
    rw [List.Nodup, List.pairwise_map]
    apply List.Pairwise.imp_of_mem _ (List.nodup_range (n := cands.length))
    intro a b ha hb hab
    have ha' : a < cands.length := by simpa using ha
    have hb' : b < cands.length := by simpa using hb
    -- both indices have an entry in `out`
    have hfind : ∀ k, k < cands.length → ∃ x, out.find? (·.1 == k) = some (k, x) ∧ (k, x) ∈ out := by
      intro k hk
      have hmem : k ∈ out.map (·.1) := by
        rw [hidx]; exact (g.mem k).mpr hk
      obtain ⟨e, he, hek⟩ := List.mem_map.mp hmem
      cases hf : out.find? (·.1 == k) with
      | none =>
        rw [List.find?_eq_none] at hf
        exact absurd (by simpa using hek) (by simpa using hf e he)
      | some r =>
        have h1 := List.find?_some hf
        have h2 := List.mem_of_find?_eq_some hf
        obtain ⟨r1, r2⟩ := r
        have : r1 = k := by simpa using h1
        subst this
        exact ⟨r2, rfl, h2⟩
    obtain ⟨x, hx1, hx2⟩ := hfind a ha'
    obtain ⟨y, hy1, hy2⟩ := hfind b hb'
    simp only [hx1, hy1, Option.map_some, Option.getD_some]
    intro e
    have hn' : (out.map (·.2)).Nodup := hn
    have := inj_of_nodup_map (·.2) out hn' (a, x) hx2 (b, y) hy2 e
    exact hab (by simpa using congrArg Prod.fst this)

end Smpl.Names
