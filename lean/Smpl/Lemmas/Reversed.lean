/-
The sample-reversed view (`StreamReversed`): list-level facts about reversing a content by rows of
`w` bytes, and the read of an aligned block through `mkRev` (used by C08).
-/
import Smpl.Lemmas.StreamSpec

namespace Smpl.Stream

theorem chunks_length (w r : Nat) (l : List Byte) : (chunks w r l).length = r := by
  induction r generalizing l with
  | zero => rfl
  | succ r ih => simp [chunks, ih]

theorem chunks_drop (w : Nat) : ∀ (j r : Nat) (l : List Byte), j ≤ r →
    (chunks w r l).drop j = chunks w (r - j) (l.drop (j * w)) := by
  intro j
  induction j with
  | zero => intro r l _; simp
  | succ j ih =>
    intro r l h
    cases r with
    | zero => omega
    | succ r =>
      simp only [chunks, List.drop_succ_cons]
      rw [ih r (l.drop w) (by omega), List.drop_drop]
      have e1 : r + 1 - (j + 1) = r - j := by omega
      have e2 : w + j * w = (j + 1) * w := by rw [Nat.succ_mul]; omega
      rw [e1, e2]

theorem chunks_take (w : Nat) : ∀ (m r : Nat) (l : List Byte), m ≤ r →
    (chunks w r l).take m = chunks w m l := by
  intro m
  induction m with
  | zero => intro r l _; simp [chunks]
  | succ m ih =>
    intro r l h
    cases r with
    | zero => omega
    | succ r =>
      simp only [chunks, List.take_succ_cons]
      rw [ih r (l.drop w) (by omega)]

/-- the rows only look at the first `m·w` bytes. -/
theorem chunks_of_take (w : Nat) : ∀ (m : Nat) (l : List Byte), chunks w m (l.take (m * w)) = chunks w m l := by
  intro m
  induction m with
  | zero => intro l; rfl
  | succ m ih =>
    intro l
    simp only [chunks]
    have e : (m + 1) * w = w + m * w := by rw [Nat.succ_mul]; omega
    rw [e]
    congr 1
    · rw [List.take_take]; congr 1; omega
    · rw [List.drop_take]
      have : w + m * w - w = m * w := by omega
      rw [this, ih]

theorem chunks_row_length (w m : Nat) (l : List Byte) (h : m * w ≤ l.length) :
    ∀ c ∈ chunks w m l, c.length = w := by
  induction m generalizing l with
  | zero => intro c hc; simp [chunks] at hc
  | succ m ih =>
    intro c hc
    have e : (m + 1) * w = w + m * w := by rw [Nat.succ_mul]; omega
    simp only [chunks, List.mem_cons] at hc
    rcases hc with rfl | hc
    · simp; omega
    · exact ih (l.drop w) (by simp; omega) c hc

theorem chunks_flatten (w m : Nat) (l : List Byte) (h : m * w ≤ l.length) :
    (chunks w m l).flatten = l.take (m * w) := by
  induction m generalizing l with
  | zero => simp [chunks]
  | succ m ih =>
    have e : (m + 1) * w = w + m * w := by rw [Nat.succ_mul]; omega
    simp only [chunks, List.flatten_cons]
    rw [ih (l.drop w) (by simp; omega), e, List.take_add]

/-- slicing the concatenation of rows of equal length at row boundaries. -/
theorem flatten_drop_take (w : Nat) : ∀ (L : List (List Byte)), (∀ c ∈ L, c.length = w) → ∀ (i m : Nat),
    (L.flatten.drop (i * w)).take (m * w) = ((L.drop i).take m).flatten := by
  intro L hL i
  induction i generalizing L with
  | zero =>
    intro m
    simp only [Nat.zero_mul, List.drop_zero]
    induction m generalizing L with
    | zero => simp
    | succ m ihm =>
      cases L with
      | nil => simp
      | cons c cs =>
        have hc : c.length = w := hL c (by simp)
        have e : (m + 1) * w = w + m * w := by rw [Nat.succ_mul]; omega
        simp only [List.flatten_cons, List.take_succ_cons]
        rw [e, List.take_add, List.take_left' hc, List.drop_left' hc]
        rw [ihm cs (fun x hx => hL x (by simp [hx]))]
  | succ i ih =>
    intro m
    cases L with
    | nil => simp
    | cons c cs =>
      have hc : c.length = w := hL c (by simp)
      have e : (i + 1) * w = w + i * w := by rw [Nat.succ_mul]; omega
      simp only [List.flatten_cons, List.drop_succ_cons]
      rw [e, ← List.drop_drop, List.drop_left' hc]
      exact ih cs (fun x hx => hL x (by simp [hx])) m

theorem reverse_drop_take {α : Type} (L : List α) (i m : Nat) (h : i + m ≤ L.length) :
    (L.reverse.drop i).take m = ((L.drop (L.length - i - m)).take m).reverse := by
  apply List.ext_getElem?
  intro k
  simp only [List.getElem?_take, List.getElem?_drop]
  by_cases hk : k < m
  · simp only [hk, if_true]
    have hlen : ((L.drop (L.length - i - m)).take m).length = m := by simp; omega
    rw [List.getElem?_reverse (by omega : i + k < L.length)]
    rw [List.getElem?_reverse (by rw [hlen]; exact hk), hlen]
    simp only [List.getElem?_take, List.getElem?_drop]
    have : m - 1 - k < m := by omega
    simp only [this, if_true]
    congr 1
    omega
  · simp only [hk, if_false]
    rw [List.getElem?_eq_none]
    simp; omega

/-- the content of the reversed view: the rows of `w` bytes of the first `R·w` bytes, last row first. -/
def revContent (w R : Nat) (c : List Byte) : List Byte := (chunks w R c).reverse.flatten

theorem revContent_length (w R : Nat) (c : List Byte) (h : R * w ≤ c.length) :
    (revContent w R c).length = R * w := by
  unfold revContent
  have hrow := chunks_row_length w R c h
  have : ∀ L : List (List Byte), (∀ x ∈ L, x.length = w) → L.flatten.length = L.length * w := by
    intro L hL
    induction L with
    | nil => simp
    | cons a as ih =>
      simp only [List.flatten_cons, List.length_append, List.length_cons]
      rw [hL a (by simp), ih (fun x hx => hL x (by simp [hx])), Nat.succ_mul]; omega
  rw [this _ (by intro x hx; exact hrow x (List.mem_reverse.mp hx))]
  simp [chunks_length]

/-- **the aligned block of the reversed view.** Rows `i … i+m−1` of the reversed content are the rows
`R−i−m … R−i−1` of the original, in reverse order — exactly what `StreamReversed._read` computes from
the forward read at the translated address `(R−i−m)·w`. -/
theorem revContent_block (w R : Nat) (c : List Byte) (h : R * w ≤ c.length) (i m : Nat) (him : i + m ≤ R) :
    ((revContent w R c).drop (i * w)).take (m * w)
      = (chunks w m ((c.drop ((R - i - m) * w)).take (m * w))).reverse.flatten := by
  unfold revContent
  have hrow := chunks_row_length w R c h
  rw [flatten_drop_take w _ (by intro x hx; exact hrow x (List.mem_reverse.mp hx)) i m]
  rw [reverse_drop_take _ i m (by simpa [chunks_length] using him)]
  rw [chunks_length, chunks_drop w _ R c (by omega), chunks_take w m _ _ (by omega), chunks_of_take]

end Smpl.Stream

namespace Smpl.Stream

theorem slice_nat (c : List Byte) (a n : Nat) : slice c (a : Int) (n : Int) = (c.drop a).take n := by
  unfold slice
  have : ¬ ((a : Int) < 0 ∨ (n : Int) < 0) := by omega
  simp [this]

/-- **C08 (sample-reversed view, aligned reads).** Over any substream that behaves like a file
with content `csub`, the reversed view of its first `R` rows of `w` bytes, positioned on a row
boundary `q·w`, answers a read of `m` whole rows that fit before the end with exactly the bytes
`[q·w, (q+m)·w)` of the row-reversed content, and advances by `m·w`. -/
theorem mkRev_read_aligned {sub : FileLike} {csub : List Byte} {k : Nat} {fpk : List Nat}
    {ok : Nat → Cell → Prop} (hsub : IsSub sub csub k fpk ok) (i : Nat) (hi : i ∉ fpk)
    (w R : Nat) (hw : 0 < w) (hR : 0 < R) (hc : R * w ≤ csub.length)
    (hok : ∀ cell, ok i cell ↔ (0 ≤ cell.pos ∧ cell.pos ≤ ((R * w : Nat) : Int)))
    (s : Store) (hinv : GInv ok s) (q m : Nat) (hp : (s i).pos = ((q * w : Nat) : Int)) (hqm : q + m ≤ R) :
    ∃ s', (mkRev sub i ((R * w : Nat) : Int) w).read ((m * w : Nat) : Int) s
        = (.ok (((revContent w R csub).drop (q * w)).take (m * w)), s') ∧
      (s' i).pos = (((q + m) * w : Nat) : Int) ∧ GInv ok s' ∧ Frame (i :: fpk) s s' := by
  have hRw : 0 < R * w := Nat.mul_pos hR hw
  have hle : (q + m) * w ≤ R * w := Nat.mul_le_mul_right _ hqm
  have hsplit : (q + m) * w = q * w + m * w := Nat.add_mul _ _ _
  have hmin : min (((R * w : Nat) : Int) - (s i).pos) ((m * w : Nat) : Int) = ((m * w : Nat) : Int) := by
    rw [hp]; omega
  -- the translated address
  have hRqm : (R - q - m) * w + (q * w + m * w) = R * w := by
    have : R - q - m + (q + m) = R := by omega
    calc (R - q - m) * w + (q * w + m * w) = (R - q - m + (q + m)) * w := by rw [Nat.add_mul, Nat.add_mul]
      _ = R * w := by rw [this]
  have htr : revTr ((R * w : Nat) : Int) w (min (((R * w : Nat) : Int) - (s i).pos) ((m * w : Nat) : Int)) (s i).pos
      = .ok (((R - q - m) * w : Nat) : Int) := by
    rw [hmin, hp]
    unfold revTr
    have h1 : ((m * w : Nat) : Int) % (w : Int) = 0 := by
      rw [← Int.natCast_emod]; simp
    have e : ((R * w : Nat) : Int) - (((q * w : Nat) : Int) + ((m * w : Nat) : Int)) = (((R - q - m) * w : Nat) : Int) := by
      omega
    have h2 : (((R - q - m) * w : Nat) : Int) % (w : Int) = 0 := by
      rw [← Int.natCast_emod]; simp
    simp only [h1, ne_eq, not_true_eq_false, if_false, e, h2]
  obtain ⟨s', h1, h2, h3, h4⟩ := wrapRead_spec hsub i hi ((R * w : Nat) : Int) (by omega) hok (revTr ((R * w : Nat) : Int) w)
    (revRaw sub w) ((m * w : Nat) : Int) (by omega) s hinv (((R - q - m) * w : Nat) : Int) htr (by omega)
    (((revContent w R csub).drop (q * w)).take (m * w))
    (by
      intro s2 hinv2 hpos2
      have hk2 : (s2 k).pos = (((R - q - m) * w : Nat) : Int) := hpos2 (by omega)
      rw [hmin]
      obtain ⟨s3, hr, _, hinv3, hfr3⟩ := hsub.read s2 ((m * w : Nat) : Int) hinv2 (by omega)
      refine ⟨s3, ?_, hinv3, hfr3⟩
      unfold revRaw
      rw [hr, hk2, slice_nat]
      have hlen : ((csub.drop ((R - q - m) * w)).take (m * w)).length = m * w := by
        simp only [List.length_take, List.length_drop]; omega
      have hrows : ((m * w : Nat) : Int).toNat / w = m := by
        rw [Int.toNat_natCast]; exact Nat.mul_div_cancel _ hw
      simp only [hrows, hlen]
      have hsz : ¬ (m * w ≠ ((m * w : Nat) : Int).toNat) := by rw [Int.toNat_natCast]; omega
      have hw0 : ¬ (w = 0 ∨ m * w ≠ m * w) := by omega
      simp only [hsz, hw0, if_false]
      rw [revContent_block w R csub hc q m hqm])
  refine ⟨s', ?_, ?_, h3, h4⟩
  · simpa [mkRev] using h1
  · rw [h2, hmin, hp]; omega

/-- a read whose (clipped) size is not a whole number of rows is rejected with an error; nothing is returned. -/
theorem mkRev_read_rejects (sub : FileLike) (i : Nat) (eof : Int) (w : Nat) (n : Int) (s : Store)
    (hn : ¬ (min (eof - (s i).pos) n < 0)) (hmis : (min (eof - (s i).pos) n) % (w : Int) ≠ 0) :
    ((mkRev sub i eof w).read n s).1 = .error .badReadSize := by
  simp only [mkRev, wrapRead, hn, if_false, revTr, hmis, ne_eq, not_false_eq_true, if_true]

/-- a read from a cursor that is not on a row boundary (relative to the end) is rejected as well. -/
theorem mkRev_read_rejects_align (sub : FileLike) (i : Nat) (eof : Int) (w : Nat) (n : Int) (s : Store)
    (hn : ¬ (min (eof - (s i).pos) n < 0)) (hsz : (min (eof - (s i).pos) n) % (w : Int) = 0)
    (hmis : (eof - ((s i).pos + min (eof - (s i).pos) n)) % (w : Int) ≠ 0) :
    ((mkRev sub i eof w).read n s).1 = .error .badAlign := by
  simp only [mkRev, wrapRead, hn, if_false, revTr, hsz, ne_eq, not_true_eq_false, hmis, not_false_eq_true, if_true]

end Smpl.Stream
