/-
Lemmas about the stereo-name rule (`stereoMatch`) and the pairing routine (`combine`), used by C05.
-/
import Smpl.Model.Names

namespace Smpl.Names

theorem mem_takeWhile_imp {p : Char → Bool} {l : List Char} {c : Char}
    (h : c ∈ l.takeWhile p) : p c = true := by
  induction l with
  | nil => simp at h
  | cons x xs ih =>
    by_cases hx : p x = true
    · simp only [List.takeWhile_cons, hx, if_true, List.mem_cons] at h
      rcases h with rfl | h
      · exact hx
      · exact ih h
    · simp [List.takeWhile_cons, hx] at h

/-- the side letters are not blanks. -/
theorem side_not_ws (sd : Char) (h : sd = 'L' ∨ sd = 'R') : isWs sd = false := by
  rcases h with rfl | rfl <;> decide

/-- full decomposition of a recognised name. -/
theorem stereoMatch_spec (s stem sep : Name) (side : Char) (h : stereoMatch s = some (stem, sep, side)) :
    sep ≠ [] ∧ (∀ c ∈ sep, isSep c = true) ∧ (side = 'L' ∨ side = 'R') ∧
    (∀ c, stem.getLast? = some c → isSep c = false) ∧ (∀ c ∈ stem, c ≠ '\n') ∧
    ∃ ws, (∀ c ∈ ws, isWs c = true) ∧ s = stem ++ sep ++ [side] ++ ws := by
  unfold stereoMatch at h
  have hsplit := List.takeWhile_append_dropWhile (p := isWs) (l := s.reverse)
  cases hr : s.reverse.dropWhile isWs with
  | nil => simp [hr] at h
  | cons sd rest =>
    simp only [hr] at h
    by_cases hside : (sd == 'L' || sd == 'R') = true
    · simp only [hside, if_true] at h
      by_cases hemp : (rest.takeWhile isSep).isEmpty = true
      · simp [hemp] at h
      · by_cases hnl : ((rest.dropWhile isSep).reverse.any (· == '\n')) = true
        · simp [hnl] at h
        simp only [hemp, hnl, Bool.or_self, Bool.false_eq_true, if_false, Option.some.injEq, Prod.mk.injEq] at h
        obtain ⟨h1, h2, h3⟩ := h
        subst h1 h2 h3
        refine ⟨?_, ?_, ?_, ?_, ?_, (s.reverse.takeWhile isWs).reverse, ?_, ?_⟩
        · intro e
          have : (rest.takeWhile isSep).reverse.length = 0 := by rw [e]; rfl
          have hl : (rest.takeWhile isSep).length = 0 := by simpa using this
          exact hemp (by simpa [List.isEmpty_iff] using List.length_eq_zero_iff.mp hl)
        · intro c hc
          exact mem_takeWhile_imp (List.mem_reverse.mp hc)
        · simp only [Bool.or_eq_true, beq_iff_eq] at hside; exact hside
        · intro c hc
          rw [List.getLast?_reverse] at hc
          have := List.head?_dropWhile_not isSep rest
          rw [hc] at this
          simpa using this
        · intro c hc e
          subst e
          apply hnl
          rw [List.any_eq_true]
          exact ⟨'\n', hc, by simp⟩
        · intro c hc
          exact mem_takeWhile_imp (List.mem_reverse.mp hc)
        · have hrest := List.takeWhile_append_dropWhile (p := isSep) (l := rest)
          have : s.reverse = s.reverse.takeWhile isWs ++ sd :: (rest.takeWhile isSep ++ rest.dropWhile isSep) := by
            rw [hrest, ← hr, hsplit]
          have hs := congrArg List.reverse this
          simp only [List.reverse_reverse, List.reverse_append, List.reverse_cons, List.append_assoc] at hs
          refine hs.trans ?_
          simp [List.append_assoc]
    · simp [hside] at h

/-- conversely, a name built from such parts is recognised with exactly those parts. -/
theorem stereoMatch_build (stem sep : Name) (sd : Char) (hsep : sep ≠ [])
    (hall : ∀ c ∈ sep, isSep c = true) (hsd : sd = 'L' ∨ sd = 'R')
    (hlast : ∀ c, stem.getLast? = some c → isSep c = false) (hnl : ∀ c ∈ stem, c ≠ '\n') :
    stereoMatch (stem ++ sep ++ [sd]) = some (stem, sep, sd) := by
  unfold stereoMatch
  have hrev : (stem ++ sep ++ [sd]).reverse = sd :: (sep.reverse ++ stem.reverse) := by simp
  have hws : isWs sd = false := side_not_ws sd hsd
  simp only [hrev, List.dropWhile_cons, hws]
  have hside : (sd == 'L' || sd == 'R') = true := by
    rcases hsd with rfl | rfl <;> decide
  have hstem : stem.reverse.takeWhile isSep = [] ∧ stem.reverse.dropWhile isSep = stem.reverse := by
    cases hs : stem.reverse with
    | nil => simp
    | cons c cs =>
      have hl : stem.getLast? = some c := by
        have := congrArg List.head? hs
        simpa [List.head?_reverse] using this
      have := hlast c hl
      simp [List.takeWhile_cons, List.dropWhile_cons, this]
  have htake : (sep.reverse ++ stem.reverse).takeWhile isSep = sep.reverse := by
    rw [List.takeWhile_append_of_pos (by intro a ha; exact hall a (List.mem_reverse.mp ha)), hstem.1]
    simp
  have hdrop : (sep.reverse ++ stem.reverse).dropWhile isSep = stem.reverse := by
    rw [List.dropWhile_append_of_pos (by intro a ha; exact hall a (List.mem_reverse.mp ha)), hstem.2]
  have hne : sep.reverse.isEmpty = false := by
    cases sep with
    | nil => exact absurd rfl hsep
    | cons a b => simp
  have hany : (stem.any (· == '\n')) = false := by
    rw [Bool.eq_false_iff]
    intro h
    rw [List.any_eq_true] at h
    obtain ⟨c, hc, he⟩ := h
    exact hnl c hc (by simpa using he)
  simp [hside, htake, hdrop, hne, hany]

/-- names that end in their side letter (export names are stripped: nothing follows the letter). -/
def NoTail (n : Name) : Prop := ∀ c, n.getLast? = some c → isWs c = false

theorem stereoMatch_exact (n stem sep : Name) (side : Char) (hn : NoTail n)
    (h : stereoMatch n = some (stem, sep, side)) : n = stem ++ sep ++ [side] := by
  obtain ⟨_, _, _, _, _, ws, hws, he⟩ := stereoMatch_spec n stem sep side h
  cases hw : ws.getLast? with
  | none =>
    have : ws = [] := by simpa using hw
    simpa [this] using he
  | some c =>
    have hlast : n.getLast? = some c := by
      rw [he, List.getLast?_append, hw]; simp
    have h1 := hn c hlast
    have h2 := hws c (List.mem_of_getLast? hw)
    rw [h1] at h2; cases h2

def flipSide (c : Char) : Char := if c == 'L' then 'R' else 'L'

theorem flipSide_side (c : Char) (h : c = 'L' ∨ c = 'R') : (flipSide c = 'L' ∨ flipSide c = 'R') ∧ flipSide (flipSide c) = c ∧ flipSide c ≠ c := by
  rcases h with rfl | rfl <;> decide

/-- the partner's name is recognised with the same stem and separators; its partner is the name itself. -/
theorem stereoMatch_alt (n stem sep : Name) (side : Char) (h : stereoMatch n = some (stem, sep, side)) :
    stereoMatch (stem ++ sep ++ [flipSide side]) = some (stem, sep, flipSide side) := by
  obtain ⟨h1, h2, h3, h4, h5, _⟩ := stereoMatch_spec n stem sep side h
  exact stereoMatch_build stem sep _ h1 h2 (flipSide_side side h3).1 h4 h5

end Smpl.Names

namespace Smpl.Names

def Group.indices : Group → List Nat
  | Group.mono i => [i]
  | .pair l r _ => [l, r]

def covered (gs : List Group) : List Nat := gs.flatMap Group.indices

theorem covered_append (a b : List Group) : covered (a ++ b) = covered a ++ covered b := by
  simp [covered]

theorem idx_inj (names : List Name) (hnd : names.Nodup) (a b : Nat) (x : Name)
    (ha : names[a]? = some x) (hb : names[b]? = some x) : a = b := by
  have hlt : a < names.length := by
    rcases Nat.lt_or_ge a names.length with h | h
    · exact h
    · rw [List.getElem?_eq_none h] at ha; cases ha
  exact (List.getElem?_inj hlt hnd).mp (ha.trans hb.symm)

/-- the invariant of the pairing loop. -/
structure Inv (names : List Name) (i : Nat) (marked : List Name) (acc : List Group) : Prop where
  nodup  : (covered acc).Nodup
  cov    : ∀ k, k ∈ covered acc ↔ ∃ m ∈ marked, names[k]? = some m
  done   : ∀ k, k < i → ∃ m ∈ marked, names[k]? = some m
  closed : ∀ m ∈ marked, ∀ st sp sd, stereoMatch m = some (st, sp, sd) →
             (st ++ sp ++ [flipSide sd]) ∈ names → (st ++ sp ++ [flipSide sd]) ∈ marked

theorem go_partition (names : List Name) (lookup : Name → Option Nat)
    (hlk1 : ∀ a j, lookup a = some j → names[j]? = some a)
    (hlk2 : ∀ a, a ∈ names → lookup a ≠ none)
    (hnd : names.Nodup) (hnt : ∀ n ∈ names, NoTail n) :
    ∀ (rest : List Name) (i : Nat) (marked taken : List Name) (acc : List Group),
      rest = names.drop i → Inv names i marked acc →
      (covered (combine.go lookup i rest marked taken acc)).Nodup ∧
      ∀ k, k ∈ covered (combine.go lookup i rest marked taken acc) ↔ k < names.length := by
  intro rest
  induction rest with
  | nil =>
    intro i marked taken acc hrest inv
    simp only [combine.go]
    have hi : names.length ≤ i := by
      have := congrArg List.length hrest
      simp at this; omega
    refine ⟨inv.nodup, fun k => ⟨?_, ?_⟩⟩
    · intro hk
      obtain ⟨m, _, hm⟩ := (inv.cov k).mp hk
      rcases Nat.lt_or_ge k names.length with h | h
      · exact h
      · rw [List.getElem?_eq_none h] at hm; cases hm
    · intro hk
      exact (inv.cov k).mpr (inv.done k (by omega))
  | cons n ns ih =>
    intro i marked taken acc hrest inv
    have hi : i < names.length := by
      have := congrArg List.length hrest
      simp at this; omega
    have hni : names[i]? = some n := by
      have := congrArg (·[0]?) hrest
      simp at this
      rw [← this]
    have hns : ns = names.drop (i + 1) := by
      have := congrArg List.tail hrest
      simpa using this
    have hnmem : n ∈ names := List.mem_of_getElem? hni
    simp only [combine.go]
    by_cases hmk : marked.contains n = true
    · -- already written as somebody's partner
      simp only [hmk, if_true]
      apply ih (i + 1) marked taken acc hns
      refine ⟨inv.nodup, inv.cov, ?_, inv.closed⟩
      intro k hk
      rcases Nat.lt_or_ge k i with h | h
      · exact inv.done k h
      · have : k = i := by omega
        subst this
        exact ⟨n, by simpa using hmk, hni⟩
    · simp only [hmk, Bool.false_eq_true, if_false]
      have hnm : n ∉ marked := by simpa using hmk
      have hi_notcov : i ∉ covered acc := by
        intro hc
        obtain ⟨m, hm, hm2⟩ := (inv.cov i).mp hc
        rw [hni] at hm2
        cases hm2
        exact hnm hm
      -- the mono step, shared by two branches
      have mono_step : (∀ st sp sd, stereoMatch n = some (st, sp, sd) → lookup (st ++ sp ++ [flipSide sd]) = none) →
          Inv names (i + 1) (n :: marked) (acc ++ [Group.mono i]) := by
        intro hnone
        refine ⟨?_, ?_, ?_, ?_⟩
        · rw [covered_append]
          simp only [covered, List.flatMap_cons, List.flatMap_nil, Group.indices, List.append_nil]
          rw [List.nodup_append]
          refine ⟨inv.nodup, by simp, ?_⟩
          intro a ha b hb
          simp at hb; subst hb
          intro e; subst e; exact hi_notcov ha
        · intro k
          rw [covered_append]
          simp only [covered, List.flatMap_cons, List.flatMap_nil, Group.indices, List.append_nil, List.mem_append, List.mem_singleton]
          constructor
          · rintro (h | h)
            · obtain ⟨m, hm, hm2⟩ := (inv.cov k).mp h
              exact ⟨m, List.mem_cons_of_mem _ hm, hm2⟩
            · subst h; exact ⟨n, List.mem_cons_self, hni⟩
          · rintro ⟨m, hm, hm2⟩
            rcases List.mem_cons.mp hm with rfl | hm
            · right; exact idx_inj names hnd k i m hm2 hni
            · left; exact (inv.cov k).mpr ⟨m, hm, hm2⟩
        · intro k hk
          rcases Nat.lt_or_ge k i with h | h
          · obtain ⟨m, hm, hm2⟩ := inv.done k h
            exact ⟨m, List.mem_cons_of_mem _ hm, hm2⟩
          · have : k = i := by omega
            subst this
            exact ⟨n, List.mem_cons_self, hni⟩
        · intro m hm st sp sd hmatch hin
          rcases List.mem_cons.mp hm with rfl | hm
          · exact absurd (hnone st sp sd hmatch) (hlk2 _ hin)
          · exact List.mem_cons_of_mem _ (inv.closed m hm st sp sd hmatch hin)
      cases hsm : stereoMatch n with
      | none =>
        simp only []
        apply ih (i + 1) (n :: marked) taken (acc ++ [Group.mono i]) hns
        exact mono_step (by intro st sp sd h; rw [hsm] at h; cases h)
      | some t =>
        obtain ⟨stem, sep, side⟩ := t
        simp only []
        have hexact := stereoMatch_exact n stem sep side (hnt n hnmem) hsm
        obtain ⟨_, _, hside, _, _, _⟩ := stereoMatch_spec n stem sep side hsm
        have hflip := flipSide_side side hside
        have halt_eq : (if side == 'L' then 'R' else 'L') = flipSide side := rfl
        simp only [halt_eq]
        cases hlk : lookup (stem ++ sep ++ [flipSide side]) with
        | none =>
          simp only []
          apply ih (i + 1) (n :: marked) taken (acc ++ [Group.mono i]) hns
          apply mono_step
          intro st sp sd h
          rw [hsm] at h
          cases h
          exact hlk
        | some j =>
          simp only []
          have hj : names[j]? = some (stem ++ sep ++ [flipSide side]) := hlk1 _ j hlk
          have haltmem : (stem ++ sep ++ [flipSide side]) ∈ names := List.mem_of_getElem? hj
          have hne : (stem ++ sep ++ [flipSide side]) ≠ n := by
            rw [hexact]
            intro e
            have := List.append_cancel_left e
            simp at this
            exact hflip.2.2 this
          have halt_nm : (stem ++ sep ++ [flipSide side]) ∉ marked := by
            intro hm
            have h1 := stereoMatch_alt n stem sep side hsm
            have h2 := inv.closed _ hm stem sep (flipSide side) h1 (by rw [hflip.2.1, ← hexact]; exact hnmem)
            rw [hflip.2.1, ← hexact] at h2
            exact hnm h2
          have hj_notcov : j ∉ covered acc := by
            intro hc
            obtain ⟨m, hm, hm2⟩ := (inv.cov j).mp hc
            rw [hj] at hm2
            cases hm2
            exact halt_nm hm
          have hij : i ≠ j := by
            intro e; subst e
            rw [hni] at hj
            cases hj
            exact hne rfl
          -- either order of the two indices
          have key : ∀ g : Group, (g.indices = [i, j] ∨ g.indices = [j, i]) →
              Inv names (i + 1) (n :: (stem ++ sep ++ [flipSide side]) :: marked) (acc ++ [g]) := by
            intro g hg
            have hmemg : ∀ k, k ∈ g.indices ↔ (k = i ∨ k = j) := by
              intro k; rcases hg with h | h <;> rw [h] <;> simp <;> omega
            have hndg : g.indices.Nodup := by
              rcases hg with h | h <;> rw [h] <;> simp <;> omega
            refine ⟨?_, ?_, ?_, ?_⟩
            · rw [covered_append]
              simp only [covered, List.flatMap_cons, List.flatMap_nil, List.append_nil]
              rw [List.nodup_append]
              refine ⟨inv.nodup, hndg, ?_⟩
              intro a ha b hb e
              subst e
              rcases (hmemg a).mp hb with rfl | rfl
              · exact hi_notcov ha
              · exact hj_notcov ha
            · intro k
              rw [covered_append]
              simp only [covered, List.flatMap_cons, List.flatMap_nil, List.append_nil, List.mem_append]
              rw [hmemg]
              constructor
              · rintro (h | rfl | rfl)
                · obtain ⟨m, hm, hm2⟩ := (inv.cov k).mp h
                  exact ⟨m, List.mem_cons_of_mem _ (List.mem_cons_of_mem _ hm), hm2⟩
                · exact ⟨n, List.mem_cons_self, hni⟩
                · exact ⟨_, List.mem_cons_of_mem _ List.mem_cons_self, hj⟩
              · rintro ⟨m, hm, hm2⟩
                rcases List.mem_cons.mp hm with rfl | hm
                · right; left; exact idx_inj names hnd k i m hm2 hni
                · rcases List.mem_cons.mp hm with rfl | hm
                  · right; right; exact idx_inj names hnd k j _ hm2 hj
                  · left; exact (inv.cov k).mpr ⟨m, hm, hm2⟩
            · intro k hk
              rcases Nat.lt_or_ge k i with h | h
              · obtain ⟨m, hm, hm2⟩ := inv.done k h
                exact ⟨m, List.mem_cons_of_mem _ (List.mem_cons_of_mem _ hm), hm2⟩
              · have : k = i := by omega
                subst this
                exact ⟨n, List.mem_cons_self, hni⟩
            · intro m hm st sp sd hmatch hin
              rcases List.mem_cons.mp hm with rfl | hm
              · rw [hsm] at hmatch
                cases hmatch
                exact List.mem_cons_of_mem _ List.mem_cons_self
              · rcases List.mem_cons.mp hm with rfl | hm
                · rw [stereoMatch_alt n stem sep side hsm] at hmatch
                  cases hmatch
                  rw [hflip.2.1, ← hexact]
                  exact List.mem_cons_self
                · exact List.mem_cons_of_mem _ (List.mem_cons_of_mem _ (inv.closed m hm st sp sd hmatch hin))
          split
          · apply ih (i + 1) _ _ _ hns
            exact key _ (Or.inl rfl)
          · apply ih (i + 1) _ _ _ hns
            exact key _ (Or.inr rfl)

end Smpl.Names
