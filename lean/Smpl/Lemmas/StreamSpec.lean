/-
Specification of "behaves like a read-only file" for the stream layer, and the generic lemma
about the `StreamWrapper.read/seek` skeleton.  (helper lemmas for C08 / C11)
-/
import Smpl.Model.Stream

namespace Smpl.Stream

/-- nothing outside the footprint `fp` is written. -/
def Frame (fp : List Nat) (s s' : Store) : Prop := ∀ j, j ∉ fp → s' j = s j

theorem Frame.refl (fp : List Nat) (s : Store) : Frame fp s s := fun _ _ => rfl

theorem Frame.trans {fp : List Nat} {s1 s2 s3 : Store} (h1 : Frame fp s1 s2) (h2 : Frame fp s2 s3) :
    Frame fp s1 s3 := fun j hj => (h2 j hj).trans (h1 j hj)

theorem Frame.mono {fp fp' : List Nat} {s s' : Store} (h : Frame fp s s') (hsub : ∀ j, j ∈ fp → j ∈ fp') :
    Frame fp' s s' := fun j hj => h j (fun hm => hj (hsub j hm))

theorem Frame.set {fp : List Nat} {s s' : Store} (h : Frame fp s s') (i : Nat) (c : Cell) (hi : i ∈ fp) :
    Frame fp s (s'.set i c) := by
  intro j hj
  have : j ≠ i := fun e => hj (e ▸ hi)
  simp [Store.set, this, h j hj]

/-- The global store invariant: every object's cell satisfies that object's own cell predicate
(`ok j` is `True` for identities that are not stream objects). One family `ok` is shared by all
objects of an image, so the invariant is the same for every object and every operation preserves it. -/
def GInv (ok : Nat → Cell → Prop) (s : Store) : Prop := ∀ j, ok j (s j)

theorem GInv.set {ok : Nat → Cell → Prop} {s : Store} (h : GInv ok s) (i : Nat) (c : Cell)
    (hc : ok i c) : GInv ok (s.set i c) := by
  intro j
  by_cases e : j = i
  · subst e; simpa [Store.set] using hc
  · simpa [Store.set, e] using h j

/-- What a wrapping class needs from its substream `f` (object `i`, logical content `c`):
`tell` is the cursor, an absolute seek to any `a ≥ 0` succeeds (and sets the cursor to `a` when
`a ≤ len c`), and a read
returns the logical bytes at the cursor (clipped at the end) and advances by what it returned —
in **every** store satisfying the global invariant, whatever the cursors of the objects
below it are.  `fp` is the footprint (cells the object may write). -/
structure IsSub (f : FileLike) (c : List Byte) (i : Nat) (fp : List Nat) (ok : Nat → Cell → Prop) : Prop where
  mem    : i ∈ fp
  nonneg : ∀ cell, ok i cell → 0 ≤ cell.pos
  tell   : ∀ s, f.tell s = (s i).pos
  seek   : ∀ s (a : Int), GInv ok s → 0 ≤ a →
             ∃ r s', f.seek a 0 s = (.ok r, s') ∧ GInv ok s' ∧ Frame fp s s' ∧
               (a ≤ c.length → r = a ∧ (s' i).pos = a)
  read   : ∀ s (n : Int), GInv ok s → 0 ≤ n →
             ∃ s', f.read n s = (.ok (slice c (s i).pos n), s') ∧
               (s' i).pos = (s i).pos + (slice c (s i).pos n).length ∧ GInv ok s' ∧ Frame fp s s'

/-- position after `seek(off, whence)` on a file of length `len` with cursor `p`. -/
def seekTarget (len p off wh : Int) : Int :=
  clampPos len ((if wh = 1 then p else if wh = 2 then len else 0) + off)

/-- The full read-only-file behaviour (C08): `IsSub` plus `seek(offset, whence)` for every offset and
whence, clamped to `[0, len]`, and the cursor always inside `[0, len]`. -/
structure IsFile (f : FileLike) (c : List Byte) (i : Nat) (fp : List Nat) (ok : Nat → Cell → Prop) : Prop
    extends IsSub f c i fp ok where
  bound    : ∀ cell, ok i cell → cell.pos ≤ c.length
  seekFull : ∀ s (off wh : Int), GInv ok s →
             ∃ s', f.seek off wh s = (.ok (seekTarget c.length (s i).pos off wh), s') ∧
               (s' i).pos = seekTarget c.length (s i).pos off wh ∧ GInv ok s' ∧ Frame fp s s'

/-! ### slices -/

theorem slice_length (c : List Byte) (a n : Int) (ha : 0 ≤ a) (hn : 0 ≤ n) :
    ((slice c a n).length : Int) = min n (max 0 (c.length - a)) := by
  unfold slice
  have h : ¬ (a < 0 ∨ n < 0) := by omega
  simp only [h, if_false, List.length_take, List.length_drop]
  omega

theorem slice_length_of_le (c : List Byte) (a n : Int) (ha : 0 ≤ a) (hn : 0 ≤ n)
    (h : a + n ≤ c.length) : ((slice c a n).length : Int) = n := by
  rw [slice_length c a n ha hn]; omega

/-- a window of a window. -/
theorem slice_slice (c : List Byte) (off eof p n : Int) (hoff : 0 ≤ off) (heof : 0 ≤ eof)
    (hp : 0 ≤ p) (hn : 0 ≤ n) (hpe : p ≤ eof) :
    slice (slice c off eof) p n = slice c (off + p) (min n (eof - p)) := by
  unfold slice
  have h1 : ¬ (off < 0 ∨ eof < 0) := by omega
  have h2 : ¬ (p < 0 ∨ n < 0) := by omega
  have h3 : ¬ (off + p < 0 ∨ min n (eof - p) < 0) := by omega
  simp only [h1, h2, h3, if_false]
  have e1 : (off + p).toNat = off.toNat + p.toNat := by omega
  rw [e1, ← List.drop_drop]
  rw [List.drop_take]
  rw [List.take_take]
  congr 1
  omega

end Smpl.Stream

namespace Smpl.Stream

theorem clampPos_range (eof x : Int) (h : 0 ≤ eof) : 0 ≤ clampPos eof x ∧ clampPos eof x ≤ eof := by
  unfold clampPos; split <;> (try split) <;> omega

/-- the OS file is a substream: cursor ≥ 0 is its only cell invariant. -/
theorem mkBase_isSub (c : List Byte) (i : Nat) (ok : Nat → Cell → Prop)
    (hok : ∀ cell, ok i cell ↔ 0 ≤ cell.pos) :
    IsSub (mkBase c i) c i [i] ok where
  mem := by simp
  nonneg := fun cell h => (hok cell).mp h
  tell := fun _ => rfl
  seek := by
    intro s a hs ha
    refine ⟨a, s.set i { s i with pos := a }, ?_, hs.set i _ ((hok _).mpr ha), ?_, fun _ => ⟨rfl, by simp⟩⟩
    · have : ¬ a < 0 := by omega
      simp [mkBase, this]
    · intro j hj; simp at hj; simp [Store.set, hj]
  read := by
    intro s n hs hn
    have h0 := (hok _).mp (hs i)
    refine ⟨s.set i { s i with pos := (s i).pos + (slice c (s i).pos n).length }, rfl, by simp,
      hs.set i _ ((hok _).mpr (by simp; omega)), ?_⟩
    · intro j hj; simp at hj; simp [Store.set, hj]

/-- generic lemma for `StreamWrapper.seek`: if the translated target is a legal absolute position of
the substream, the seek succeeds, sets this object's cursor to the clamped target, keeps the
substream's invariant and writes only `i` and the substream's footprint. -/
theorem wrapSeek_spec {sub : FileLike} {csub : List Byte} {k : Nat} {fpk : List Nat}
    {ok : Nat → Cell → Prop} (hsub : IsSub sub csub k fpk ok) (i : Nat) (hi : i ∉ fpk)
    (eof : Int) (heof0 : 0 ≤ eof) (hok : ∀ cell, ok i cell ↔ (0 ≤ cell.pos ∧ cell.pos ≤ eof))
    (tr : Int → Int → Except Err Int) (off wh : Int) (s : Store) (hinv : GInv ok s)
    (a : Int) (htr : tr 0 (seekTarget eof (s i).pos off wh) = .ok a) (ha0 : 0 ≤ a) :
    ∃ s', wrapSeek sub i eof tr off wh s = (.ok (seekTarget eof (s i).pos off wh), s') ∧
      (s' i).pos = seekTarget eof (s i).pos off wh ∧ GInv ok s' ∧ Frame (i :: fpk) s s' := by
  have hs1 : GInv ok (s.set i { s i with tsize := 0 }) :=
    hinv.set i _ ((hok _).mpr ((hok (s i)).mp (hinv i)))
  obtain ⟨r, s2, h1, h3, h4, _⟩ := hsub.seek _ a hs1 ha0
  refine ⟨s2.set i { s2 i with pos := seekTarget eof (s i).pos off wh }, ?_, by simp, ?_, ?_⟩
  · simp only [wrapSeek, seekTarget] at htr ⊢
    simp only [htr, h1]
  · exact h3.set i _ ((hok _).mpr (clampPos_range eof _ heof0))
  · intro j hj
    simp only [List.mem_cons, not_or] at hj
    simp only [Store.set, hj.1, if_false]
    rw [h4 j hj.2]
    simp [Store.set, hj.1]

end Smpl.Stream

namespace Smpl.Stream

/-- generic lemma for `StreamWrapper.read`: clip to the window, bring the substream to the translated
position when it is not already there, run the class's `_read`, advance by the clipped size. -/
theorem wrapRead_spec {sub : FileLike} {csub : List Byte} {k : Nat} {fpk : List Nat}
    {ok : Nat → Cell → Prop} (hsub : IsSub sub csub k fpk ok) (i : Nat) (hi : i ∉ fpk)
    (eof : Int) (heof : 0 < eof) (hok : ∀ cell, ok i cell ↔ (0 ≤ cell.pos ∧ cell.pos ≤ eof))
    (tr : Int → Int → Except Err Int)
    (raw : Int → Int → Store → Res (List Byte)) (n : Int) (hn : 0 ≤ n) (s : Store) (hinv : GInv ok s)
    (a : Int) (htr : tr (min (eof - (s i).pos) n) (s i).pos = .ok a) (ha0 : 0 ≤ a)
    (bytes : List Byte)
    (hraw : ∀ s2, GInv ok s2 → (a ≤ csub.length → (s2 k).pos = a) →
      ∃ s3, raw (s i).pos (min (eof - (s i).pos) n) s2 = (.ok bytes, s3) ∧ GInv ok s3 ∧ Frame fpk s2 s3) :
    ∃ s', wrapRead sub i eof tr raw n s = (.ok bytes, s') ∧
      (s' i).pos = (s i).pos + min (eof - (s i).pos) n ∧ GInv ok s' ∧ Frame (i :: fpk) s s' := by
  have hk : k ∈ fpk := hsub.mem
  have hki : k ≠ i := fun e => hi (e ▸ hk)
  have hp0 : 0 ≤ (s i).pos := ((hok _).mp (hinv i)).1
  have hp1 : (s i).pos ≤ eof := ((hok _).mp (hinv i)).2
  have hts : ¬ (min (eof - (s i).pos) n < 0) := by omega
  -- store after `self.true_size = …`
  let s1 := s.set i { s i with tsize := min (eof - (s i).pos) n }
  have hs1 : GInv ok s1 := hinv.set i _ ((hok _).mpr ⟨hp0, hp1⟩)
  -- bring the substream to `a`
  have hstep : ∃ s2, syncSub sub a s1 = (.ok (), s2) ∧ GInv ok s2 ∧
      (a ≤ csub.length → (s2 k).pos = a) ∧ Frame fpk s1 s2 := by
    by_cases hne : a ≠ sub.tell s1
    · obtain ⟨r, s2, h1, h3, h4, h5⟩ := hsub.seek s1 a hs1 ha0
      exact ⟨s2, by simp [syncSub, hne, h1], h3, fun h => (h5 h).2, h4⟩
    · refine ⟨s1, by simp [syncSub, hne], hs1, fun _ => ?_, Frame.refl _ _⟩
      have := hsub.tell s1
      have hne' : a = sub.tell s1 := by
        by_cases h : a = sub.tell s1
        · exact h
        · exact absurd h hne
      omega
  obtain ⟨s2, hst, hinv2, hpos2, hfr2⟩ := hstep
  obtain ⟨s3, hr, hinv3, hfr3⟩ := hraw s2 hinv2 hpos2
  refine ⟨s3.set i { s3 i with pos := (s i).pos + min (eof - (s i).pos) n }, ?_, by simp, ?_, ?_⟩
  · simp only [wrapRead, hts, if_false, htr]
    simp only [s1] at hst
    rw [hst]
    simp only [hr]
  · exact hinv3.set i _ ((hok _).mpr (by simp; omega))
  · intro j hj
    simp only [List.mem_cons, not_or] at hj
    simp only [Store.set, hj.1, if_false]
    rw [hfr3 j hj.2, hfr2 j hj.2]
    simp [s1, Store.set, hj.1]

end Smpl.Stream
