/-
One lemma per stream class: it behaves like a read-only file over its logical content whenever the
object below it does (helper lemmas for C08 / C11).
-/
import Smpl.Lemmas.StreamSpec

namespace Smpl.Stream

theorem seekTarget_range (len p off wh : Int) (h : 0 ≤ len) :
    0 ≤ seekTarget len p off wh ∧ seekTarget len p off wh ≤ len := clampPos_range _ _ h

theorem seekTarget_abs (len p a : Int) (h0 : 0 ≤ a) (h1 : a ≤ len) : seekTarget len p a 0 = a := by
  unfold seekTarget clampPos
  simp only [show ((0 : Int) = 1) = False from by decide, show ((0 : Int) = 2) = False from by decide,
    if_false]
  split <;> (try split) <;> omega

/-- windows that translate by a constant (`StreamWrapper`: 0, `StreamOffset`: `off`). -/
theorem offsetLike_isFile {sub : FileLike} {csub : List Byte} {k : Nat} {fpk : List Nat}
    {ok : Nat → Cell → Prop} (hsub : IsSub sub csub k fpk ok) (i : Nat) (hi : i ∉ fpk)
    (eof off : Int) (heof : 0 < eof) (hoff : 0 ≤ off) (hwin : off + eof ≤ csub.length)
    (hok : ∀ cell, ok i cell ↔ (0 ≤ cell.pos ∧ cell.pos ≤ eof))
    (f : FileLike) (hft : ∀ s, f.tell s = (s i).pos)
    (hfs : f.seek = wrapSeek sub i eof (fun _ a => .ok (off + a)))
    (hfr : f.read = wrapRead sub i eof (fun _ a => .ok (off + a)) (fun _ n s => sub.read n s)) :
    IsFile f (slice csub off eof) i (i :: fpk) ok := by
  have hlen : ((slice csub off eof).length : Int) = eof :=
    slice_length_of_le csub off eof hoff (by omega) hwin
  have hseekFull : ∀ s (o wh : Int), GInv ok s →
      ∃ s', f.seek o wh s = (.ok (seekTarget eof (s i).pos o wh), s') ∧
        (s' i).pos = seekTarget eof (s i).pos o wh ∧ GInv ok s' ∧ Frame (i :: fpk) s s' := by
    intro s o wh h1
    have hr := seekTarget_range eof (s i).pos o wh (by omega)
    obtain ⟨s', e1, e2, e3, e4⟩ := wrapSeek_spec hsub i hi eof (by omega) hok
      (fun _ a => .ok (off + a)) o wh s h1 (off + seekTarget eof (s i).pos o wh) rfl (by omega)
    exact ⟨s', by rw [hfs]; exact e1, e2, e3, e4⟩
  refine
    { mem := List.mem_cons_self ..
      nonneg := fun cell h => ((hok cell).mp h).1
      tell := hft
      seek := ?_
      read := ?_
      bound := fun cell h => by rw [hlen]; exact ((hok cell).mp h).2
      seekFull := ?_ }
  · intro s a hs ha0
    obtain ⟨s', e1, e2, e3, e4⟩ := hseekFull s a 0 hs
    refine ⟨_, s', e1, e3, e4, fun ha1 => ?_⟩
    rw [hlen] at ha1
    rw [seekTarget_abs eof _ a ha0 ha1] at e2
    exact ⟨seekTarget_abs eof _ a ha0 ha1, e2⟩
  · intro s n h1 hn
    have h2 : 0 ≤ (s i).pos := ((hok _).mp (h1 i)).1
    have h3 : (s i).pos ≤ eof := ((hok _).mp (h1 i)).2
    have hb : slice csub (off + (s i).pos) (min (eof - (s i).pos) n)
        = slice (slice csub off eof) (s i).pos n := by
      rw [slice_slice csub off eof (s i).pos n hoff (by omega) h2 hn h3, Int.min_comm]
    have hbl : ((slice csub (off + (s i).pos) (min (eof - (s i).pos) n)).length : Int)
        = min (eof - (s i).pos) n :=
      slice_length_of_le csub _ _ (by omega) (by omega) (by omega)
    obtain ⟨s', e1, e2, e3, e4⟩ := wrapRead_spec hsub i hi eof heof hok (fun _ a => .ok (off + a))
      (fun _ n s => sub.read n s) n hn s h1 (off + (s i).pos) rfl (by omega)
      (slice csub (off + (s i).pos) (min (eof - (s i).pos) n))
      (by
        intro s2 hi2 hp2
        obtain ⟨s3, r1, _, r3, r4⟩ := hsub.read s2 (min (eof - (s i).pos) n) hi2 (by omega)
        rw [hp2 (by omega)] at r1
        exact ⟨s3, r1, r3, r4⟩)
    rw [hb] at e1
    refine ⟨s', by rw [hfr]; exact e1, ?_, e3, e4⟩
    rw [e2, ← hb, hbl]
  · intro s o wh hs
    rw [hlen]
    exact hseekFull s o wh hs

/-- `StreamOffset(sub, eof, off)` is a read-only file over `sub[off : off+eof]`. -/
theorem mkOffset_isFile {sub : FileLike} {csub : List Byte} {k : Nat} {fpk : List Nat}
    {ok : Nat → Cell → Prop} (hsub : IsSub sub csub k fpk ok) (i : Nat) (hi : i ∉ fpk)
    (eof off : Int) (heof : 0 < eof) (hoff : 0 ≤ off) (hwin : off + eof ≤ csub.length)
    (hok : ∀ cell, ok i cell ↔ (0 ≤ cell.pos ∧ cell.pos ≤ eof)) :
    IsFile (mkOffset sub i eof off) (slice csub off eof) i (i :: fpk) ok :=
  offsetLike_isFile hsub i hi eof off heof hoff hwin hok _ (fun _ => rfl) rfl rfl

/-- `StreamWrapper(sub, eof)` is a read-only file over `sub[0 : eof]`. -/
theorem mkWrap_isFile {sub : FileLike} {csub : List Byte} {k : Nat} {fpk : List Nat}
    {ok : Nat → Cell → Prop} (hsub : IsSub sub csub k fpk ok) (i : Nat) (hi : i ∉ fpk)
    (eof : Int) (heof : 0 < eof) (hwin : eof ≤ csub.length)
    (hok : ∀ cell, ok i cell ↔ (0 ≤ cell.pos ∧ cell.pos ≤ eof)) :
    IsFile (mkWrap sub i eof) (slice csub 0 eof) i (i :: fpk) ok := by
  have htr : trId = fun (_ : Int) (a : Int) => (Except.ok (0 + a) : Except Err Int) := by
    funext _ a; simp [trId]
  exact offsetLike_isFile hsub i hi eof 0 heof (by omega) (by omega) hok _ (fun _ => rfl)
    (by simp [mkWrap, htr]) (by simp [mkWrap, htr])

end Smpl.Stream
