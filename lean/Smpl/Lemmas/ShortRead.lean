/-
Lemmas about block reads over content with holes (used by C02, C13, C15).
-/
import Smpl.Model.ShortRead

namespace Smpl.ShortRead

theorem countOk_le (p : Nat → Bool) (n k : Nat) : countOk p n k ≤ n := by
  induction n generalizing k with
  | zero => simp [countOk]
  | succ n ih =>
    simp only [countOk]
    split
    · have := ih (k + 1); omega
    · omega

theorem countOk_all (p : Nat → Bool) (n k : Nat) (h : ∀ j, p j = true) : countOk p n k = n := by
  induction n generalizing k with
  | zero => simp [countOk]
  | succ n ih => simp [countOk, h, ih]; omega

/-- every block counted is readable. -/
theorem countOk_spec (p : Nat → Bool) (n k j : Nat) (hj : j < countOk p n k) : p (k + j) = true := by
  induction n generalizing k j with
  | zero => simp [countOk] at hj
  | succ n ih =>
    simp only [countOk] at hj
    split at hj
    · rename_i hp
      cases j with
      | zero => simpa using hp
      | succ j =>
        have := ih (k + 1) j (by omega)
        have e : k + 1 + j = k + (j + 1) := by omega
        rw [e] at this; exact this
    · omega

theorem avail_nil (bs : Bytes) (a b : Nat) : (Holey.mk bs []).avail a b = true := by
  simp [Holey.avail]

theorem avail_of_complete (h : Holey) (hc : h.complete = true) (a b : Nat) : h.avail a b = true := by
  unfold Holey.avail
  unfold Holey.complete at hc
  rw [List.all_eq_true] at *
  intro ⟨x, y⟩ hm
  have := hc ⟨x, y⟩ hm
  simp at this ⊢
  omega

/-- adjacent readable ranges join. -/
theorem avail_join (h : Holey) (a b c : Nat) (hab : a ≤ b) (hbc : b ≤ c)
    (h1 : h.avail a b = true) (h2 : h.avail b c = true) : h.avail a c = true := by
  unfold Holey.avail at *
  rw [List.all_eq_true] at *
  intro ⟨x, y⟩ hm
  have e1 := h1 ⟨x, y⟩ hm
  have e2 := h2 ⟨x, y⟩ hm
  simp at e1 e2 ⊢
  omega

/-- a readable range stays readable when shrunk. -/
theorem avail_mono (h : Holey) (a b a' b' : Nat) (ha : a ≤ a') (hb : b' ≤ b)
    (h1 : h.avail a b = true) : h.avail a' b' = true := by
  unfold Holey.avail at *
  rw [List.all_eq_true] at *
  intro ⟨x, y⟩ hm
  have e1 := h1 ⟨x, y⟩ hm
  simp at e1 ⊢
  omega

set_option maxRecDepth 10000 in
theorem blocks_cover (W : Nat) : W ≤ (W + READ_BLOCK - 1) / READ_BLOCK * READ_BLOCK := by
  unfold READ_BLOCK; omega

/-- **complete content: a forward read is the plain window.** -/
theorem readForward_complete (h : Holey) (hc : h.complete = true) (off len : Nat) :
    readForward h off len = (h.bytes.drop off).take len := by
  unfold readForward
  simp only
  rw [countOk_all _ _ _ (fun j => avail_of_complete h hc _ _)]
  have hcov := blocks_cover (min (off + len) h.bytes.length - off)
  rw [Nat.min_eq_right hcov]
  -- taking W = min (off+len) L − off bytes of `drop off` is taking `len` bytes
  apply List.ext_getElem?
  intro i
  simp only [List.getElem?_take, List.getElem?_drop]
  by_cases h1 : i < len
  · by_cases h2 : off + i < h.bytes.length
    · have : i < min (off + len) h.bytes.length - off := by omega
      simp [h1, this]
    · have : ¬ i < min (off + len) h.bytes.length - off := by omega
      simp [h1, this]
      omega
  · have : ¬ i < min (off + len) h.bytes.length - off := by omega
    simp [h1, this]

/-- **complete content: a reversed read is the word-reversed window.** -/
theorem readReversed_complete (h : Holey) (hc : h.complete = true) (off len : Nat) :
    readReversed h off len = reverseWords ((h.bytes.drop off).take len) := by
  unfold readReversed
  simp only
  rw [countOk_all _ _ _ (fun j => avail_of_complete h hc _ _)]
  have hcov := blocks_cover len
  rw [Nat.min_eq_right hcov]
  simp

/-- **any content: a forward read is a prefix of the plain window** (never bytes from elsewhere). -/
theorem readForward_prefix (h : Holey) (off len : Nat) :
    readForward h off len <+: (h.bytes.drop off).take len := by
  unfold readForward
  simp only
  exact List.take_prefix_take_left (by omega)

/-- the bytes a forward read returns were all readable: the union of the counted blocks. -/
theorem readForward_avail (h : Holey) (off len : Nat) :
    h.avail off (off + (readForward h off len).length) = true := by
  unfold readForward
  simp only [List.length_take, List.length_drop]
  generalize hW : min (off + len) h.bytes.length - off = W
  generalize hp : (fun k => h.avail (off + k * READ_BLOCK) (min (off + (k + 1) * READ_BLOCK) (off + W))) = p
  generalize hnb : (W + READ_BLOCK - 1) / READ_BLOCK = nb
  have hspec := countOk_spec p nb 0
  generalize countOk p nb 0 = m at hspec
  -- induction on the number of blocks: [off, off + min (j·B) W) is readable for every j ≤ m
  have key : ∀ j, j ≤ m → h.avail off (off + min (j * READ_BLOCK) W) = true := by
    intro j
    induction j with
    | zero => intro _; unfold Holey.avail; rw [List.all_eq_true]; intro ⟨x, y⟩ _; simp
    | succ j ih =>
      intro hj
      have h1 := ih (by omega)
      have h2 := hspec j (by omega)
      rw [← hp] at h2
      simp only [Nat.zero_add] at h2
      by_cases hle : j * READ_BLOCK ≤ W
      · have e1 : min (j * READ_BLOCK) W = j * READ_BLOCK := Nat.min_eq_left hle
        rw [e1] at h1
        have e2 : off + min ((j + 1) * READ_BLOCK) W = min (off + (j + 1) * READ_BLOCK) (off + W) := by omega
        rw [e2]
        exact avail_join h off (off + j * READ_BLOCK) _ (by omega) (by
          have : (j + 1) * READ_BLOCK = j * READ_BLOCK + READ_BLOCK := by rw [Nat.add_mul]; simp
          omega) h1 h2
      · have e1 : min (j * READ_BLOCK) W = W := by omega
        have : (j + 1) * READ_BLOCK = j * READ_BLOCK + READ_BLOCK := by rw [Nat.add_mul]; simp
        have e2 : min ((j + 1) * READ_BLOCK) W = W := by omega
        rw [e2]; rw [e1] at h1; exact h1
  have := key m (Nat.le_refl _)
  have e : min (min (m * READ_BLOCK) W) (h.bytes.length - off) = min (m * READ_BLOCK) W := by omega
  rw [e]; exact this

/-- contents that agree wherever `h` has no hole: reading `h` yields a prefix of what the complete
content `h'` yields. -/
theorem readForward_prefix_of_agree (h h' : Holey) (hc : h'.complete = true)
    (hlen : h.bytes.length = h'.bytes.length)
    (hagree : ∀ a b, h.avail a b = true → ∀ i, a ≤ i → i < b → h.bytes[i]? = h'.bytes[i]?)
    (off len : Nat) :
    readForward h off len <+: readForward h' off len := by
  rw [readForward_complete h' hc]
  have hp := readForward_prefix h off len
  have hav := readForward_avail h off len
  have hn : (readForward h off len).length ≤ ((h.bytes.drop off).take len).length := hp.length_le
  rw [List.prefix_iff_eq_take] at hp
  generalize hgn : (readForward h off len).length = n at *
  rw [hp]
  have e : (h.bytes.drop off).take n = (h'.bytes.drop off).take n := by
    apply List.ext_getElem?
    intro i
    simp only [List.getElem?_take, List.getElem?_drop]
    by_cases h1 : i < n
    · simp only [h1, if_true]
      exact hagree off (off + n) hav (off + i) (by omega) (by omega)
    · simp [h1]
  have e2 : ((h.bytes.drop off).take len).take n = (h.bytes.drop off).take n := by
    rw [List.take_take]; congr 1; simp at hn; omega
  rw [e2, e]
  have e3 : (h'.bytes.drop off).take n = ((h'.bytes.drop off).take len).take n := by
    rw [List.take_take]; congr 1; simp at hn; omega
  rw [e3]
  exact List.take_prefix _ _

theorem ofPieces_go_full (L : Nat) (ps : List Bytes) (k : Nat) (hfull : ∀ p ∈ ps, p.length = L) :
    ofPieces.go L k ps = (ps.flatten, []) := by
  induction ps generalizing k with
  | nil => rfl
  | cons p ps ih =>
    have hp : p.length = L := hfull p (by simp)
    simp only [ofPieces.go, ih (k + 1) (fun q hq => hfull q (by simp [hq]))]
    have e : p.take L = p := by rw [← hp]; exact List.take_length
    simp [e, hp]

/-- all sectors wholly in the file: the content is their concatenation and there is no hole. -/
theorem ofPieces_full (L : Nat) (ps : List Bytes) (hfull : ∀ p ∈ ps, p.length = L) :
    ofPieces L ps = ⟨ps.flatten, []⟩ := by
  unfold ofPieces
  rw [ofPieces_go_full L ps 0 hfull]

theorem ofPieces_go_length (L : Nat) (ps : List Bytes) (k : Nat) :
    (ofPieces.go L k ps).1.length = ps.length * L := by
  induction ps generalizing k with
  | nil => simp [ofPieces.go]
  | cons p ps ih =>
    simp only [ofPieces.go, List.length_append, List.length_replicate, List.length_take, ih (k + 1),
      List.length_cons, Nat.add_mul]
    omega

/-- a position that is in no hole. -/
def Present (holes : List (Nat × Nat)) (i : Nat) : Prop := ∀ xy ∈ holes, ¬ (xy.1 ≤ i ∧ i < xy.2)

theorem present_of_avail (h : Holey) (a b i : Nat) (hav : h.avail a b = true) (ha : a ≤ i) (hb : i < b) :
    Present h.holes i := by
  intro ⟨x, y⟩ hm
  unfold Holey.avail at hav
  rw [List.all_eq_true] at hav
  have := hav ⟨x, y⟩ hm
  simp at this ⊢
  omega

/-- pieces that are prefixes of full sectors: the content agrees with the full content at every
position that is not in a hole. -/
theorem ofPieces_go_agree (L : Nat) (ps' ps : List Bytes) (k : Nat)
    (hlen : ps'.length = ps.length)
    (hpre : ∀ j (h1 : j < ps'.length) (h2 : j < ps.length), ps'[j] <+: ps[j])
    (hfull : ∀ p ∈ ps, p.length = L) (i : Nat)
    (hpres : Present (ofPieces.go L k ps').2 (k * L + i)) :
    (ofPieces.go L k ps').1[i]? = (ofPieces.go L k ps).1[i]? := by
  induction ps' generalizing ps k i with
  | nil =>
    cases ps with
    | nil => rfl
    | cons _ _ => simp at hlen
  | cons p' ps' ih =>
    cases ps with
    | nil => simp at hlen
    | cons p ps =>
      have hp : p.length = L := hfull p (by simp)
      have hpp : p' <+: p := by
        have := hpre 0 (by simp) (by simp)
        simp only [List.getElem_cons_zero] at this
        exact this
      have hp'len : p'.length ≤ L := by have := hpp.length_le; omega
      have e' : p'.take L = p' := List.take_of_length_le hp'len
      have e : p.take L = p := List.take_of_length_le (by omega)
      simp only [ofPieces.go, e', e, hp]
      simp only [ofPieces.go, e'] at hpres
      by_cases hi : i < L
      · -- inside the first sector
        have hi' : i < p'.length := by
          by_cases hsh : p'.length < L
          · simp only [hsh, if_true] at hpres
            have := hpres (k * L + p'.length, (k + 1) * L) (by simp)
            simp at this
            have hk : (k + 1) * L = k * L + L := by rw [Nat.add_mul]; simp
            omega
          · omega
        rw [List.append_assoc, List.getElem?_append_left hi']
        rw [List.append_assoc, List.getElem?_append_left (by omega)]
        obtain ⟨t, rfl⟩ := hpp
        rw [List.getElem?_append_left hi']
      · -- in a later sector
        have l1 : (p' ++ List.replicate (L - p'.length) 0).length = L := by simp; omega
        have l2 : (p ++ List.replicate (L - L) 0).length = L := by simp; omega
        rw [List.getElem?_append_right (by omega), List.getElem?_append_right (by omega), l1, l2]
        apply ih ps (k + 1) (by simpa using hlen)
          (by
            intro j h1 h2
            have := hpre (j + 1) (by simp; omega) (by simp; omega)
            simpa using this)
          (fun q hq => hfull q (by simp [hq]))
        intro xy hm
        have hk : (k + 1) * L = k * L + L := by rw [Nat.add_mul]; simp
        have := hpres xy (by
          split
          · exact List.mem_cons_of_mem _ hm
          · exact hm)
        rw [hk]
        have e3 : k * L + L + (i - L) = k * L + i := by omega
        rw [e3]; exact this

/-- **truncated chain vs. complete chain**: what is read from the pieces that are in the file is a
prefix of what is read from the complete sectors. -/
theorem readForward_pieces_prefix (L : Nat) (ps' ps : List Bytes)
    (hlen : ps'.length = ps.length)
    (hpre : ∀ j (h1 : j < ps'.length) (h2 : j < ps.length), ps'[j] <+: ps[j])
    (hfull : ∀ p ∈ ps, p.length = L) (size off len : Nat) :
    readForward ((ofPieces L ps').clip size) off len <+: readForward ((ofPieces L ps).clip size) off len := by
  apply readForward_prefix_of_agree
  · rw [ofPieces_full L ps hfull]; simp [Holey.clip, Holey.complete]
  · simp only [Holey.clip, ofPieces, List.length_take, ofPieces_go_length, hlen]
  · intro a b hav i ha hb
    have hp := present_of_avail _ a b i hav ha hb
    simp only [Holey.clip, ofPieces] at hp ⊢
    simp only [List.getElem?_take]
    split
    · have := ofPieces_go_agree L ps' ps 0 hlen hpre hfull i (by simpa using hp)
      exact this
    · rfl


/-! ## reversed reads -/

theorem reverseWords_append (x y : Bytes) (hx : x.length % 2 = 0) :
    reverseWords (x ++ y) = reverseWords y ++ reverseWords x := by
  induction x using reverseWords.induct with
  | case1 a b rest ih =>
    have : rest.length % 2 = 0 := by simp at hx; omega
    simp [reverseWords, ih this]
  | case2 t ht =>
    match t, ht with
    | [], _ => simp [reverseWords]
    | [_], _ => simp at hx
    | p :: q :: r, ht => exact absurd rfl (ht p q r)

/-- how much of the end of the window the readable blocks cover. -/
def coveredRev (h : Holey) (off len : Nat) : Nat :=
  min (countOk (fun k => h.avail (off + len - min ((k + 1) * READ_BLOCK) len) (off + len - k * READ_BLOCK))
        ((len + READ_BLOCK - 1) / READ_BLOCK) 0 * READ_BLOCK) len

theorem readReversed_eq (h : Holey) (off len : Nat) :
    readReversed h off len =
      reverseWords ((h.bytes.drop (off + len - coveredRev h off len)).take (coveredRev h off len)) := rfl

/-- the tail of the window that a reversed read returns was readable. -/
theorem readReversed_avail (h : Holey) (off len : Nat) :
    h.avail (off + len - coveredRev h off len) (off + len) = true := by
  unfold coveredRev
  generalize hp : (fun k => h.avail (off + len - min ((k + 1) * READ_BLOCK) len) (off + len - k * READ_BLOCK)) = p
  generalize hnb : (len + READ_BLOCK - 1) / READ_BLOCK = nb
  have hspec := countOk_spec p nb 0
  generalize countOk p nb 0 = m at hspec
  have key : ∀ j, j ≤ m → h.avail (off + len - min (j * READ_BLOCK) len) (off + len) = true := by
    intro j
    induction j with
    | zero => intro _; unfold Holey.avail; rw [List.all_eq_true]; intro ⟨x, y⟩ _; simp
    | succ j ih =>
      intro hj
      have h1 := ih (by omega)
      have h2 := hspec j (by omega)
      rw [← hp] at h2
      simp only [Nat.zero_add] at h2
      have hmul : (j + 1) * READ_BLOCK = j * READ_BLOCK + READ_BLOCK := by rw [Nat.add_mul]; simp
      by_cases hle : j * READ_BLOCK ≤ len
      · have e1 : min (j * READ_BLOCK) len = j * READ_BLOCK := Nat.min_eq_left hle
        rw [e1] at h1
        exact avail_join h _ (off + len - j * READ_BLOCK) _ (by omega) (by omega) h2 h1
      · have e1 : min (j * READ_BLOCK) len = len := by omega
        have e2 : min ((j + 1) * READ_BLOCK) len = len := by omega
        rw [e2]; rw [e1] at h1; exact h1
  exact key m (Nat.le_refl _)

theorem coveredRev_le (h : Holey) (off len : Nat) : coveredRev h off len ≤ len := by
  unfold coveredRev; omega

set_option maxRecDepth 10000 in
theorem coveredRev_even (h : Holey) (off len : Nat) (hl : len % 2 = 0) : coveredRev h off len % 2 = 0 := by
  unfold coveredRev
  generalize countOk _ _ 0 = m
  unfold READ_BLOCK
  rcases Nat.le_total (m * 4096) len with hle | hle
  · rw [Nat.min_eq_left hle]; omega
  · rw [Nat.min_eq_right hle]; exact hl

/-- **reverse modes: what is read from content with holes is a prefix of what is read from the
complete content** (a window of whole 2-byte samples inside the declared length). -/
theorem readReversed_prefix_of_agree (h h' : Holey) (hc : h'.complete = true)
    (hlen : h.bytes.length = h'.bytes.length)
    (hagree : ∀ a b, h.avail a b = true → ∀ i, a ≤ i → i < b → h.bytes[i]? = h'.bytes[i]?)
    (off len : Nat) (heven : len % 2 = 0) (hin : off + len ≤ h.bytes.length) :
    readReversed h off len <+: readReversed h' off len := by
  rw [readReversed_complete h' hc, readReversed_eq]
  have hcl := coveredRev_le h off len
  have hav := readReversed_avail h off len
  have hce := coveredRev_even h off len heven
  generalize coveredRev h off len = c at *
  -- the tail read from `h` is the tail of the complete window
  have etail : (h.bytes.drop (off + len - c)).take c = (h'.bytes.drop (off + len - c)).take c := by
    apply List.ext_getElem?
    intro i
    simp only [List.getElem?_take, List.getElem?_drop]
    by_cases h1 : i < c
    · simp only [h1, if_true]
      exact hagree _ _ hav (off + len - c + i) (by omega) (by omega)
    · simp [h1]
  rw [etail]
  -- window = head ++ tail
  have hsplit : (h'.bytes.drop off).take len =
      (h'.bytes.drop off).take (len - c) ++ (h'.bytes.drop (off + len - c)).take c := by
    have e1 : (h'.bytes.drop (off + len - c)) = (h'.bytes.drop off).drop (len - c) := by
      rw [List.drop_drop]; congr 1; omega
    rw [e1]
    have e2 : len = (len - c) + c := by omega
    conv => lhs; rw [e2]
    rw [List.take_add]
  rw [hsplit]
  have hheadlen : ((h'.bytes.drop off).take (len - c)).length % 2 = 0 := by
    simp only [List.length_take, List.length_drop]
    have : len - c ≤ h'.bytes.length - off := by omega
    rw [Nat.min_eq_left this]; omega
  rw [reverseWords_append _ _ hheadlen]
  exact List.prefix_append _ _


/-- truncated chain vs. complete chain, reverse modes. -/
theorem readReversed_pieces_prefix (L : Nat) (ps' ps : List Bytes)
    (hlen : ps'.length = ps.length)
    (hpre : ∀ j (h1 : j < ps'.length) (h2 : j < ps.length), ps'[j] <+: ps[j])
    (hfull : ∀ p ∈ ps, p.length = L) (off len : Nat) (heven : len % 2 = 0)
    (hin : off + len ≤ ps.length * L) :
    readReversed (ofPieces L ps') off len <+: readReversed (ofPieces L ps) off len := by
  apply readReversed_prefix_of_agree
  · rw [ofPieces_full L ps hfull]; simp [Holey.complete]
  · simp only [ofPieces, ofPieces_go_length, hlen]
  · intro a b hav i ha hb
    have hp := present_of_avail _ a b i hav ha hb
    simp only [ofPieces] at hp ⊢
    exact ofPieces_go_agree L ps' ps 0 hlen hpre hfull i (by simpa using hp)
  · exact heven
  · simp only [ofPieces, ofPieces_go_length, hlen]; exact hin

end Smpl.ShortRead
