import Smpl.Model.Codec
import Smpl.Drv.Util
namespace Smpl.Drv
open Smpl.Codec

def showNote (x : Note) : String := s!"{x.degree} {if x.sharp then 1 else 0} {x.octave}"

def codecOp : List String → String
  | ["a2asc", b] => match parseNat? b with
      | some b => showOptNat (akaiToAscii b) | none => "bad-op"
  | ["asc2a", a] => match parseNat? a with
      | some a => showOptNat (asciiToAkai a) | none => "bad-op"
  | ["a2asc_str", h] => match fromHex h with
      | some bs => (match akaiToAsciiStr bs with | some r => "some " ++ toHex r | none => "none")
      | none => "bad-op"
  | ["asc2a_str", h] => match fromHex h with
      | some bs => (match asciiToAkaiStr bs with | some r => "some " ++ toHex r | none => "none")
      | none => "bad-op"
  | ["note_from_int", n] => match parseInt? n with
      | some n => showNote (fromIntA0 n) | none => "bad-op"
  | ["note_to_int", d, s, o] => match parseNat? d, parseNat? s, parseInt? o with
      | some d, some s, some o => showOptInt (toIntA0 ⟨d, s != 0, o⟩)
      | _, _, _ => "bad-op"
  | ["note_rt_akai", b] => match parseInt? b with
      | some b => showOptInt (toAkaiByte (fromAkaiByte b)) | none => "bad-op"
  | ["note_rt_midi", b] => match parseInt? b with
      | some b => showOptInt (toMidiByte (fromMidiByte b)) | none => "bad-op"
  | ["note_str", d, s, o] => match parseNat? d, parseNat? s, parseInt? o with
      | some d, some s, some o => charsToHex (noteToString ⟨d, s != 0, o⟩)
      | _, _, _ => "bad-op"
  | ["note_parse", h] => match hexToChars h with
      | some cs => (match noteFromString cs with | some x => "some " ++ showNote x | none => "none")
      | none => "bad-op"
  | ["cents_parse", b] => match parseInt? b with
      | some b => toString (parseCents b).toBits.toNat | none => "bad-op"
  | ["cents_rt", b] => match parseInt? b with
      | some b => toString (buildCents (parseCents b)) | none => "bad-op"
  | _ => "bad-op"

end Smpl.Drv
