import Smpl.Model.Wav
import Smpl.Model.Transcode
import Smpl.Spec.Riff
import Smpl.Drv.Util
import Smpl.Drv.Filter
import Smpl.Drv.Transcode
namespace Smpl.Drv
open Smpl Smpl.Wav Smpl.Transcode

def parseOptInt (s : String) : Option (Option Int) :=
  if s == "-" then some none else (parseInt? s).map some

def parseOptFloat (s : String) : Option (Option Float) :=
  if s == "-" then some none else (floatOfBits? s).map some

def parseLoops : List String → Option (List LoopRegion)
  | [] => some []
  | st :: en :: ty :: rf :: pc :: du :: rest => do
    let st ← parseInt? st; let en ← parseInt? en; let ty ← parseNat? ty; let rf ← parseNat? rf
    let pc ← parseOptInt pc; let du ← parseOptFloat du
    let r ← parseLoops rest
    pure (⟨st, en, ty, rf != 0, pc, du⟩ :: r)
  | _ => none

/-- `export_wav` of one generalized sample: transcoder (block 4096, little-endian host) + RIFF assembly. -/
def exportWavModel (g : GenSample) (srcs : List Src) : String :=
  match srcs with
  | [] => "err NoDataStream"
  | s0 :: _ =>
    let dest : Enc := ⟨false, s0.enc.width, g.channels, true⟩
    match transcode false 4096 dest srcs with
    | .error .noDataStream => "err NoDataStream"
    | .error .incompatibleChannels => "err IncompatibleNumberOfChannels"
    | .ok blocks =>
      let pcm := blocks.flatten
      match buildWav (metaOf g) (pcm.map fun b => b.getD 0) with
      | .error e => "err " ++ toString e
      | .ok bs =>
        -- re-insert the unspecified (padding) positions of the data chunk
        let hdr := bs.length - pcm.length
        let shown : List (Option Nat) := (bs.take hdr).map some ++ pcm
        let wf := Smpl.Spec.Riff.wellFormed bs
        "ok " ++ showBlock shown ++ (if wf then " wf=1" else " wf=0")

def wavOp (toks : List String) : String :=
  match splitBars toks with
  | ["sample", ch, rate, width] :: noteT :: [semi] :: [cents] :: loopsT :: srcToks =>
    let note : Option (Option Smpl.Codec.Note) :=
      match noteT with
      | ["-"] => some none
      | [d, s, o] => do
        let d ← parseNat? d; let s ← parseNat? s; let o ← parseInt? o
        pure (some ⟨d, s != 0, o⟩)
      | _ => none
    let srcs : Option (List Src) := srcToks.mapM fun t =>
      match t with
      | [b, w, n, s, h] => do
        let e ← parseEnc [b, w, n, s]
        let d ← fromHex h
        pure ⟨e, d⟩
      | _ => none
    match parseNat? ch, parseNat? rate, parseNat? width, note, parseOptInt semi, parseOptFloat cents,
        parseLoops (if loopsT == ["-"] then [] else loopsT), srcs with
    | some ch, some rate, some width, some note, some semi, some cents, some loops, some srcs =>
      exportWavModel ⟨rate, ch, width, loops, note, semi, cents⟩ srcs
    | _, _, _, _, _, _, _, _ => "bad-op"
  | [["period", rate]] =>
    match parseNat? rate with
    | some r => toString (samplePeriod r)
    | none => "bad-op"
  | [["pitch", semi, centsBits]] =>
    match parseInt? semi, floatOfBits? centsBits with
    | some s, some c => let (k, f) := normalizedPitch s c; s!"{k} {f}"
    | _, _ => "bad-op"
  | [["riffcheck", h]] =>
    match fromHex h with
    | some bs => if Smpl.Spec.Riff.wellFormed bs then "1" else "0"
    | none => "bad-op"
  | _ => "bad-op"

end Smpl.Drv
