/-
Line-protocol helpers for the correspondence driver (not part of the model; trusted base).
-/
namespace Smpl.Drv

def hexDigit (n : Nat) : Char :=
  if n < 10 then Char.ofNat (48 + n) else Char.ofNat (87 + n)

def hexVal (c : Char) : Option Nat :=
  let n := c.toNat
  if 48 ≤ n ∧ n ≤ 57 then some (n - 48)
  else if 97 ≤ n ∧ n ≤ 102 then some (n - 87)
  else if 65 ≤ n ∧ n ≤ 70 then some (n - 55)
  else none

/-- bytes (as Nats < 256) to lowercase hex; "-" for the empty string so that tokens are never empty. -/
def toHex (bs : List Nat) : String :=
  if bs.isEmpty then "-" else
  String.ofList (bs.flatMap fun b => [hexDigit (b / 16 % 16), hexDigit (b % 16)])

partial def fromHexAux : List Char → List Nat → Option (List Nat)
  | [], acc => some acc.reverse
  | [_], _ => none
  | a :: b :: rest, acc =>
    match hexVal a, hexVal b with
    | some x, some y => fromHexAux rest ((x * 16 + y) :: acc)
    | _, _ => none

def fromHex (s : String) : Option (List Nat) :=
  if s == "-" then some [] else fromHexAux s.toList []

def charsToHex (cs : List Char) : String := toHex (cs.map Char.toNat)
def hexToChars (s : String) : Option (List Char) := (fromHex s).map (·.map Char.ofNat)

def parseInt? (s : String) : Option Int := s.toInt?
def parseNat? (s : String) : Option Nat := s.toNat?

def showOptNat : Option Nat → String
  | some n => s!"some {n}"
  | none => "none"

def showOptInt : Option Int → String
  | some n => s!"some {n}"
  | none => "none"

def showNats (l : List Nat) : String := " ".intercalate (l.map toString)
def showInts (l : List Int) : String := " ".intercalate (l.map toString)

def parseNats (l : List String) : Option (List Nat) := l.mapM parseNat?
def parseInts (l : List String) : Option (List Int) := l.mapM parseInt?

end Smpl.Drv
