import Smpl.Model.AkaiTool
import Smpl.Model.RolandTool
import Smpl.Model.CddaTool
import Smpl.Model.Container
import Smpl.Model.Cdda
import Smpl.Drv.Util
import Smpl.Drv.Transcode
namespace Smpl.Drv
open Smpl Smpl.Akai Smpl.AkaiTool

def fnv64 (bs : List Nat) : Nat :=
  bs.foldl (fun h b => ((h ^^^ b) * 0x100000001B3) % 0x10000000000000000) 0xCBF29CE484222325

def showExported (e : Exported) : String :=
  if e.wav.any Option.isNone then
    s!"{charsToHex e.path} hex {showBlock e.wav}"
  else
    let bs := e.wav.map (·.getD 0)
    s!"{charsToHex e.path} fnv {bs.length} {fnv64 bs}"

/-- Python text mode: universal newlines, then `readlines()` (each line keeps its "\n"). -/
def textLines (bs : List Nat) : List (List Char) :=
  let rec norm : List Nat → List Char
    | 13 :: 10 :: rest => '\n' :: norm rest
    | 13 :: rest => '\n' :: norm rest
    | b :: rest => Char.ofNat b :: norm rest
    | [] => []
  let rec split (cur : List Char) (acc : List (List Char)) : List Char → List (List Char)
    | [] => if cur.isEmpty then acc.reverse else (cur.reverse :: acc).reverse
    | '\n' :: rest => split [] (('\n' :: cur).reverse :: acc) rest
    | c :: rest => split (c :: cur) acc rest
  split [] [] (norm bs)

/-- a ByteArray-backed image (no 3 MB list for raw Roland files). -/
def imgOfByteArray (b : ByteArray) : Smpl.Roland.Img :=
  { size := b.size,
    rd := fun off n => if off + n ≤ b.size then some ((b.extract off (off + n)).toList.map (·.toNat)) else none }

inductive Opened where
  | image (view : List Nat)            -- a sampler image (after unwrapping)
  | rawImage (b : ByteArray)           -- the same, not wrapped in any container: kept as a byte array
  | cdda (cue : Smpl.Cue.CueFile) (bin : Option (List Nat))    -- all-audio cue sheet and its bin file (none: cannot be opened)
  | unreadable (msg : String)

/-- `determine_image_type(path)`: ASCII text that parses as a cue sheet is followed (data track: the
bin file, unwrapped; all audio: CDDA); anything else is a binary image, unwrapped. -/
def openImage (file : String) : IO Opened := do
  let data := (← IO.FS.readBinFile file).toList.map (·.toNat)
  if data.all (· < 128) then
    match Smpl.Cue.parse (textLines data) with
    | .ok cue =>
      match Smpl.Cdda.detect cue with
      | .cdda =>
        let dir := (System.FilePath.mk file).parent.getD (System.FilePath.mk ".")
        let bin := dir / String.ofList cue.binName
        if ← bin.pathExists then
          let bdata := (← IO.FS.readBinFile bin).toList.map (·.toNat)
          pure (.cdda cue (some bdata))
        else pure (.cdda cue none)
      | .dataTrack =>
        let dir := (System.FilePath.mk file).parent.getD (System.FilePath.mk ".")
        let bin := dir / String.ofList cue.binName
        let bdata := (← IO.FS.readBinFile bin).toList.map (·.toNat)
        pure (.image (Smpl.Container.view bdata))
    | .error _ => pure (.image (Smpl.Container.view data))
  else
    let raw ← IO.FS.readBinFile file
    let head := (raw.extract 0 64).toList.map (·.toNat)
    if Smpl.Container.detectWrap head == .raw then pure (.rawImage raw)
    else pure (.image (Smpl.Container.view data))

/-- programs are recognised by a separate model; until it is linked in, a program parses iff … -/
def akaiOp (programOk : List Nat → Bool) (toks : List String) : IO String := do
  match toks with
  | ["ls", file, pathHex] =>
    match hexToChars pathHex with
    | none => pure "bad-op"
    | some path =>
      let data ← IO.FS.readBinFile file
      match ls (data.toList.map (·.toNat)) programOk path with
      | .error e => pure ("err " ++ toString e)
      | .ok lines => pure ("ok " ++ " ".intercalate (lines.map charsToHex))
  | ["export", file] =>
    let data ← IO.FS.readBinFile file
    match exportAll (data.toList.map (·.toNat)) programOk with
    | .error e => pure ("err " ++ toString e)
    | .ok files => pure ("ok " ++ " ; ".intercalate (files.map showExported))
  | "all" :: file :: pathHexes =>
    -- one parse of the image, then `export` and every `ls`; results separated by " || "
    match pathHexes.mapM hexToChars with
    | none => pure "bad-op"
    | some paths =>
      let opened ← openImage file
      let rimg : Option Smpl.Roland.Img := match opened with
        | .rawImage b => some (imgOfByteArray b)
        | .image v => some (Smpl.Roland.Img.ofBytes v)
        | _ => none
      match rimg with
      | some ri =>
        if Smpl.Roland.isRoland ri then
          match Smpl.Roland.tree ri with
          | .error e => return ("err " ++ toString e)
          | .ok vols =>
            let ex := match Smpl.RolandTool.exportOf ri vols with
              | .error e => "err " ++ toString e
              | .ok files => "ok " ++ " ; ".intercalate (files.map showExported)
            let lss := paths.map fun p =>
              match Smpl.RolandTool.lsOf vols p with
              | .error e => "err " ++ toString e
              | .ok lines => "ok " ++ " ".intercalate (lines.map charsToHex)
            return (" || ".intercalate (ex :: lss))
      | none => pure ()
      match opened with
      | .cdda _ none => pure ("err Other:FileNotFoundError" ++ String.join (paths.map fun _ => " || err Other:FileNotFoundError"))
      | .cdda cue (some bin) =>
        let ws := Smpl.Cdda.windows cue bin.length
        let ex := match Smpl.CddaTool.exportOf bin ws with
          | .error e => "err " ++ toString e
          | .ok files => "ok " ++ " ; ".intercalate (files.map showExported)
        let lss := paths.map fun p =>
          match Smpl.CddaTool.lsOf ws p with
          | .error e => "err " ++ toString e
          | .ok lines => "ok " ++ " ".intercalate (lines.map charsToHex)
        pure (" || ".intercalate (ex :: lss))
      | .unreadable m => pure ("unreadable " ++ m)
      | .rawImage b =>
        match tree (b.toList.map (·.toNat)) programOk with
        | .error e => pure ("err " ++ toString e)
        | .ok parts =>
          let ex := match exportOf parts with
            | .error e => "err " ++ toString e
            | .ok files => "ok " ++ " ; ".intercalate (files.map showExported)
          let lss := paths.map fun p =>
            match lsOf parts p with
            | .error e => "err " ++ toString e
            | .ok lines => "ok " ++ " ".intercalate (lines.map charsToHex)
          pure (" || ".intercalate (ex :: lss))
      | .image view =>
      match tree view programOk with
      | .error e => pure ("err " ++ toString e)
      | .ok parts =>
        let ex := match exportOf parts with
          | .error e => "err " ++ toString e
          | .ok files => "ok " ++ " ; ".intercalate (files.map showExported)
        let lss := paths.map fun p =>
          match lsOf parts p with
          | .error e => "err " ++ toString e
          | .ok lines => "ok " ++ " ".intercalate (lines.map charsToHex)
        pure (" || ".intercalate (ex :: lss))
  | _ => pure "bad-op"

end Smpl.Drv
