import Smpl.Model.AkaiTool
import Smpl.Drv.Util
import Smpl.Drv.Transcode
namespace Smpl.Drv
open Smpl Smpl.Akai Smpl.AkaiTool

def fnv64 (bs : List Nat) : Nat :=
  bs.foldl (fun h b => ((h ^^^ b) * 0x100000001B3) % 0x10000000000000000) 0xCBF29CE484222325

def showExported (e : Exported) : String :=
  if e.wav.any Option.isNone then
    s!"{charsToHex e.path} hex {showBlock e.wav}"
  else
    let bs := e.wav.map (·.getD 0)
    s!"{charsToHex e.path} fnv {bs.length} {fnv64 bs}"

/-- programs are recognised by a separate model; until it is linked in, a program parses iff … -/
def akaiOp (programOk : List Nat → Bool) (toks : List String) : IO String := do
  match toks with
  | ["ls", file, pathHex] =>
    match hexToChars pathHex with
    | none => pure "bad-op"
    | some path =>
      let data ← IO.FS.readBinFile file
      match ls (data.toList.map (·.toNat)) programOk path with
      | .error e => pure ("err " ++ toString e)
      | .ok lines => pure ("ok " ++ " ".intercalate (lines.map charsToHex))
  | ["export", file] =>
    let data ← IO.FS.readBinFile file
    match exportAll (data.toList.map (·.toNat)) programOk with
    | .error e => pure ("err " ++ toString e)
    | .ok files => pure ("ok " ++ " ; ".intercalate (files.map showExported))
  | "all" :: file :: pathHexes =>
    -- one parse of the image, then `export` and every `ls`; results separated by " || "
    match pathHexes.mapM hexToChars with
    | none => pure "bad-op"
    | some paths =>
      let data ← IO.FS.readBinFile file
      match tree (data.toList.map (·.toNat)) programOk with
      | .error e => pure ("err " ++ toString e)
      | .ok parts =>
        let ex := match exportOf parts with
          | .error e => "err " ++ toString e
          | .ok files => "ok " ++ " ; ".intercalate (files.map showExported)
        let lss := paths.map fun p =>
          match lsOf parts p with
          | .error e => "err " ++ toString e
          | .ok lines => "ok " ++ " ".intercalate (lines.map charsToHex)
        pure (" || ".intercalate (ex :: lss))
  | _ => pure "bad-op"

end Smpl.Drv
