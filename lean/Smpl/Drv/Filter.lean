import Smpl.Model.Filter
import Smpl.Drv.Util
namespace Smpl.Drv
open Smpl.Filter

/-- split a token list at "|" separators. -/
def splitBars (toks : List String) : List (List String) :=
  let rec go (cur : List String) (acc : List (List String)) : List String → List (List String)
    | [] => (cur.reverse :: acc).reverse
    | "|" :: rest => go [] (cur.reverse :: acc) rest
    | t :: rest => go (t :: cur) acc rest
  go [] [] toks

def showBlocksInt (bs : List (List Int)) : String := " | ".intercalate (bs.map showInts)

def floatOfBits? (s : String) : Option Float := (parseNat? s).map fun n => Float.ofBits (UInt64.ofNat n)
def showFloatBits (l : List Float) : String := " ".intercalate (l.map fun x => toString x.toBits.toNat)

def runFirInt (f : Fir Int) (blocks : List (List Int)) : String :=
  let (ys, f') := Fir.run Fir.process f blocks
  showBlocksInt (ys ++ [(Fir.flush f').1])

def filterOp (toks : List String) : String :=
  match splitBars toks with
  | ["fir", m0] :: h :: blocks =>
    match parseNat? m0, parseInts h, blocks.mapM parseInts with
    | some m0, some h, some bs => runFirInt (Fir.init h.length m0 (intDot h) 0) bs
    | _, _, _ => "bad-op"
  | ["csfir", m0, k] :: h :: blocks =>
    match parseNat? m0, parseInt? k, parseInts h, blocks.mapM parseInts with
    | some m0, some k, some h, some bs => runFirInt (Fir.init h.length m0 (csDot h k) 0) bs
    | _, _, _, _ => "bad-op"
  | ["csfir_preset"] :: blocks =>
    match blocks.mapM parseInts with
    | some bs => runFirInt (Fir.init chickSysRolandH.length chickSysRolandM0
                    (csDot chickSysRolandH chickSysRolandK) 0) bs
    | none => "bad-op"
  | ["iir"] :: b :: a :: blocks =>
    match b.mapM floatOfBits?, a.mapM floatOfBits?, blocks.mapM (·.mapM floatOfBits?) with
    | some b, some a, some bs =>
      let f := Iir.init floatOps b a id
      let (ys, _) := f.run bs
      " | ".intercalate (ys.map showFloatBits)
    | _, _, _ => "bad-op"
  | ["csiir_preset", nm] :: blocks =>
    match blocks.mapM parseInts with
    | some bs =>
      let c := if nm == "standard" then csStandard else if nm == "darker" then csDarker else csSpecial
      let f := csIir c.1 c.2.1 c.2.2
      let (ys, _) := f.run (bs.map (·.map Float.ofInt))
      showBlocksInt (ys.map (·.map fixInt))
    | none => "bad-op"
  | ["csiir", c0, c1, c2] :: blocks =>
    match floatOfBits? c0, floatOfBits? c1, floatOfBits? c2, blocks.mapM parseInts with
    | some c0, some c1, some c2, some bs =>
      let f := csIir c0 c1 c2
      let (ys, _) := f.run (bs.map (·.map Float.ofInt))
      showBlocksInt (ys.map (·.map fixInt))
    | _, _, _, _ => "bad-op"
  | _ => "bad-op"

end Smpl.Drv
