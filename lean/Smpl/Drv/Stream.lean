import Smpl.Model.Stream
import Smpl.Drv.Util
import Smpl.Drv.Filter
namespace Smpl.Drv
open Smpl Smpl.Stream

/-- `new` lines: objects are numbered in creation order, the base file is object 0. -/
def buildObjs (base : List Nat) (news : List (List String)) : Option (List FileLike) :=
  let rec go (objs : List FileLike) : List (List String) → Option (List FileLike)
    | [] => some objs
    | spec :: rest =>
      let i := objs.length
      let mk : Option FileLike :=
        match spec with
        | ["wrap", sub, eof] => do
            let k ← parseNat? sub; let e ← parseInt? eof; let f ← objs[k]?
            pure (mkWrap f i e)
        | ["offset", sub, eof, off] => do
            let k ← parseNat? sub; let e ← parseInt? eof; let o ← parseInt? off; let f ← objs[k]?
            pure (mkOffset f i e o)
        | ["sector", sub, eof, l] => do
            let k ← parseNat? sub; let e ← parseInt? eof; let l ← parseNat? l; let f ← objs[k]?
            pure (mkSector f i e l)
        | "chain" :: sub :: l :: secs => do
            let k ← parseNat? sub; let l ← parseNat? l; let ss ← parseNats secs; let f ← objs[k]?
            pure (mkChain f i l ss)
        | ["mdf", sub, eof] => do
            let k ← parseNat? sub; let e ← parseInt? eof; let f ← objs[k]?
            pure (mkMdf f i e)
        | ["rev", sub, eof, w] => do
            let k ← parseNat? sub; let e ← parseInt? eof; let w ← parseNat? w; let f ← objs[k]?
            pure (mkRev f i e w)
        | _ => none
      match mk with
      | some f => go (objs ++ [f]) rest
      | none => none
  go [mkBase base 0] news

def parseSchedOp : List String → Option (Nat × Op)
  | ["tell", k] => do let k ← parseNat? k; pure (k, Op.tell)
  | ["seek", k, off, wh] => do
      let k ← parseNat? k; let o ← parseInt? off; let w ← parseInt? wh; pure (k, Op.seek o w)
  | ["read", k, n] => do let k ← parseNat? k; let n ← parseInt? n; pure (k, Op.read n)
  | _ => none

def showOut : Out → String
  | .pos p => s!"ok {p}"
  | .bytes b => "ok " ++ toHex b
  | .err e => "err " ++ toString e

/-- `stream <hex base> | new… | new… || op | op | …`  (the `||` token separates setup from history). -/
def streamOp (toks : List String) : String :=
  let rec splitDouble (cur : List String) : List String → List String × List String
    | [] => (cur.reverse, [])
    | "||" :: rest => (cur.reverse, rest)
    | t :: rest => splitDouble (t :: cur) rest
  let (setup, hist) := splitDouble [] toks
  match splitBars setup with
  | [baseHex] :: news =>
    match fromHex baseHex, buildObjs ((fromHex baseHex).getD []) news, (splitBars hist).mapM parseSchedOp with
    | some _, some objs, some sched =>
      let (outs, _) := runSched objs sched store0
      " ; ".intercalate (outs.map showOut)
    | _, _, _ => "bad-op"
  | _ => "bad-op"

end Smpl.Drv
