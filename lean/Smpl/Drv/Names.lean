import Smpl.Model.Names
import Smpl.Drv.Util
import Smpl.Drv.Filter
namespace Smpl.Drv
open Smpl Smpl.Names

def showGroup : Group → String
  | .mono i => s!"m:{i}"
  | .pair l r n => s!"p:{l}:{r}:{charsToHex n}"

/-- preorder tree spec: `D:<hex>:<n>` followed by n subtrees, `F:<hex>`. -/
partial def parseTree : List String → Option (Node × List String)
  | [] => none
  | t :: rest =>
    match t.splitOn ":" with
    | ["F", h] => (hexToChars h).map fun n => (Node.node n false [], rest)
    | ["D", h, k] => do
      let n ← hexToChars h
      let k ← parseNat? k
      let rec kids (k : Nat) (r : List String) (acc : List Node) : Option (List Node × List String) :=
        match k with
        | 0 => some (acc.reverse, r)
        | k + 1 => do
          let (c, r') ← parseTree r
          kids k r' (c :: acc)
      let (cs, r) ← kids k rest []
      pure (Node.node n true cs, r)
    | _ => none

def namesOp (toks : List String) : String :=
  match toks with
  | ["safe", h] => match hexToChars h with
      | some s => charsToHex (makeSafeName s) | none => "bad-op"
  | ["export", h, f] => match hexToChars h, parseNat? f with
      | some s, some f => charsToHex (makeExportName s (f != 0)) | _, _ => "bad-op"
  | ["addcount", h, n] => match hexToChars h, parseNat? n with
      | some s, some n => charsToHex (addCount s n) | _, _ => "bad-op"
  | ["stereo", h] => match hexToChars h with
      | some s => (match stereoMatch s with
          | some (a, b, c) => s!"{charsToHex a} {charsToHex b} {c}"
          | none => "none")
      | none => "bad-op"
  | "dedupe" :: kind :: items =>
    -- items: <hexname>:<isfile>
    let parsed : Option (List (Name × Bool)) := items.mapM fun it =>
      match it.splitOn ":" with
      | [h, f] => do let s ← hexToChars h; let f ← parseNat? f; pure (s, f != 0)
      | _ => none
    match parsed with
    | some els =>
      let cands := els.map fun (n, f) => if kind == "safe" then makeSafeName n else makeExportName n f
      (match dedupe cands with
        | .ok names => "ok " ++ " ".intercalate (names.map charsToHex)
        | .error e => "err " ++ toString e)
    | none => "bad-op"
  | "combine" :: items =>
    match items.mapM hexToChars with
    | some ns => " ".intercalate ((combine ns).map showGroup)
    | none => "bad-op"
  | "lookup" :: akai :: h :: tree =>
    match parseNat? akai, hexToChars h, parseTree tree with
    | some a, some path, some (root, _) =>
      let toks := tokenize path
      (match lookupIdx (a != 0) root toks toks 0 [] with
        | .ok idx => "found " ++ showNats idx
        | .error msg => "notfound " ++ charsToHex msg)
    | _, _, _ => "bad-op"
  | ["tokens", akai, h] => match parseNat? akai, hexToChars h with
      | some a, some s => " ".intercalate ((tokenize s).map fun t => charsToHex (sanitizeToken (a != 0) t))
      | _, _ => "bad-op"
  | _ => "bad-op"

end Smpl.Drv
