import Smpl.Model.Transcode
import Smpl.Drv.Util
import Smpl.Drv.Filter
namespace Smpl.Drv
open Smpl.Transcode

def parseEnc : List String → Option Enc
  | [b, w, n, s] => do
    let b ← parseNat? b; let w ← parseNat? w; let n ← parseNat? n; let s ← parseNat? s
    pure ⟨b != 0, w, n, s != 0⟩
  | _ => none

def showBlock (b : List (Option Nat)) : String :=
  if b.isEmpty then "-" else
  String.ofList (b.flatMap fun x =>
    match x with
    | some v => [hexDigit (v / 16 % 16), hexDigit (v % 16)]
    | none => ['?', '?'])

def transOp (toks : List String) : String :=
  match splitBars toks with
  | (host :: bsz :: destToks) :: srcToks =>
    let srcs : Option (List Src) := srcToks.mapM fun t =>
      match t with
      | [b, w, n, s, h] => do
        let e ← parseEnc [b, w, n, s]
        let d ← fromHex h
        pure ⟨e, d⟩
      | _ => none
    match parseNat? host, parseNat? bsz, parseEnc destToks, srcs with
    | some host, some bsz, some dest, some srcs =>
      match transcode (host != 0) bsz dest srcs with
      | .ok blocks => "ok " ++ " | ".intercalate (blocks.map showBlock)
      | .error .noDataStream => "err NoDataStream"
      | .error .incompatibleChannels => "err IncompatibleNumberOfChannels"
    | _, _, _, _ => "bad-op"
  | _ => "bad-op"

end Smpl.Drv
