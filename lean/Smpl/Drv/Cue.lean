import Smpl.Model.Cue
import Smpl.Model.Cdda
import Smpl.Drv.Util
import Smpl.Drv.Filter
namespace Smpl.Drv
open Smpl Smpl.Cue Smpl.Cdda

def showKind : Kind → String
  | .blank => "blank"
  | .file n _ => "file " ++ charsToHex n
  | .track n m => s!"track {n} " ++ charsToHex m
  | .index i m s f => s!"index {i} {m} {s} {f}"
  | .title t => "title " ++ charsToHex t
  | .other t => "other " ++ charsToHex t

def showTrack (t : Track) : String :=
  s!"track {t.number} {charsToHex t.mode} " ++
  (match t.title with | some x => "T" ++ charsToHex x | none => "N") ++ " [" ++
  ",".intercalate (t.indices.map fun i => s!"{i.number}:{i.m}:{i.s}:{i.f}") ++ "] [" ++
  ",".intercalate (t.unparsed.map charsToHex) ++ "]"

def showCue : Except Err CueFile → String
  | .error e => "err " ++ toString e
  | .ok c => "ok " ++ charsToHex c.binName ++ " ; " ++ " ; ".intercalate (c.tracks.map showTrack)

def cueOp (toks : List String) : String :=
  match splitBars toks with
  | [["classify", h]] =>
    match hexToChars h with
    | some l => showKind (classify l)
    | none => "bad-op"
  | [["parse"], hs] =>
    match hs.mapM hexToChars with
    | some ls => showCue (parse ls)
    | none => "bad-op"
  | [["windows", binLen], hs] =>
    match parseNat? binLen, hs.mapM hexToChars with
    | some n, some ls =>
      match parse ls with
      | .error e => "err " ++ toString e
      | .ok c =>
        if detect c == .cdda then
          "cdda ; " ++
          " ; ".intercalate ((windows c n).map fun w => s!"{charsToHex w.title} {w.offset} {w.size} {w.samples}")
        else "data ; "
    | _, _ => "bad-op"
  | _ => "bad-op"

end Smpl.Drv
