import Smpl.Model.Alloc
import Smpl.Drv.Util
import Smpl.Drv.Filter
namespace Smpl.Drv
open Smpl Smpl.Alloc

def showLinks (ls : List Link) : String :=
  " ".intercalate (ls.map fun l => s!"{l.next}:{if l.isEnd then 1 else 0}")

def showPathRes : Except Err (List Nat) → String
  | .ok p => "ok " ++ showNats p
  | .error e => "err " ++ toString e

def showLinksRes : Except Err (List Link) → String
  | .ok ls => "ok " ++ showLinks ls
  | .error e => "err " ++ toString e

def parseLinks : List String → Option (List Link)
  | [] => some []
  | [_] => none
  | a :: b :: rest => do
    let n ← parseNat? a
    let e ← parseNat? b
    let r ← parseLinks rest
    pure (⟨n, e != 0⟩ :: r)

def allocOp (toks : List String) : String :=
  match splitBars toks with
  | [["getpath", size, start], ls] =>
    match parseNat? size, parseNat? start, parseLinks ls with
    | some size, some start, some links => showPathRes (getPath links size start)
    | _, _, _ => "bad-op"
  | [["akai"], ws] =>
    match parseNats ws with
    | some words => showLinksRes (akaiDecode words)
    | none => "bad-op"
  | [["roland"], ws] =>
    match parseNats ws with
    | some words => showLinksRes (rolandDecode words)
    | none => "bad-op"
  | [["akai_paths"], ws] =>
    -- decode, then get_path from every start sector (size = table length)
    match parseNats ws with
    | some words =>
      match akaiDecode words with
      | .ok links => " ; ".intercalate ((List.range words.length).map fun s =>
          showPathRes (getPath links words.length s))
      | .error e => "err " ++ toString e
    | none => "bad-op"
  | [["roland_paths"], ws] =>
    match parseNats ws with
    | some words =>
      match rolandDecode words with
      | .ok links => " ; ".intercalate ((List.range words.length).map fun s =>
          showPathRes (getPath links words.length s))
      | .error e => "err " ++ toString e
    | none => "bad-op"
  | _ => "bad-op"

end Smpl.Drv
