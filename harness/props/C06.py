"""C06 — output paths are unique, file-system safe and confined to the destination."""
from __future__ import annotations

import contextlib
import io
import itertools
import os
import re
import shutil
import tempfile

import fam_names as FN
from common import Case, Finding, Report, compare_family

ASSUMPTIONS = [
    "names reaching the naming routines are ASCII (AKAI character set, Roland 'ascii' strings, ASCII cue sheets); the character tables are over 0..127",
    "os.path.join / os.makedirs / open behave as documented; the export runs in a temporary directory that is removed afterwards",
]

ALLOWED = re.compile(r"^[A-Za-z0-9_ \-.#()]+$")


def component_ok(c: str, last: bool) -> bool:
    if not c or not ALLOWED.match(c) or not re.match(r"\w", c[0]):
        return False
    if c.endswith(" ") or c.endswith(".") or c in (".", ".."):
        return False
    return True


def oracle_dedupe(rep: Report, kind, items, got):
    if isinstance(got, str):
        rep.findings.append(Finding("dedupe-raises", {"kind": kind, "items": [list(i) for i in items], "result": got}))
        return
    if len(set(got)) != len(got):
        near = any(FN.image()._STEREO_FILENAME.match(n or "") for n in got)
        rep.findings.append(Finding("dedupe-duplicate-names" + ("-stereo-suffix" if near else ""), {"kind": kind, "items": [list(i) for i in items], "assigned": got}))
        return
    if kind == "export":
        for (raw, is_file), n in zip(items, got):
            comp = n + (".wav" if is_file else "")
            if not component_ok(comp, is_file):
                rep.findings.append(Finding("export-name-unsafe", {"raw": raw, "is_file": is_file, "assigned": n}))
                return


def cdda_export(lines, bin_len):
    from smpl_extract import actions as A

    d = tempfile.mkdtemp(prefix="verif_c06_")
    try:
        with open(os.path.join(d, "disc.bin"), "wb") as f:
            f.write(bytes(bin_len))
        cue = os.path.join(d, "disc.cue")
        with open(cue, "w", encoding="ascii", newline="") as f:
            f.write("".join(lines))
        out = os.path.join(d, "dest", "inner")
        os.makedirs(out)
        buf = io.StringIO()
        err = None
        try:
            with contextlib.redirect_stdout(buf):
                A.export_samples_to_wav(cue, out)
        except Exception as e:
            err = repr(e)
        inside, outside = [], []
        for root, _, names in os.walk(d):
            for n in names:
                p = os.path.join(root, n)
                if p in (cue, os.path.join(d, "disc.bin")):
                    continue
                (inside if os.path.realpath(p).startswith(os.path.realpath(out) + os.sep) else outside).append(os.path.relpath(p, out))
        exported = [l[len("Exported "):] for l in buf.getvalue().splitlines() if l.startswith("Exported ")]
        return inside, outside, exported, err
    finally:
        shutil.rmtree(d, ignore_errors=True)


def oracle_cdda(rep: Report, titles):
    lines = ['FILE "disc.bin" BINARY\n']
    for k, t in enumerate(titles, 1):
        lines.append(f"  TRACK {k:02d} AUDIO\n")
        if t is not None:
            lines.append(f'    TITLE "{t}"\n')
        lines.append(f"    INDEX 01 00:{k:02d}:00\n")
    inside, outside, exported, err = cdda_export(lines, 2352 * 75 * (len(titles) + 2))
    detail = {"titles": titles, "inside": inside, "outside": outside, "exported": exported, "error": err}
    if outside:
        rep.findings.append(Finding("cdda-title-escapes-destination", detail))
    elif err:
        rep.findings.append(Finding("cdda-title-export-crash", detail))
    elif len(inside) != len(exported) or len(inside) != len(titles):
        rep.findings.append(Finding("cdda-title-overwrite", detail))
    else:
        for p in inside:
            if not all(component_ok(c, True) for c in p.split(os.sep)):
                rep.findings.append(Finding("cdda-title-unsafe-component", detail))
                break


def run(ctx, rep: Report, deep: bool = False):
    rng = ctx.rng
    full = deep or not ctx.quick
    rep.rule = (
        "exhaustive: make_safe_name / make_export_name on every string of length <= 3 (thorough: <= 4) over an 18-character alphabet containing / \\ . : \" ( ) # + a control character; "
        "sanitize_names_general (both passes) on every sibling list of length <= 3 (thorough: <= 4) from a 20-name near-collision pool (names equal after sanitising, equal to a generated '(n)' form, equal to a stereo stem); "
        "the whole naming pipeline of a directory (export names, then the stereo merge) on sibling lists from the same pool: written names pairwise distinct; random ASCII / AKAI-alphabet names and lists; CDDA end-to-end exports with hostile TITLEs ('../x', separators, duplicates, stored '.wav' suffixes); AKAI images with equal volume names and names that differ by a stored '.WAV'; distinct = distinct op line; non-trivial = list with a collision or a name that needs sanitising"
    )
    cases = []
    maxlen = 4 if full else 3
    n = 0
    for s in FN.all_strings(FN.SMALL_ALPHA, maxlen):
        n += 1
        if len(s) == 4 and n % 5 != ctx.seed % 5:
            continue
        cases.append(Case("names safe " + FN.hxs(s), FN.hxs(FN.safe(s))))
        for f in (0, 1):
            e = FN.export(s, bool(f))
            cases.append(Case(f"names export {FN.hxs(s)} {f}", FN.hxs(e)))
            comp = e + (".wav" if f else "")
            if not component_ok(comp, bool(f)):
                rep.findings.append(Finding("export-name-unsafe", {"raw": s, "is_file": bool(f), "export_name": e}))
        rep.feat("strings_exhaustive")
    for s in FN.NEAR_POOL + [FN.random_name(rng) for _ in range(ctx.n(300, 3000))]:
        cases.append(Case("names stereo " + FN.hxs(s), FN.stereo_real(s)))
        for k in (2, 3, 10):
            cases.append(Case(f"names addcount {FN.hxs(s)} {k}", FN.hxs(FN.image()._add_count_to_name(s, k))))
        cases.append(Case("names safe " + FN.hxs(s), FN.hxs(FN.safe(s))))
        cases.append(Case(f"names export {FN.hxs(s)} 1", FN.hxs(FN.export(s, True))))
    # sibling lists
    maxl = 4 if full else 3
    cnt = 0
    for L in range(1, maxl + 1):
        for lst in itertools.product(FN.NEAR_POOL, repeat=L):
            cnt += 1
            if L == 4 and cnt % 7 != ctx.seed % 7:
                continue
            for kind in ("safe", "export"):
                items = [(x, True) for x in lst]
                got = FN.dedupe_real(kind, items)
                cases.append(Case(f"names dedupe {kind} " + " ".join(f"{FN.hxs(a)}:{int(b)}" for a, b in items), got if isinstance(got, str) else "ok " + " ".join(FN.hxs(x) for x in got)))
                oracle_dedupe(rep, kind, items, got)
            rep.feat("sibling_lists_exhaustive")
            if len(set(lst)) < len(lst):
                rep.feat("lists_with_duplicates")
    # the whole naming pipeline of one directory: export names, then the stereo merge (S59): the names of what is
    # written - merged pairs under their stem, everything else under its export name - must be pairwise distinct
    cnt = 0
    for L in range(2, maxl + 1):
        for lst in itertools.product(FN.NEAR_POOL, repeat=L):
            cnt += 1
            if L >= 3 and cnt % (11 if L == 4 else 3) != ctx.seed % (11 if L == 4 else 3):
                continue
            got = FN.dedupe_real("export", [(x, True) for x in lst])
            if isinstance(got, str):
                continue
            groups = FN.combine_real(got)
            out_names = [got[g[1]] if g[0] == "m" else g[3] for g in groups]
            rep.evaluations += 1
            rep.feat("directory_pipeline")
            if any(g[0] == "p" for g in groups):
                rep.feat("directory_pipeline_with_pair")
            if len(set(out_names)) != len(out_names):
                rep.findings.append(Finding("written-names-collide-after-stereo-merge", {"names": list(lst), "export_names": got, "written": out_names}))
    for i in range(ctx.n(300, 3000)):
        L = rng.randint(1, 8)
        items = [(FN.random_name(rng), rng.random() < 0.7) for _ in range(L)]
        if rng.random() < 0.5:
            items += [items[rng.randrange(len(items))] for _ in range(rng.randint(1, 3))]
        for kind in ("safe", "export"):
            got = FN.dedupe_real(kind, items)
            cases.append(Case(f"names dedupe {kind} " + " ".join(f"{FN.hxs(a)}:{int(b)}" for a, b in items), got if isinstance(got, str) else "ok " + " ".join(FN.hxs(x) for x in got)))
            oracle_dedupe(rep, kind, items, got)
        rep.feat("sibling_lists_random")
    # CDDA end to end with hostile titles
    hostile = [
        ["Loop.wav", "Loop"], ["Loop.wav", "Loop.WAV", "Loop.wav"], ["x .wav", "x..wav", "x"],  # S119: a stored extension is part of the name
        ["../esc", "ok"], ["a/b", "a\\b"], ["Same", "Same"], ["x", "x", "x (2)"], ["..", "."], ["C:", "con."], ["  lead", "trail  "],
        [None, "Untitled Track 1"], ["A L", "A R"], ["\x01ctl", "tab\there"], ["/abs", "~"], ["A.", "A"],
    ]
    for t in hostile[: (len(hostile) if full else 12)]:
        oracle_cdda(rep, t)
        rep.feat("cdda_hostile_titles")
    for i in range(ctx.n(6, 60)):
        stem = FN.random_name(rng, "nasty").replace('"', "").replace("\n", "")
        oracle_cdda(rep, [(rng.choice([stem, FN.random_name(rng, "nasty").replace('"', "").replace("\n", "")]) + rng.choice(["", "", ".wav", ".WAV", ".Wav"])) or None for _ in range(rng.randint(1, 4))])
        rep.feat("cdda_random_titles")
    # whole AKAI images with sibling volumes of one name holding same-named samples (S103): one file per
    # `Exported` line, every component inside the rules
    import fam_akai as FA
    import fam_e2e as E
    import gen_akai as GA

    for i in range(ctx.n(3, 20)):
        nv = rng.randint(2, 3)
        vols = []
        for v in range(nv):
            files = [GA.SampleFile(n, GA.random_words(rng, rng.randint(1, 30))) for n in rng.sample(["KICK", "SNARE", "HAT", "FX.1", "A", "KICK.WAV", "A.WAV"], rng.randint(1, 4))]
            if rng.random() < 0.5:
                files += [GA.SampleFile("PAD-L", GA.random_words(rng, 20)), GA.SampleFile("PAD-R", GA.random_words(rng, 20))]
            vols.append(GA.Volume(rng.choice(["DRUMS", "DRUMS", "VOL.", "KEYS"]), files))
        # S163: one stored name used for a FILE in the first partition and for a VOLUME in the second - names whose
        # file form and directory form differ (trailing dots / hyphen): a directory must not inherit the file's form
        shared = ["T-T..", "..", "X-", "A."][i % 4]
        vols[0].files.append(GA.SampleFile(shared, GA.random_words(rng, 7)))
        disc = GA.Disc([GA.Partition(vols, sectors=40), GA.Partition([GA.Volume("DRUMS", [GA.SampleFile("KICK", GA.random_words(rng, 5))]),
                                                                       GA.Volume(shared, [GA.SampleFile("IN", GA.random_words(rng, 6))])], sectors=12)])
        img, _ = GA.serialize(disc, rng)
        with E.Scratch() as sc:
            pth = sc.write("x.img", img)
            res, files, exported, err = FA.export_str(pth)
        want = len(GA.expected_export(disc))
        detail = {"volumes": [[v.name, [f.name for f in v.files]] for v in vols], "files": sorted(files)[:20], "exported_lines": len(exported), "error": err}
        rep.evaluations += 1
        rep.feat("akai_images_with_equal_directory_names")
        if err:
            rep.findings.append(Finding("akai-export-crash", detail))
        elif not (len(files) == len(exported) == want):
            rep.findings.append(Finding("akai-files-vs-exported-lines", dict(detail, on_disk=len(files), expected=want)))
        else:
            for path in files:
                comps = path.split("/")
                if not all(component_ok(c, k == len(comps) - 1) for k, c in enumerate(comps)):
                    rep.findings.append(Finding("akai-path-component-unsafe", dict(detail, path=path)))
                    break
    # whole Roland images (S182): one performance assigned to two volumes - the same performance and sample names under
    # two volume folders; one file per `Exported` line, every component inside the rules, every level present
    import gen_roland as GR

    for i in range(ctx.n(2, 12)):
        smp = {k: GR.Sample(["Kick", "Snare 1", "Hat.x"][k], GR.random_words(rng, rng.randint(20, 300)), mode=0) for k in range(3)}
        rdisc = GR.Disc([GR.Volume("VOL A", [0, 1]), GR.Volume(["VOL B", "VOL A"][i % 2], [0])], {0: GR.Performance("Shared", [0]), 1: GR.Performance("Own", [1])},
                        {0: GR.Patch("Q0", [0]), 1: GR.Patch("Q1", [1])}, {0: GR.Partial("R0", [0, 1, None, None]), 1: GR.Partial("R1", [2, None, None, None])}, smp)
        rimg, _ = GR.serialize(rdisc, rng)
        with E.Scratch() as sc:
            pth = sc.write("r.img", rimg)
            files, exported, err = E.export_real(pth)
        want = 2 + 1 + 2  # Shared under two volumes (Kick, Snare 1) twice ... see below
        want = 2 * 2 + 1
        detail = {"files": sorted(files)[:20], "exported_lines": len(exported), "error": err}
        rep.evaluations += 1
        rep.feat("roland_images_with_a_shared_performance")
        if err:
            rep.findings.append(Finding("roland-export-crash", detail))
        elif not (len(files) == len(exported) == len(set(exported)) == want):
            rep.findings.append(Finding("roland-files-vs-exported-lines", dict(detail, on_disk=len(files), expected=want)))
        else:
            for path in files:
                comps = path.split("/")
                if len(comps) != 3 or not all(component_ok(c, k == len(comps) - 1) for k, c in enumerate(comps)):
                    rep.findings.append(Finding("roland-path-component-unsafe", dict(detail, path=path)))
                    break
    if ctx.model_available:
        compare_family(rep, "names", cases, nontrivial=lambda c: True, exhaustive=True)
    rep.exhaustive = True
    rep.required_features = ["strings_exhaustive", "sibling_lists_exhaustive", "lists_with_duplicates", "cdda_hostile_titles", "directory_pipeline_with_pair", "akai_images_with_equal_directory_names", "roland_images_with_a_shared_performance"]


def search(ctx, rep: Report):
    if not rep.findings:
        sub = Report("C06")
        run(ctx, sub, deep=True)
        rep.findings.extend(sub.findings)


def replay(ctx, payload) -> bool:
    d = payload["input"]
    rep = Report("C06")
    if "titles" in d:
        oracle_cdda(rep, d["titles"])
    elif "items" in d:
        items = [tuple(i) for i in d["items"]]
        oracle_dedupe(rep, d["kind"], items, FN.dedupe_real(d["kind"], items))
    return not rep.findings
