"""C12 — PCM transcoding maps every source channel to the same-numbered output channel."""
from __future__ import annotations

import itertools

import fam_trans as FT
from common import Case, Finding, Report, compare_family

ASSUMPTIONS = [
    "all streams of one transcoder have the same sample width (the property's hypothesis); dest width = that width, as generalized/wav.py builds it",
    "host byte order is varied by patching transcoder.system_byte_order; numpy keeps interpreting in the real host order, which is irrelevant at byte level because the pipeline only moves and byte-swaps samples",
    "values of padding samples (np.pad linear_ramp) are unspecified in the model and masked in the comparison",
]


def classify(srcs, host, block) -> str:
    mixed = len({s[0] for s in srcs}) > 1
    inter = any(s[2] > 1 for s in srcs)
    return "transcode" + ("-mixed-endian" if mixed else "") + ("-interleaved" if inter else "") + ("-multi" if len(srcs) > 1 else "")


def oracle(rep: Report, host, block, dest, srcs, res: str):
    """the property, on the real output (dest is little-endian 1 channel per source channel)."""
    if dest[0] != 0:
        return
    chans, lo, hi = FT.expected_le(srcs)
    w = srcs[0][1]
    nch = len(chans)
    detail = {"host_big": host, "block": block, "dest": list(dest), "srcs": [[b, ww, n, s, d.hex()] for (b, ww, n, s, d) in srcs], "got": res[:400]}
    if not res.startswith("ok"):
        rep.findings.append(Finding(classify(srcs, host, block) + "-error", detail))
        return
    data = b"".join(bytes.fromhex(x) if x != "-" else b"" for x in res[3:].split(" | ")) if len(res) > 3 else b""
    fs = nch * w
    if len(data) % fs != 0:
        rep.findings.append(Finding(classify(srcs, host, block) + "-partial-frame", detail))
        return
    frames = len(data) // fs
    if not (lo <= frames <= hi):
        rep.findings.append(Finding(classify(srcs, host, block) + "-frame-count", dict(detail, frames=frames, lo=lo, hi=hi)))
        return
    for f in range(lo):
        for c in range(nch):
            got = data[(f * nch + c) * w : (f * nch + c) * w + w]
            if got != chans[c][f]:
                rep.findings.append(Finding(classify(srcs, host, block) + "-channel-content", dict(detail, frame=f, channel=c, want=chans[c][f].hex(), have=got.hex())))
                return


def lattice(ctx, deep):
    """1..3 streams x channels 1..3 x width {1,2,4} x endian per stream x lengths x block x host."""
    widths = (1, 2, 4)
    lens = (0, 1, 2, 3)
    for nstreams in (1, 2, 3):
        chan_opts = [(1,), (2,), (3,)] if nstreams == 1 else ([(1, 1), (2, 1), (1, 2), (2, 2), (3, 1)] if nstreams == 2 else [(1, 1, 1), (2, 1, 1), (1, 2, 1)])
        for chs in chan_opts:
            for w in widths:
                for ends in itertools.product((0, 1), repeat=nstreams):
                    for ls in itertools.product(lens, repeat=nstreams):
                        yield w, chs, ends, ls


def run(ctx, rep: Report, deep: bool = False):
    rng = ctx.rng
    rep.rule = (
        "exhaustive lattice: 1..3 streams x interleaved channels {1,2,3} x width {1,2,4} x byte order per stream x lengths {0,1,2,3 frames (+ partial trailing bytes)} "
        "x block {1 frame, 2 frames, 4096} x host {LE, BE patched} (quick: seed-rotated 1/5 stripe); random: longer streams, random block sizes; "
        "every byte of every source is distinct per (stream, channel, frame, byte); distinct = distinct op line; non-trivial = at least two source channels with >= 1 frame"
    )
    cases = []
    stripe = 1 if (deep or not ctx.quick) else 5
    idx = 0
    for w, chs, ends, ls in lattice(ctx, deep):
        for host in (0, 1):
            for bmode in (0, 1, 2):
                idx += 1
                if idx % stripe != ctx.seed % stripe:
                    continue
                srcs = []
                for si, (n, e, L) in enumerate(zip(chs, ends, ls)):
                    extra = (si + L) % 2 if w * n > 1 else 0
                    srcs.append((e, w, n, 1, FT.tagged_source(si, w, n, L, extra)))
                total = sum(max(1, n) for n in chs)
                dest = (0, w, total, 1)
                maxframe = max(w * n for n in chs)
                block = (1, 2 * maxframe, 4096)[bmode]
                res = FT.run_real(host, block, dest, srcs)
                cases.append(Case(FT.op_line(host, block, dest, srcs), res))
                oracle(rep, host, block, dest, srcs, res)
                rep.feat("lattice_cases")
                if len(set(ends)) > 1:
                    rep.feat("mixed_endian")
                    if any(n > 1 for n in chs):
                        rep.feat("mixed_endian_with_interleaved_stream")
                if len(set(ls)) > 1:
                    rep.feat("unequal_lengths")
    # error paths and non-LE destinations (model/impl correspondence only)
    for dest, srcs in [
        ((0, 2, 2, 1), []),
        ((0, 2, 3, 1), [(0, 2, 1, 1, b"\x01\x02")]),
        ((1, 2, 2, 1), [(0, 2, 1, 1, bytes(range(8))), (1, 2, 1, 1, bytes(range(16, 24)))]),
        ((1, 2, 1, 1), [(1, 2, 1, 1, bytes(range(9)))]),
        ((0, 2, 1, 1), [(0, 2, 0, 1, bytes(range(9)))]) if False else ((0, 2, 1, 0), [(0, 2, 1, 1, bytes(range(9)))]),
    ]:
        for host in (0, 1):
            res = FT.run_real(host, 4, dest, srcs)
            cases.append(Case(FT.op_line(host, 4, dest, srcs), res))
            rep.feat("special_cases")
    # random larger
    for i in range(ctx.n(150, 1500)):
        nstreams = rng.randint(1, 3)
        w = rng.choice((1, 2, 4))
        srcs = []
        for si in range(nstreams):
            n = rng.choice((1, 1, 2, 3))
            L = rng.choice((0, 1, 5, 17, 64, rng.randint(0, 300)))
            if rng.random() < 0.5 and si > 0:
                L = len(srcs[0][4]) // (srcs[0][1] * max(1, srcs[0][2]))
            d = bytes(rng.randrange(256) for _ in range(L * n * w + rng.randrange(0, n * w)))
            srcs.append((rng.randrange(2), w, n, 1, d))
        total = sum(max(1, s[2]) for s in srcs)
        dest = (0, w, total, 1)
        block = rng.choice((1, 3, 8, 64, 256, 4096))
        host = rng.randrange(2)
        res = FT.run_real(host, block, dest, srcs)
        cases.append(Case(FT.op_line(host, block, dest, srcs), res))
        oracle(rep, host, block, dest, srcs, res)
        rep.feat("random_cases")
    if ctx.model_available:
        compare_family(
            rep, "trans", cases, eq=FT.eq_masked, exhaustive=True,
            nontrivial=lambda c: c.op.count("|") >= 2 or " 2 1 " in c.op or " 3 1 " in c.op,
        )
    rep.exhaustive = not ctx.quick
    rep.required_features = ["lattice_cases", "mixed_endian_with_interleaved_stream", "unequal_lengths", "random_cases"]


def search(ctx, rep: Report):
    if not rep.findings:
        sub = Report("C12")
        run(ctx, sub, deep=True)
        rep.findings.extend(sub.findings)


def replay(ctx, payload) -> bool:
    d = payload["input"]
    srcs = [(b, w, n, s, bytes.fromhex(h)) for (b, w, n, s, h) in d["srcs"]]
    rep = Report("C12")
    res = FT.run_real(d["host_big"], d["block"], tuple(d["dest"]), srcs)
    oracle(rep, d["host_big"], d["block"], tuple(d["dest"]), srcs, res)
    return not rep.findings
