"""C08 — byte-window views behave as read-only files under any seek/read history."""
from __future__ import annotations

import itertools

import fam_stream as FS
from common import Case, Finding, Report, compare_family

ASSUMPTIONS = [
    "the underlying file is modelled with BytesIO semantics (the tool opens images with open(file,'rb'); both clip reads at EOF and allow absolute seeks)",
    "read(None)/read(-1) (readall) is not used by the tool on these views and is not modelled",
]


def classify(specs, root, op, got, want) -> str:
    kind = specs[root - 1][0]
    res = got.split()[1] if got.startswith("err") else "wrong-result"
    at_end = ""
    return f"{kind}-{op[0]}-{res}"


def oracle_case(rep: Report, base, specs, root, sched, impl_out):
    """compare the real object's answers with the abstract file over its logical content."""
    content = FS.denote(base, specs, root)
    if content is None:
        return
    if any(sp[0] == "rev" for sp in specs[: root - 1]):
        # a view layered *over* a reversed view makes unaligned accesses to it, which the reversed
        # view rejects by design; the tool only ever uses the reversed view outermost. Model/impl
        # correspondence still covers these nests; the abstract-file oracle does not apply.
        return
    ab = FS.AbsFile(content, FS.is_rev(specs, root))
    for op, got in zip(sched, impl_out):
        if op[1] != root:
            continue
        if op[0] == "read" and op[2] < 0:
            return
        want = ab.op(op)
        if got != want:
            rep.findings.append(
                Finding(
                    classify(specs, root, op, got, want),
                    {"base": base.hex(), "specs": [list(map(lambda x: list(x) if isinstance(x, tuple) else x, sp)) for sp in specs],
                     "root": root, "sched": [list(o) for o in sched], "op": list(op), "got": got, "want": want},
                )
            )
            return


def run(ctx, rep: Report, deep: bool = False):
    rng = ctx.rng
    maxlen = 3 if (ctx.quick and not deep) else 4
    rep.rule = (
        f"exhaustive: all operation sequences of length <= 2 (quick: + seed-rotated 1/8 stripe of length 3; thorough: all of length 3 + 1/16 stripe of length 4) from "
        "{tell, seek(-1,0,1,2,len,len+1 x 3 whences), read(0,1,2,3,len,len+1)} on 6 tiny shapes (offset, chain/offset, wrap/chain, offset/wrap/chain, rev/offset, sector) "
        "+ a 2-sector raw-sector (mdf) image; random: 30-200 ops over random nests to depth 4 (sector sizes 1-9, chain permutations, reversed views); "
        "distinct = distinct scenario line; non-trivial = history contains a read that returns >= 1 byte"
    )
    cases, metas = [], []

    def add(base, specs, root, sched, tag):
        try:
            objs = FS.build_real(base, specs)
        except FS.ViewLength as e:
            rep.evaluations += 1
            rep.findings.append(Finding(f"{e.kind}-view-length", {"base_len": len(base), "specs": [list(map(str, sp)) for sp in specs], "reported": e.got, "content": e.want}))
            return
        out = FS.run_real(objs, sched)
        cases.append(Case(FS.scenario_line(base, specs, sched), " ; ".join(out), tag))
        oracle_case(rep, base, specs, root, sched, out)
        for op, o in zip(sched, out):
            if op[0] == "read":
                length = FS.length_of(base, specs, root)
                rep.feat("reads")
                if o == "ok -":
                    rep.feat("reads_returning_nothing")
                if o.startswith("err"):
                    rep.feat("ops_raising")

    for name, base, specs, root in FS.tiny_shapes():
        length = FS.length_of(base, specs, root)
        ops = FS.small_ops(length, root)
        for L in range(1, maxlen + 1):
            full = L <= 2 or (L == 3 and (deep or not ctx.quick))
            stripe = 1 if full else (8 if L == 3 else 16)
            for ti, sched in enumerate(itertools.product(ops, repeat=L)):
                if ti % stripe != ctx.seed % stripe:
                    continue
                add(base, specs, root, list(sched), name)
                rep.feat(f"exhaustive_len{L}")
    # raw-sector image: histories around the 2048 boundary
    name, base, specs, root = FS.mdf_shape()
    mops = [("tell", 1), ("seek", 1, 2040, 0), ("seek", 1, 2048, 0), ("seek", 1, -3, 2), ("seek", 1, 5000, 0),
            ("read", 1, 0), ("read", 1, 5), ("read", 1, 16), ("read", 1, 2048), ("read", 1, 2049), ("read", 1, 5000)]
    for L in (1, 2, 3):
        for ti, sched in enumerate(itertools.product(mops, repeat=L)):
            if L == 3 and ti % (1 if (deep or not ctx.quick) else 7) != ctx.seed % (1 if (deep or not ctx.quick) else 7):
                continue
            add(base, specs, root, list(sched), name)
            rep.feat("mdf_histories")
    # random nests
    for i in range(ctx.n(150, 1500)):
        base, specs, root, length = FS.random_nest(rng)
        if not specs:
            continue
        w = FS.is_rev(specs, root)
        sched = FS.random_ops(rng, root, length, rng.randint(30, 200) if i % 3 == 0 else rng.randint(5, 30), w)
        add(base, specs, root, sched, "random")
        rep.feat("random_nests")
        rep.feat("depth_%d" % len(specs))
        if any(sp[0] == "rev" for sp in specs):
            rep.feat("nests_with_reversed_view")
        if any(sp[0] == "chain" and list(sp[3]) != sorted(sp[3]) for sp in specs):
            rep.feat("nests_with_permuted_chain")
    if ctx.model_available:
        compare_family(rep, "stream", cases, nontrivial=lambda c: any(p.startswith("ok ") and len(p) > 4 and not p[3:].isdigit() and p != "ok -" for p in c.impl.split(" ; ")))
    rep.exhaustive = True
    rep.required_features = ["exhaustive_len2", "mdf_histories", "random_nests", "reads_returning_nothing", "nests_with_reversed_view", "nests_with_permuted_chain"]


def search(ctx, rep: Report):
    if not rep.findings:
        sub = Report("C08")
        run(ctx, sub, deep=True)
        rep.findings.extend(sub.findings)


def replay(ctx, payload) -> bool:
    d = payload["input"]
    base = bytes.fromhex(d["base"])
    specs = [tuple(tuple(x) if isinstance(x, list) else x for x in sp) for sp in d["specs"]]
    sched = [tuple(o) for o in d["sched"]]
    rep = Report("C08")
    out = FS.run_real(FS.build_real(base, specs), sched)
    oracle_case(rep, base, specs, d["root"], sched, out)
    return not rep.findings
