"""C07 — allocation chains resolve to the linked sectors and always terminate."""
from __future__ import annotations

import itertools

import impl
from common import Case, Finding, Report, compare_family

ASSUMPTIONS = [
    "table entries are unsigned 16-bit words (construct Int16ul), so indices are never negative",
    "the Roland table length is patched from 65536 to small n for the exhaustive tables (module attribute FAT_NUM_ENTRIES)",
]

EOF_, R1, R2 = 0xC000, 0x4000, 0x8000
F_END, F_ERR, F_RES, F_FREE = 0xFFF8, 0xFFF7, 0x0001, 0x0000


def akai_alphabet(n):
    return [0, EOF_, R1, R2] + list(range(1, n)) + [n + 2]


def roland_alphabet(n, lo):
    return [F_FREE, F_RES, F_ERR, F_END, 0xFFFF] + list(range(lo, n)) + [n + 3]


# ------------------------------------------------------------ independent specification (oracle)


def akai_wf_chains(words):
    """chains the property speaks about, computed from the raw words only (not via the decoder):
    a chain = head with in-degree 0 following in-range link words to an EOF word, duplicate-free,
    every sector on it linked from exactly one place, no link into sector 0 (0 is the FREE word)."""
    n = len(words)
    indeg = [0] * n
    for s, w in enumerate(words):
        if 1 <= w < n:
            indeg[w] += 1
    chains = []
    for h in range(n):
        w = words[h]
        if indeg[h] != 0 or not (w == EOF_ or 1 <= w < n):
            continue
        c, s, ok = [], h, True
        while True:
            if s in c:
                ok = False
                break
            c.append(s)
            w = words[s]
            if w == EOF_:
                break
            if not (1 <= w < n) or indeg[w] != 1:
                ok = False
                break
            s = w
        if ok:
            chains.append(c)
    return chains


def akai_runs(words):
    """maximal runs of consecutive reserved-flag sectors: terminated by a non-reserved sector, or ending with the
    table's last sector (the property names no terminator; the pinned decoder cut such a run to its first sector: D18)."""
    n = len(words)
    runs, s = [], 0
    while s < n:
        if words[s] in (R1, R2):
            e = s
            while e + 1 < n and words[e + 1] in (R1, R2):
                e += 1
            runs.append(list(range(s, e + 1)))
            s = e + 1
        else:
            s += 1
    return runs


def roland_wf_chains(words):
    n = len(words)
    indeg = [0] * n
    for s, w in enumerate(words):
        if 2 <= w < n and w < F_ERR:
            indeg[w] += 1
    chains = []
    for h in range(2, n - 9):
        w = words[h]
        if indeg[h] != 0 or w in (F_FREE, F_RES, F_ERR):
            continue
        c, s, ok = [], h, True
        while True:
            if s in c or s >= n:
                ok = False
                break
            c.append(s)
            w = words[s]
            if w >= F_END:
                break
            if w in (F_FREE, F_RES, F_ERR) or not (2 <= w < n) or indeg[w] != 1:
                ok = False
                break
            s = w
        if ok:
            chains.append(c)
    return chains


def roland_table_valid(words):
    """the decoder rejects the whole table on an ERROR word or a chain running into FREE/RESERVED;
    the property's hypothesis is a table in which every chain is well-formed."""
    n = len(words)
    for i in range(2, n - 9):
        seen, s = set(), i
        while s < n and s not in seen:
            seen.add(s)
            w = words[s]
            if w == F_ERR:
                return False
            if w in (F_FREE, F_RES):
                if s != i:
                    return False
                break
            if w >= F_END:
                break
            s = w
        else:
            if s in seen:
                return False
    return True


def check_oracle(rep: Report, kind: str, words, res: str):
    """property on the real code: each WF chain resolves to itself; every call terminates."""
    n = len(words)
    parts = res.split(" ; ")
    if "hang" in res:
        rep.findings.append(Finding(f"{kind}-nontermination", {"kind": kind, "words": list(words), "result": res[:300]}))
        return
    if res.startswith("err") and " ; " not in res:
        if kind == "roland" and roland_table_valid(words):
            rep.findings.append(Finding("roland-wf-table-rejected", {"kind": kind, "words": list(words), "result": res}))
        if kind == "akai":
            rep.findings.append(Finding("akai-decode-error", {"kind": kind, "words": list(words), "result": res}))
        return
    for p in parts:
        if p.startswith("ok") and len(p.split()) - 1 > n:
            rep.findings.append(Finding(f"{kind}-path-longer-than-table", {"words": list(words), "path": p}))
    if kind == "akai":
        chains = akai_wf_chains(words)
        for c in chains + akai_runs(words):
            got = parts[c[0]]
            want = "ok " + " ".join(map(str, c))
            if got != want:
                head_lowest = c[0] == min(c)
                klass = "akai-wf-chain-misresolved" + ("" if head_lowest else "-head-not-lowest")
                rep.findings.append(Finding(klass, {"kind": kind, "words": list(words), "chain": c, "got": got}))
                rep.feat("wf_chain_failures")
            rep.feat("wf_chains_checked")
            if c[0] != min(c):
                rep.feat("wf_chains_head_not_lowest")
    else:
        if not roland_table_valid(words):
            return
        for c in roland_wf_chains(words):
            got = parts[c[0]]
            want = "ok " + " ".join(map(str, c))
            if got != want:
                rep.findings.append(Finding("roland-wf-chain-misresolved", {"kind": kind, "words": list(words), "chain": c, "got": got}))
            rep.feat("wf_chains_checked")
            if c[0] != min(c):
                rep.feat("wf_chains_head_not_lowest")


_MEDIUM = {}


def stream_over(rep: Report, rng, kind: str, size: int, chain, tag: str):
    """the second half of the property: a byte stream over the resolved list yields the concatenation of those
    sectors (S125). The medium's content is a function of the offset; sectors are 16 bytes so that one read spans many."""
    import io

    from smpl_extract.util.fat import FileStream

    L = 16
    if size not in _MEDIUM:
        _MEDIUM[size] = b"".join((i * 2654435761 & 0xFFFFFFFF).to_bytes(4, "little") for i in range(size * L // 4))
    medium = _MEDIUM[size]
    want = b"".join(medium[c * L:(c + 1) * L] for c in chain)
    fs = FileStream(io.BytesIO(medium), L, list(chain))
    detail = {"kind": kind, "table": tag, "chain_head": list(chain[:8]), "chain_len": len(chain)}
    try:
        with impl.watchdog(10):
            fs.seek(0, 0)  # (the default whence of these streams is SEEK_CUR)
            whole = fs.read(len(want))
            fs.seek(0, 0)
            parts = []
            while True:
                b_ = fs.read(rng.choice([1, 7, L, L + 1, 3 * L, 3 * L + 5, 10 * L]))
                if not b_:
                    break
                parts.append(b_)
            a0 = rng.randrange(max(1, len(want)))
            fs.seek(a0, 0)
            win = fs.read(5 * L + 3)
    except BaseException as e:  # noqa
        if isinstance(e, (KeyboardInterrupt, SystemExit)):
            raise
        rep.findings.append(Finding(f"{kind}-chain-stream-raises", dict(detail, error=impl.exc_name(e))))
        return
    rep.feat("chain_streams_read")
    if len(chain) >= 3 and any(b - a != 1 for a, b in zip(chain, chain[1:])):
        rep.feat("chain_streams_fragmented_3plus")
    if whole != want or b"".join(parts) != want or win != want[a0:a0 + 5 * L + 3]:
        rep.findings.append(Finding(f"{kind}-chain-stream-content", dict(detail, whole_ok=whole == want, chunks_ok=b"".join(parts) == want)))


def random_full_table(rng, kind, n):
    """real-size table with chains in random order + injected cycles / cross links / merges / runs off the end."""
    words = [0] * n
    lo = 1 if kind == "akai" else 2
    hi = n if kind == "akai" else n - 9
    free = list(range(lo, hi))
    rng.shuffle(free)
    pos = 0
    endw = EOF_ if kind == "akai" else F_END
    chains = []
    for _ in range(rng.randint(3, 12)):
        L = rng.randint(1, 40)
        c = free[pos : pos + L]
        pos += L
        if not c:  # small tables: the free list is used up
            break
        for a, b in zip(c, c[1:]):
            words[a] = b
        words[c[-1]] = endw
        chains.append(c)
    if kind == "akai" and pos < len(free):
        s = free[pos]
        for k in range(rng.randint(1, 5)):
            if s + k < n and words[s + k] == 0:
                words[s + k] = rng.choice([R1, R2])
    mode = rng.randrange(6)
    c = chains[0]
    if mode == 1:  # cycle
        words[c[-1]] = c[0]
    elif mode == 2:  # self link
        words[c[-1]] = c[-1]
    elif mode == 3 and len(chains) > 1:  # cross link / merge
        words[c[-1]] = chains[1][len(chains[1]) // 2]
    elif mode == 4:  # run off the end
        words[c[-1]] = n + 5 if kind == "akai" else 0xFFF0
    elif mode == 5:  # chain into a free entry
        words[c[-1]] = free[-1]
    return words, mode


def targeted_full_tables():
    """real-size well-formed tables that stress the decoders' bookkeeping (S83): long chains written backwards, so that
    the outer loop meets the tail first and every later start re-walks it; a nearly full disc plus a backwards file."""
    out = []
    for kind, n, lo, hi, endw in (("akai", 11386, 3, 11386, EOF_), ("roland", 65536, 2, 65536 - 9, F_END)):
        for L in (400, 3000):
            words = [0] * n
            c = list(range(lo + 10 + L - 1, lo + 10 - 1, -1))      # descending
            for a, b in zip(c, c[1:]):
                words[a] = b
            words[c[-1]] = endw
            up = list(range(lo + 10 + L + 5, lo + 10 + L + 5 + 50))  # and an ascending neighbour
            for a, b in zip(up, up[1:]):
                words[a] = b
            words[up[-1]] = endw
            out.append((kind, f"descending-{L}", words, [c, up]))
        # every allocatable entry in use: 8-entry files in ascending order, one of them written backwards
        words = [0] * n
        chains = []
        pos = lo
        k = 0
        while pos + 8 <= hi:
            c = list(range(pos, pos + 8))
            if k == 5:
                c.reverse()
            for a, b in zip(c, c[1:]):
                words[a] = b
            words[c[-1]] = endw
            chains.append(c)
            pos += 8
            k += 1
        out.append((kind, "full-disc", words, chains[:12] + chains[-3:]))
    if True:
        for item in out:
            if item[0] == "roland":
                item[2][0] = 0xFFFA
                item[2][-1] = item[2][-2] = 0xFFFF
    return out


def run(ctx, rep: Report, deep: bool = False):
    rng = ctx.rng
    rep.rule = (
        "exhaustive: every raw AKAI SAT of 5 sectors over {free,EOF,reserved x2, each link, out-of-range} (59049 tables; quick: a seed-rotated 1/6 stripe) "
        "and every Roland FAT of 12 entries with 1 usable..., decode + get_path from every start; every link table of 4 entries x size x start for get_path; "
        "random real-size tables (11386 / 65536 words) with injected cycles, self-links, cross-links, merges, runs off the end; targeted real-size well-formed tables (chains of 400 and 3000 entries written backwards, a full disc of 8-entry files with one written backwards); "
        "a FileStream over every resolved well-formed chain (16-byte sectors over a medium whose content is a function of the offset): one read of the whole, random chunk sizes, a seek + window, all equal to the concatenated sectors; distinct = distinct op line; non-trivial = table with at least one link word"
    )
    cases = []
    HANG_BUDGET = 8

    def hangs():
        return sum(1 for f in rep.findings if f.klass.endswith("nontermination"))

    # --- get_path over all link tables of 3 entries (next in 0..3 (3 = out of range), end flag), all sizes 0..4, starts 0..3
    ent = [(nx, e) for nx in range(4) for e in (0, 1)]
    tables = list(itertools.product(ent, repeat=3))
    stripe = 1 if (deep or not ctx.quick) else 4
    for ti, t in enumerate(tables):
        if ti % stripe != ctx.seed % stripe:
            continue
        if hangs() >= HANG_BUDGET:
            rep.feat("family_cut_short_after_hangs")
            break
        for size in range(0, 5):
            for start in range(0, 4):
                op = f"fat getpath {size} {start} | " + " ".join(f"{a} {b}" for a, b in t)
                r = impl.get_path(t, size, start, timeout=0.05)
                cases.append(Case(op, r))
                if r == "err hang":
                    rep.findings.append(Finding("getpath-nontermination", {"links": t, "size": size, "start": start}))
                rep.feat("getpath_cases")
    # --- AKAI exhaustive 5 sectors
    n = 5
    alpha = akai_alphabet(n)
    stripe = 1 if (deep or not ctx.quick) else 6
    for ti, t in enumerate(itertools.product(alpha, repeat=n)):
        if ti % stripe != ctx.seed % stripe:
            continue
        if hangs() >= 2 * HANG_BUDGET:
            rep.feat("family_cut_short_after_hangs")
            break
        r = impl.decode_and_paths("akai", t, timeout=0.2)
        cases.append(Case("fat akai_paths | " + " ".join(map(str, t)), r))
        check_oracle(rep, "akai", t, r)
        rep.feat("akai_small_tables")
    # --- Roland exhaustive: 12 entries => usable i in {2}; use n=14: i in 2..4, alphabet over entries 2..6
    n = 14
    alpha = roland_alphabet(7, 2)
    stripe = 1 if (deep or not ctx.quick) else 6
    for ti, t in enumerate(itertools.product(alpha, repeat=5)):
        if ti % stripe != ctx.seed % stripe:
            continue
        words = [0xFFFA, 0] + list(t) + [0] * (n - 7)
        if hangs() >= 3 * HANG_BUDGET:
            rep.feat("family_cut_short_after_hangs")
            break
        r = impl.decode_and_paths("roland", words, timeout=0.2)
        cases.append(Case("fat roland_paths | " + " ".join(map(str, words)), r))
        check_oracle(rep, "roland", words, r)
        rep.feat("roland_small_tables")
    # --- random tables: moderate size through the model (List-based, O(n^2)), real size oracle-only
    for i in range(ctx.n(10, 100)):
        for kind, size, with_model in (("akai", 300, True), ("roland", 400, True), ("akai", 11386, False), ("roland", 65536, False)):
            if i % 5 != 0 and not with_model:
                continue
            if hangs() >= 4 * HANG_BUDGET:
                break
            words, mode = random_full_table(rng, kind, size)
            try:
                fat = impl.akai_decode(words, 5) if kind == "akai" else impl.roland_decode(words, 5)
                r = impl.links_str(fat)
            except BaseException as e:  # noqa
                if isinstance(e, (KeyboardInterrupt, SystemExit)):
                    raise
                r = "err " + impl.exc_name(e)
                fat = None
            if with_model:
                cases.append(Case(f"fat {kind} | " + " ".join(map(str, words)), r, {"mode": mode}))
            rep.feat(f"random_{kind}_{size}_mode{mode}")
            if r == "err hang":
                rep.findings.append(Finding(f"{kind}-nontermination", {"kind": kind, "mode": mode, "size": size, "words_nonzero": {i: w for i, w in enumerate(words) if w}}))
            elif fat is not None:
                chains = akai_wf_chains(words) if kind == "akai" else (roland_wf_chains(words) if roland_table_valid(words) else [])
                for c in chains[:20]:
                    try:
                        with impl.watchdog(2):
                            p = fat.get_path(c[0])
                    except BaseException as e:  # noqa
                        p = "err " + impl.exc_name(e)
                    if p != c:
                        klass = f"{kind}-wf-chain-misresolved" + ("" if c[0] == min(c) else "-head-not-lowest")
                        rep.findings.append(Finding(klass, {"kind": kind, "size": size, "chain": c, "got": str(p)[:200], "words_nonzero": {i: w for i, w in enumerate(words) if w}}))
                    rep.feat("wf_chains_checked")
                    if p == c:
                        stream_over(rep, rng, kind, size, c, f"random-{mode}")
                    if c[0] != min(c):
                        rep.feat("wf_chains_head_not_lowest")
                for s0 in rng.sample(range(size), 5) + [w for w in words if 0 < w < size][:5]:
                    try:
                        with impl.watchdog(2):
                            fat.get_path(s0)
                    except impl.Hang:
                        rep.findings.append(Finding("getpath-nontermination", {"kind": kind, "mode": mode, "start": s0, "size": size}))
                    except Exception:
                        pass
    # --- targeted real-size tables (oracle only)
    for kind, tag, words, chains in targeted_full_tables():
        try:
            fat = impl.akai_decode(words, 60) if kind == "akai" else impl.roland_decode(words, 60)
        except BaseException as e:  # noqa
            if isinstance(e, (KeyboardInterrupt, SystemExit)):
                raise
            rep.findings.append(Finding(f"{kind}-wf-table-refused", {"kind": kind, "table": tag, "error": impl.exc_name(e), "chains": [c[:4] + ["..."] + c[-2:] if len(c) > 8 else c for c in chains[:3]]}))
            continue
        for c in chains:
            try:
                with impl.watchdog(5):
                    p = fat.get_path(c[0])
            except BaseException as e:  # noqa
                p = "err " + impl.exc_name(e)
            if p == c and len(c) <= 4000:
                stream_over(rep, rng, kind, len(words), c, tag)
            if p != c:
                rep.findings.append(Finding(f"{kind}-wf-chain-misresolved-{tag}", {"kind": kind, "table": tag, "chain_head": c[:6], "chain_len": len(c), "got": str(p)[:200]}))
                break
        rep.feat("targeted_full_tables")
        rep.feat(f"targeted_{kind}_{tag}")
    if ctx.model_available:
        compare_family(rep, "fat", cases, nontrivial=lambda c: True, exhaustive=True)
    rep.exhaustive = not ctx.quick
    rep.required_features = ["akai_small_tables", "roland_small_tables", "wf_chains_checked", "wf_chains_head_not_lowest", "getpath_cases", "targeted_full_tables", "chain_streams_read", "chain_streams_fragmented_3plus"]


def search(ctx, rep: Report):
    if not rep.findings:
        sub = Report("C07")
        run(ctx, sub, deep=True)
        rep.findings.extend(sub.findings)


def replay(ctx, payload) -> bool:
    d = payload["input"]
    rep = Report("C07")
    if "words" in d and "kind" in d:
        r = impl.decode_and_paths(d["kind"], d["words"], timeout=1.0)
        check_oracle(rep, d["kind"], d["words"], r)
    elif "links" in d:
        r = impl.get_path(d["links"], d["size"], d["start"], timeout=0.5)
        return r != "err hang"
    return not rep.findings
