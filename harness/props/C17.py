"""C17 — cue sheets are read the same regardless of case, spacing and unknown lines."""
from __future__ import annotations

import os
import shutil
import tempfile

import fam_cue as FC
from common import Case, Finding, Report, compare_family

ASSUMPTIONS = [
    "cue sheets are ASCII (actions.parse_text_file opens them with encoding='ascii'); the character tables are over 0..127",
    "universal-newline translation of open() is assumed; lines are passed to the parser as readlines() would deliver them",
]


def oracle_variant(rep: Report, kind, canon_lines, var_lines, canon_meaning):
    got = FC.meaning_real(list(var_lines))
    if got != canon_meaning:
        rep.findings.append(
            Finding(f"cue-{kind[0]}-changes-meaning", {"transformation": list(kind), "canonical": canon_lines, "variant": var_lines, "got": str(got)[:500], "want": str(canon_meaning)[:500]})
        )


def text_probe(rep: Report, rng):
    """no FILE line => BadCueSheet ; non-ASCII text => not a cue sheet (BadTextFile)."""
    from smpl_extract import actions as A
    from smpl_extract.cuesheet import BadCueSheet, parse_cue_sheet

    for lines in (["REM nothing\n", "TRACK 01 AUDIO\n", "INDEX 01 00:00:00\n"], [], ["\n", "  \n"], ["XFILE \"a.bin\" BINARY\n"]):
        try:
            parse_cue_sheet(list(lines))
            rep.findings.append(Finding("cue-without-file-accepted", {"lines": lines}))
        except BadCueSheet:
            pass
    d = tempfile.mkdtemp(prefix="verif_c17_")
    try:
        p = os.path.join(d, "x.cue")
        with open(p, "wb") as f:
            f.write(b'FILE "x.bin" BINARY\n  TRACK 01 AUDIO\n    TITLE "caf\xc3\xa9"\n    INDEX 01 00:00:00\n')
        try:
            A.parse_text_file(p)
            rep.findings.append(Finding("non-ascii-text-accepted-as-cue", {"file": "utf-8 title"}))
        except A.BadTextFile:
            pass
        # S147: a sheet of well over 4 KiB - a long REM header before FILE, many tracks - is read whole: every line of
        # the file reaches the parser, and the meaning is the intended one
        import fam_cue as FC2

        body, _ = FC2.canonical(rng, 80, name="long sheet.bin")
        long_lines = [f"REM line {k} of a long header {'x' * 40}\n" for k in range(120)] + body
        with open(p, "w", encoding="ascii", newline="") as f:
            f.write("".join(long_lines))
        try:
            got_lines = A.parse_text_file(p)
            got = FC2.meaning_real(list(got_lines))
        except Exception as e:  # noqa
            got_lines, got = [], "raised " + type(e).__name__
        want = FC2.intended(body)
        rep.evaluations += 1
        rep.feat("sheet_longer_than_4k")
        if len(got_lines) != len(long_lines) or got != want:
            rep.findings.append(Finding("long-cue-sheet-not-read-whole", {"bytes": sum(map(len, long_lines)), "lines_written": len(long_lines), "lines_read": len(got_lines), "got": str(got)[:300], "want": str(want)[:300]}))
    finally:
        shutil.rmtree(d, ignore_errors=True)


def run(ctx, rep: Report, deep: bool = False):
    rng = ctx.rng
    rep.rule = (
        "canonical sheets of 1..6 tracks x each cosmetic transformation (keyword case, surrounding blanks from the str.strip set, inserted blank line, inserted unknown line, the blanks between fields replaced by tabs / several blanks) applied at EVERY line position, "
        "plus random combinations; every variant parsed by the real parser and the model, and compared with the canonical meaning (oracle); "
        "line classifier vs the four re objects on generated near-miss lines; distinct = distinct op line; non-trivial = sheet with >= 1 track"
    )
    cases = []
    budget = 400 if (ctx.quick and not deep) else 4000
    for nt in range(1, 7):
        for rep_i in range(1 if ctx.quick and not deep else 4):
            k_sheet = (nt - 1) + 6 * rep_i
            name = FC.NAMES[k_sheet % len(FC.NAMES)]  # S120: bin names with blanks, as ripping tools write them (every run has some)
            # S124: times of 100 minutes and more (three-digit minute fields), also straddling 99:59 -> 100:00
            first = [None, 100 * 60 * 75 - rng.randint(0, 60), None, rng.randint(100 * 60 * 75, 999 * 60 * 75)][k_sheet % 4]
            lines, _ = FC.canonical(rng, nt, name=name, first=first)
            if first is not None:
                rep.feat("minutes_100_and_more")
            cm = FC.meaning_real(list(lines))
            rep.feat("canonical_sheets")
            if " " in name:
                rep.feat("bin_name_with_blanks")
            want = FC.intended(lines)
            if cm != want:  # the canonical sheet itself must be read as written (S120), not only consistently
                rep.findings.append(Finding("cue-canonical-misread", {"canonical": lines, "got": str(cm)[:500], "want": str(want)[:500]}))
            cases.append(Case(FC.op_parse(lines), FC.parse_real(lines)))
            for kind, v in FC.cosmetic_variants(rng, lines, budget):
                cases.append(Case(FC.op_parse(v), FC.parse_real(v), {"kind": list(kind)}))
                oracle_variant(rep, kind, lines, v, cm)
                rep.feat("variant_" + kind[0])
    # malformed / odd sheets: model vs impl only
    for i in range(ctx.n(300, 3000)):
        lines, _ = FC.canonical(rng, rng.randint(1, 4), name=rng.choice(FC.NAMES))
        for _ in range(rng.randint(1, 3)):
            m = rng.randrange(5)
            j = rng.randrange(len(lines))
            if m == 0:
                del lines[j]
            elif m == 1:
                lines.insert(j, lines[rng.randrange(len(lines))])
            elif m == 2:
                lines[j] = FC.noise_line(rng)
            elif m == 3:
                lines.insert(j, FC.noise_line(rng))
            else:
                lines[j] = lines[j].replace("AUDIO", rng.choice(["MODE1/2352", "audio", "Audio", "MODE2/2336", "A"]))
            if not lines:
                break
        cases.append(Case(FC.op_parse(lines), FC.parse_real(lines), {"malformed": True}))
        rep.feat("malformed_sheets")
    for i in range(ctx.n(10000, 100000)):
        l = FC.noise_line(rng)
        cases.append(Case("cue classify " + FC.hxs(l), FC.classify_real(l)))
    rep.feat("classified_lines", ctx.n(10000, 100000))
    text_probe(rep, rng)
    if ctx.model_available:
        compare_family(rep, "cue", cases, nontrivial=lambda c: "track" in c.impl)
    rep.required_features = ["sheet_longer_than_4k", "bin_name_with_blanks", "minutes_100_and_more", "variant_innerws", "variant_case", "variant_blanks", "variant_blankline", "variant_unknown", "variant_mixed", "malformed_sheets"]


def search(ctx, rep: Report):
    if not rep.findings:
        sub = Report("C17")
        run(ctx, sub, deep=True)
        rep.findings.extend(sub.findings)


def replay(ctx, payload) -> bool:
    d = payload["input"]
    if "variant" not in d:
        return True
    return FC.meaning_real(d["variant"]) == FC.meaning_real(d["canonical"])
