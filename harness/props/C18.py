"""C18 — codecs round-trip over their whole domains (exhaustive tie)."""
from __future__ import annotations

import struct

from common import Case, Finding, Report, compare_family, hx

ASSUMPTIONS = [
    "Lean kernel Float reduction (+,-,*,/,ofNat,ofInt,toUInt64,<) is IEEE-754 binary64 as used by CPython on x86-64",
    "codec inputs are Python ints / ASCII strings (the only callers are construct adapters over byte fields)",
]


def _opt(f):
    try:
        return f"some {f()}"
    except Exception:
        return "none"


def _note(n) -> str:
    return f"{int(n.scale_degree)} {1 if n.is_sharp else 0} {int(n.octave)}"


def build_cases(ctx):
    from smpl_extract.akai import akai_string as AS
    from smpl_extract.akai import data_types as DT
    from smpl_extract.midi import MidiNote, ScaleDegree

    A, K = DT.CharFormat.ASCII, DT.CharFormat.AKAI
    cases = []
    for b in list(range(256)) + [256, 300, 1000, 65535]:
        cases.append(Case(f"codec a2asc {b}", _opt(lambda: AS._char_format_convert_byte(b, K, A))))
        cases.append(Case(f"codec a2asc {b}", _opt(lambda: AS._fast_akai_to_ascii_byte(b)), "fast"))
        cases.append(Case(f"codec asc2a {b}", _opt(lambda: AS._char_format_convert_byte(b, A, K))))
    # strings
    rng = ctx.rng
    alpha = list(range(0x29))
    for i in range(ctx.n(300, 3000)):
        L = rng.randint(0, 12)
        bs = bytes(rng.choice(alpha) for _ in range(L))
        if i % 5 == 4 and L:
            j = rng.randrange(L)
            bs = bs[:j] + bytes([rng.randint(0x29, 255)]) + bs[j + 1 :]

        def dec():
            return hx(AS.char_akai_to_ascii(bs).encode("ascii"))

        cases.append(Case(f"codec a2asc_str {hx(bs)}", _opt(dec)))
        txt = bytes(rng.choice(b"0123456789 ABCXYZ#+-.") for _ in range(L))
        if i % 7 == 6 and L:
            j = rng.randrange(L)
            txt = txt[:j] + bytes([rng.choice(b"abz!/_\x00\x7f")]) + txt[j + 1 :]
        cases.append(Case(f"codec asc2a_str {hx(txt)}", _opt(lambda: hx(AS.char_ascii_to_akai(txt)))))
    # notes
    for n in range(-400, 401):
        cases.append(Case(f"codec note_from_int {n}", _note(MidiNote.from_int_a0(n))))
    for b in range(256):
        cases.append(Case(f"codec note_rt_akai {b}", _opt(lambda: MidiNote.from_akai_byte(b).to_akai_byte())))
        cases.append(Case(f"codec note_rt_midi {b}", _opt(lambda: MidiNote.from_midi_byte(b).to_midi_byte())))
    for d in range(7):
        for s in (0, 1):
            for o in range(-3, 13):
                n = MidiNote(ScaleDegree(d), bool(s), o)
                cases.append(Case(f"codec note_to_int {d} {s} {o}", _opt(n.to_int_a0)))
                txt = n.to_string()
                cases.append(Case(f"codec note_str {d} {s} {o}", hx(txt.encode())))
                for t in (txt, txt.lower(), "  " + txt + " ", txt + "x"):

                    def parse(t=t):
                        return _note(MidiNote.from_string(t))

                    cases.append(Case(f"codec note_parse {hx(t.encode())}", _opt(parse)))
    for i in range(ctx.n(300, 3000)):
        t = "".join(rng.choice("AaBGgHh#0129 \t-x") for _ in range(rng.randint(0, 4)))

        def parse(t=t):
            return _note(MidiNote.from_string(t))

        cases.append(Case(f"codec note_parse {hx(t.encode())}", _opt(parse)))
    # cents
    for x in range(-128, 128):
        v = DT.parse_akai_tune_cents(x)
        bits = struct.unpack("<Q", struct.pack("<d", float(v)))[0]
        cases.append(Case(f"codec cents_parse {x}", str(bits)))
        cases.append(Case(f"codec cents_rt {x}", str(int(DT.build_akai_tune_cents(v)))))
    return cases


def oracle(ctx, rep: Report):
    """The property itself, evaluated on the real code over the complete finite domains."""
    from smpl_extract.akai import akai_string as AS
    from smpl_extract.akai import data_types as DT
    from smpl_extract.midi import MidiNote, ScaleDegree

    A, K = DT.CharFormat.ASCII, DT.CharFormat.AKAI
    valid = 0
    for b in range(256):
        for dec in (lambda x: AS._char_format_convert_byte(x, K, A), AS._fast_akai_to_ascii_byte):
            try:
                a = dec(b)
            except DT.InvalidCharacter:
                a = None
            except Exception as e:
                rep.findings.append(Finding("akai-char-crash", {"byte": b, "error": repr(e)}))
                continue
            if a is None:
                if b <= 0x28:
                    rep.findings.append(Finding("akai-char-rejects-valid", {"byte": b}))
                continue
            if b > 0x28:
                rep.findings.append(Finding("akai-char-accepts-invalid", {"byte": b, "ascii": a}))
                continue
            try:
                back = AS._char_format_convert_byte(a, A, K)
            except Exception as e:
                back = repr(e)
            if back != b:
                rep.findings.append(Finding("akai-char-roundtrip", {"byte": b, "ascii": a, "back": back}))
        valid += 1 if b <= 0x28 else 0
    accepted = []
    for a in range(256):
        try:
            k = AS._char_format_convert_byte(a, A, K)
        except DT.InvalidCharacter:
            continue
        except Exception as e:
            rep.findings.append(Finding("akai-char-crash", {"ascii": a, "error": repr(e)}))
            continue
        accepted.append(a)
        try:
            back = AS._char_format_convert_byte(k, K, A)
        except Exception as e:
            back = repr(e)
        if back != a:
            rep.findings.append(Finding("ascii-char-roundtrip", {"ascii": a, "akai": k, "back": back}))
    if len(accepted) != 41:
        rep.findings.append(Finding("ascii-char-domain", {"accepted": accepted}))
    rng = ctx.rng
    for _ in range(ctx.n(500, 5000)):
        bs = bytes(rng.randrange(0x29) for _ in range(rng.randint(0, 12)))
        try:
            back = AS.char_ascii_to_akai(AS.char_akai_to_ascii(bs))
        except Exception as e:
            back = repr(e)
        if back != bs:
            rep.findings.append(Finding("akai-name-roundtrip", {"bytes": bs.hex(), "back": str(back)}))
            break
    for b in range(256):
        for nm, f, g in (
            ("akai", MidiNote.from_akai_byte, MidiNote.to_akai_byte),
            ("midi", MidiNote.from_midi_byte, MidiNote.to_midi_byte),
        ):
            try:
                back = g(f(b))
            except Exception as e:
                back = repr(e)
            if back != b:
                rep.findings.append(Finding("note-int-roundtrip", {"codec": nm, "byte": b, "back": back}))
    for d in range(7):
        for s in (False, True):
            for o in range(10):
                n = MidiNote(ScaleDegree(d), s, o)
                for variant in (n.to_string(), n.to_string().lower()):
                    try:
                        back = MidiNote.from_string(variant)
                    except Exception as e:
                        back = repr(e)
                    if back != n:
                        rep.findings.append(
                            Finding("note-text-roundtrip", {"note": [d, s, o], "text": variant, "back": str(back)})
                        )
    for x in range(-128, 128):
        try:
            back = DT.build_akai_tune_cents(DT.parse_akai_tune_cents(x))
        except Exception as e:
            back = repr(e)
        if back != x:
            rep.findings.append(Finding("cents-roundtrip", {"byte": x, "back": back}))


def run(ctx, rep: Report):
    rep.rule = (
        "exhaustive: all 256 byte values through each codec function (both AKAI->ASCII implementations), "
        "ints -400..400, all 7x2x16 notes x 4 spellings, all 256 tuning bytes with bit-exact doubles; "
        "random: AKAI/ASCII strings <=12 and malformed note texts; distinct = distinct op line, "
        "non-trivial = every op (each is a distinct domain point)"
    )
    rep.exhaustive = True
    if ctx.model_available:
        cases = build_cases(ctx)
        compare_family(rep, "codec", cases, exhaustive=True)
    oracle(ctx, rep)
    rep.feat("bytes_exhaustive", 256)


def search(ctx, rep: Report):
    oracle(ctx, rep)  # the domain is finite and already enumerated completely


def replay(ctx, payload) -> bool:
    rep = Report("C18")
    oracle(ctx, rep)
    want = payload.get("class")
    return not any(f.klass == want for f in rep.findings)
