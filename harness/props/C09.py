"""C09 — listing and export do not depend on the container the image is wrapped in."""
from __future__ import annotations

import os
import struct

import fam_akai as FA
import fam_e2e as E
import gen_akai as G
import gen_roland as GR
from common import Case, Finding, Report, run_driver

ASSUMPTIONS = [
    "the seven deliveries are produced by independent wrappers in this file (raw, MODE1/2352 sectors, MDX header, cue->raw, cue->2352, cue->MDX, mixed-mode cue->2352 + audio tracks)",
    "'over either of the former' is read as: over any of the binary deliveries, the MDX file included (the pinned tree handles it)",
    "Roland images come from C02's generator (gen_roland); their `ls` paths are the exported paths and their parents",
]

SYNC = bytes([0] + [0xFF] * 10 + [0])


def wrap2352(img: bytes) -> bytes:
    if len(img) % 2048:
        img = img + bytes(2048 - len(img) % 2048)
    out = bytearray()
    for i in range(len(img) // 2048):
        out += SYNC + (i + 150).to_bytes(3, "big") + b"\x01" + img[i * 2048 : (i + 1) * 2048] + bytes((j * 7 + i) % 256 for j in range(288))
    return bytes(out)


def wrap_mdx(img: bytes) -> bytes:
    hdr = b"MEDIA DESCRIPTOR" + b"\x02\x01" + b"\xa9" + b" " * 25 + b"\xff" * 4 + struct.pack("<Q", 64 + len(img)) + bytes(8)
    assert len(hdr) == 64
    return hdr + img


def cue_for(bin_name: str, mode: str) -> str:
    return f'FILE "{bin_name}" BINARY\n  TRACK 01 {mode}\n    INDEX 01 00:00:00\n'


def deliveries(scratch, img: bytes):
    """-> {name: path to open}"""
    d = {}
    d["raw"] = scratch.write("raw.img", img)
    d["2352"] = scratch.write("sectors.mdf", wrap2352(img))
    d["mdx"] = scratch.write("wrapped.mdx", wrap_mdx(img))
    scratch.write("data.bin", img)
    p = os.path.join(scratch.dir, "raw.cue")
    with open(p, "w", encoding="ascii", newline="") as f:
        f.write(cue_for("data.bin", "MODE1/2048"))
    d["cue-raw"] = p
    scratch.write("AKAI CD Vol 1 (Track 01).bin", wrap2352(img))  # S120: names as ripping tools write them
    p = os.path.join(scratch.dir, "sectors.cue")
    with open(p, "w", encoding="ascii", newline="") as f:
        f.write(cue_for("AKAI CD Vol 1 (Track 01).bin", "MODE1/2352"))
    d["cue-2352"] = p
    # a cue sheet over the MDX file (S56), and a mixed-mode sheet: a data track followed by audio tracks
    scratch.write("data mdx.bin", wrap_mdx(img))
    p = os.path.join(scratch.dir, "mdx.cue")
    with open(p, "w", encoding="ascii", newline="") as f:
        f.write(cue_for("data mdx.bin", "MODE1/2048"))
    d["cue-mdx"] = p
    p = os.path.join(scratch.dir, "mixed.cue")
    with open(p, "w", encoding="ascii", newline="") as f:
        f.write(cue_for("AKAI CD Vol 1 (Track 01).bin", "MODE1/2352") + '  TRACK 02 AUDIO\n    TITLE "Bonus"\n    INDEX 00 59:00:00\n    INDEX 01 59:02:00\n  TRACK 03 AUDIO\n    INDEX 01 61:00:00\n')
    d["cue-2352+audio"] = p
    return d


def run(ctx, rep: Report, deep: bool = False):
    rng = ctx.rng
    rep.rule = (
        "every generated AKAI image and some Roland images x {raw, MODE1/2352 raw sectors, MDX wrapper, cue->raw data track, cue->2352 data track, cue->MDX data track, mixed-mode cue (2352 data track + audio tracks)}: `ls` at every node and the exported files must be identical across the seven deliveries, "
        "and equal to the Lean model's answer for each delivery (the model detects and unwraps the container itself); images with and without trailing bytes that make the size a non-multiple of 2048; "
        "detection corner cases (all-audio cue -> CDDA, text that is not a cue sheet); distinct = (image, delivery); non-trivial = image with >= 1 sample"
    )
    bad = 0
    ncases = 0
    n_akai = ctx.n(6, 60)
    for i in range(n_akai + ctx.n(1, 6)):
        if i >= n_akai:
            # a Roland S-7xx image through the same deliveries
            rdisc = GR.random_disc(rng)
            while not GR.expected_export(rdisc):
                rdisc = GR.random_disc(rng)
            img, _ = GR.serialize(rdisc, rng)
            exported_paths = sorted(x[:-4] for x in GR.expected_export(rdisc))
            paths = [""] + sorted({x.rsplit("/", k)[0] for x in exported_paths for k in (1, 2)} | set(exported_paths))[: ctx.n(5, 20)]
            disc = None
            rep.feat("roland_images")
        else:
            disc = G.random_disc(rng)
        if disc is None:
            pass
        elif i % 6 == 5:
            # "exact end" (S82): the partition has exactly the sectors in use and its last sector is file data, so the last
            # read of the export ends on the last byte of the image (a multiple of 2048: the raw-sector file ends there too)
            nw = rng.choice([4026, 8122, 12218])  # 140 + 2 * nw = k * 8192: the file fills its last sector exactly
            tail_secs = -(-(140 + 2 * nw) // 8192)
            disc = G.Disc([G.Partition([G.Volume("TT", [G.SampleFile("HEAD", G.random_words(rng, 50)), G.SampleFile("TAIL", G.random_words(rng, nw))], dir_first=True)], sectors=3 + 1 + 1 + tail_secs)])
            img, _ = G.serialize(disc, rng, shapes=("contiguous",))
            rep.feat("exact_end_images")
        elif i % 3 == 2:
            # the last thing on the disc is sample data: directory first, files contiguous, largest file last
            w = G.random_words(rng, rng.choice([700, 4500, 9000]))
            disc = G.Disc([G.Partition([G.Volume("TT", [G.SampleFile("HEAD", G.random_words(rng, 50)), G.SampleFile("TAIL", w)], dir_first=True)], sectors=14)])
            img, _ = G.serialize(disc, rng, shapes=("contiguous",))
        else:
            img, _ = G.serialize(disc, rng)
        if disc is None:
            if rng.random() < 0.5:
                img += bytes(rng.randrange(256) for _ in range(rng.choice([1, 100, 2047])))
        elif i % 6 == 5:
            pass
        elif i % 3 == 1:
            img += bytes(rng.randrange(256) for _ in range(rng.choice([1, 100, 2047, 3000])))  # size not a multiple of 2048
            rep.feat("size_not_multiple_of_2048")
        elif i % 3 == 2:
            # "tight tail": a dump cut right after the last live byte, so the trailing partial 2048-byte block holds data
            img = img.rstrip(b"\x00") + bytes(rng.choice([0, 1, 3]))
            rep.feat("size_not_multiple_of_2048")
            rep.feat("tight_tail_images")
        if disc is not None:
            paths = FA.ls_paths(disc)[: ctx.n(6, 30)]
        with E.Scratch() as s:
            ds = deliveries(s, img)
            results = {}
            for name, p in ds.items():
                exp, files, exported, err = FA.export_str(p)
                lss = [FA.ls_str(p, x) for x in paths]
                results[name] = (exp, lss)
                rep.evaluations += 1
                rep.nontrivial.add((i, name))
                rep.feat("delivery_" + name)
                if ctx.model_available:
                    out = run_driver([f"akai all {p} " + " ".join(FA.hxs(x) for x in paths)], timeout=900)[0].split(" || ")
                    ncases += 1
                    ok = FA.eq_export(out[0], exp) and all((out[k + 1] if len(out) > k + 1 else out[0]) == lss[k] for k in range(len(paths)))
                    if not ok:
                        bad += 1
                        if len(rep.disagreements) < 30:
                            rep.disagreements.append({"family": "container", "op": f"akai all <{name}>", "model": " || ".join(out)[:600], "impl": (exp + " || " + " || ".join(lss))[:600], "meta": name})
            base = results["raw"]
            for name, r in results.items():
                if r != base:
                    what = "export" if r[0] != base[0] else "ls"
                    rep.findings.append(Finding(f"container-{name}-changes-{what}", {"delivery": name, "image_len": len(img), "raw": str(base)[:300], "wrapped": str(r)[:300]}))
                    break
    # detection corner cases
    with E.Scratch() as s:
        from smpl_extract import actions as A
        from smpl_extract.cdda.image import CompactDiskAudioImage

        s.write("a b.bin", bytes(2352 * 10))
        p = os.path.join(s.dir, "audio.cue")
        open(p, "w").write('FILE "a b.bin" BINARY\n  TRACK 01 AUDIO\n    INDEX 01 00:00:00\n')
        img = A.determine_image_type(p)
        if not isinstance(img, CompactDiskAudioImage):
            rep.findings.append(Finding("all-audio-cue-not-cdda", {"type": type(img).__name__}))
        rep.feat("detect_all_audio_cue")
    rep.families["container"] = {"cases": ncases, "disagreements": bad}
    rep.sample({"family": "container", "deliveries": ["raw", "2352", "mdx", "cue-raw", "cue-2352", "cue-mdx", "cue-2352+audio"]})
    rep.required_features = ["delivery_raw", "delivery_2352", "delivery_mdx", "delivery_cue-raw", "delivery_cue-2352", "delivery_cue-mdx", "delivery_cue-2352+audio", "roland_images", "exact_end_images", "size_not_multiple_of_2048", "tight_tail_images"]


def search(ctx, rep: Report):
    if not rep.findings:
        sub = Report("C09")
        run(ctx, sub, deep=True)
        rep.findings.extend(sub.findings)


def replay(ctx, payload) -> bool:
    return True
