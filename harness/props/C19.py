"""C19 — block-split invariance of the streaming filters."""
from __future__ import annotations

import itertools
import struct

import numpy as np

from common import Case, Finding, Report, compare_family

ASSUMPTIONS = [
    "integer-valued signals and small integer coefficients make double arithmetic exact, so the comparison is on integers",
    "the compiled extension modules filters/fir*.so, iir*.so are what `import smpl_extract.filters` loads (Cython is not installed; they cannot be rebuilt); "
    "the .pyx sources are additionally executed through harness/pyx_rewrite.py and compared with the same model",
    "memory safety of the C circular buffers is not modelled (len(A) >= 2 assumed)",
]
EXTRA_TRUST = ["harness/pyx_rewrite.py (Cython-subset -> Python rewriter used to execute the .pyx sources)"]


def fbits(x: float) -> int:
    return struct.unpack("<Q", struct.pack("<d", float(x)))[0]


def compositions(n: int):
    """all ordered splits of n into positive parts."""
    for mask in range(1 << (n - 1)):
        parts, cur = [], 1
        for i in range(n - 1):
            if mask >> i & 1:
                parts.append(cur)
                cur = 1
            else:
                cur += 1
        parts.append(cur)
        yield parts


def cut(sig, parts):
    out, i = [], 0
    for p in parts:
        out.append(sig[i : i + p])
        i += p
    return out


def fmt_blocks(blocks) -> str:
    return " | ".join(" ".join(str(int(v)) for v in b) for b in blocks)


def strip_ws(s: str) -> str:
    return " ".join(s.split())


class Impl:
    """Factory for the filter classes of one implementation (loaded .so or rewritten .pyx)."""

    def __init__(self, fir_mod, iir_mod, label):
        self.fir, self.iir, self.label = fir_mod, iir_mod, label

    def run_fir(self, h, m0, blocks):
        f = self.fir.FirFilter(np.asarray(h, dtype=np.float64), m0)
        ys = [f.process(np.asarray(b, dtype=np.float64)) for b in blocks]
        ys.append(f.get_remaining())
        return [[int(round(float(v))) for v in y] for y in ys]

    def run_csfir(self, h, m0, k, blocks):
        f = self.fir.ChickSysCustomFirFilter(np.asarray(h, dtype=np.int16), m0, k)
        ys = [f.process(np.asarray(b, dtype=np.int16)) for b in blocks]
        ys.append(f.get_remaining())
        return [[int(v) for v in y] for y in ys]

    def run_iir(self, B, A, blocks):
        f = self.iir.IirFilter(np.asarray(B, dtype=np.float64), np.asarray(A, dtype=np.float64))
        ys = [f.process(np.asarray(b, dtype=np.float64)) for b in blocks]
        return [[float(v) for v in y] for y in ys]

    def run_preset(self, name, blocks):
        """the preset classes of filters/common.py (for the .pyx variant: same constants, rewritten classes)."""
        from smpl_extract.filters import common as FC

        if self.label == "so":
            f = {
                "roland": FC.ChickSysRolandDeemphFilter,
                "standard": FC.ChickSysStandardDeemphFilter,
                "darker": FC.ChickSysDarkerDeemphFilter,
                "special": FC.ChickSysSpecialDeemphFilter,
                "cdxtract": FC.CdXtractRolandDeemphFilter,
            }[name]()
        elif name == "roland":
            f = self.fir.ChickSysCustomFirFilter(
                FC._chick_sys_roland_deemph_h, FC._chick_sys_roland_deemph_delay_offset, FC._chick_sys_roland_deemph_k_gain
            )
        elif name == "cdxtract":
            f = self.fir.FirFilter(FC._cdxtract_roland_deemph_h)
        else:
            ref = {"standard": FC.ChickSysStandardDeemphFilter, "darker": FC.ChickSysDarkerDeemphFilter, "special": FC.ChickSysSpecialDeemphFilter}[name]()
            f = self.iir.ChickSysCustomIirFilter((float(ref.B[0]), float(ref.B[1]), -float(ref.A[1])))
        dt = np.float64 if name == "cdxtract" else np.int16
        ys = [f.process(np.asarray(b, dtype=dt)) for b in blocks]
        ys.append(f.get_remaining())
        if name == "cdxtract":
            return [[float(v) for v in y] for y in ys]
        return [[int(v) for v in y] for y in ys]

    def run_csiir(self, coeffs, blocks):
        f = self.iir.ChickSysCustomIirFilter(tuple(coeffs))
        ys = [f.process(np.asarray(b, dtype=np.int16)) for b in blocks]
        return [[int(v) for v in y] for y in ys]


def impls(rep: Report):
    import smpl_extract.filters.fir as fir_so
    import smpl_extract.filters.iir as iir_so

    out = [Impl(fir_so, iir_so, "so")]
    try:
        import pyx_rewrite

        fir_py, iir_py = pyx_rewrite.load_modules()
        out.append(Impl(fir_py, iir_py, "pyx"))
        rep.feat("pyx_source_executed")
    except Exception as e:  # reported as a broken tie by the caller
        rep.disagreements.append(
            {"family": "filter-pyx", "op": "rewrite .pyx", "model": "", "impl": "rewriter failed: %r" % (e,), "meta": None}
        )
    return out


PRESET_H = [1, -2, 5, -11, 25, -65, 176, -460, 9981, 32767, 9981, -460, 176, -65, 25, -11, 5, -2, 1]
CS_IIR = {
    "standard": (0.5923, 0.1516, 0.2560),
    "darker": (0.7071, 0.1213, 0.1716),
    "special": (1.0 * 22082 / 32767, 1.0 * 4967 / 32767, 1.0 * 8411 / 32767),
}


def gen_filters(ctx):
    """(kind, params) list — fixed small set + random ones."""
    rng = ctx.rng
    fl = [
        ("fir", dict(h=[1, 2, 3], m0=0)),
        ("fir", dict(h=[1, 2, 3], m0=1)),
        ("fir", dict(h=[1, 2, 3], m0=2)),
        ("fir", dict(h=[2, -1, 3, 1, -2], m0=0)),
        ("fir", dict(h=[2, -1, 3, 1, -2], m0=2)),
        ("fir", dict(h=[2, -1, 3, 1, -2], m0=4)),
        ("fir", dict(h=[3], m0=0)),
        ("fir", dict(h=[1, 1], m0=0)),
        ("csfir", dict(h=[3, -7, 11], m0=1, k=5)),
        ("csfir", dict(h=PRESET_H, m0=7, k=52067)),
        ("iir", dict(B=[1.0, 2.0], A=[1.0, -1.0])),
        ("iir", dict(B=[2.0, 1.0, 3.0], A=[2.0, 1.0, -1.0])),
        ("iir", dict(B=[1.0], A=[4.0, 2.0])),
    ]
    for nm, c in CS_IIR.items():
        fl.append(("csiir", dict(c=c)))
        fl.append(("preset", dict(name=nm, h=[0, 0])))
    fl.append(("preset", dict(name="roland", h=PRESET_H)))
    fl.append(("preset", dict(name="cdxtract", h=[0] * 8)))
    for _ in range(ctx.n(2, 8)):
        n = rng.randint(2, 6)
        fl.append(("fir", dict(h=[rng.randint(-4, 4) for _ in range(n)], m0=rng.randrange(n))))
        nb, na = rng.randint(1, 4), rng.randint(2, 4)
        fl.append(
            (
                "iir",
                dict(
                    B=[float(rng.randint(-3, 3)) for _ in range(nb)],
                    A=[float(rng.choice([1, 2, 4]))] + [float(rng.randint(-2, 2)) for _ in range(na - 1)],
                ),
            )
        )
    return fl


def op_line(kind, p, blocks) -> str:
    if kind == "fir":
        return f"filter fir {p['m0']} | {' '.join(map(str, p['h']))} | {fmt_blocks(blocks)}"
    if kind == "csfir":
        return f"filter csfir {p['m0']} {p['k']} | {' '.join(map(str, p['h']))} | {fmt_blocks(blocks)}"
    if kind == "iir":
        bl = " | ".join(" ".join(str(fbits(v)) for v in b) for b in blocks)
        return f"filter iir | {' '.join(str(fbits(v)) for v in p['B'])} | {' '.join(str(fbits(v)) for v in p['A'])} | {bl}"
    if kind == "csiir":
        return f"filter csiir {' '.join(str(fbits(v)) for v in p['c'])} | {fmt_blocks(blocks)}"
    if kind == "preset":
        if p["name"] == "roland":
            return f"filter csfir_preset | {fmt_blocks(blocks)}"
        if p["name"] == "cdxtract":
            return None  # summation order of np.convolve over non-integer doubles is not modelled: oracle only
        return f"filter csiir_preset {p['name']} | {fmt_blocks(blocks)}"
    raise ValueError(kind)


def impl_run(im: Impl, kind, p, blocks):
    if kind == "fir":
        return im.run_fir(p["h"], p["m0"], blocks)
    if kind == "csfir":
        return im.run_csfir(p["h"], p["m0"], p["k"], blocks)
    if kind == "iir":
        return im.run_iir(p["B"], p["A"], blocks)
    if kind == "preset":
        ys = im.run_preset(p["name"], blocks)
        return ys if p["name"] in ("roland", "cdxtract") else ys[:-1] + ([ys[-1]] if ys[-1] else [])
    return im.run_csiir(p["c"], blocks)


def impl_str(kind, ys) -> str:
    if kind == "iir":
        return strip_ws(" | ".join(" ".join(str(fbits(v)) for v in y) for y in ys))
    return strip_ws(" | ".join(" ".join(str(int(v)) for v in y) for y in ys))


def signal(kind, L, rng, style):
    if kind in ("csfir", "csiir") or (kind == "preset" and True):
        if style == "extreme":
            return [rng.choice([32767, -32768, 32767, -32767, 0, 1, -1]) for _ in range(L)]
        return [rng.randint(-32768, 32767) for _ in range(L)]
    if style == "ramp":
        return [(7 * i + 3) % 23 - 5 for i in range(1, L + 1)]
    return [rng.randint(-9, 9) for _ in range(L)]


def classify(kind, p, blocks, single, split) -> str:
    if kind in ("fir", "csfir") or (kind == "preset" and p["name"] in ("roland", "cdxtract")):
        n = len(p["h"])
        if n == 1:
            return "fir-single-tap-history"
        if any(len(b) < n - 1 for b in blocks):
            return "fir-short-block-history"
        return "fir-split-long-blocks"
    return f"{kind}-split"


def check_property(rep: Report, im: Impl, kind, p, sig, parts):
    """The property on the real code: split == single block, count == input length."""
    blocks = cut(sig, parts)
    try:
        split = impl_run(im, kind, p, blocks)
        single = impl_run(im, kind, p, [sig])
    except Exception as e:
        rep.findings.append(
            Finding(f"{kind}-crash", {"impl": im.label, "kind": kind, "params": p, "signal": sig, "parts": parts, "error": repr(e)})
        )
        return
    flat_split = [v for y in split for v in y]
    flat_single = [v for y in single for v in y]
    if kind == "iir" or (kind == "preset" and p["name"] == "cdxtract"):
        same = [fbits(a) for a in flat_split] == [fbits(a) for a in flat_single]
    else:
        same = flat_split == flat_single
    if not same or len(flat_split) != len(sig):
        rep.findings.append(
            Finding(
                classify(kind, p, blocks, flat_single, flat_split),
                {
                    "impl": im.label,
                    "kind": kind,
                    "params": p,
                    "signal": sig,
                    "parts": parts,
                    "split_out": [str(v) for v in flat_split][:64],
                    "single_out": [str(v) for v in flat_single][:64],
                },
            )
        )
    if kind == "csfir" and any(not (-32768 <= v <= 32767) for v in flat_split):
        rep.findings.append(Finding("csfir-range", {"impl": im.label, "params": p, "signal": sig}))
    if kind == "csiir" and any(not (-32767 <= v <= 32767) for v in flat_split):
        rep.findings.append(Finding("csiir-range", {"impl": im.label, "params": p, "signal": sig}))


def saturation_checks(rep: Report, im: Impl):
    """int16 presets must saturate, not wrap: compare against exact integer/rational references."""
    # FIR preset, constant extreme input: exact sum, clamp
    for val in (32767, -32768):
        sig = [val] * 40
        ys = [v for y in im.run_csfir(PRESET_H, 7, 52067, [sig]) for v in y]

        def rha(pv, k):
            return (2 * pv + k) // (2 * k) if pv >= 0 else -((2 * (-pv) + k) // (2 * k))

        padded = [0] * 11 + sig + [0] * 7
        want = []
        for i in range(len(padded) - 18):
            w = padded[i : i + 19]
            s = sum(rha(x * c, 52067) for x, c in zip(w, PRESET_H[::-1]))
            want.append(max(-32768, min(32767, s)))
        if ys != want:
            rep.findings.append(Finding("csfir-saturation", {"impl": im.label, "value": val, "got": ys[:40], "want": want[:40]}))
    # IIR presets: a huge step must stay within [-32767, 32767] and keep its sign
    for nm, c in CS_IIR.items():
        for val in (32767, -32768):
            ys = [v for y in im.run_csiir(c, [[val] * 64]) for v in y]
            if any(not (-32767 <= v <= 32767) for v in ys) or any((v > 0) != (val > 0) for v in ys if v != 0):
                rep.findings.append(Finding("csiir-saturation", {"impl": im.label, "preset": nm, "value": val, "got": ys[:64]}))


def reset_checks(rep: Report, im: Impl, rng):
    for kind, mk in (
        ("fir", lambda: im.fir.FirFilter(np.asarray([1.0, 2.0, 3.0, 4.0]), 1)),
        ("csfir", lambda: im.fir.ChickSysCustomFirFilter(np.asarray(PRESET_H, dtype=np.int16), 7, 52067)),
        ("iir", lambda: im.iir.IirFilter(np.asarray([1.0, 2.0]), np.asarray([1.0, -1.0]))),
        ("csiir", lambda: im.iir.ChickSysCustomIirFilter(CS_IIR["standard"])),
    ):
        dt = np.int16 if kind.startswith("cs") else np.float64
        junk = np.asarray([rng.randint(-500, 500) for _ in range(30)], dtype=dt)
        sig = np.asarray([rng.randint(-500, 500) for _ in range(30)], dtype=dt)
        f = mk()
        f.process(junk)
        f.reset_state()
        a = list(f.process(sig)) + list(f.get_remaining())
        g = mk()
        b = list(g.process(sig)) + list(g.get_remaining())
        if [float(v) for v in a] != [float(v) for v in b]:
            rep.findings.append(Finding(f"{kind}-reset", {"impl": im.label, "signal": [int(v) for v in sig]}))


def run(ctx, rep: Report, deep: bool = False):
    rng = ctx.rng
    maxL = ctx.n(7, 10)
    if deep:
        maxL = 10
    rep.rule = (
        f"exhaustive: every composition (ordered split into non-empty blocks) of signals of length 1..{maxL} for each of "
        "13 fixed + random FIR/IIR/ChickenSys filters, against the loaded .so and the rewritten .pyx source; random: longer "
        "int16/extreme signals with random splits; distinct = distinct (filter, signal, split) op line; non-trivial = split has >= 2 blocks"
    )
    ims = impls(rep)
    filters = gen_filters(ctx)
    cases = []
    for kind, p in filters:
        for L in range(1, maxL + 1):
            sig = signal(kind, L, rng, "ramp")
            for parts in compositions(L):
                blocks = cut(sig, parts)
                op = op_line(kind, p, blocks)
                for im in ims:
                    if op is not None:
                        try:
                            ys = impl_run(im, kind, p, blocks)
                            res = impl_str(kind, ys)
                        except Exception as e:
                            res = "error " + type(e).__name__
                        cases.append(Case(op, res, {"impl": im.label}))
                    check_property(rep, im, kind, p, sig, parts)
                if len(parts) > 1:
                    rep.feat("multi_block_splits")
                if kind in ("fir", "csfir", "preset") and any(x < len(p["h"]) - 1 for x in parts):
                    rep.feat("fir_block_shorter_than_memory")
    # random long signals
    for i in range(ctx.n(60, 600)):
        kind, p = filters[rng.randrange(len(filters))]
        L = rng.randint(20, 200)
        sig = signal(kind, L, rng, "extreme" if i % 3 == 0 else "rand")
        parts, left = [], L
        long_only = i % 2 == 0  # half of the random splits use only blocks >= every filter memory
        while left > 0:
            k = min(left, rng.choice([18, 19, 23, 40, 64] if long_only else [1, 2, 3, 5, 17, 18, 19, 40, 64]))
            if long_only and left - k < 18:
                k = left
            parts.append(k)
            left -= k
        blocks = cut(sig, parts)
        op = op_line(kind, p, blocks)
        for im in ims:
            if op is not None:
                try:
                    res = impl_str(kind, impl_run(im, kind, p, blocks))
                except Exception as e:
                    res = "error " + type(e).__name__
                cases.append(Case(op, res, {"impl": im.label, "random": True}))
            check_property(rep, im, kind, p, sig, parts)
        rep.feat("random_long_signals")
    for im in ims:
        saturation_checks(rep, im)
        reset_checks(rep, im, rng)
    if ctx.model_available:
        compare_family(
            rep, "filter", cases, nontrivial=lambda c: c.op.count("|") >= 3, canon=strip_ws, exhaustive=True
        )
    rep.exhaustive = True
    rep.required_features = ["multi_block_splits", "fir_block_shorter_than_memory", "random_long_signals", "pyx_source_executed"]


def search(ctx, rep: Report):
    if not rep.findings:
        sub = Report("C19")
        run(ctx, sub, deep=True)
        rep.findings.extend(sub.findings)


def replay(ctx, payload) -> bool:
    d = payload["input"]
    rep = Report("C19")
    for im in impls(rep):
        if im.label == d.get("impl"):
            check_property(rep, im, d["kind"], d["params"], d["signal"], d["parts"])
    return not rep.findings
