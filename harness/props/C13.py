"""C13 — `ls` and `export` terminate with bounded resources on any input file."""
from __future__ import annotations

import math
import os
import random
import struct

import fam_akai as FA
import fam_e2e as E
import fam_limits as L
import gen_akai as GA
import gen_roland as GR
from common import Case, Finding, Report, run_driver

ASSUMPTIONS = [
    "resource bounds of the oracle: CPU <= 10 s + 20 s per MiB of input, address-space growth <= 256 MiB + 32 x input size, output <= 1 MiB + 16 x input size; the limits are enforced with RLIMIT_CPU / RLIMIT_AS in a forked child, so exceeding them shows as a kill or MemoryError",
    "the model tie compares outcome class (finished with a listing / finished with an error) and, when both finish normally, the full results; CPU seconds and resident memory are not expressible in the Lean model",
    "AKAI programs (keygroup chains) are exercised through the real code only (the model has no program parser yet: C20)",
]

MiB = 1 << 20


def cpu_bound(size: int) -> int:
    return 10 + math.ceil(20 * size / MiB)


def mem_bound(size: int) -> int:
    return 256 * MiB + 32 * size


def out_bound(size: int) -> int:
    return MiB + 16 * size


# ------------------------------------------------------------------ the child


def tool_run(main_path: str, scratch: str, want_strings: bool):
    """ls at the root, ls two levels down, export — inside the limited child."""
    res = {"acts": {}}
    out, err = E.ls_real(main_path, "", timeout=36000)
    res["acts"]["ls-root"] = "err:" + err if err else "ok"
    res["ls_bytes"] = len(out or "")
    names = []
    if not err:
        for l in out.split("\n")[2:4]:
            n = l[:l.find("  ")] if "  " in l else l
            if n.strip():
                names.append(n.strip())
    for n in names[:2]:
        o2, e2 = E.ls_real(main_path, n, timeout=36000)
        res["acts"]["ls-1"] = "err:" + e2 if e2 else "ok"
        if not e2:
            for l in o2.split("\n")[2:3]:
                c = l[:l.find("  ")] if "  " in l else l
                if c.strip():
                    o3, e3 = E.ls_real(main_path, n + "/" + c.strip(), timeout=36000)
                    res["acts"]["ls-2"] = "err:" + e3 if e3 else "ok"
    if want_strings:
        s, files, exported, xerr = FA.export_str(main_path)
        with open(os.path.join(scratch, "export.txt"), "w") as f:
            f.write(s)
        with open(os.path.join(scratch, "ls.txt"), "w") as f:
            f.write(FA.ls_str(main_path, ""))
    else:
        files, exported, xerr = E.export_real(main_path, timeout=36000, sizes_only=True)
    res["acts"]["export"] = "err:" + xerr if xerr else "ok"
    res["out_bytes"] = sum(v if isinstance(v, int) else len(v) for v in files.values())
    res["out_files"] = len(files)
    return res


# ------------------------------------------------------------------ inputs


def spec_files(spec: dict):
    """spec -> ({file name: bytes}, main file name). Deterministic in the spec."""
    rng = random.Random(spec["seed"])
    fam = spec["family"]
    if fam == "rand":
        n = spec["size"]
        body = bytes(rng.randrange(256) for _ in range(min(n, 4096)))
        body = (body * (n // max(1, len(body)) + 1))[:n] if n else b""
        pre = spec.get("prefix", "none")
        if pre == "akai":
            body = (struct.pack("<H", spec.get("psize", 30)) + b"\x00\x00" + GA.MAGIC + bytes([0x55, 0xBA]) + b"\x2f\x00" + body)[: max(n, 202)]
        elif pre == "roland":
            ida = bytearray(512)
            ida[0:4] = struct.pack("<I", 1)
            ida[4:14] = b"S770 MR25A"
            ida[32:57] = b"S-770 Hard Disk Ver. 1.00"
            ida[64:80] = b"Copyright Roland"
            ida[272:286] = struct.pack("<IHHHHH", n, rng.randrange(65536), rng.randrange(65536), rng.randrange(65536), rng.randrange(65536), rng.randrange(65536))
            body = bytes(ida) + body
        elif pre == "sparse-roland":
            ida = bytearray(512)
            ida[0:4] = struct.pack("<I", 1)
            ida[4:14] = b"S770 MR25A"
            ida[32:57] = b"S-770 Hard Disk Ver. 1.00"
            ida[64:80] = b"Copyright Roland"
            ida[272:286] = struct.pack("<IHHHHH", n, 5, 9, 9, 9, 9)
            img = bytearray(GR.DATA_FAT_OFF + 4 * GR.CLUSTER)
            img[0:512] = ida
            for _ in range(spec.get("noise", 2000)):
                img[rng.randrange(512, len(img))] = rng.randrange(256)
            fat = GR.FAT_OFF
            img[fat:fat + 2] = struct.pack("<H", 0xFFFA)
            img[fat + 2 * 65534:fat + 2 * 65536] = struct.pack("<HH", 0xFFFF, 0xFFFF)
            body = bytes(img)
        elif pre == "cue":
            body = b'FILE "x.bin" BINARY\n' + body
        name = "x.cue" if pre == "cue" else "x.img"
        files = {name: body}
        if pre == "cue":
            files["x.bin"] = bytes(2352 * 4)
        return files, name
    if fam == "akai":
        disc = GA.random_disc(rng, small=True)
        img, info = GA.serialize(disc, rng)
        img = bytearray(img)
        info["_spec"] = spec
        apply_patches(img, spec["patches"], rng, "akai", info)
        return {"x.img": bytes(img)}, "x.img"
    if fam == "akai-program":
        # a program file whose keygroup chain / count bytes are damaged (S197: a link to itself or backwards, a count
        # byte of 255, a first-keygroup address inside the header)
        import gen_akai_prog as GP

        pr = GP.random_program(rng, "PROG 1", nkg=spec["nkg"], layout="standard")
        files = [GA.SampleFile("KICK", GA.random_words(rng, 300)), pr, GA.SampleFile("PAD", GA.random_words(rng, 200))]
        size = sum(-(-len(f.content()) // 8192) for f in files) + 10
        img, info = GA.serialize(GA.Disc([GA.Partition([GA.Volume("VOL", files)], sectors=size)]), rng, shapes=("contiguous",))
        img = bytearray(img)
        pf = [f for f in info["files"] if f["name"] == "PROG 1"][0]
        base = pf["pstart"] + pf["secs"][0] * 8192
        n = spec["nkg"]
        addr = lambda i: 150 + 150 * i
        k = spec["damage"]
        if k == "self":
            put16(img, base + addr(n // 2) + 1, addr(n // 2))
        elif k == "back":
            put16(img, base + addr(n - 1) + 1, addr(0))
        elif k == "back-mid":
            put16(img, base + addr(max(0, n - 2)) + 1, addr(0))
        elif k == "count-255":
            img[base + 42] = 255
        elif k == "count-255-self":
            img[base + 42] = 255
            put16(img, base + addr(n - 1) + 1, addr(n - 1))
        elif k == "zones-255":
            img[base + addr(0) + 31] = 255
        elif k == "first-in-header":
            put16(img, base + 1, rng.choice([0, 1, 40, 71]))
        elif k == "next-huge":
            put16(img, base + addr(0) + 1, rng.choice([0xFFFF, 0x7FFF, len(pr.content()) - 1]))
        return {"x.img": bytes(img)}, "x.img"
    if fam == "akai-program-counts":
        # KF-C13-program-count-bytes: the one-byte keygroup count and the one-byte zone count multiply - 255 keygroups
        # read from ONE address (the keygroup links to itself), 255 zones each, in each of `nprog` programs
        nk = nz = 255
        h = bytearray(150)
        h[0] = 1
        struct.pack_into("<H", h, 1, 150)
        h[3:15] = GA.akai_name("P")
        h[18] = 1
        h[42] = nk
        kg = bytearray(34)
        kg[0] = 2
        struct.pack_into("<H", kg, 1, 150)
        kg[31] = nz
        z = bytearray(24)
        z[0:12] = GA.akai_name("S")
        z[13] = 127
        pr = bytes(h) + bytes(kg) + bytes(z) * nz + bytes(2 + nz + nz + 2 * nz + 2)
        files = [GA.SampleFile("KICK", GA.random_words(rng, 300))] + [GA.RawFile("PROG %d" % (i + 1), pr, 0x70) for i in range(spec["nprog"])]
        size = sum(-(-len(f.content()) // 8192) for f in files) + 10
        img, info = GA.serialize(GA.Disc([GA.Partition([GA.Volume("VOL", files)], sectors=size)]), rng, shapes=("contiguous",))
        return {"x.img": bytes(img)}, "x.img"
    if fam == "akai-alias-chain":
        # the memory face of KF-C13-aliased-entries: every entry of a k-sector directory names the head of ONE chain of
        # `chain` sectors that exists in the table only (the image ends behind the directory); listing the volume builds
        # a sector list per entry
        k, n = spec["k"], spec["chain"]
        disc = GA.Disc([GA.Partition([GA.Volume("VOL", [GA.SampleFile("ONE", GA.random_words(rng, 10))], dir_sectors=k, dir_first=True)], sectors=3 + k + 2)])
        img, info = GA.serialize(disc, rng, shapes=("contiguous",))
        img = bytearray(img)
        for j in range(n):
            put16(img, 1802 + 2 * (200 + j), 201 + j if j + 1 < n else 0xC000)
        dbase = info["files"][0]["dsecs"][0] * 8192
        entry = bytearray(img[dbase:dbase + 24])
        entry[20:22] = struct.pack("<H", 200)
        cnt = (k * 8192) // 24 - 1
        for i in range(cnt):
            e = bytearray(entry)
            e[0:12] = GA.akai_name(f"F{i:05d}")
            img[dbase + 24 * i: dbase + 24 * i + 24] = e
        img[dbase + 24 * cnt: dbase + 24 * cnt + 24] = bytes(8) + struct.pack("<H", 0xD747) + bytes(14)
        return {"x.img": bytes(img)}, "x.img"
    if fam == "akai-runheads":
        # in every partition: H free sectors hold links into ONE long run of reserved-flag sectors, at descending
        # positions - a decoder that re-walks the run for every head costs H x run (D22)
        parts = [GA.Partition([GA.Volume("V%d" % k, [GA.SampleFile("S", GA.random_words(rng, 100))])], sectors=8) for k in range(spec["parts"])]
        img, info = GA.serialize(GA.Disc(parts), rng, shapes=("contiguous",))
        img = bytearray(img)
        H, base, N = spec["H"], 300, 11386
        for pk in range(spec["parts"]):
            off = pk * 8 * 8192 + 1802
            for k in range(H):
                put16(img, off + 2 * (base + k), base + H + (H - 1 - k))
            for j in range(base + H, N):
                put16(img, off + 2 * j, 0x4000)
        return {"x.img": bytes(img)}, "x.img"
    if fam == "roland-dense":
        # every pointer table full of valid pointers (KF-C13-roland-pointer-fanout): `export` writes one file per
        # (volume, performance, patch, sample of the patch) - the product of the fan-outs, not the size of the image
        nv, npf, npa, npt = spec["nv"], spec["npf"], spec["npa"], spec["npt"]
        smp = {k: GR.Sample("S%d" % k, GR.random_words(rng, 30), mode=0) for k in range(4 * npt)}
        disc = GR.Disc([GR.Volume("V%d" % v, list(range(npf))) for v in range(nv)], {i: GR.Performance("P%d" % i, list(range(npa))) for i in range(npf)},
                       {i: GR.Patch("Q%d" % i, list(range(npt))) for i in range(npa)}, {i: GR.Partial("R%d" % i, [4 * i, 4 * i + 1, 4 * i + 2, 4 * i + 3]) for i in range(npt)}, smp, table_layout="compact")
        img, _ = GR.serialize(disc, rng)
        return {"x.img": bytes(img)}, "x.img"
    if fam == "akai-alias":
        # every entry of a k-sector directory names ONE m-sector file (KF-C13-aliased-entries): the work `export` does
        # is the sum of the sizes the directory NAMES, here entries x extent - quadratic in the size of the image
        k, m = spec["k"], spec["m"]
        words = GA.random_words(rng, (m * 8192 - 140) // 2)
        disc = GA.Disc([GA.Partition([GA.Volume("VOL", [GA.SampleFile("ONE", words)], dir_sectors=k, dir_first=True)], sectors=3 + k + m + 1)])
        img, info = GA.serialize(disc, rng, shapes=("contiguous",))
        img = bytearray(img)
        dbase = info["files"][0]["dsecs"][0] * 8192
        entry = bytes(img[dbase:dbase + 24])
        n = (k * 8192) // 24 - 1
        for i in range(n):
            e = bytearray(entry)
            e[0:12] = GA.akai_name(f"F{i:05d}")
            img[dbase + 24 * i: dbase + 24 * i + 24] = e
        img[dbase + 24 * n: dbase + 24 * n + 24] = bytes(8) + struct.pack("<H", 0xD747) + bytes(14)
        return {"x.img": bytes(img)}, "x.img"
    if fam == "roland":
        disc = GR.random_disc(rng)
        img, info = GR.serialize(disc, rng)
        img = bytearray(img)
        apply_patches(img, spec["patches"], rng, "roland", info)
        return {"x.img": bytes(img)}, "x.img"
    if fam == "cdda":
        return cdda_files(spec, rng)
    raise ValueError(fam)


AKAI_SPECIAL = [0, 1, 0x4000, 0x8000, 0xC000, 0xFFFF, 0x3FFF, 0x7FFF]
ROL_SPECIAL = [0, 1, 0xFFF7, 0xFFF8, 0xFFFF, 0xFFFE, 0xFFFA, 0x7FFF, 0x8000]


def apply_patches(img: bytearray, kinds, rng, fam: str, info: dict):
    # truncation last: the other corruptions address the complete image
    kinds = [k for k in kinds if k != "truncate"] + [k for k in kinds if k == "truncate"]
    for kind in kinds:
        try:
            apply_patch(img, kind, rng, fam, info)
        except IndexError:
            pass  # a corruption that would fall beyond the (already shortened) image is skipped


def apply_patch(img: bytearray, kind, rng, fam: str, info: dict):
    if True:
        if fam == "akai":
            used = [s for ch in info["chains"] for s in ch] or [3]
            if kind == "sat-special":
                i = rng.choice(used + [rng.randrange(3, 40)])
                put16(img, 1802 + 2 * i, rng.choice(AKAI_SPECIAL))
            elif kind == "sat-link":
                i = rng.choice(used)
                put16(img, 1802 + 2 * i, rng.choice(used + [i, i, rng.randrange(0, 11386)]))
            elif kind == "sat-2cycle":
                a, b = rng.randrange(3, 11386), rng.randrange(3, 11386)
                put16(img, 1802 + 2 * a, b)
                put16(img, 1802 + 2 * b, a)
            elif kind == "sat-rho":
                # a file's chain whose TAIL runs into a cycle that does not contain its head (4>5>6>5, 4>5>5): a
                # "back at the start" test never fires on it (S134); only a bound on the number of links does
                ch = max(info["chains"] or [[3]], key=len)
                if len(ch) >= 2:
                    put16(img, 1802 + 2 * ch[-1], ch[rng.randrange(1, len(ch))])
                else:
                    f = max(used + [40]) + 1
                    put16(img, 1802 + 2 * ch[0], f)
                    put16(img, 1802 + 2 * f, f)
            elif kind == "sat-runaway":
                # one chain through (nearly) every free entry of the table whose last word leaves the table without being
                # a flag word (an end mark read as 0x3000 / 0xFFFF / the table size): S168 - the decoder must stay linear
                first = max(used + [40]) + 1
                last = 11385 - rng.choice([0, 1, 300])
                for j in range(first, last):
                    put16(img, 1802 + 2 * j, j + 1)
                put16(img, 1802 + 2 * last, rng.choice([0x3000, 0xFFFF, 11386, 0xC001]))
                ch = max(info["chains"] or [[3]], key=len)
                put16(img, 1802 + 2 * ch[-1], first)
            elif kind == "sat-noise":
                for _ in range(rng.randint(5, 400)):
                    put16(img, 1802 + 2 * rng.randrange(0, 11386), rng.choice(AKAI_SPECIAL + [rng.randrange(65536), rng.randrange(0, 64)]))
            elif kind == "psize":
                # the size field of one partition header (S57: a header that is otherwise valid and declares 0 sectors)
                starts, off = [], 0
                while off + 2 <= len(img) and len(starts) < 8:
                    starts.append(off)
                    sz = get16(img, off)
                    if sz == 0:
                        break
                    off += sz * 8192
                spec = info.get("_spec", {})
                which = spec.get("pwhich") or rng.choice(["first", "last", "any"])
                at = starts[0] if which == "first" else starts[-1] if which == "last" else rng.choice(starts)
                val = spec["pvalue"] if "pvalue" in spec else rng.choice([0, 0, 1, 2, 3, 0xFFFF, 0x8000, rng.randrange(65536)])
                put16(img, at, val)
            elif kind == "volentry":
                k = rng.randrange(0, 4)
                off = 202 + 16 * k + rng.choice([0, 5, 12, 13, 14, 15])
                img[off] = rng.choice([0, 1, 2, 3, 0xFF, rng.randrange(256)])
            elif kind == "volstart":
                k = rng.randrange(0, 4)
                put16(img, 202 + 16 * k + 14, rng.choice(AKAI_SPECIAL + used + [rng.randrange(65536)]))
                img[202 + 16 * k + 12] = rng.choice([1, 3])
            elif kind == "dir":
                # some byte of a directory sector of the first partition (volume start sectors)
                vs = [get16(img, 202 + 16 * k + 14) for k in range(4)]
                vs = [v for v in vs if 0 < v * 8192 < len(img)]
                if vs:
                    v = rng.choice(vs)
                    off = v * 8192 + rng.randrange(0, 24 * 8)
                    img[off] = rng.choice([0, 0xFF, 0x47, 0xD7, rng.randrange(256)])
            elif kind == "filehdr":
                ch = rng.choice(info["chains"]) if info["chains"] else None
                if ch:
                    off = ch[0] * 8192 + rng.randrange(0, 150)
                    if off < len(img):
                        img[off] = rng.choice([0, 0xFF, 0x7F, 0x80, rng.randrange(256)])
            elif kind == "phantom-chain":
                # a file whose chain runs on through sectors that lie beyond the partition, with sizes that claim all of it
                ch = rng.choice([c for c in info["chains"] if c] or [[3]])
                n = rng.choice([50, 500, 3000])
                first = max(used + [40]) + 1
                if first + n < 11386:
                    put16(img, 1802 + 2 * ch[-1], first)
                    for j in range(n):
                        put16(img, 1802 + 2 * (first + j), first + j + 1 if j + 1 < n else 0xC000)
                    hdr = ch[0] * 8192
                    if hdr + 40 < len(img):
                        img[hdr + 26:hdr + 30] = struct.pack("<I", 0x7FFFFF)
                        img[hdr + 30:hdr + 34] = struct.pack("<I", 0)
                        img[hdr + 34:hdr + 38] = struct.pack("<I", 0x7FFFFF)
                    for k in range(4):
                        v = get16(img, 202 + 16 * k + 14)
                        if 0 < v * 8192 < len(img):
                            for e in range(0, 24 * 12, 24):
                                o = v * 8192 + e
                                if get16(img, o + 20) == ch[0]:
                                    img[o + 17:o + 20] = b"\xff\xff\xff"
            elif kind == "truncate":
                del img[rng.randrange(1, len(img)):]
            elif kind == "burst":
                off = rng.randrange(0, min(len(img), 24574))
                for j in range(rng.randint(1, 64)):
                    if off + j < len(img):
                        img[off + j] = rng.randrange(256)
        else:
            used = [c for ch in info["chains"].values() for c in ch] or [2]
            FAT = GR.FAT_OFF
            if kind == "fat-special":
                i = rng.choice(used + [rng.randrange(2, 64)])
                put16(img, FAT + 2 * i, rng.choice(ROL_SPECIAL))
            elif kind == "fat-link":
                i = rng.choice(used)
                put16(img, FAT + 2 * i, rng.choice(used + [i, i, rng.randrange(2, 65527)]))
            elif kind == "fat-2cycle":
                a, b = rng.randrange(2, 65527), rng.randrange(2, 65527)
                put16(img, FAT + 2 * a, b)
                put16(img, FAT + 2 * b, a)
            elif kind == "fat-selfloop":
                a = rng.randrange(2, 65527)
                put16(img, FAT + 2 * a, a)
            elif kind == "fat-noise":
                for _ in range(rng.randint(5, 3000)):
                    put16(img, FAT + 2 * rng.randrange(0, 65536), rng.choice(ROL_SPECIAL + [rng.randrange(65536), rng.randrange(2, 80)]))
            elif kind == "fat-longcycle":
                n = rng.choice([3, 100, 5000, 60000])
                start = rng.randrange(2, 65527 - n)
                for j in range(n):
                    put16(img, FAT + 2 * (start + j), start + (j + 1) % n)
            elif kind == "perfdir-name":
                # a performance directory record whose name does not decode, with the orphan search forced on: the
                # search reads the directory sequentially and resumes 16 bytes into the record (model: `perfScan`)
                put16(img, 278, 0x1FF)
                k = rng.randrange(0, 3)
                img[GR.DIR["perf"] + 32 * k + rng.randrange(0, 4)] = rng.choice([0x80, 0xC1, 0xFF])
                if rng.random() < 0.5:
                    img[GR.DIR["perf"] + 32 * k + 16 + 3] = 0x00  # the second half decodes as a name: the scan stays misaligned
                    img[GR.DIR["perf"] + 32 * k + 16 + 5] = 0x00
            elif kind == "fat-descending":
                # k -> k-1 -> ... -> start (END): every head below re-walks the tail unless the decoder joins resolved chains (D20)
                n = rng.choice([60000, 30000, 64000])
                start = rng.randrange(2, 65520 - n)
                put16(img, FAT + 2 * start, 0xFFFF)
                for j in range(1, n):
                    put16(img, FAT + 2 * (start + j), start + j - 1)
            elif kind == "counts":
                off = 276 + 2 * rng.randrange(0, 5)
                put16(img, off, rng.choice([0, 1, 0x7FFF, 0xFFFF, rng.randrange(65536)]))
            elif kind == "ptrlist":
                area, size, lo, n = rng.choice([(GR.PAR["vol"][0], 256, 32, 64), (GR.PAR["perf"][0], 512, 256, 32), (GR.PAR["patch"][0], 512, 256, 88)])
                k = rng.randrange(0, 3)
                for _ in range(rng.randint(1, n)):
                    put16(img, area + size * k + lo + 2 * rng.randrange(n), rng.choice([0, 1, 2, 3, 0x7FFF, 0xFFFF, rng.randrange(65536)]))
            elif kind == "partial":
                k = rng.randrange(0, 4)
                put16(img, GR.PAR["part"][0] + 128 * k + rng.choice([16, 32, 48, 64]), rng.choice([0, 1, 5, 0x1FFF, 0x2000, 0x7FFF, rng.randrange(65536)]))
            elif kind == "samplepar":
                k = rng.randrange(0, 6)
                off = GR.PAR["samp"][0] + 48 * k + rng.randrange(16, 48)
                img[off] = rng.choice([0, 0xFF, 0x7F, 0x80, rng.randrange(256)])
            elif kind == "sampledir":
                k = rng.randrange(0, 6)
                off = GR.DIR["samp"] + 32 * k + rng.choice([0, 7, 16, 28, 29, 30, 31])
                img[off] = rng.choice([0, 0xFF, 0x80, rng.randrange(256)])
            elif kind == "phantom-chain":
                # every sample shares one chain that runs on through clusters beyond the end of the file; end points claim all of it
                ch = rng.choice(list(info["chains"].values()))
                n = rng.choice([100, 1000, 4000])
                first = max(used) + 9
                put16(img, FAT + 2 * ch[-1], first)
                for j in range(n):
                    put16(img, FAT + 2 * (first + j), first + j + 1 if j + 1 < n else 0xFFF8)
                for k in range(6):
                    d = GR.DIR["samp"] + 32 * k
                    if img[d] != 0:
                        put16(img, d + 28, ch[0])
                        o = GR.PAR["samp"][0] + 48 * k
                        img[o + 16:o + 20] = struct.pack("<I", 0)
                        img[o + 24:o + 28] = struct.pack("<I", 0xFFFFFF00)
                        img[o + 32:o + 36] = struct.pack("<I", 0xFFFFFF00)
                        img[o + 36] = rng.choice([0, 1, 2, 3, 4])
                        put16(img, o + 40, 0)
            elif kind == "key-interleave":
                # S97: the work per patch is bounded by the number of DISTINCT partials its 88 keys name. Two partials named
                # alternately by all 88 keys, all four sample slots of both pointing at one sample whose chain runs on through
                # 20000 free clusters, and all 32 patch slots of every performance naming copies of that patch.
                ch = rng.choice(list(info["chains"].values()))
                n = 20000
                first = max(used) + 9
                if first + n < 65536 - 16:
                    put16(img, FAT + 2 * ch[-1], first)
                    for j in range(n):
                        put16(img, FAT + 2 * (first + j), first + j + 1 if j + 1 < n else 0xFFF8)
                big = next((k for k in range(6) if img[GR.DIR["samp"] + 32 * k] != 0), 0)
                put16(img, GR.DIR["samp"] + 32 * big + 28, ch[0])
                pd, pp = GR.DIR["part"], GR.PAR["part"][0]
                if img[pd + 32] == 0:       # make sure there is a second partial: a copy of the first
                    img[pd + 32:pd + 64] = img[pd:pd + 32]
                    img[pp + 128:pp + 256] = img[pp:pp + 128]
                for q in (0, 1):
                    for o in (16, 32, 48, 64):
                        put16(img, pp + 128 * q + o, big)
                qd, qp = GR.DIR["patch"], GR.PAR["patch"][0]
                for j in range(88):
                    put16(img, qp + 256 + 2 * j, j % 2)
                for c in range(1, 32):
                    img[qd + 32 * c:qd + 32 * c + 32] = img[qd:qd + 32]
                    img[qp + 512 * c:qp + 512 * c + 512] = img[qp:qp + 512]
                fp = GR.PAR["perf"][0]
                for f in range(4):
                    if img[GR.DIR["perf"] + 32 * f] != 0:
                        for j in range(32):
                            put16(img, fp + 512 * f + 256 + 2 * j, j)
            elif kind == "truncate":
                del img[rng.randrange(1, len(img)):]
            elif kind == "burst":
                area = rng.choice([0, GR.FAT_OFF, GR.DIR["vol"], GR.DIR["perf"], GR.DIR["samp"], GR.PAR["vol"][0], GR.PAR["perf"][0], GR.PAR["samp"][0]])
                off = area + rng.randrange(0, 600)
                for j in range(rng.randint(1, 64)):
                    if off + j < len(img):
                        img[off + j] = rng.randrange(256)


def put16(img, off, v):
    if 0 <= off and off + 2 <= len(img):
        img[off:off + 2] = struct.pack("<H", v & 0xFFFF)


def get16(img, off):
    return struct.unpack("<H", img[off:off + 2])[0] if off + 2 <= len(img) else 0


def cdda_files(spec, rng):
    kind = spec["kind"]
    ntr = rng.randint(1, 6)
    lines = ['FILE "x.bin" BINARY']
    for t in range(1, ntr + 1):
        lines.append(f"  TRACK {t:02d} AUDIO")
        lines.append(f'    TITLE "Track {t}"')
        lines.append(f"    INDEX 01 00:{2 * (t - 1):02d}:00")
    nbytes = 2352 * 75 * 2 * ntr
    if kind == "clean":
        pass
    elif kind == "long-blank-title":
        n = spec["n"]
        lines[2] = '    TITLE "a' + " " * n + 'b"'
    elif kind == "long-shared-title":
        # three tracks of ONE kilobyte-long title: the duplicates are numbered, which splits each name at its L/R ending
        # (D21: the expression backtracked quadratically over runs of blanks and hyphens)
        n = spec["n"]
        title = ["a" + "- " * (n // 2) + "x", "a" + " " * n + "x" + " " * n + "R", "-" * n + "x"][spec["id"] % 3]
        lines = ['FILE "x.bin" BINARY']
        ntr = 3
        for t in range(1, ntr + 1):
            lines += [f"  TRACK {t:02d} AUDIO", f'    TITLE "{title}"', f"    INDEX 01 00:{2 * (t - 1):02d}:00"]
        nbytes = 2352 * 75 * 2 * ntr
    elif kind == "overlapping-tracks":
        # INDEX positions alternate between the start and the end of the bin: every other track names (almost) the
        # whole bin, so `export` writes tracks/2 x bin bytes (the CDDA face of KF-C13-aliased-entries)
        n = spec["n"]
        lines = ['FILE "x.bin" BINARY']
        for t in range(1, n + 1):
            lines += [f"  TRACK {t:02d} AUDIO", f"    INDEX 01 00:{0 if t % 2 else 3:02d}:00"]
        nbytes = 2352 * 75 * 4
    elif kind == "wide-table":
        # one very long title among many rows: `ls` pads every row to the widest name (KF-C13-listing-width)
        n = spec["n"]
        lines = ['FILE "x.bin" BINARY']
        for t in range(1, n + 1):
            lines += [f"  TRACK {t:02d} AUDIO"] + (['    TITLE "' + "w" * (25 * n) + '"'] if t == 1 else []) + [f"    INDEX 01 00:00:{t % 75:02d}"]
        nbytes = 2352 * 80
    elif kind == "long-hyphen-title":
        n = spec["n"]
        lines[2] = '    TITLE "a' + "- " * (n // 2) + 'L x"'
    elif kind == "long-dot-title":
        n = spec["n"]
        lines[2] = '    TITLE "' + ". " * (n // 2) + '"'
    elif kind == "long-quote-line":
        n = spec["n"]
        lines[0] = 'FILE "x.bin" ' + '" ' * (n // 2) + "BINARY"
    elif kind == "long-blank-line":
        n = spec["n"]
        lines.insert(1, " " * n + "x")
    elif kind == "many-tracks":
        n = spec["n"]
        lines = ['FILE "x.bin" BINARY']
        for t in range(1, n + 1):
            lines += [f"  TRACK {t} AUDIO", '    TITLE "Same"', "    INDEX 01 00:00:00"]
    elif kind == "many-blank":
        lines = lines[:1] + [""] * spec["n"] + lines[1:]
    elif kind == "huge-index":
        lines[3] = "    INDEX 01 99999999:99:99"
    elif kind == "huge-numbers":
        lines[1] = "  TRACK " + "9" * spec["n"] + " AUDIO"
        lines[3] = "    INDEX " + "9" * spec["n"] + " " + "9" * spec["n"] + ":00:00"
    elif kind == "garble":
        for _ in range(rng.randint(1, 6)):
            op = rng.choice(["drop", "dup", "swap", "noise", "trunc"])
            i = rng.randrange(len(lines))
            if op == "drop" and len(lines) > 1:
                lines.pop(i)
            elif op == "dup":
                lines.insert(i, lines[i])
            elif op == "swap":
                j = rng.randrange(len(lines))
                lines[i], lines[j] = lines[j], lines[i]
            elif op == "noise":
                lines[i] = "".join(chr(rng.choice([9, 32, 34, 58, 65, 70, 73, 84, 48, 57, 0xE9, 0x2028])) for _ in range(rng.randint(0, 40)))
            else:
                lines[i] = lines[i][: rng.randrange(len(lines[i]) + 1)]
    elif kind == "no-bin":
        nbytes = None
    elif kind == "short-bin":
        nbytes = rng.choice([0, 1, 2351, 2352, 2353, 100000])
    text = ("\r\n" if spec.get("crlf") else "\n").join(lines) + "\n"
    files = {"x.cue": text.encode("utf-8", "replace")}
    if nbytes is not None:
        files["x.bin"] = bytes((i * 7) & 0xFF for i in range(min(nbytes, 4096))) * (nbytes // 4096) + bytes(nbytes % 4096)
    return files, "x.cue"


def make_specs(ctx, rng, full: bool):
    specs = []
    sid = [0]

    def add(**kw):
        sid[0] += 1
        kw["seed"] = rng.randrange(1 << 30)
        kw["id"] = sid[0]
        specs.append(kw)

    for size in [0, 1, 7, 201, 202, 203, 512, 8192, 24574, 70000] + ([300000] if full else []):
        for pre in ("none", "akai", "roland", "cue"):
            add(family="rand", size=size, prefix=pre)
    for ps in (0, 1, 3, 0xFFFF):
        add(family="rand", size=30000, prefix="akai", psize=ps)
    for k in range(2 if not full else 8):
        add(family="rand", size=0, prefix="sparse-roland", noise=rng.choice([0, 200, 5000, 40000]))
    akai_kinds = ["phantom-chain", "truncate", "sat-special", "sat-link", "sat-2cycle", "sat-rho", "sat-runaway", "sat-noise", "psize", "volentry", "volstart", "dir", "filehdr", "burst"]
    rol_kinds = ["key-interleave", "phantom-chain", "truncate", "fat-special", "fat-link", "fat-2cycle", "fat-selfloop", "fat-noise", "fat-longcycle", "fat-descending", "perfdir-name", "counts", "ptrlist", "partial", "samplepar", "sampledir", "burst"]
    for pv in (0, 1, 0xFFFF):
        for pw in ("first", "last"):
            add(family="akai", patches=["psize"], pvalue=pv, pwhich=pw)
    add(family="akai-alias", k=6, m=24)
    add(family="akai-runheads", parts=3, H=3700)
    add(family="akai-program-counts", nprog=3)
    add(family="akai-alias-chain", k=12, chain=11000)
    for dmg in ("self", "back", "back-mid", "count-255", "count-255-self", "zones-255", "first-in-header", "next-huge"):
        for nkg in ((2, 5) if not full else (1, 2, 3, 5, 9)):
            add(family="akai-program", damage=dmg, nkg=nkg)
    if full:
        add(family="roland-dense", nv=4, npf=64, npa=32, npt=88)
    reps = ctx.n(4, 60)
    for kind in akai_kinds:
        for _ in range(reps):
            add(family="akai", patches=[kind] * (1 if kind in ("phantom-chain", "truncate") else rng.choice([1, 1, 2, 3])))
    for _ in range(ctx.n(10, 200)):
        add(family="akai", patches=[rng.choice(akai_kinds) for _ in range(rng.randint(1, 3))])
    rreps = ctx.n(2, 30)
    for kind in rol_kinds:
        for _ in range(rreps):
            add(family="roland", patches=[kind] * (1 if kind in ("phantom-chain", "truncate", "key-interleave") else rng.choice([1, 1, 2, 3])))
    for _ in range(ctx.n(6, 120)):
        add(family="roland", patches=[rng.choice(rol_kinds) for _ in range(rng.randint(1, 3))])
    for kind, ns in (("clean", [0]), ("long-blank-title", [300, 3000, 6000]), ("long-hyphen-title", [300, 3000, 6000]), ("long-dot-title", [300, 3000, 6000]),
                     ("long-shared-title", [3000, 40000, 40000, 40000] + ([120000] if full else [])), ("overlapping-tracks", [400]), ("wide-table", [1200]), ("long-quote-line", [300, 6000]), ("long-blank-line", [300, 6000]), ("many-tracks", [99, 600, 12000] + ([3000, 20000] if full else [])), ("many-blank", [5000, 600000]),
                     ("huge-index", [0]), ("huge-numbers", [5, 50, 400]), ("no-bin", [0]), ("short-bin", [0, 0])):
        for n in ns:
            add(family="cdda", kind=kind, n=n, crlf=rng.random() < 0.3)
    for _ in range(ctx.n(20, 400)):
        add(family="cdda", kind="garble", n=0, crlf=rng.random() < 0.3)
    return specs


def spec_kind(spec):
    if spec["family"] == "rand":
        return "rand-" + spec.get("prefix", "none")
    if spec["family"] == "cdda":
        return "cdda-" + spec["kind"]
    if spec["family"] in ("akai-alias", "akai-alias-chain"):
        return "akai-alias-entries"
    if spec["family"] == "roland-dense":
        return "roland-dense-pointers"
    if spec["family"] == "akai-runheads":
        return "akai-run-heads"
    if spec["family"] == "akai-program-counts":
        return "akai-program-counts"
    if spec["family"] == "akai-program":
        return "akai-program-" + spec["damage"]
    return spec["family"] + "-" + "+".join(sorted(set(spec["patches"])))


def run(ctx, rep: Report, deep: bool = False):
    rng = ctx.rng
    full = deep or not ctx.quick
    rep.rule = (
        "malformed inputs: random byte strings (0 B - 300 KiB; bare, behind an AKAI partition header, behind a Roland ID area incl. sparse 2.9 MB images, as the body of a cue sheet); generated AKAI / Roland / CDDA images with 1-3 corruptions "
        "(SAT/FAT words set to each special value, to in-range links, to 2-cycles / self loops / long cycles outside any file, a file's tail linked back into its own middle (a cycle that does not contain the head), a chain through every free table entry that leaves the table without an end mark, table noise; partition size, volume entries, directory and header bytes; Roland counts, pointer lists, partial slots, sample records; "
        "cue lines dropped / duplicated / garbled, kilobyte-long titles and lines, up to 12000 (thorough: 20000) tracks of one title (S80: the de-duplication of equal sibling names must stay near-linear), huge numbers, missing or short bin); each input: ls at the root and two levels down + export in a forked child under RLIMIT_CPU / RLIMIT_AS; "
        "oracle: finished (result or error) inside the bounds; model tie: same outcome class and, when both finish normally, same results; distinct = distinct input spec; non-trivial = every input (all are malformed or adversarial by construction)"
    )
    specs = make_specs(ctx, rng, full)
    pool = L.Pool(workers=12)
    scratch = E.Scratch()
    scratch.__enter__()
    meta = {}
    try:
        for spec in specs:
            files, main = spec_files(spec)
            d = os.path.join(scratch.dir, str(spec["id"]))
            os.mkdir(d)
            for n, b in files.items():
                with open(os.path.join(d, n), "wb") as f:
                    f.write(b)
            size = sum(len(b) for b in files.values())
            mp = os.path.join(d, main)
            # kilobyte-long cue lines are left to the oracle (the model's character-list regex matchers are slow on them)
            long_cue = spec["family"] == "cdda" and spec.get("n", 0) > 100  # also: names beyond the file-system limit fail with OSError in the real tool only
            # the 20000-cluster phantom chain of `key-interleave` is left to the oracle as well (the model walks lists)
            # and so is the aliased-entries image: its tie would hold 400 MB of output in the measuring process
            # and the 60000-cluster descending chain (the model keeps the re-walking decoder, quadratic over lists)
            heavy = "key-interleave" in spec.get("patches", []) or "fat-descending" in spec.get("patches", []) or spec["family"] in ("akai-alias", "roland-dense", "akai-runheads", "akai-program", "akai-program-counts", "akai-alias-chain")
            tie = ctx.model_available and not long_cue and not heavy and (spec["id"] % (1 if spec["family"] != "roland" else 2) == 0)
            meta[spec["id"]] = dict(spec=spec, size=size, dir=d, main=mp, tie=tie)
            pool.submit(spec["id"], (lambda mp=mp, d=d, tie=tie: tool_run(mp, d, tie)), cpu_bound(size), mem_bound(size), 4 * cpu_bound(size) + 20)
        results = pool.drain()
        cases = []
        worst_cpu = worst_mem = worst_out = 0.0
        for r in results:
            m = meta[r["tag"]]
            spec, size = m["spec"], m["size"]
            kind = spec_kind(spec)
            rep.evaluations += 1
            rep.nontrivial.add(spec["id"])
            rep.feat("inputs_" + spec["family"])
            rep.feat("kind_" + kind.split("+")[0])
            detail = {"spec": spec, "size": size, "result": {k: v for k, v in r.items() if k != "tag"}, "cpu_bound_s": cpu_bound(size), "mem_bound": mem_bound(size)}
            if "fatal" in r:
                f = r["fatal"]
                if f.startswith("hang"):
                    rep.findings.append(Finding("does-not-finish-in-bound:" + kind, detail))
                elif f == "memory":
                    rep.findings.append(Finding("memory-beyond-bound:" + kind, detail))
                else:
                    rep.findings.append(Finding("child-died:" + f.split(":")[0] + ":" + kind, detail))
                continue
            for a, o in r["acts"].items():
                rep.feat(("finished_ok_" if o == "ok" else "finished_error_") + a.split("-")[0])
                if o.startswith("err:Other:MemoryError"):
                    rep.findings.append(Finding("memory-beyond-bound:" + kind, detail))
                if o == "err:hang":
                    rep.findings.append(Finding("does-not-finish-in-bound:" + kind, detail))
            worst_cpu = max(worst_cpu, r["cpu"] / cpu_bound(size))
            worst_mem = max(worst_mem, r["rss_growth_kb"] * 1024 / mem_bound(size))
            worst_out = max(worst_out, r.get("out_bytes", 0) / out_bound(size))
            if r.get("out_bytes", 0) > out_bound(size):
                rep.findings.append(Finding("output-beyond-bound:" + kind, detail))
            if r.get("ls_bytes", 0) > out_bound(size):
                rep.findings.append(Finding("listing-beyond-bound:" + kind, detail))
            if m["tie"]:
                try:
                    ex = open(os.path.join(m["dir"], "export.txt")).read()
                    ls = open(os.path.join(m["dir"], "ls.txt")).read()
                except OSError:
                    continue
                cases.append((spec, m["main"], ex, ls))
        rep.features["worst_cpu_fraction_of_bound_permille"] = int(1000 * worst_cpu)
        rep.features["worst_memory_fraction_of_bound_permille"] = int(1000 * worst_mem)
        rep.features["worst_output_fraction_of_bound_permille"] = int(1000 * worst_out)
        if ctx.model_available and cases:
            outs = run_driver([f"akai all {mp} {FA.hxs('')}" for _, mp, _, _ in cases], timeout=1800)
            bad = 0
            for (spec, mp, ex, ls), out in zip(cases, outs):
                parts = out.split(" || ")
                mex, mls = parts[0], (parts[1] if len(parts) > 1 else parts[0])
                same = True
                if ex.startswith("err") or mex.startswith("err"):
                    same = ex.startswith("err") and mex.startswith("err")
                else:
                    same = FA.eq_export(mex, ex)
                if ls.startswith("err") or mls.startswith("err"):
                    same = same and ls.startswith("err") and mls.startswith("err")
                else:
                    same = same and mls == ls
                if not same:
                    bad += 1
                    if len(rep.disagreements) < 50:
                        rep.disagreements.append({"family": "malformed-e2e", "op": "spec " + repr(spec), "model": (mex[:300] + " || " + mls[:300]), "impl": ex[:300] + " || " + ls[:300], "meta": None})
            rep.families["malformed-e2e"] = {"cases": len(cases), "disagreements": bad}
            rep.sample({"family": "malformed-e2e", "op": repr(cases[0][0]), "result": cases[0][2][:200]})
    finally:
        scratch.__exit__(None, None, None)
    rep.required_features = ["inputs_rand", "inputs_akai", "inputs_roland", "inputs_cdda", "kind_roland-fat-2cycle", "kind_akai-sat-2cycle", "kind_cdda-long-blank-title", "kind_roland-phantom-chain", "kind_akai-phantom-chain", "finished_ok_export", "finished_error_ls"]


def search(ctx, rep: Report):
    if not rep.findings:
        sub = Report("C13")
        run(ctx, sub, deep=True)
        rep.findings.extend(sub.findings)


def replay(ctx, payload) -> bool:
    d = payload["input"]
    spec = d.get("spec")
    if not spec:
        return True
    files, main = spec_files(spec)
    size = sum(len(b) for b in files.values())
    pool = L.Pool(workers=1)
    with E.Scratch() as s:
        for n, b in files.items():
            s.write(n, b)
        mp = os.path.join(s.dir, main)
        pool.submit(0, (lambda: tool_run(mp, s.dir, False)), cpu_bound(size), mem_bound(size), 4 * cpu_bound(size) + 20)
        r = pool.drain()[0]
    return "fatal" not in r
