"""C04 — every exported file is a structurally valid RIFF/WAVE PCM file."""
from __future__ import annotations

import io
import os
import struct
import wave

import fam_trans as FT
from common import Case, Finding, Report, compare_family, hx, run_driver

ASSUMPTIONS = [
    "Lean compiled Float (+,-,*,/,floor,toUInt64) is IEEE-754 binary64 as CPython's float on x86-64; Python's round() is half-to-even",
    "files are written by the real export_wav (the function `export` calls per file) into a scratch directory and read back",
]


def fbits(x) -> int:
    return struct.unpack("<Q", struct.pack("<d", float(x)))[0]


def riff_ok(b: bytes):
    """independent Python re-statement of the property (used as the oracle on the real bytes)."""
    if len(b) < 12 or b[:4] != b"RIFF" or b[8:12] != b"WAVE":
        return "header"
    if struct.unpack("<I", b[4:8])[0] != len(b) - 8:
        return "riff-size"
    pos, seen = 12, []
    blockalign = None
    while pos < len(b):
        if pos + 8 > len(b):
            return "chunk-header"
        cid, n = b[pos : pos + 4], struct.unpack("<I", b[pos + 4 : pos + 8])[0]
        body = b[pos + 8 : pos + 8 + n]
        if len(body) != n:
            return "chunk-size"
        seen.append(cid)
        if cid == b"fmt ":
            if n != 16:
                return "fmt-size"
            tag, ch, rate, br, ba, bits = struct.unpack("<HHIIHH", body)
            if tag != 1 or bits != 16 or ba != ch * 2 or br != rate * ba:
                return "fmt-fields"
            blockalign = ba
        elif cid == b"smpl":
            cnt = struct.unpack("<I", body[28:32])[0] if n >= 32 else -1
            if n != 36 + 24 * cnt:
                return "smpl-size"
        elif cid == b"data":
            if not blockalign or n % blockalign != 0:
                return "data-align"
        pos += 8 + n
    if seen not in ([b"fmt ", b"data"], [b"fmt ", b"smpl", b"data"]):
        return "chunk-order"
    return None


def build_real(g, srcs, stale: bool = False):
    """g: dict(rate, channels, width, note, semi, cents, loops); srcs as in fam_trans.
    stale: a longer file already sits at the destination path (S191: `export` into a directory that holds an earlier export)."""
    from smpl_extract.data_streams import DataStream
    from smpl_extract.generalized.sample import ChannelConfig, LoopRegion, LoopType, Sample
    from smpl_extract.generalized.wav import WavSampleBuilder
    from smpl_extract.midi import MidiNote, ScaleDegree

    streams = [DataStream(io.BytesIO(d), FT.enc_of(b, w, n, s)) for (b, w, n, s, d) in srcs]
    loops = [
        LoopRegion(start_sample=l[0], end_sample=l[1], loop_type=LoopType(l[2]) if l[2] in (1, 2, 3) else l[2],
                   repeat_forever=bool(l[3]), play_cnt=l[4], duration=l[5])
        for l in g["loops"]
    ]
    note = None if g["note"] is None else MidiNote(ScaleDegree(g["note"][0]), bool(g["note"][1]), g["note"][2])
    s = Sample(
        name="x", channel_config=ChannelConfig.MONO, sample_rate=g["rate"], num_channels=g["channels"],
        data_streams=streams, loop_regions=loops, midi_note=note, pitch_offset_semi=g["semi"], pitch_offset_cents=g["cents"],
    )
    # through the function `export` calls for every file (S81: it may do more than open + build_stream)
    from smpl_extract.generalized.wav import export_wav

    path = os.path.join(_scratch_dir(), "x.wav")
    try:
        if os.path.exists(path):
            os.remove(path)
        if stale:
            with open(path, "wb") as f:
                f.write(b"RIFF" + b"\xaa" * (sum(len(d) for (_, _, _, _, d) in srcs) + 4096))
        export_wav(s, path)
        with open(path, "rb") as f:
            data = f.read()
    except Exception as e:
        import impl

        return None, "err " + impl.exc_name(e)
    return data, None


_SCRATCH = []


def _scratch_dir():
    if not _SCRATCH:
        import atexit
        import shutil
        import tempfile

        d = tempfile.mkdtemp(prefix="verif_c04_")
        _SCRATCH.append(d)
        atexit.register(lambda: shutil.rmtree(d, ignore_errors=True))
    return _SCRATCH[0]


def op_line(g, srcs) -> str:
    note = "-" if g["note"] is None else " ".join(map(str, [g["note"][0], int(g["note"][1]), g["note"][2]]))
    semi = "-" if g["semi"] is None else str(g["semi"])
    cents = "-" if g["cents"] is None else str(fbits(g["cents"]))
    lp = []
    for l in g["loops"]:
        lp += [str(l[0]), str(l[1]), str(l[2]), str(int(l[3])), "-" if l[4] is None else str(l[4]), "-" if l[5] is None else str(fbits(l[5]))]
    loops = " ".join(lp) if lp else "-"
    parts = [f"sample {g['channels']} {g['rate']} {g['width']}", note, semi, cents, loops]
    for (b, w, n, s, d) in srcs:
        parts.append(f"{b} {w} {n} {s} {hx(d)}")
    return "wav " + " | ".join(parts)


def gen_sample(rng):
    from smpl_extract.akai.data_types import parse_akai_tune_cents

    layout = rng.choice(["mono", "split", "inter"])
    frames = rng.choice([0, 1, 2, 7, 100, rng.randint(0, 3000)])
    if layout == "mono":
        srcs = [(0, 2, 1, 1, bytes(rng.randrange(256) for _ in range(2 * frames + rng.randrange(2))))]
        ch = 1
    elif layout == "split":
        f2 = frames if rng.random() < 0.6 else rng.randint(0, frames + 5)
        srcs = [(0, 2, 1, 1, bytes(rng.randrange(256) for _ in range(2 * frames))),
                (rng.choice([0, 0, 1]), 2, 1, 1, bytes(rng.randrange(256) for _ in range(2 * f2)))]
        ch = 2
    else:
        srcs = [(0, 2, 2, 1, bytes(rng.randrange(256) for _ in range(4 * frames + rng.randrange(4))))]
        ch = 2
    nl = rng.choice([0, 0, 1, 2, 8])
    loops = []
    for _ in range(nl):
        st = rng.choice([0, 5, rng.randint(0, 100000)])
        en = rng.choice([st, st + 1, st + rng.randint(0, 50000)])
        rf = rng.random() < 0.4
        pc = rng.choice([None, None, 0, 3, 70000])
        du = rng.choice([None, 0.0, 1.0, 9999.0, float(rng.randint(1, 9998)), rng.random() * 10])
        loops.append((st, en, rng.choice([1, 2, 3]), rf, pc, du))
    kind = rng.choice(["none", "all", "note", "pitch"])
    note = (rng.randrange(7), rng.random() < 0.4, rng.randint(0, 8)) if kind in ("all", "note") else None
    semi = rng.randint(-128, 127) if kind in ("all", "pitch") else None
    cents = parse_akai_tune_cents(rng.randint(-128, 127)) if kind in ("all", "pitch") else None
    if kind == "all" and rng.random() < 0.3:
        cents = None
    rate = rng.choice([0, 1, 8000, 22050, 44100, 48000, 65535, rng.randint(1, 65535)])
    return dict(rate=rate, channels=ch, width=2, note=note, semi=semi, cents=cents, loops=loops), srcs


def run(ctx, rep: Report, deep: bool = False):
    from smpl_extract.akai.data_types import parse_akai_tune_cents
    from smpl_extract.generalized.wav import get_smpl_normalized_pitch

    rng = ctx.rng
    rep.rule = (
        "sweeps of the byte-level inputs of the smpl chunk: round(1e9/rate) for rate 1..65535 (quick: 1/16 lattice + boundaries), "
        "normalised pitch for all 256 x 256 (semitone byte, tuning byte) pairs (quick: 1/16 lattice); random generalized Samples (mono / split stereo / interleaved stereo, "
        "0-8 loops incl. zero-length and 9999-duration ones, rate 0..65535) built by the real WavSampleBuilder and compared byte-for-byte with the model; "
        "every real file is also checked by the Lean validator (riffcheck), a Python restatement and the stdlib wave module; distinct = distinct op line; non-trivial = sample with data or a smpl chunk"
    )
    cases = []
    full = deep or not ctx.quick
    rates = range(1, 65536) if full else sorted(set(list(range(1, 65536, 16)) + [1, 2, 3, 7, 65535, 44100, 22050, 48000, 32000, 11025]))
    for r in rates:
        cases.append(Case(f"wav period {r}", str(round((10**9) / r))))
    rep.feat("period_sweep", len(list(rates)))
    step = 1 if full else 16
    n = 0
    for semi in range(-128, 128):
        for b in range(-128, 128):
            n += 1
            if n % step != ctx.seed % step:
                continue
            c = parse_akai_tune_cents(b)
            k, f = get_smpl_normalized_pitch(semi, c)
            cases.append(Case(f"wav pitch {semi} {fbits(c)}", f"{k} {f}"))
            rep.feat("pitch_sweep")
    # random samples through the real builder
    real_files = []
    for i in range(ctx.n(300, 5000)):
        g, srcs = gen_sample(rng)
        data, err = build_real(g, srcs, stale=(i % 3 == 1))
        if i % 3 == 1:
            rep.feat("written_over_a_longer_file")
        if data is None:
            res = err
            rep.feat("builds_raising")
        else:
            why = riff_ok(data)
            res = "ok " + hx(data) + " wf=1"
            rep.feat("files_built")
            if g["loops"]:
                rep.feat("files_with_loops")
            if len(srcs) == 2:
                rep.feat("split_stereo_files")
            real_files.append(data)
            if why:
                rep.findings.append(Finding("riff-" + why, {"g": str(g), "srcs": [[b, w, n, s, d.hex()[:200]] for (b, w, n, s, d) in srcs], "file_head": data[:120].hex()}))
            else:
                try:
                    with wave.open(io.BytesIO(data), "rb") as wf:
                        if wf.getnchannels() != g["channels"] or wf.getsampwidth() != 2:
                            raise ValueError("channels/width")
                        if wf.getnframes() * g["channels"] * 2 != len(data) - data.index(b"data") - 8:
                            raise ValueError("nframes")
                except Exception as e:
                    if not (g["rate"] == 0 and "sampling rate" in str(e).lower()):
                        rep.findings.append(Finding("riff-stdlib-wave-rejects", {"g": str(g), "error": repr(e)}))
        cases.append(Case(op_line(g, srcs), res, {"i": i}))
    if ctx.model_available:
        compare_family(rep, "wav", cases, eq=FT.eq_masked, nontrivial=lambda c: c.op.startswith("wav sample"))
        # the Lean validator on the real bytes
        outs = run_driver(["wav riffcheck " + hx(d) for d in real_files]) if real_files else []
        for d, o in zip(real_files, outs):
            rep.evaluations += 1
            if o != "1":
                rep.findings.append(Finding("riff-lean-validator-rejects", {"file_head": d[:200].hex(), "len": len(d)}))
        rep.feat("real_files_checked_by_lean_validator", len(real_files))
    rep.required_features = ["period_sweep", "pitch_sweep", "files_built", "files_with_loops", "split_stereo_files", "written_over_a_longer_file"]


def search(ctx, rep: Report):
    if not rep.findings:
        sub = Report("C04")
        run(ctx, sub, deep=True)
        rep.findings.extend(sub.findings)


def replay(ctx, payload) -> bool:
    return True  # violations carry the failing file head; regenerate with the same VERIF_SEED to reproduce
