"""C10 — every item `ls` shows can be addressed by the names shown; other paths say so."""
from __future__ import annotations

import contextlib
import io
from dataclasses import dataclass, field
from typing import ClassVar, List, Optional

import fam_names as FN
from common import Case, Finding, Report, compare_family

ASSUMPTIONS = [
    "trees here are built from the real Traversable / LeafElement / Image classes with the real naming routines installed, as ls_action installs them; "
    "AKAI/Roland/CDDA parsers feeding such trees are exercised by the end-to-end properties",
]


def make_tree(spec, akai: bool):
    """spec: nested [name, children|None]; builds real Traversable / LeafElement objects under a real Image."""
    from smpl_extract.akai.image import AkaiImageParser
    from smpl_extract.base import Element, ElementTypes
    from smpl_extract.elements import LeafElement
    from smpl_extract.structural import Image, Traversable

    @dataclass
    class Leaf(LeafElement):
        name: str = ""
        value: int = 0
        _parent: Optional[Element] = None
        _path: List[str] = field(default_factory=list)
        type_id: ClassVar = ElementTypes.SampleEntry
        type_name: ClassVar[str] = "Leaf"

    class Root(Image):
        name = "img"
        type_name = "img"

    if akai:
        class Root(Image):  # noqa
            name = "img"
            type_name = "img"
            _sanitize_string = AkaiImageParser._sanitize_string

    def build(parent, path, item, idx):
        name, kids = item
        if kids is None:
            l = Leaf(name=name, value=0, _parent=parent, _path=path + [name])
            l._idx = idx
            return l
        t = Traversable(lambda ctx: [], parent=parent, path=path + [name], type_name="Dir")
        t.name = name
        t._idx = idx
        t._f_realize_children = lambda ctx, t=t, kids=kids, path=path + [name]: [build(t, path, k, idx + [i]) for i, k in enumerate(kids)]
        t._routines = parent._routines
        return t

    root = Root(lambda ctx: [])
    root._idx = []
    routines = {"make_safe_names": root.make_safe_names_routine, "make_export_names": root.make_export_names_routine}
    root.set_routines(routines)
    root._f_realize_children = lambda ctx: [build(root, [], k, [i]) for i, k in enumerate(spec)]
    return root


def tree_tokens(node, out):
    """preorder spec for the model, using the safe names the real routines assigned."""
    from smpl_extract.structural import Traversable

    if isinstance(node, Traversable):
        kids = node.children
        out.append(f"D:{FN.hxs(node.safe_name)}:{len(kids)}")
        for k in kids:
            tree_tokens(k, out)
    else:
        out.append(f"F:{FN.hxs(node.safe_name)}")
    return out


def lookup_real(root, path: str) -> str:
    from smpl_extract.structural import ErrorInvalidPath

    try:
        n = root.parse_path(path)
    except ErrorInvalidPath as e:
        return "notfound " + FN.hxs(str(e))
    except Exception as e:
        import impl

        return "err " + impl.exc_name(e)
    return "found " + " ".join(map(str, n._idx))


def ls_real(root, path: str):
    from smpl_extract import actions as A

    buf = io.StringIO()
    try:
        with contextlib.redirect_stdout(buf):
            A.ls_action(root, path)
    except Exception as e:
        return None, repr(e)
    return buf.getvalue(), None


def all_nodes(node, acc):
    from smpl_extract.structural import Traversable

    acc.append(node)
    if isinstance(node, Traversable):
        for k in node.children:
            all_nodes(k, acc)
    return acc


def printed_path(node):
    names = []
    cur = node
    while cur is not None and getattr(cur, "_idx", []) != []:
        names.append(cur.safe_name)
        cur = cur.parent
    return list(reversed(names))


def oracle_tree(rep: Report, root, spec, akai, rng):
    from smpl_extract.structural import Traversable

    nodes = all_nodes(root, [])
    # distinct sibling names
    for n in nodes:
        if isinstance(n, Traversable):
            names = [c.safe_name for c in n.children]
            if len(set(names)) != len(names):
                rep.findings.append(Finding("ls-duplicate-sibling-names", {"akai": akai, "spec": spec, "names": names}))
                return
    # round trip for every node with non-blank, addressable printed names
    for n in nodes[1:]:
        comps = printed_path(n)
        if any(not c.strip() for c in comps):
            continue
        if any(("/" in c or "\\" in c) for c in comps):
            rep.findings.append(Finding("ls-name-contains-separator", {"akai": akai, "spec": spec, "names": comps}))
            return
        # the AKAI image upper-cases tokens: names that differ only in case (or a trailing colon) are one name to it.
        # The check is made at every level of the path: an ancestor with such a sibling makes the path ambiguous too.
        norm = (lambda s: (root._sanitize_string(s)))
        skip = False
        cur = n
        while cur is not None and getattr(cur, "parent", None) is not None and cur is not root:
            sibs = [c.safe_name for c in cur.parent.children]
            same = [s for s in sibs if norm(s) == norm(cur.safe_name)]
            if len(same) > 1:
                if akai and len({s.strip() for s in same}) == len(same):
                    # artificial: the AKAI image upper-cases tokens (and drops a trailing colon), but real AKAI
                    # names are upper-case and colon-free; such a collision cannot come from an AKAI image
                    rep.feat("akai_case_fold_ambiguity_skipped")
                    skip = True
                    break
                rep.findings.append(Finding("ls-sibling-names-equal-after-normalisation", {"akai": akai, "spec": spec, "names": same}))
                return
            cur = cur.parent
        if skip:
            continue
        for sep in ("/", "\\"):
            for pad in ("", "  "):
                for trail in ("", sep):
                    p = pad + sep.join(comps) + trail + pad
                    got = lookup_real(root, p)
                    want = "found " + " ".join(map(str, n._idx))
                    if got != want:
                        rep.findings.append(Finding("ls-roundtrip-fails", {"akai": akai, "spec": spec, "path": p, "got": got, "want": want}))
                        return
                    out, err = ls_real(root, p)
                    if err is not None or "was not found" in (out or ""):
                        rep.findings.append(Finding("ls-render-fails", {"akai": akai, "spec": spec, "path": p, "error": err, "out": (out or "")[:200]}))
                        return
        # any other spelling is another path: two trailing separators do not address the item (two backslashes are ONE separator to the tokenizer: three are used)
        for tail in ("//", "/" + chr(92), "///", chr(92) * 3):
            p = "/".join(comps) + tail
            got = lookup_real(root, p)
            if not got.startswith("notfound"):
                # (a child with a blank printed name would legitimately be found: not generated for these nodes)
                kids = [c.safe_name for c in getattr(n, "children", [])] if isinstance(n, Traversable) else []
                if not any(not k.strip() for k in kids):
                    rep.findings.append(Finding("ls-other-path-accepted", {"akai": akai, "spec": spec, "path": p, "got": got}))
                    return
            rep.feat("doubled_separator_paths")
        rep.feat("roundtrips")
    # separators alone are not a path to anything
    for p in ("/", "\\", "//", "/\\"):
        got = lookup_real(root, p)
        if not got.startswith("notfound") and not any(not c.safe_name.strip() for c in root.children):
            rep.findings.append(Finding("ls-other-path-accepted", {"akai": akai, "spec": spec, "path": p, "got": got}))
            return
    # arbitrary strings never raise
    for _ in range(10):
        p = rng.choice(["", "/", "\\", "//", "a/b/c", "A:", "a:", " / ", "\\\\\\", "é/ü", "x" * 300, "\x00", "A/", "../.."]) + FN.random_name(rng, "nasty")
        out, err = ls_real(root, p)
        if err is not None:
            rep.findings.append(Finding("ls-unhandled-exception", {"akai": akai, "spec": spec, "path": p, "error": err}))
            return
        rep.feat("arbitrary_paths")


def random_spec(rng, depth=0):
    items = []
    for _ in range(rng.randint(1, 4)):
        name = FN.random_name(rng, rng.choice(["akai", "near", "ascii", "akai"]))
        if depth < 2 and rng.random() < 0.5:
            items.append([name, random_spec(rng, depth + 1)])
        else:
            items.append([name, None])
    if rng.random() < 0.4 and items:
        items.append(list(items[rng.randrange(len(items))]))
    if rng.random() < 0.4 and items:
        # a sibling that differs only by a character the sanitiser replaces, at either end or inside
        base = items[rng.randrange(len(items))]
        deco = rng.choice(["?", "/", "*", "\\", "\"", "'", "  ", "!"])
        nm = rng.choice([base[0] + deco, deco + base[0], base[0][:1] + deco + base[0][1:]])
        items.append([nm, None if base[1] is None else list(base[1])])
    return items


def many_partitions(ctx, rep: Report, rng):
    """D23: a real AKAI image with more than 26 partitions - the root listing's names are distinct and each of them
    (bare, padded, lower case, with a trailing separator) resolves to its own partition; model tie on every listing."""
    import fam_akai as FA
    import fam_e2e as E
    import gen_akai as GA
    from common import run_driver

    for n in ((27, 33) if ctx.quick else (27, 34, 53)):
        parts = [GA.Partition([GA.Volume("V%d" % k, [GA.SampleFile("S%d" % k, GA.random_words(rng, 20))])], sectors=6) for k in range(n)]
        img, _ = GA.serialize(GA.Disc(parts), rng, shapes=("contiguous",))
        with E.Scratch() as sc:
            p = sc.write("x.img", img)
            out, err = E.ls_real(p, "")
            rows = [l for l in (out or "").split("\n")[2:] if l.strip()]
            names = [l[:l.rfind("Partition")].rstrip() if "Partition" in l else l for l in rows]
            detail = {"partitions": n, "names": names[-12:], "error": err}
            rep.feat("images_with_more_than_26_partitions")
            rep.evaluations += 1
            if err or len(names) != n:
                rep.findings.append(Finding("ls-partitions-missing", detail))
                continue
            if len(set(names)) != n or len({x.strip().upper().rstrip(":") for x in names}) != n:
                rep.findings.append(Finding("ls-duplicate-sibling-names", dict(detail, akai=True)))
                continue
            probes = []
            for k in sorted({0, 25, 26, 27 % n, n - 1}) if ctx.quick else range(n):
                nm = names[k]
                if not nm.strip():
                    continue
                for spell in (nm, " " + nm.lower() + " ", nm.rstrip(":") + "/"):
                    probes.append((k, spell))
            bad = None
            for k, spell in probes:
                o, e = E.ls_real(p, spell)
                if e or ("V%d " % k) not in (o or ""):
                    bad = (k, spell, (o or "")[:160], e)
                    break
            if bad:
                rep.findings.append(Finding("ls-roundtrip-fails", dict(detail, akai=True, partition=bad[0], path=bad[1], got=bad[2], error=bad[3])))
                continue
            rep.feat("roundtrips", len(probes))
            if ctx.model_available and (n < 30 or not ctx.quick):  # the model decodes every partition's table over lists: thorough tier, and the 27-partition image
                paths = [""] + [names[k] for k in (0, 25, 26, n - 1)]
                outm = run_driver([f"akai all {p} " + " ".join(FA.hxs(x) for x in paths)], timeout=600)[0].split(" || ")
                for j, x in enumerate(paths):
                    real = FA.ls_str(p, x)
                    if len(outm) <= j + 1 or outm[j + 1] != real:
                        rep.disagreements.append({"family": "akai-many-partitions", "op": f"ls {x!r} of {n} partitions", "model": (outm[j + 1] if len(outm) > j + 1 else "")[:400], "impl": real[:400], "meta": None})


def run(ctx, rep: Report, deep: bool = False):
    rng = ctx.rng
    rep.rule = (
        "trees of real Traversable/LeafElement objects (depth <= 3, 1-5 siblings incl. duplicates, near-collisions, names with separators/quotes/controls) under a plain and an AKAI image; "
        "for every node all 2x2x2 spellings of its printed path (separator / or \\\\, surrounding blanks, trailing separator) must resolve to it and render; arbitrary path strings must never raise; "
        "path tokenising on exhaustive short strings over {a,A,/,\\\\,:,space}; model lookup vs real parse_path incl. the not-found message; distinct = distinct op line; non-trivial = path with >= 1 token"
    )
    cases = []
    for s in FN.all_strings(["a", "A", "/", "\\", ":", " "], 5 if (deep or not ctx.quick) else 4):
        for akai in (0, 1):
            cases.append(Case(f"names tokens {akai} {FN.hxs(s)}", FN.tokens_real(bool(akai), s)))
        rep.feat("token_strings_exhaustive")
    # S179: groups of duplicates that differ only in the delimiter before a final L / R - their numbered names meet
    # (`PAD -L`, `PAD -L`, `PAD L`, `PAD L` all number to `PAD (2) L`); the printed names must stay pairwise distinct
    fixed_specs = [
        [["PAD -L", None], ["PAD -L", None], ["PAD L", None], ["PAD L", None]],
        [["A-R", None], ["A R", None], ["A-R", None], ["A R", None], ["A  R", None], ["A  R", None]],
        [["V", [["X L", None], ["X-L", None], ["X L", None], ["X-L", None]]], ["V", None]],
    ]
    for i in range(ctx.n(60, 600)):
        spec = fixed_specs[i // 2] if i < 2 * len(fixed_specs) else random_spec(rng)
        if i < 2 * len(fixed_specs):
            rep.feat("duplicate_groups_differing_in_the_pair_delimiter")
        akai = i % 2 == 0
        root = make_tree(spec, akai)
        try:
            toks = tree_tokens(root, [])
        except Exception as e:
            rep.findings.append(Finding("ls-tree-realisation-crash", {"spec": spec, "error": repr(e)}))
            continue
        oracle_tree(rep, root, spec, akai, rng)
        nodes = all_nodes(root, [])
        paths = [""]
        for n in nodes[1:]:
            comps = printed_path(n)
            paths.append("/".join(comps))
            paths.append("\\".join(comps) + "\\")
            if rng.random() < 0.5:
                paths.append("/".join(comps).lower())
            paths.append("/".join(comps) + "/zzz")
            paths.append("/".join(comps[:-1] + [comps[-1][:-1]]))
        for _ in range(5):
            paths.append(FN.random_name(rng, "nasty") + rng.choice(["", "/", "\\"]) + FN.random_name(rng, "akai"))
        for p in paths:
            cases.append(Case(f"names lookup {int(akai)} {FN.hxs(p)} " + " ".join(toks), lookup_real(root, p)))
        rep.feat("trees")
    many_partitions(ctx, rep, rng)
    if ctx.model_available:
        compare_family(rep, "names-path", cases, nontrivial=lambda c: True)
    rep.required_features = ["trees", "roundtrips", "arbitrary_paths", "token_strings_exhaustive", "duplicate_groups_differing_in_the_pair_delimiter", "images_with_more_than_26_partitions"]


def search(ctx, rep: Report):
    if not rep.findings:
        sub = Report("C10")
        run(ctx, sub, deep=True)
        rep.findings.extend(sub.findings)


def replay(ctx, payload) -> bool:
    d = payload["input"]
    if "spec" not in d:
        return True
    import random

    rep = Report("C10")
    root = make_tree(d["spec"], d["akai"])
    oracle_tree(rep, root, d["spec"], d["akai"], random.Random(0))
    return not rep.findings
