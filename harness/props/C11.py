"""C11 — streams sharing one file handle do not disturb one another."""
from __future__ import annotations

import itertools

import fam_e2e as E
import fam_stream as FS
import gen_akai as GA
from common import Case, Finding, Report, compare_family

ASSUMPTIONS = [
    "the shared handle is modelled with BytesIO semantics; the tool is single-threaded, so an interleaving is a sequence of whole operations",
    "image level: the data streams the real parser hands out for the samples of a generated AKAI image (two partitions whose files occupy the same partition-relative sectors); reference = the payload the writer stored; reads only (seek/tell/read with the C08 clamping rules)",
]


def setups(rng):
    """(name, base, specs, roots) with several roots over shared substreams."""
    b = bytes((i * 7 + 3) % 251 for i in range(64))
    out = [
        ("2 chains / shared window", b, [("offset", 0, 48, 8), ("chain", 1, 4, (5, 1, 9)), ("chain", 1, 4, (0, 7, 2, 3))], [2, 3]),
        ("2 windows / OS file (CDDA tracks)", b, [("offset", 0, 20, 4), ("offset", 0, 30, 24)], [1, 2]),
        ("wrap/chain + offset/wrap/chain (AKAI sample streams)", b,
         [("offset", 0, 60, 2), ("chain", 1, 6, (3, 0)), ("wrap", 2, 11), ("offset", 3, 8, 2),
          ("chain", 1, 6, (1, 8, 5)), ("wrap", 5, 16), ("offset", 6, 12, 3)], [4, 7]),
        ("3 chains / shared window", b, [("offset", 0, 56, 4), ("chain", 1, 3, (2, 9)), ("chain", 1, 3, (0, 11, 4)), ("chain", 1, 3, (7,))], [2, 3, 4]),
        ("reversed + forward over one chain window", b, [("offset", 0, 40, 10), ("chain", 1, 4, (2, 0, 5)), ("rev", 2, 12, 2), ("chain", 1, 4, (1, 3))], [3, 4]),
    ]
    mname, mbase, mspecs, mroot = FS.mdf_shape(nsec=2, tail=0)
    out.append(("2 windows / raw-sector view", mbase, [("mdf", 0, 4096), ("offset", 1, 3000, 100), ("offset", 1, 900, 3100)], [2, 3]))
    return out


def root_programs(root, length, B, w=None):
    """small per-root programs: block reads, with a seek or tell in between."""
    return [
        [("read", root, B), ("read", root, B), ("read", root, B)],
        [("read", root, B), ("seek", root, 0, 0), ("read", root, 2 * B)],
        [("seek", root, -B, 2), ("read", root, B), ("tell", root)],
    ]


def interleavings(progs):
    """all shuffles of the programs preserving each program's own order."""
    if all(len(p) == 0 for p in progs):
        yield []
        return
    for k, p in enumerate(progs):
        if p:
            rest = [q if j != k else q[1:] for j, q in enumerate(progs)]
            for tail in interleavings(rest):
                yield [p[0]] + tail


def isolated(base, specs, sched, root):
    own = [op for op in sched if op[1] == root]
    return FS.run_real(FS.build_real(base, specs), own)


def oracle_case(rep: Report, name, base, specs, roots, sched, out):
    for r in roots:
        got = [o for op, o in zip(sched, out) if op[1] == r]
        want = isolated(base, specs, sched, r)
        if got != want:
            kinds = "+".join(sorted({specs[x - 1][0] for x in roots}))
            rep.findings.append(
                Finding(
                    f"interference-{kinds}",
                    {"setup": name, "base": base.hex() if len(base) < 200 else "(mdf image)", "specs": [list(sp) for sp in specs], "roots": roots,
                     "sched": [list(o) for o in sched], "root": r, "interleaved": got, "isolated": want},
                )
            )
            return


def image_streams(path):
    """open the image with the real tool and collect (tree path, data stream) of every sample."""
    from smpl_extract import actions as A
    from smpl_extract.base import ElementTypes

    image = A.determine_image_type(path)
    image.set_routines({"make_safe_names": image.make_safe_names_routine, "make_export_names": image.make_export_names_routine})
    out = []

    def walk(node, trail):
        for i, ch in enumerate(node.children):
            if getattr(ch, "type_id", None) == ElementTypes.SampleEntry:
                smp = ch.to_generalized()
                for j, ds in enumerate(smp.data_streams):
                    out.append((trail + (i, j), ds.stream))
            elif hasattr(ch, "children"):
                walk(ch, trail + (i,))

    walk(image, ())
    return image, out


def image_round(rep: Report, ctx, rng, tag):
    """interleaved reads on the sample streams of one image, across volumes and partitions."""
    W = GA.random_words
    parts = []
    sizes = [rng.choice([30, 4026, 5000, 9000]) for _ in range(rng.randint(2, 3))]
    for pi in range(2):
        files = [GA.SampleFile(f"P{pi}F{k}", W(rng, n)) for k, n in enumerate(sizes)]
        parts.append(GA.Partition([GA.Volume(f"VOL{pi}", files)], sectors=16))
    # same shapes in both partitions: the files of A and B then sit in the same partition-relative sectors
    seed = rng.randrange(1 << 30)
    import random as _r
    img, info = GA.serialize(GA.Disc(parts), _r.Random(seed), shapes=(rng.choice(["contiguous", "reversed", "rotl"]),))
    with E.Scratch() as sc:
        path = sc.write("x.img", img)
        image, streams = image_streams(path)
        if len(streams) < 2:
            return
        # reference: the bytes each stream yields = the sample payload the writer stored (start..end window = everything)
        want = {}
        for pi in range(2):
            for k, n in enumerate(sizes):
                f = parts[pi].volumes[0].files[k]
                want[(pi, 0, k, 0)] = b"".join(int(w).to_bytes(2, "little") for w in f.words)
        pos = {key: 0 for key, _ in streams}
        sched = []
        detail = {"image": tag, "sizes": sizes, "serialize_seed": seed}
        for step in range(ctx.n(150, 600)):
            key, st = streams[rng.randrange(len(streams))]
            data = want.get(key)
            if data is None:
                continue
            r = rng.random()
            if r < 0.6:
                n = rng.choice([1, 7, 100, 4096, 8192, 10000])
                got = st.read(n)
                exp = data[pos[key]:pos[key] + n]
                pos[key] += len(exp)
                sched.append(["read", list(key), n])
                if got != exp:
                    rep.findings.append(Finding("image-stream-interference", dict(detail, stream=list(key), at=pos[key] - len(exp), n=n, got_len=len(got), first_diff=next((i for i, (a, b) in enumerate(zip(got, exp)) if a != b), min(len(got), len(exp))), schedule_tail=sched[-12:])))
                    return
            elif r < 0.85:
                off = rng.choice([0, 0, rng.randrange(len(data) + 1)])
                st.seek(off, 0)
                pos[key] = off
                sched.append(["seek", list(key), off])
            elif r < 0.95:
                got = st.tell()
                sched.append(["tell", list(key)])
                if got != pos[key]:
                    rep.findings.append(Finding("image-stream-tell", dict(detail, stream=list(key), got=got, want=pos[key], schedule_tail=sched[-12:])))
                    return
            else:
                # a lazy realisation in between: list some directory again through a FRESH walk of the same image object
                for node in image.children:
                    _ = [c for c in node.children]
                sched.append(["ls"])
        rep.evaluations += 1
        rep.nontrivial.add(("image", tag))
        rep.feat("image_level_interleavings")


def run(ctx, rep: Report, deep: bool = False):
    rng = ctx.rng
    rep.rule = (
        "exhaustive: every interleaving of 2-3 streams x 3 small programs each (block reads of 1,2,3,5 units, a seek or tell in between) over 6 sharing "
        "topologies (chains over one window, windows over one file, AKAI-style wrap/chain/offset stacks, reversed+forward, raw-sector view); random: schedules of 50-300 ops; "
        "image level: random schedules of reads / seeks / tells / re-listings over the sample data streams the real parser hands out for two-partition AKAI images whose files share partition-relative sectors; oracle: each stream's answers under the interleaving = its answers when run alone on fresh objects; distinct = distinct scenario line; non-trivial = >= 2 streams actually interleaved"
    )
    cases = []
    sets = setups(rng)
    for name, base, specs, roots in sets:
        Bs = (2, 4) if "reversed" in name else (1, 2, 3, 5)
        if len(base) > 1000:
            Bs = (700, 2048)
        for B in Bs if (deep or not ctx.quick) else Bs[:2]:
            progsets = [root_programs(r, FS.length_of(base, specs, r), B) for r in roots]
            for choice in itertools.product(*[range(len(p)) for p in progsets]):
                progs = [progsets[k][c] for k, c in enumerate(choice)]
                if len(roots) == 3:
                    progs = [p[:2] for p in progs]
                for ti, sched in enumerate(interleavings(progs)):
                    if ctx.quick and not deep and ti % 3 != ctx.seed % 3:
                        continue
                    out = FS.run_real(FS.build_real(base, specs), sched)
                    cases.append(Case(FS.scenario_line(base, specs, sched), " ; ".join(out), name))
                    oracle_case(rep, name, base, specs, roots, sched, out)
                    rep.feat("exhaustive_interleavings")
                    rep.feat(f"topology:{name}")
    for i in range(ctx.n(60, 600)):
        name, base, specs, roots = sets[rng.randrange(len(sets))]
        sched = []
        for _ in range(rng.randint(50, 300) if len(base) < 1000 else rng.randint(10, 40)):
            r = rng.choice(roots)
            w = FS.is_rev(specs, r)
            sched += FS.random_ops(rng, r, FS.length_of(base, specs, r), 1, w)
        out = FS.run_real(FS.build_real(base, specs), sched)
        cases.append(Case(FS.scenario_line(base, specs, sched), " ; ".join(out), name))
        oracle_case(rep, name, base, specs, roots, sched, out)
        rep.feat("random_schedules")
    for i in range(ctx.n(6, 60)):
        image_round(rep, ctx, rng, f"akai{i}")
    if ctx.model_available:
        compare_family(rep, "stream-multi", cases, nontrivial=lambda c: True, exhaustive=True)
    rep.exhaustive = True
    rep.required_features = ["exhaustive_interleavings", "random_schedules", "image_level_interleavings"]


def search(ctx, rep: Report):
    if not rep.findings:
        sub = Report("C11")
        run(ctx, sub, deep=True)
        rep.findings.extend(sub.findings)


def replay(ctx, payload) -> bool:
    d = payload["input"]
    if d["base"].startswith("("):
        base = FS.mdf_shape(nsec=2, tail=0)[1]
    else:
        base = bytes.fromhex(d["base"])
    specs = [tuple(tuple(x) if isinstance(x, list) else x for x in sp) for sp in d["specs"]]
    sched = [tuple(o) for o in d["sched"]]
    rep = Report("C11")
    out = FS.run_real(FS.build_real(base, specs), sched)
    oracle_case(rep, d["setup"], base, specs, d["roots"], sched, out)
    return not rep.findings
