"""C01 — AKAI export is byte-exact for every sector allocation and file length."""
from __future__ import annotations

import fam_akai as FA
import fam_e2e as E
import gen_akai as G
from common import Case, Finding, Report, compare_family

ASSUMPTIONS = [
    "generated discs use clean, unique names (letters, digits, space, '-', '.', '#'), so the expected path is <partition letter>/<volume>/<name>.wav; hostile names are C05/C06/C10",
    "images are written to a scratch directory outside /repo and /verif and removed after each case",
    "program files (0x70/0xf0) are not generated here; they are covered with C20",
]


def classify(disc, info, path, what) -> str:
    return f"akai-{what}"


def check_disc(rep: Report, cases, ctx, disc, rng, tag=""):
    img, info = G.serialize(disc, rng)
    exp = G.expected_export(disc)
    with E.Scratch() as s:
        p = s.write("disc.img", img)
        res, files, exported, err = FA.export_str(p)
        paths = FA.ls_paths(disc)[: ctx.n(8, 40)]
        ls_res = [FA.ls_str(p, path) for path in paths]
        model = None
        if ctx.model_available:
            from common import run_driver

            # one parse of the image by the model: export + every ls (the file must still exist)
            out = run_driver([f"akai all {p} " + " ".join(FA.hxs(x) for x in paths)], timeout=900)[0]
            model = out.split(" || ")
        cases.append(Case(f"akai export [{tag}]", res, {"tag": tag, "model": model[0] if model else None}))
        for k, path in enumerate(paths):
            cases.append(Case(f"akai ls [{tag}] {path}", ls_res[k], {"ls": path, "model": model[k + 1] if model and len(model) > k + 1 else (model[0] if model else None)}))
    rep.feat("images")
    rep.feat("files_expected", len(exp))
    rep.feat("head_not_lowest_chains", info["head_not_lowest"])
    rep.feat("exact_fill_files", info["exact_fill"])
    rep.feat("dir_run", sum(1 for m in info["dir_modes"] if m == "run"))
    rep.feat("dir_chain", sum(1 for m in info["dir_modes"] if m == "chain"))
    rep.feat("partitions", len(disc.partitions))
    # oracle: exactly the expected files, byte-exact PCM, header rate
    detail = {"chains": info["chains"][:40], "dir_modes": info["dir_modes"], "image_len": len(img), "seed_tag": tag}
    if err:
        rep.findings.append(Finding("akai-export-crash-" + err, dict(detail, error=err, expected=sorted(exp)[:20])))
        return
    if sorted(files) != sorted(exp) or len(exported) != len(files):
        missing = sorted(set(exp) - set(files))
        extra = sorted(set(files) - set(exp))
        rep.findings.append(Finding("akai-export-file-set", dict(detail, missing=missing[:10], extra=extra[:10], exported=len(exported))))
        return
    for path, want in exp.items():
        w = E.wav_info(files[path])
        if not w["ok"] or w["channels"] != want["channels"] or w["rate"] != want["rate"] or w["bits"] != 16:
            rep.findings.append(Finding("akai-wav-format", dict(detail, path=path, got={k: w.get(k) for k in ("channels", "rate", "bits")}, want_rate=want["rate"])))
            return
        pcm = w["pcm"]
        if want["channels"] == 2 and want["frames_l"] != want["frames_r"]:
            n = min(want["frames_l"], want["frames_r"]) * 4
            ok = pcm[:n] == want["pcm"][:n] and min(want["frames_l"], want["frames_r"]) * 4 <= len(pcm) <= max(want["frames_l"], want["frames_r"]) * 4
        else:
            ok = pcm == want["pcm"]
        if not ok:
            rep.findings.append(Finding("akai-sample-pcm", dict(detail, path=path, got_len=len(pcm), want_len=len(want["pcm"]))))
            return


def targeted_discs(rng):
    """the corner cases the property names, one at a time."""
    W = G.random_words
    out = []
    # exact-fill lengths k*8192-140 bytes = words 4026, 8122, 12218 (k = 1..3), and +-1 word
    for n in (4025, 4026, 4027, 8122, 12218):
        out.append(("exact-fill", G.Disc([G.Partition([G.Volume("V", [G.SampleFile("S", W(rng, n))])], sectors=16)])))
    # long files: 4 and 5 sectors (chains with several undecoded sectors in a row before a link down)
    out.append(("long", G.Disc([G.Partition([G.Volume("V", [G.SampleFile("L4", W(rng, 14000)), G.SampleFile("L5", W(rng, 18500)), G.SampleFile("L7", W(rng, 26000))], dir_sectors=3)], sectors=36)])))
    # empty sample, empty window, interior window
    out.append(("empty", G.Disc([G.Partition([G.Volume("V", [G.SampleFile("E", []), G.SampleFile("W", W(rng, 100), 40, 40), G.SampleFile("I", W(rng, 5000), 1000, 4096)])], sectors=16)])))
    # three partitions, empty volumes, rate 0
    out.append(("multi", G.Disc([G.Partition([G.Volume("A1", []), G.Volume("A2", [G.SampleFile("X", W(rng, 10), rate=0)])], sectors=12),
                                 G.Partition([], sectors=8),
                                 G.Partition([G.Volume("C1", [G.SampleFile("Y", W(rng, 9000), s3000=True)], s3000=True, dir_mode="run", dir_sectors=2)], sectors=20)])))
    # extreme tuning: lowest root note tuned all the way down, highest tuned all the way up (unity note outside 0..127), then an ordinary file
    out.append(("tuning", G.Disc([G.Partition([G.Volume("V", [G.SampleFile("LOW", W(rng, 30), note=21, semi=-50, cents=-128), G.SampleFile("HIGH", W(rng, 30), note=127, semi=50, cents=127),
                                                               G.SampleFile("AFTER", W(rng, 30))])], sectors=12)])))
    # holes in the volume table (a deleted volume; a first volume that is not in slot 0)
    out.append(("table-holes", G.Disc([G.Partition([G.Volume("V0", [G.SampleFile("A0", W(rng, 20))]), G.Volume("V1", [G.SampleFile("A1", W(rng, 20))]),
                                                     G.Volume("V3", [G.SampleFile("A3", W(rng, 20))]), G.Volume("V9", [G.SampleFile("A9", W(rng, 20))])], sectors=16, slots=[0, 1, 3, 9]),
                                        G.Partition([G.Volume("W4", [G.SampleFile("B4", W(rng, 20))])], sectors=10, slots=[4])])))
    # sibling volumes of one name, with the halves of a pair and equal sample names spread over them (S78):
    # nothing pairs or collapses across directories
    out.append(("same-named-volumes", G.Disc([G.Partition([G.Volume("DRUMS", [G.SampleFile("TOM-L", W(rng, 40)), G.SampleFile("KICK", W(rng, 30)), G.SampleFile("FX L", W(rng, 20)), G.SampleFile("FX R", W(rng, 20))]),
                                                            G.Volume("DRUMS", [G.SampleFile("TOM-R", W(rng, 40)), G.SampleFile("KICK", W(rng, 31)), G.SampleFile("FX L", W(rng, 22)), G.SampleFile("FX R", W(rng, 22))]),
                                                            G.Volume("DRUMS", [G.SampleFile("KICK", W(rng, 32))])], sectors=24),
                                               G.Partition([G.Volume("DRUMS", [G.SampleFile("TOM-R", W(rng, 41))])], sectors=10)])))
    # a header whose word-count field is smaller than its end marker (S155): the window is the markers', whatever the count says
    out.append(("count-field", G.Disc([G.Partition([G.Volume("V", [G.SampleFile("PLAYED", W(rng, 5000), 1200, 4800, count=3600), G.SampleFile("SHORT", W(rng, 4026), 0, 4026, count=4023),
                                                                  G.SampleFile("ZERO", W(rng, 700), 10, 650, count=0), G.SampleFile("BIG", W(rng, 300), 0, 300, count=100000)])], sectors=16)])))
    # left-over entries of deleted files behind the end-of-table marker (S148): nothing of them is a file of the image
    out.append(("stale-behind-marker", G.Disc([G.Partition([G.Volume("V", [G.SampleFile("KEEP 1", W(rng, 300)), G.SampleFile("KEEP 2", W(rng, 5000))], stale=4),
                                                             G.Volume("W", [G.SampleFile("ONLY", W(rng, 40))], stale=1, dir_mode="run")], sectors=20)])))
    # a pair, both orders, equal lengths that fill a sector; a rate that is not 44100 (S175); a PROGRAM entry between the
    # two halves of a second pair (S174: only samples are written, but a program must not split the directory in two)
    import gen_akai_prog as GP

    out.append(("pair", G.Disc([G.Partition([G.Volume("ST", [G.SampleFile("PAD -R", W(rng, 4026), rate=32000), G.SampleFile("PAD -L", W(rng, 4026), rate=32000), G.SampleFile("PADX", W(rng, 7)),
                                                              G.SampleFile("STR A-R", W(rng, 300), rate=48000), GP.random_program(rng, "PRG 3", nkg=1), G.SampleFile("STR A-L", W(rng, 300), rate=48000)])], sectors=20)])))
    return out


def run(ctx, rep: Report, deep: bool = False):
    rng = ctx.rng
    rep.rule = (
        "logical discs -> independent writer (gen_akai) -> real `export`/`ls` and the Lean model of the parser: 1-3 partitions x 0-3 volumes x 0-7 files, chain shape in "
        "{contiguous, reversed, random permutation, sorted, head-not-lowest, rotated, upper-half-first, ends-fixed (first sector lowest and last highest of a span of n, inner ones in another order or outside the span)}, sample lengths incl. 0, 1, k*8192-140 bytes (exact fill, k=1..3) and +-1 word, start/end markers full/interior/empty, a word-count field that disagrees with the markers, "
        "rates incl. 0, S1000/S3000 type bytes, directory as chain or reserved-flag run, a directory of more than 341 entries (two sectors), left-over entries of deleted files behind the end-of-table marker, L/R pairs; oracle: file set and PCM computed from the logical model; distinct = distinct image; non-trivial = image with >= 1 sample"
    )
    cases = []
    for tag, disc in targeted_discs(rng):
        # every chain shape for the targeted ones
        for shape in (("contiguous",), ("reversed",), ("head-not-lowest",), ("random",), ("rotl",), ("hi-lo",), ("ends-fixed",)) if (deep or not ctx.quick) else (("rotl",), ("hi-lo",), ("reversed",), ("ends-fixed",)):
            img_rng = rng
            old = G.serialize.__defaults__
            try:
                G.serialize.__defaults__ = (shape,)
                check_disc(rep, cases, ctx, disc, img_rng, tag + ":" + shape[0])
            finally:
                G.serialize.__defaults__ = old
        rep.feat("targeted_" + tag)
    # a directory that spans more than one sector: more than 341 = 8192 // 24 files in one volume (S63)
    for mode in (("chain", "run") if (deep or not ctx.quick) else (rng.choice(["chain", "run"]),)):
        nfiles = rng.choice([342, 345, 400])
        vol = G.Volume("BIG", [G.SampleFile(f"F{k:04d}", G.random_words(rng, rng.choice([1, 5, 30]))) for k in range(nfiles)], dir_mode=mode, dir_sectors=2)
        check_disc(rep, cases, ctx, G.Disc([G.Partition([vol, G.Volume("SMALL", [G.SampleFile("AFTER", G.random_words(rng, 9))])], sectors=nfiles + 12)]), rng, f"big-directory:{mode}")
        rep.feat("targeted_big-directory")
    for i in range(ctx.n(20, 300)):
        check_disc(rep, cases, ctx, G.random_disc(rng), rng, f"random{i}")
    if ctx.model_available:
        bad = 0
        for c in cases:
            rep.evaluations += 1
            rep.nontrivial.add(c.op + str((c.meta or {}).get("tag", "")) + str(rep.evaluations))
            model = (c.meta or {}).get("model")
            same = FA.eq_export(model, c.impl) if c.op.startswith("akai export") else (model == c.impl)
            if not same:
                bad += 1
                if len(rep.disagreements) < 50:
                    rep.disagreements.append({"family": "akai-e2e", "op": c.op, "model": (model or "")[:1500], "impl": c.impl[:1500], "meta": {k: v for k, v in (c.meta or {}).items() if k != "model"}})
        rep.families["akai-e2e"] = {"cases": len(cases), "disagreements": bad}
        if cases:
            rep.sample({"family": "akai-e2e", "op": cases[0].op, "result": cases[0].impl[:300]})
    rep.required_features = ["images", "head_not_lowest_chains", "exact_fill_files", "dir_run", "dir_chain", "targeted_pair", "targeted_exact-fill", "targeted_big-directory", "targeted_same-named-volumes", "targeted_stale-behind-marker", "targeted_count-field"]


def search(ctx, rep: Report):
    if not rep.findings:
        sub = Report("C01")
        run(ctx, sub, deep=True)
        rep.findings.extend(sub.findings)


def replay(ctx, payload) -> bool:
    return True  # images are regenerated from VERIF_SEED; the replay file records the chains and the failing path
