"""C02 — Roland S-7xx export is byte-exact for every cluster chain and loop mode."""
from __future__ import annotations

import fam_akai as FA
import fam_e2e as E
import gen_roland as G
from common import Case, Finding, Report, run_driver

ASSUMPTIONS = [
    "generated discs use clean names that are unique inside each performance, so the expected path is <volume>/<performance>/<sample>.wav",
    "images are ~3 MB (fixed area offsets); written to a scratch directory and removed after each case",
    "the Roland program listing (ls on a program) is not compared",
]


def ls_paths(disc: G.Disc):
    paths = [""]
    groups = []
    referenced = set()
    for v in disc.volumes:
        paths.append(v.name)
        for fi in sorted(set(v.performances)):
            if fi in disc.performances:
                groups.append((v.name, fi))
                referenced.add(fi)
    nperf = len(disc.performances) if disc.num_performances is None else disc.num_performances
    if len(referenced) < nperf:
        on = "All Performances" if not disc.volumes else "_Orphan_perf"
        paths.append(on)
        for fi in sorted(disc.performances):
            if fi not in referenced:
                groups.append((on, fi))
    for vn, fi in groups:
        pn = disc.performances[fi].name
        paths.append(f"{vn}/{pn}")
        for si in G.perf_samples(disc, fi)[:3]:
            paths.append(f"{vn}/{pn}/{disc.samples[si].name}")
    return paths


def check_disc(rep: Report, cases, ctx, disc, rng, tag="", shapes=None):
    img, info = G.serialize(disc, rng, shapes) if shapes else G.serialize(disc, rng)
    exp = G.expected_export(disc)
    with E.Scratch() as s:
        p = s.write("roland.img", img)
        res, files, exported, err = FA.export_str(p)
        paths = ls_paths(disc)[: ctx.n(8, 30)]
        ls_res = [FA.ls_str(p, x) for x in paths]
        model = None
        if ctx.model_available:
            out = run_driver([f"akai all {p} " + " ".join(FA.hxs(x) for x in paths)], timeout=900)[0]
            model = out.split(" || ")
        cases.append(Case(f"roland export [{tag}]", res, {"model": model[0] if model else None}))
        for k, path in enumerate(paths):
            cases.append(Case(f"roland ls [{tag}] {path}", ls_res[k], {"model": model[k + 1] if model and len(model) > k + 1 else (model[0] if model else None)}))
    rep.feat("images")
    rep.feat("files_expected", len(exp))
    rep.feat("head_not_lowest_chains", info["head_not_lowest"])
    rep.feat("windows_ending_on_cluster_boundary", info["exact_fill"])
    rep.feat("fat_version_%d" % disc.version_flag)
    if info.get("shared_files"):
        rep.feat("samples_sharing_a_data_file")
    rep.feat("pointer_tables_" + info.get("table_layout", "compact"))
    for smp in disc.samples.values():
        rep.feat("loop_mode_%d" % smp.mode)
        rep.feat("freq_code_%d" % smp.freq)
        if smp.cluster_top:
            rep.feat("cluster_top_nonzero")
    detail = {"chains": {str(k): v for k, v in info["chains"].items()}, "tag": tag, "version_flag": disc.version_flag}
    if err:
        rep.findings.append(Finding("roland-export-crash-" + err, dict(detail, expected=sorted(exp)[:20])))
        return
    if sorted(files) != sorted(exp) or len(exported) != len(files):
        rep.findings.append(Finding("roland-export-file-set", dict(detail, missing=sorted(set(exp) - set(files))[:10], extra=sorted(set(files) - set(exp))[:10])))
        return
    for path, want in exp.items():
        w = E.wav_info(files[path])
        if not w["ok"] or w["channels"] != 1 or w["rate"] != want["rate"] or w["bits"] != 16:
            rep.findings.append(Finding("roland-wav-format", dict(detail, path=path, got={k: w.get(k) for k in ("channels", "rate", "bits")}, want_rate=want["rate"])))
            return
        if w["pcm"] != want["pcm"]:
            rep.findings.append(Finding("roland-sample-pcm", dict(detail, path=path, got_len=len(w["pcm"]), want_len=len(want["pcm"]))))
            return


def check_disc_far(rep: Report, disc, rng, tag):
    """S199: the same disc with the HEAD cluster of every data file moved beyond cluster 32767 (data more than 302 MB
    into the image, as on any full CD-ROM); written as a sparse file; oracle only (the model reads whole files)."""
    import os
    import struct
    import tempfile
    import shutil

    img, info = G.serialize(disc, rng, ("contiguous",))
    img = bytearray(img)
    exp = G.expected_export(disc)
    far = {}
    heads = sorted({ch[0] for ch in info["chains"].values() if ch})
    for n, c0 in enumerate(heads):
        H = [0x8000, 0x8001 + 37 * n, 0xC000 + n, 0xFFF0 - n][n % 4] if n else 0x8000
        while H in far.values():
            H += 1
        v = struct.unpack_from("<H", img, G.FAT_OFF + 2 * c0)[0]
        struct.pack_into("<H", img, G.FAT_OFF + 2 * H, v)
        struct.pack_into("<H", img, G.FAT_OFF + 2 * c0, 0)
        for si in range(0x2000):
            o = G.DIR["samp"] + 32 * si
            if img[o + 16] == G.TYPE["samp"] and struct.unpack_from("<H", img, o + 28)[0] == c0:
                struct.pack_into("<H", img, o + 28, H)
        far[c0] = H
    d = tempfile.mkdtemp(prefix="verif_c02_")
    try:
        p = os.path.join(d, "far.img")
        with open(p, "wb") as f:
            f.write(bytes(img))
            for c0, H in far.items():
                a = G.DATA_FAT_OFF + c0 * G.CLUSTER
                f.seek(G.DATA_FAT_OFF + H * G.CLUSTER)
                f.write(bytes(img[a:a + G.CLUSTER]))
                f.seek(a)
                f.write(b"\xee" * G.CLUSTER)
        files, exported, err = E.export_real(p)
    finally:
        shutil.rmtree(d, ignore_errors=True)
    rep.feat("head_clusters_beyond_32767", len(far))
    rep.evaluations += 1
    detail = {"tag": tag, "moved_heads": {str(k): v for k, v in far.items()}}
    if err:
        rep.findings.append(Finding("roland-far-export-crash-" + err, detail))
        return
    if sorted(files) != sorted(exp):
        rep.findings.append(Finding("roland-far-export-file-set", dict(detail, missing=sorted(set(exp) - set(files))[:10], extra=sorted(set(files) - set(exp))[:10])))
        return
    for path, want in exp.items():
        w = E.wav_info(files[path])
        if not w["ok"] or w["pcm"] != want["pcm"]:
            rep.findings.append(Finding("roland-far-sample-pcm", dict(detail, path=path, got_len=len(w.get("pcm") or b""), want_len=len(want["pcm"]))))
            return


def targeted_discs(rng):
    W = G.random_words
    out = []
    # every loop mode on a window that ends exactly on a cluster boundary (4608 words = 9216 bytes), 2 clusters
    for mode in range(7):
        s = G.Sample("Edge", W(rng, 9216), start=0, sus_start=100, sus_end=4607 if mode not in (1, 3) else 9000, rel_start=200, rel_end=9215 if mode in (1, 3) else 5000, mode=mode, freq=mode % 6)
        out.append((f"mode{mode}", G.Disc([G.Volume("V", [0])], {0: G.Performance("P", [0])}, {0: G.Patch("Q", [0])}, {0: G.Partial("R", [0, None, None, None])}, {0: s})))
    # cluster_top, long permuted chain, shared samples across partials/patches, orphan performances, version 2
    s0 = G.Sample("Long", W(rng, 20000), start=5, sus_end=19999, mode=0, cluster_top=2)
    s1 = G.Sample("Tiny", W(rng, 1), mode=2)
    s2 = G.Sample("Rev", W(rng, 4608), mode=5)
    d = G.Disc([G.Volume("A", [0]), G.Volume("B", [])],
               {0: G.Performance("P0", [0, 1]), 1: G.Performance("P1", [1]), 2: G.Performance("Lonely", [0])},
               {0: G.Patch("Q0", [0, 1]), 1: G.Patch("Q1", [2])},
               {0: G.Partial("R0", [0, 1, None, None]), 1: G.Partial("R1", [None, 0, None, None]), 2: G.Partial("R2", [2, None, None, None])},
               {0: s0, 1: s1, 2: s2}, version_flag=2)
    out.append(("shared+orphans", d))
    d2 = G.Disc([], {0: G.Performance("Solo", [0])}, {0: G.Patch("Q", [0])}, {0: G.Partial("R", [None, None, 0, None])}, {0: G.Sample("Only", W(rng, 300), start=10, sus_end=250, mode=6)})
    out.append(("no-volumes", d2))
    # scattered directory slots: an orphan performance in a slot beyond the ID area's count, samples / partials / patches not in slots 0..n-1
    d3 = G.Disc([G.Volume("VOL", [0])], {0: G.Performance("Kit", [3]), 5: G.Performance("SoftPad", [7])},
                {3: G.Patch("Q3", [4]), 7: G.Patch("Q7", [9])}, {4: G.Partial("R4", [11, None, 2, None]), 9: G.Partial("R9", [None, 30, None, None])},
                {11: G.Sample("Kick", W(rng, 5000), mode=0), 2: G.Sample("Snare", W(rng, 4608), mode=2), 30: G.Sample("PadOne", W(rng, 4700), mode=5, cluster_top=1)})
    out.append(("scattered-slots", d3))
    # the highest indices of every area (S173: a pointer is valid up to ITS area's limit - 0x1000 partials, 0x400 patches,
    # 0x200 performances, 0x2000 samples)
    d3h = G.Disc([G.Volume("VOL", [511])], {511: G.Performance("Top", [1023, 2])}, {1023: G.Patch("Q1023", [4095, 1030]), 2: G.Patch("Q2", [2000])},
                 {4095: G.Partial("R4095", [8191, None, None, None]), 1030: G.Partial("R1030", [None, 4100, None, None]), 2000: G.Partial("R2000", [None, None, 7, None])},
                 {8191: G.Sample("TopSmp", W(rng, 700), mode=0), 4100: G.Sample("MidSmp", W(rng, 4608), mode=2), 7: G.Sample("LowSmp", W(rng, 50), mode=5)}, num_performances=512)
    out.append(("highest-indices", d3h))
    # performances referenced by more than one volume next to unreferenced ones (S62): as many / more duplicate
    # references than orphans, so a count of references cannot stand in for the set of referenced performances
    for tag, vols, nperf in (("shared1+orphan1", [[0], [0, 2]], 5), ("shared2+orphan1", [[0, 1], [1, 0]], 3), ("shared2+orphan2", [[1, 2], [2, 1], []], 4)):
        smp = {i: G.Sample(f"S{i}", W(rng, rng.choice([300, 4608, 5000])), mode=i % 7, freq=i % 6) for i in range(3)}
        perfs = {i: G.Performance(f"Perf{i}", [i % 2]) for i in range(nperf) if not (tag == "shared1+orphan1" and i in (1, 3))}
        d4 = G.Disc([G.Volume(f"Vol{k}", v) for k, v in enumerate(vols)], perfs, {0: G.Patch("Q0", [0]), 1: G.Patch("Q1", [1])},
                    {0: G.Partial("R0", [0, 1, None, None]), 1: G.Partial("R1", [2, None, None, None])}, smp)
        out.append((tag, d4))
    # several samples in ONE data file (same FAT entry, different leading-cluster offsets), referenced so that the
    # ones deeper in the file are parsed first (S140: a cluster list cached per FAT entry)
    smp = {0: G.Sample("FileA", W(rng, 5000), mode=0), 1: G.Sample("FileB", W(rng, 9300), mode=2, after=0), 2: G.Sample("FileC", W(rng, 300), mode=5, after=0),
           3: G.Sample("Alone", W(rng, 4608), mode=1)}
    d5 = G.Disc([G.Volume("VOL", [0, 1])], {0: G.Performance("Deep first", [0]), 1: G.Performance("Head first", [1])},
                {0: G.Patch("Q0", [0, 1]), 1: G.Patch("Q1", [2])},
                {0: G.Partial("R0", [2, 1, None, None]), 1: G.Partial("R1", [0, 3, None, None]), 2: G.Partial("R2", [0, 2, 1, None])}, smp)
    out.append(("shared-data-file", d5))
    # pointer tables with unused slots before and between the used ones (S158: a table is not a -1-terminated list)
    smp6 = {i: G.Sample(f"H{i}", W(rng, 200 + 50 * i), mode=i % 7) for i in range(4)}
    d6 = G.Disc([G.Volume("V", [0, 1])], {0: G.Performance("P0", [0, 1, 2]), 1: G.Performance("P1", [2])},
                {0: G.Patch("Q0", [0]), 1: G.Patch("Q1", [1]), 2: G.Patch("Q2", [2])},
                {0: G.Partial("R0", [0, None, None, None]), 1: G.Partial("R1", [None, 1, None, 2]), 2: G.Partial("R2", [None, None, 3, None])}, smp6, table_layout="holes")
    out.append(("tables-with-holes", d6))
    d7 = G.Disc(d6.volumes, d6.performances, d6.patches, d6.partials, smp6, table_layout="back")
    out.append(("tables-filled-from-the-back", d7))
    return out


def run(ctx, rep: Report, deep: bool = False):
    rng = ctx.rng
    rep.rule = (
        "logical discs -> independent writer (gen_roland) -> real `export`/`ls` and the Lean model of the parser: volumes x performances x patches x partials x <=4 sample slots, shared and orphaned entries, "
        "chain shape in {contiguous, reversed, random, head-not-lowest}, cluster_top 0-2, several samples in one data file (one FAT entry, different leading-cluster offsets), pointer tables filled compactly / with unused slots before and between the used ones / from the back, the 7 loop modes, the 6 frequency codes, FAT version flag 1/2, windows ending exactly on k*9216; "
        "oracle: file set and PCM computed from the logical model; distinct = distinct image; non-trivial = image with >= 1 sample"
    )
    cases = []
    tds = targeted_discs(rng)
    for tag, disc in tds:  # every loop mode in every tier (S101: one mode's end point)
        for shape in (("contiguous",), ("reversed",), ("head-not-lowest",)) if (deep or not ctx.quick) else (("head-not-lowest",),):
            check_disc(rep, cases, ctx, disc, rng, tag + ":" + shape[0], shape)
        rep.feat("targeted")
    for i in range(ctx.n(6, 150)):
        check_disc(rep, cases, ctx, G.random_disc(rng), rng, f"random{i}")
    for i in range(ctx.n(3, 30)):
        dk = G.random_disc(rng)
        dk.version_flag = 1
        check_disc_far(rep, dk, rng, f"far{i}")
    if ctx.model_available:
        bad = 0
        for c in cases:
            rep.evaluations += 1
            rep.nontrivial.add(c.op)
            model = (c.meta or {}).get("model")
            same = FA.eq_export(model, c.impl) if " export " in c.op else (model == c.impl)
            if not same:
                bad += 1
                if len(rep.disagreements) < 50:
                    rep.disagreements.append({"family": "roland-e2e", "op": c.op, "model": (model or "")[:1200], "impl": c.impl[:1200], "meta": None})
        rep.families["roland-e2e"] = {"cases": len(cases), "disagreements": bad}
        if cases:
            rep.sample({"family": "roland-e2e", "op": cases[0].op, "result": cases[0].impl[:300]})
    rep.required_features = ["images", "targeted", "samples_sharing_a_data_file", "pointer_tables_holes", "pointer_tables_back", "head_not_lowest_chains", "windows_ending_on_cluster_boundary", "fat_version_2", "loop_mode_5", "loop_mode_6", "cluster_top_nonzero", "head_clusters_beyond_32767"]


def search(ctx, rep: Report):
    if not rep.findings:
        sub = Report("C02")
        run(ctx, sub, deep=True)
        rep.findings.extend(sub.findings)


def replay(ctx, payload) -> bool:
    return True
