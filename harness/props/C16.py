"""C16 — results depend only on the image bytes, not on what was looked at before."""
from __future__ import annotations

import contextlib
import hashlib
import io
import os
import shutil
import tempfile

import fam_akai as FA
import fam_e2e as E
import gen_akai as G
import impl
from common import Case, Finding, Report, run_driver

ASSUMPTIONS = [
    "one opened image object is reused for a whole history (determine_image_type once), as a long-running caller of the library would; the CLI opens a fresh object per command",
    "Roland images join this check with C02's generator",
]


def open_image(path):
    from smpl_extract import actions as A

    return A.determine_image_type(path)


def do_ls(image, path) -> str:
    from smpl_extract import actions as A

    buf = io.StringIO()
    try:
        with impl.watchdog(30), contextlib.redirect_stdout(buf):
            A.ls_action(image, path)
    except BaseException as e:  # noqa
        if isinstance(e, (KeyboardInterrupt, SystemExit)):
            raise
        return "err " + impl.exc_name(e)
    return "ok " + " ".join(FA.hxs(l) for l in FA.canon_ls(buf.getvalue()))


def do_export(image) -> str:
    from smpl_extract import actions as A

    out = tempfile.mkdtemp(prefix="verif_c16_")
    buf = io.StringIO()
    try:
        try:
            with impl.watchdog(60), contextlib.redirect_stdout(buf):
                A.export_samples_to_wav(image, out)
        except BaseException as e:  # noqa
            if isinstance(e, (KeyboardInterrupt, SystemExit)):
                raise
            return "err " + impl.exc_name(e)
        items = []
        for line in buf.getvalue().splitlines():
            if line.startswith("Exported "):
                rel = line[len("Exported "):]
                p = os.path.join(out, rel)
                data = open(p, "rb").read() if os.path.exists(p) else None
                items.append(f"{FA.hxs(rel)} " + ("missing" if data is None else f"{len(data)}:{hashlib.sha1(data).hexdigest()}"))
        return "ok " + " ; ".join(items)
    finally:
        shutil.rmtree(out, ignore_errors=True)


def close_image(image):
    f = getattr(image, "file", None)
    try:
        while f is not None and not hasattr(f, "close"):
            f = getattr(f, "substream", None)
        if f is not None:
            f.close()
    except Exception:
        pass


def history_ops(rng, paths, n):
    ops = []
    for _ in range(n):
        r = rng.random()
        if r < 0.3:
            ops.append(("export",))
        elif r < 0.8:
            ops.append(("ls", rng.choice(paths)))
        else:
            ops.append(("ls", rng.choice(["nope", "A:/nope", "A:/VOL 00/zzz", "//", rng.choice(paths) + "/x", "B:"])))
    return ops


def run_history(rep: Report, image_path, ops, kind):
    sha0 = hashlib.sha256(open(image_path, "rb").read()).hexdigest()
    img = open_image(image_path)
    outs = []
    for op in ops:
        outs.append(do_export(img) if op[0] == "export" else do_ls(img, op[1]))
    close_image(img)
    fresh = []
    for op in ops:
        f = open_image(image_path)
        fresh.append(do_export(f) if op[0] == "export" else do_ls(f, op[1]))
        close_image(f)
    if hashlib.sha256(open(image_path, "rb").read()).hexdigest() != sha0:
        rep.findings.append(Finding(f"{kind}-image-file-modified", {"ops": ops}))
    for i, (a, b) in enumerate(zip(outs, fresh)):
        if a != b:
            prev = [o[0] for o in ops[:i]]
            klass = f"{kind}-{ops[i][0]}-depends-on-history" + ("-after-export" if "export" in prev else "-after-ls")
            rep.findings.append(Finding(klass, {"ops": [list(o) for o in ops], "index": i, "with_history": a[:300], "fresh": b[:300]}))
            return outs, fresh
    return outs, fresh


def cdda_pair(scratch, rng):
    import fam_cue as FC

    lines, firsts = FC.canonical(rng, rng.randint(1, 4))
    n = 2352 * (firsts[-1] + rng.randint(1, 5)) + rng.randrange(4)
    scratch.write("disc.bin", bytes(rng.randrange(256) for _ in range(n)))
    p = os.path.join(scratch.dir, "disc.cue")
    with open(p, "w", encoding="ascii", newline="") as f:
        f.write("".join(lines))
    return p


def run(ctx, rep: Report, deep: bool = False):
    rng = ctx.rng
    rep.rule = (
        "histories of 2-9 operations (ls at valid / invalid / too-deep paths, export; the same item listed twice and around exports) on ONE opened image object versus a fresh object per operation; AKAI images with looped samples (gen_akai), Roland images (gen_roland) and CDDA bin/cue pairs; "
        "the image file's SHA-256 before/after; for AKAI the fresh answers are also compared with the Lean model (a pure function of the image bytes); distinct = (image, history); non-trivial = history with >= 2 operations of which at least one export"
    )
    cases = []
    for i in range(ctx.n(24, 400)):
        with E.Scratch() as s:
            if i % 4 == 3:
                import gen_roland as GR

                rdisc = GR.random_disc(rng)
                while not GR.expected_export(rdisc):
                    rdisc = GR.random_disc(rng)
                rimg, _ = GR.serialize(rdisc, rng)
                p = s.write("disc.img", rimg)
                paths = [""] + sorted({x[:-4] for x in GR.expected_export(rdisc)} | {x.rsplit("/", 1)[0] for x in GR.expected_export(rdisc)})[:6]
                kind = "roland"
            elif i % 3 != 2:
                disc = G.random_disc(rng)
                while i % 2 == 1 and not any(part.volumes for part in disc.partitions):
                    disc = G.random_disc(rng)  # the program needs a volume to live in
                # looped samples and programs: state that a listing or an export may consume
                for part in disc.partitions:
                    for vol in part.volumes:
                        for f in vol.files:
                            if f.kind == "sample" and rng.random() < 0.6:
                                f.loop_type = rng.choice([0, 1, 3, 4])
                                f.loops = [G.Loop(at=rng.randrange(1, 5000), coarse=rng.randrange(0, 400), duration=rng.choice([0, 5, 9999, 300])) for _ in range(rng.randint(1, 4))]
                # a program with velocity zones in the first volume (S152: a listing must not consume what the next one prints)
                prog_path = None
                vols_ = [(pi_, v_) for pi_, part in enumerate(disc.partitions) for v_ in part.volumes]
                if vols_ and i % 2 == 1:
                    import gen_akai_prog as GP

                    pi_, v_ = vols_[0]
                    if all(f_.name != "PROG 1" for f_ in v_.files):
                        v_.files.append(GP.random_program(rng, "PROG 1", nkg=rng.choice([1, 2, 3])))
                        disc.partitions[pi_].sectors += 2
                        prog_path = True
                img, _ = G.serialize(disc, rng)
                p = s.write("disc.img", img)
                paths = FA.ls_paths(disc)
                if prog_path:
                    vp_ = next((x for x in paths if x.count("/") == 1), None)  # the first volume's path
                    prog_path = vp_ + "/PROG 1" if vp_ else None
                    if prog_path:
                        paths = paths + [prog_path]
                kind = "akai"
            else:
                p = cdda_pair(s, rng)
                paths = ["", "Untitled Track 1", "Track 1 A"]
                kind = "cdda"
            ops = history_ops(rng, paths, rng.randint(2, 8))
            if i % 4 == 0:
                ops = [("export",), ("export",)] + ops[:2]
            # the same item listed twice, and listed around an export (leaf items are the deepest paths)
            deep_paths = sorted(paths, key=lambda x: -x.count("/"))[:4]
            if deep_paths and i % 2 == 1:
                t = rng.choice(deep_paths)
                if kind == "akai" and locals().get("prog_path"):
                    t = prog_path
                    rep.feat("program_listed_twice")
                ops = [("ls", t), ("ls", t), ("export",), ("ls", t), ("export",)] + ops[:2]
            outs, fresh = run_history(rep, p, ops, kind)
            rep.evaluations += 1
            rep.nontrivial.add((i, tuple(ops)))
            rep.feat(f"{kind}_histories")
            if sum(1 for o in ops if o[0] == "export") >= 2:
                rep.feat("histories_with_repeated_export")
            if kind == "akai" and ctx.model_available and i % 2 == 0:
                lss = [o[1] for o in ops if o[0] == "ls"]
                out = run_driver([f"akai all {p} " + " ".join(FA.hxs(x) for x in lss)], timeout=600)[0].split(" || ")
                k = 1
                for op, fr in zip(ops, fresh):
                    if op[0] == "ls":
                        m = out[k] if len(out) > k else out[0]
                        k += 1
                        if m != fr:
                            rep.disagreements.append({"family": "akai-history", "op": str(op), "model": m[:500], "impl": fr[:500], "meta": None})
                rep.feat("model_compared")
    rep.sample({"family": "history", "example": [["ls", "A:"], ["export"], ["ls", "A:/VOL 00"], ["export"]]})
    rep.required_features = ["akai_histories", "cdda_histories", "roland_histories", "histories_with_repeated_export", "program_listed_twice", "model_compared"]


def search(ctx, rep: Report):
    if not rep.findings:
        sub = Report("C16")
        run(ctx, sub, deep=True)
        rep.findings.extend(sub.findings)


def replay(ctx, payload) -> bool:
    return True
