"""C03 — CDDA tracks tile the bin file exactly at the cue sheet's index positions."""
from __future__ import annotations

import contextlib
import io
import os
import shutil
import struct
import tempfile
import wave

import fam_cue as FC
from common import Case, Finding, Report, compare_family

ASSUMPTIONS = [
    "track titles used here are distinct and file-system safe (naming of CDDA tracks is C06's concern)",
    "the bin file is read through open(file,'rb'); export writes into a temporary directory that is removed afterwards",
]


BIN_NAMES = ["disc.bin", "disc.bin", "AKAI CD Vol 1 (Track 01).bin", "a b.bin", "My  Disc.BIN", "x-y_z.img"]


def export_real(lines, bin_bytes: bytes, bin_name: str = "disc.bin"):
    """real end-to-end export of a bin/cue pair; returns {relative path: wav bytes}, stdout."""
    from smpl_extract import actions as A

    d = tempfile.mkdtemp(prefix="verif_c03_")
    try:
        with open(os.path.join(d, bin_name), "wb") as f:
            f.write(bin_bytes)
        cue = os.path.join(d, "disc.cue")
        with open(cue, "w", encoding="ascii", newline="") as f:
            f.write("".join(lines))
        out = os.path.join(d, "out")
        os.makedirs(out)
        buf = io.StringIO()
        with contextlib.redirect_stdout(buf):
            A.export_samples_to_wav(cue, out)
        files = {}
        for root, _, names in os.walk(out):
            for n in names:
                p = os.path.join(root, n)
                files[os.path.relpath(p, out)] = open(p, "rb").read()
        return files, buf.getvalue()
    finally:
        shutil.rmtree(d, ignore_errors=True)


def export_real_sparse(lines, base_off: int, tail: bytes, bin_name: str = "disc.bin"):
    """as export_real, for a bin that is `base_off` zero bytes (a hole: nothing is written) followed by `tail`."""
    from smpl_extract import actions as A

    d = tempfile.mkdtemp(prefix="verif_c03_")
    try:
        with open(os.path.join(d, bin_name), "wb") as f:
            f.seek(base_off)
            f.write(tail)
        cue = os.path.join(d, "disc.cue")
        with open(cue, "w", encoding="ascii", newline="") as f:
            f.write("".join(lines))
        out = os.path.join(d, "out")
        os.makedirs(out)
        buf = io.StringIO()
        with contextlib.redirect_stdout(buf):
            A.export_samples_to_wav(cue, out)
        files = {}
        for root, _, names in os.walk(out):
            for n in names:
                p = os.path.join(root, n)
                files[os.path.relpath(p, out)] = open(p, "rb").read()
        return files, buf.getvalue()
    finally:
        shutil.rmtree(d, ignore_errors=True)


def oracle_far(rep: Report, rng):
    """S124: tracks that start 100 minutes and more into the bin (three-digit minute fields; a sparse bin)."""
    nt = rng.randint(1, 5)
    base = rng.choice([100 * 60 * 75 - rng.randint(0, 20), rng.randint(100 * 60 * 75, 140 * 60 * 75)])
    lines = ['FILE "disc.bin" BINARY\n']
    firsts, titles, cur = [], [], base
    for k in range(1, nt + 1):
        lines.append(f"  TRACK {k:02d} AUDIO\n")
        t = f"Far {k}"
        lines.append(f'    TITLE "{t}"\n')
        titles.append(t)
        pos = cur
        for j in range(rng.randint(1, 2)):
            lines.append(f"    INDEX {j:02d} {FC.msf(pos)}\n")
            if j == 0:
                firsts.append(pos)
            pos += rng.randint(1, 3)
        cur = pos + rng.randint(0, 30)
    tail_len = 2352 * (firsts[-1] - base) + rng.choice([1, 4, 2351, 2352, 4000])
    tail = bytes(rng.randrange(256) for _ in range(tail_len))
    detail = {"lines": lines, "base_frame": base, "tail_len": tail_len, "firsts": firsts}
    try:
        files, out = export_real_sparse(lines, 2352 * base, tail)
    except Exception as e:
        rep.findings.append(Finding("cdda-far-export-crash", dict(detail, error=repr(e))))
        return
    if len(files) != nt:
        rep.findings.append(Finding("cdda-far-track-count", dict(detail, files=sorted(files), stdout=out[:300])))
        return
    for k, (fr, title) in enumerate(zip(firsts, titles)):
        name = title + ".wav"
        if name not in files:
            rep.findings.append(Finding("cdda-far-track-name", dict(detail, missing=name)))
            return
        ch, rate, width, pcm = pcm_of(files[name])
        off = 2352 * (fr - base)
        end = 2352 * (firsts[k + 1] - base) if k + 1 < nt else tail_len
        want = tail[off:end]
        want = want[: len(want) // 4 * 4]
        if (ch, rate, width) != (2, 44100, 2) or pcm != want:
            rep.findings.append(Finding("cdda-far-track-pcm", dict(detail, track=k, got_len=len(pcm), want_len=len(want))))
            return


def pcm_of(wav: bytes):
    """(channels, rate, width, raw bytes of the data chunk) — the chunk is read raw so that a partial
    trailing frame is seen (stdlib wave would silently floor it away)."""
    with wave.open(io.BytesIO(wav), "rb") as w:
        hdr = (w.getnchannels(), w.getframerate(), w.getsampwidth())
    pos = 12
    while pos + 8 <= len(wav):
        cid, n = wav[pos : pos + 4], struct.unpack("<I", wav[pos + 4 : pos + 8])[0]
        if cid == b"data":
            return hdr + (wav[pos + 8 : pos + 8 + n],)
        pos += 8 + n
    return hdr + (b"",)


def oracle_export(rep: Report, lines, firsts, bin_bytes, titles, bin_name="disc.bin"):
    try:
        files, out = export_real(lines, bin_bytes, bin_name)
    except Exception as e:
        rep.findings.append(Finding("cdda-export-crash", {"lines": lines, "bin_len": len(bin_bytes), "error": repr(e)}))
        return
    detail = {"lines": lines, "bin_len": len(bin_bytes), "firsts": firsts, "files": sorted(files)}
    if len(files) != len(firsts):
        rep.findings.append(Finding("cdda-track-count", dict(detail, stdout=out[:400])))
        return
    concat = b""
    for k, (fr, title) in enumerate(zip(firsts, titles)):
        name = title + ".wav"
        if name not in files:
            rep.findings.append(Finding("cdda-track-name", dict(detail, missing=name)))
            return
        ch, rate, width, pcm = pcm_of(files[name])
        off = 2352 * fr
        end = 2352 * firsts[k + 1] if k + 1 < len(firsts) else len(bin_bytes)
        want = bin_bytes[off:end]
        want = want[: len(want) // 4 * 4]
        if (ch, rate, width) != (2, 44100, 2):
            rep.findings.append(Finding("cdda-format", dict(detail, track=k, fmt=[ch, rate, width])))
            return
        if pcm != want:
            kind = "last" if k + 1 == len(firsts) else "inner"
            rep.findings.append(Finding(f"cdda-{kind}-track-pcm", dict(detail, track=k, got_len=len(pcm), want_len=len(want))))
            return
        concat += pcm
    whole = bin_bytes[2352 * firsts[0] :]
    if concat != whole[: len(concat)] or len(whole) - len(concat) >= 4:
        rep.findings.append(Finding("cdda-tiling", detail))


def run(ctx, rep: Report, deep: bool = False):
    rng = ctx.rng
    rep.rule = (
        "bin/cue pairs: 1..8 audio tracks numbered 1..n, with gaps, or in no order at all, 1..3 INDEX lines each, with/without TITLE, strictly increasing first indices, bin length = last offset + "
        "{1,3,4,2351,2352,2353,random}; real end-to-end export compared with the bin slices (oracle) and the model's windows with the real ones; "
        "also sheets with index-less tracks, data tracks, equal indices (model/impl only); distinct = distinct op line; non-trivial = >= 2 tracks"
    )
    cases = []
    for i in range(ctx.n(60, 1000)):
        nt = rng.randint(1, 8)
        if i % 10 in (3, 4):
            nt = max(nt, 2)  # room for the pair-looking / duplicate titles
        if i % 50 == 7:
            nt = 90  # S147: a sheet of well over 4 KiB (a sample CD): every line of it counts
            rep.feat("sheet_longer_than_4k")
        titled = rng.random() < 0.5
        bin_name = rng.choice(BIN_NAMES)  # S120: names with blanks, as ripping tools write them
        lines = [f'FILE "{bin_name}" BINARY\n']
        cur = rng.choice([0, 0, 2, rng.randint(0, 60)])
        firsts, titles = [], []
        # track numbers: 1..n, gapped, or in no order at all - "the next track" is the next one in the sheet (S99)
        r = rng.random()
        numbers = list(range(1, nt + 1))
        if r < 0.15:
            numbers = sorted(rng.sample(range(1, 100), nt))
        elif r < 0.4:
            numbers = rng.sample(range(1, 100), nt)
            if numbers != sorted(numbers):
                rep.feat("track_numbers_out_of_order")
        for k in numbers:
            if i % 10 == 6:
                # S189: empty and blank-only lines between the tracks (ripping tools separate tracks that way)
                lines += [["\n"], ["   \n"], ["\n", "\t\n"]][len(firsts) % 3]
                rep.feat("blank_lines_between_tracks")
            # S201: the mode word in lower / mixed case, as some burning tools write it (every keyword is matched without regard to case)
            mode_word = ["AUDIO", "audio", "Audio"][(i // 10) % 3] if i % 10 == 7 else "AUDIO"
            lines.append(f"  TRACK {k:02d} {mode_word}\n")
            if mode_word != "AUDIO":
                rep.feat("mode_word_not_upper_case")
            if i % 10 == 3 and nt >= 2 and len(titles) < 2:
                # S150: two tracks whose titles differ only in a final L / R - CD tracks are stereo already and must
                # be written one by one
                t = ["Pink Noise L", "Pink Noise R"][len(titles)] if i % 20 == 3 else ["Side-R", "Side-L"][len(titles)]
                lines.append(f'    TITLE "{t}"\n')
                titles.append(t)
                rep.feat("titles_that_look_like_a_pair")
            elif i % 10 == 4 and nt >= 2 and len(titles) < 2:
                # S172: two tracks of one title - the second is written as `Twin (2)`; nothing is overwritten
                lines.append('    TITLE "Twin"\n')
                titles.append("Twin" if len(titles) == 0 else "Twin (2)")
                rep.feat("duplicate_titles")
            elif titled and rng.random() < 0.7:
                t = f"Song {k} x{rng.randint(0, 99)}"
                lines.append(f'    TITLE "{t}"\n')
                titles.append(t)
            else:
                titles.append(None)
            pos = cur
            for j in range(rng.randint(1, 3)):
                lines.append(f"    INDEX {j:02d} {FC.msf(pos)}\n")
                if j == 0:
                    firsts.append(pos)
                pos += rng.randint(1, 3)
            cur = pos + rng.randint(0, 12)
        titles = [t if t is not None else f"Untitled Track {k + 1}" for k, t in enumerate(titles)]
        tail = [1, 3, 4, 2351, 2352, 2353, rng.randint(1, 9000)][i % 7]  # every listed tail in every run (no draw)
        bin_len = 2352 * firsts[-1] + tail
        bin_bytes = bytes((rng.randrange(256) for _ in range(bin_len))) if bin_len < 200000 else os.urandom(bin_len)
        cases.append(Case(FC.op_windows(lines, bin_len), FC.windows_real(lines, bin_len)))
        oracle_export(rep, lines, firsts, bin_bytes, titles, bin_name)
        rep.feat("pairs_exported")
        if " " in bin_name:
            rep.feat("bin_name_with_blanks")
        rep.feat(f"tail_{tail if tail in (1, 3, 4, 2351, 2352, 2353) else 'random'}")
        if nt >= 2:
            rep.feat("multi_track")
    for i in range(ctx.n(6, 60)):
        oracle_far(rep, rng)
        rep.evaluations += 1
        rep.feat("tracks_100_minutes_and_more")
    # odd sheets: windows only (model vs implementation)
    for i in range(ctx.n(150, 1500)):
        lines, firsts = FC.canonical(rng, rng.randint(1, 5))
        m = rng.randrange(5)
        if m == 0:  # drop the INDEX lines of one track
            k = rng.randint(1, max(1, len(firsts)))
            out, cur = [], 0
            for l in lines:
                if "TRACK" in l:
                    cur += 1
                if "INDEX" in l and cur == k:
                    continue
                out.append(l)
            lines = out
        elif m == 1:  # a data track somewhere
            j = rng.choice([x for x, l in enumerate(lines) if "AUDIO" in l])
            lines[j] = lines[j].replace("AUDIO", "MODE1/2352")
        elif m == 2:  # equal first indices
            idx = [x for x, l in enumerate(lines) if "INDEX 00" in l]
            if len(idx) >= 2:
                lines[idx[1]] = lines[idx[0]]
        elif m == 3:
            lines = [l.replace("AUDIO", rng.choice(["audio", "Audio", "AUDIO"])) for l in lines]
        bin_len = rng.choice([0, 1, 2352 * 400, rng.randint(0, 2352 * 2000)])
        cases.append(Case(FC.op_windows(lines, bin_len), FC.windows_real(lines, bin_len), {"odd": m}))
        rep.feat("odd_sheets")
    if ctx.model_available:
        compare_family(rep, "cdda", [c for c in cases if c.impl != "skip"], nontrivial=lambda c: c.impl.count(";") >= 2)
    rep.required_features = ["pairs_exported", "multi_track", "odd_sheets", "tail_2352", "tail_3", "track_numbers_out_of_order", "tracks_100_minutes_and_more", "titles_that_look_like_a_pair", "duplicate_titles", "sheet_longer_than_4k", "blank_lines_between_tracks", "mode_word_not_upper_case"]


def search(ctx, rep: Report):
    if not rep.findings:
        sub = Report("C03")
        run(ctx, sub, deep=True)
        rep.findings.extend(sub.findings)


def replay(ctx, payload) -> bool:
    return True  # regenerate with the same VERIF_SEED (inputs are bin/cue pairs built from the seed)
