"""C14 — a damaged directory entry affects only that entry."""
from __future__ import annotations

import os

import fam_akai as FA
import fam_e2e as E
import gen_akai as G
from common import Case, Finding, Report, run_driver

ASSUMPTIONS = [
    "damage is confined to the 24 bytes of one AKAI file-table entry, or to the 32-byte directory record / 48-byte parameter record of one Roland sample",
    "sibling names in the generated volumes are clean and pairwise non-pairing, so an undamaged sibling keeps its name unless the damaged entry's *new* name collides or pairs with it (reported as its own class)",
]

ENTRY = 24


def base_disc(rng, nfiles):
    names = rng.sample(["KICK", "SNARE", "HAT", "PAD", "BASS", "LEAD", "STR", "ORGAN"], nfiles)
    # entry 0 is always a tiny sample: a damaged size then ends its header inside a multi-byte field
    files = [G.SampleFile(n, G.random_words(rng, 10 if i == 0 else rng.choice([10, 300, 4026, 5000])), rate=rng.choice([22050, 44100])) for i, n in enumerate(names)]
    # the last file spans two sectors and its SECOND sector begins with bytes that read as a sample header with an
    # odd loop table (coarse length beyond the loop end): a damaged start sector of a sibling can land there (S112),
    # and what is exported from such a junk header must not take the rest of the directory with it
    decoy = G.SampleFile("DECOY", [], loop_type=0, loops=[G.Loop(at=5, fine=0, coarse=1000, duration=50), G.Loop(at=2, fine=7, coarse=70000, duration=9998)]).content()[:140]
    words = G.random_words(rng, 5000)
    at = (G.SECTOR - 140) // 2
    words[at:at + 70] = [decoy[2 * j] | (decoy[2 * j + 1] << 8) for j in range(70)]
    files[-1] = G.SampleFile(files[-1].name, words, rate=44100)
    return G.Disc([G.Partition([G.Volume("VOL", files, dir_mode=rng.choice(["chain", "run"]))], sectors=14)])


def locate_table(img: bytes, disc) -> int:
    """byte offset of the volume's file table inside the image (found through the writer's own layout)."""
    import struct

    vstart = struct.unpack("<H", img[202 + 14 : 202 + 16])[0]
    return vstart * G.SECTOR


def listing(p: str):
    out, err = E.ls_real(p, "A:/VOL")
    if err:
        return None, err
    names = []
    for l in FA.canon_ls(out)[2:]:
        names.append(l[:20].rstrip() if len(l) > 20 else l.rstrip())
    return names, None


def run_case(rep: Report, cases, ctx, rng, img, disc, k, pos, val, base_files, base_names, with_model, force=False):
    tbl = locate_table(img, disc)
    dmg = bytearray(img)
    off = tbl + k * ENTRY + pos
    if dmg[off] == val and not force:
        return
    dmg[off] = val
    names = [f.name for f in disc.partitions[0].volumes[0].files]
    with E.Scratch() as s:
        p = s.write("d.img", bytes(dmg))
        got_names, err = listing(p)
        files, exported, xerr = E.export_real(p)
        if with_model and ctx.model_available:
            res, _, _, _ = FA.export_str(p)
            ls_res = FA.ls_str(p, "A:/VOL")
            out = run_driver([f"akai all {p} {FA.hxs('A:/VOL')}"], timeout=600)[0].split(" || ")
            cases.append(Case(f"akai export [damage e{k} b{pos}={val}]", res, {"model": out[0]}))
            cases.append(Case(f"akai ls [damage e{k} b{pos}={val}]", ls_res, {"model": out[1] if len(out) > 1 else out[0]}))
    detail = {"entries": names, "damaged_entry": k, "byte": pos, "value": val, "field": "name" if pos < 12 else "pad" if pos < 16 else "type" if pos == 16 else "size" if pos < 20 else "start" if pos < 22 else "pad2",
              "listing": got_names, "error": err or xerr}
    if err or xerr:
        rep.findings.append(Finding("akai-damaged-entry-crashes-directory", detail))
        return
    others = [n for i, n in enumerate(names) if i != k]
    missing = [n for n in others if n not in got_names]
    if missing:
        # is the damaged entry's new name the cause (collision / stereo pairing)?
        new_name = None
        try:
            from smpl_extract.akai.akai_string import char_akai_to_ascii

            raw = bytes(dmg[tbl + k * ENTRY : tbl + k * ENTRY + 12]).rstrip(b"\x0a")
            new_name = char_akai_to_ascii(raw)
        except Exception:
            pass
        if bytes(dmg[tbl + k * ENTRY + 8: tbl + k * ENTRY + 10]) == b"\x47\xd7" and set(missing) == {n for i, n in enumerate(names) if i > k}:
            # KF-C14-end-marker-alias: the table's end marker IS the 16-bit value 0xD747 at bytes 8..9 of an entry
            rep.findings.append(Finding("akai-damaged-name-is-the-end-marker", dict(detail, missing=missing)))
        elif pos < 12 and new_name is not None and new_name.strip() in [o for o in others]:
            rep.findings.append(Finding("akai-damaged-name-collides-with-sibling", dict(detail, new_name=new_name, missing=missing)))
        else:
            after = [n for i, n in enumerate(names) if i > k]
            klass = "akai-damaged-entry-hides-following-entries" if set(missing) <= set(after) else "akai-damaged-entry-hides-siblings"
            rep.findings.append(Finding(klass, dict(detail, missing=missing)))
        return
    for n in others:
        path = f"A/VOL/{n}.wav"
        if path not in files or files[path] != base_files[path]:
            if pos < 12:
                rep.findings.append(Finding("akai-damaged-name-changes-sibling-audio", dict(detail, sibling=n)))
            else:
                rep.findings.append(Finding("akai-damaged-entry-changes-sibling-audio", dict(detail, sibling=n)))
            return


_ROLAND_BASE = b""


def _roland_damage_task(t):
    """worker: export + ls of the base Roland image with one byte replaced."""
    rname, roff, pos, val = t
    dmg = bytearray(_ROLAND_BASE)
    dmg[roff + pos] = val
    with E.Scratch() as s:
        p = s.write("d.img", bytes(dmg))
        files, exported, err = E.export_real(p)
        out, lerr = E.ls_real(p, "V/P")
    return files, exported, err, out, lerr


def roland_sweep(ctx, rep: Report, cases, rng, full: bool):
    """damage one sample's 32-byte directory record / 48-byte parameter record; the other samples of the
    performance must keep their names and audio."""
    import gen_roland as GR

    W = GR.random_words
    for vi in range(1 if not full else 3):
        ns = rng.randint(3, 4)
        # distinct leading-cluster offsets: a file built for one sample must not serve another (S176)
        samples = {i: GR.Sample(f"Smp {i}", W(rng, rng.choice([50, 4608, 6000])), mode=rng.choice([0, 2, 5]), freq=rng.randrange(6), cluster_top=(i + 1) % 3) for i in range(ns)}
        disc = GR.Disc([GR.Volume("V", [0])], {0: GR.Performance("P", [0])}, {0: GR.Patch("Q", [0])}, {0: GR.Partial("R", list(range(ns)) + [None] * (4 - ns))}, samples)
        img, info = GR.serialize(disc, rng)
        with E.Scratch() as s:
            p = s.write("r.img", img)
            base_files, _, berr = E.export_real(p)
        if berr or len(base_files) != ns:
            rep.findings.append(Finding("roland-undamaged-performance-fails", {"error": berr, "files": sorted(base_files)}))
            continue
        k = 0 if vi == 0 else rng.randrange(ns)  # the first image damages the sample that is parsed first
        regions = [("dir", GR.DIR["samp"] + 32 * k, 32), ("par", GR.PAR["samp"][0] + 48 * k, 48)]
        heads = sorted({info["chains"][i][0] & 0xFF for i in samples if i != k})
        # the damaged images of one base image are independent: the real tool runs on them in forked workers
        tasks = []
        for rname, roff, rlen in regions:
            for pos in range(rlen):
                vals = range(0, 256, 1 if full and vi == 0 else 37) if full else sorted({0, 0xFF, rng.randrange(256), rng.randrange(256)})
                if rname == "dir" and pos == 28:
                    # the FAT entry of the damaged record set to each sibling's chain head (S176), whatever the tier
                    vals = sorted(set(vals) | set(heads))
                    rep.feat("roland_fat_entry_set_to_a_siblings_head")
                for val in vals:
                    if img[roff + pos] != val:
                        tasks.append((rname, roff, pos, val))
        global _ROLAND_BASE
        _ROLAND_BASE = img
        results = {}
        if len(tasks) > 400:
            import multiprocessing as mp

            with mp.get_context("fork").Pool(min(14, os.cpu_count() or 2)) as pool:
                for t, r in zip(tasks, pool.imap(_roland_damage_task, tasks, chunksize=16)):
                    results[t] = r
        for rname, roff, pos, val in tasks:
                    dmg = bytearray(img)
                    dmg[roff + pos] = val
                    key = (rname, roff, pos, val)
                    with_model = ctx.model_available and (rep.features.get("roland_damaged_images", 0) % (61 if full else 17)) == 0
                    if key in results and not with_model:
                        files, exported, err, out, lerr = results[key]
                    else:
                      with E.Scratch() as s:
                        p = s.write("d.img", bytes(dmg))
                        if key in results:
                            files, exported, err, out, lerr = results[key]
                        else:
                            files, exported, err = E.export_real(p)
                            out, lerr = E.ls_real(p, "V/P")
                        if with_model:
                            res, _, _, _ = FA.export_str(p)
                            ls_res = FA.ls_str(p, "V/P")
                            mo = run_driver([f"akai all {p} {FA.hxs('V/P')}"], timeout=600)[0].split(" || ")
                            cases.append(Case(f"roland export [damage {rname} s{k} b{pos}={val}]", res, {"model": mo[0]}))
                            cases.append(Case(f"roland ls [damage {rname} s{k} b{pos}={val}]", ls_res, {"model": mo[1] if len(mo) > 1 else mo[0]}))
                    rep.feat("roland_damaged_images")
                    rep.feat("roland_field_" + rname)
                    rep.evaluations += 1
                    rep.nontrivial.add(("roland", vi, rname, pos, val))
                    detail = {"samples": [smp.name for smp in samples.values()], "damaged_sample": k, "record": rname, "byte": pos, "value": val, "error": err or lerr}
                    if err or lerr:
                        rep.findings.append(Finding("roland-damaged-record-crashes-directory", detail))
                        continue
                    names = FA.canon_ls(out)[2:]
                    for i, smp in samples.items():
                        if i == k:
                            continue
                        path = f"V/P/{smp.name}.wav"
                        listed = any(l.startswith(smp.name + " ") for l in names)
                        if not listed:
                            # the damaged sample's new name may collide with / pair with a sibling: own class (cf. KF-C14-name-collision)
                            raw = bytes(dmg[GR.DIR["samp"] + 32 * k: GR.DIR["samp"] + 32 * k + 16]).rstrip(b"\x00").decode("latin-1")
                            klass = "roland-damaged-name-collides-with-sibling" if rname == "dir" and pos < 16 and raw.strip() == smp.name else "roland-damaged-record-hides-sibling"
                            rep.findings.append(Finding(klass, dict(detail, sibling=smp.name, listing=names[:8])))
                            break
                        if files.get(path) != base_files.get(path):
                            # two items of one name now: the de-duplication hands `name` to the first of them and
                            # `name (2)` to the other (the Roland face of KF-C14-name-collision)
                            raws = [bytes(dmg[GR.DIR["samp"] + 32 * k: GR.DIR["samp"] + 32 * k + 16]), bytes(dmg[GR.PAR["samp"][0] + 48 * k: GR.PAR["samp"][0] + 48 * k + 16])]
                            collide = pos < 16 and any(r.rstrip(b"\x00").decode("latin-1").strip() == smp.name for r in raws)
                            klass = "roland-damaged-name-collides-with-sibling" if collide else "roland-damaged-record-changes-sibling-audio"
                            rep.findings.append(Finding(klass, dict(detail, sibling=smp.name)))
                            break


def run(ctx, rep: Report, deep: bool = False):
    rng = ctx.rng
    full = deep or not ctx.quick
    rep.rule = (
        "Roland: a performance of 3-4 samples, every byte of one sample's directory and parameter record set to 4 values (thorough: all 256 on one image, 7 values on two more); generated AKAI volumes of 2-5 sample files; for each entry: every type-byte value (256), every value of each of the other 23 byte positions "
        "(thorough: all 256 on the first volume and every third value on two more, 12 values for the four padding bytes; quick: 12 values incl. 0, 0xff, valid/invalid AKAI character codes), plus random multi-byte damage confined to the entry; "
        "oracle: every other entry still listed under its name and exported byte-identically; a sample of damaged images also goes through the Lean model; "
        "distinct = (volume, entry, byte position, value); non-trivial = damage that changes the byte"
    )
    cases = []
    nvol = 2 if not full else 3
    for vi in range(nvol):
        disc = base_disc(rng, rng.randint(2, 5))
        img, info = G.serialize(disc, rng)
        with E.Scratch() as s:
            p = s.write("b.img", img)
            base_files, _, berr = E.export_real(p)
            base_names, lerr = listing(p)
        nfiles = len(disc.partitions[0].volumes[0].files)
        if berr or lerr or len(base_files) != nfiles:
            rep.findings.append(Finding("akai-undamaged-volume-fails", {"error": berr or lerr, "files": sorted(base_files)}))
            continue
        entries = range(nfiles) if full else sorted({0, rng.randrange(nfiles - 1)})
        for k in entries:
            for pos in range(ENTRY):
                if not full and k == 0 and len(entries) > 1 and not (17 <= pos <= 21):
                    continue  # quick: for the tiny first entry only the size and start fields
                if pos == 16:
                    vals = range(256)
                elif full and (pos < 12 or pos >= 17):
                    vals = range(256) if vi == 0 else range(vi, 256, 3)  # every value on the first volume, a third on the others
                else:
                    vals = sorted({0, 1, 0x0A, 0x28, 0x29, 0x47, 0x7F, 0xD7, 0xFF, rng.randrange(256), rng.randrange(256), rng.randrange(256)})
                for val in vals:
                    with_model = (rep.features.get("damaged_images", 0) % (97 if full else 23)) == 0
                    run_case(rep, cases, ctx, rng, img, disc, k, pos, val, base_files, base_names, with_model)
                    rep.feat("damaged_images")
                    rep.evaluations += 1
                    rep.nontrivial.add((vi, k, pos, val))
                    rep.feat("field_" + ("name" if pos < 12 else "type" if pos == 16 else "size" if 17 <= pos < 20 else "start" if 20 <= pos < 22 else "padding"))
            # whole-field boundary values: start sector and size
            chain_sectors = sorted({x for ch in info["chains"] for x in ch})   # heads, middles and tails of every file (the decoy sector among them)
            for fld, width, vals in (("start", 2, sorted(set([0, 1, 2, 3, 13, 14, 15, 11385, 11386, 11387, 0x4000, 0x8000, 0xC000, 0xFFFF] + chain_sectors))),
                                     ("size", 3, [0, 1, 139, 140, 141, 8191, 8192, 8193, 0xFFFFFF])):
                base_off = 20 if fld == "start" else 17
                for v in vals:
                    dmg = bytearray(img)
                    tbl = locate_table(img, disc)
                    raw = v.to_bytes(width, "little")
                    for j in range(width - 1):
                        dmg[tbl + k * ENTRY + base_off + j] = raw[j]
                    # (the last byte may be unchanged while the earlier ones differ: the case still counts)
                    run_case(rep, cases, ctx, rng, bytes(dmg), disc, k, base_off + width - 1, raw[width - 1], base_files, base_names, v in (11386, 0xFFFF, 140),
                             force=bytes(dmg) != bytes(img))
                    rep.feat("field_boundary_values")
            # the two name bytes that spell the table's end marker (round 22: the entries behind it are not read)
            if k < nfiles - 1:
                dmg = bytearray(img)
                dmg[locate_table(img, disc) + k * ENTRY + 8] = 0x47
                run_case(rep, cases, ctx, rng, bytes(dmg), disc, k, 9, 0xD7, base_files, base_names, False, force=True)
                rep.feat("name_bytes_spelling_the_end_marker")
            # random multi-byte damage
            for _ in range(10 if not full else 60):
                dmg = bytearray(img)
                tbl = locate_table(img, disc)
                for _ in range(rng.randint(2, 6)):
                    pos = rng.randrange(ENTRY)
                    val = rng.randrange(256)
                    run_case(rep, cases, ctx, rng, bytes(dmg), disc, k, pos, val, base_files, base_names, False)
                    dmg[tbl + k * ENTRY + pos] = val
                rep.feat("multi_byte_damage")
    roland_sweep(ctx, rep, cases, rng, full)
    bad = 0
    for c in cases:
        model = (c.meta or {}).get("model")
        same = FA.eq_export(model, c.impl) if " export " in c.op else (model == c.impl)
        if not same:
            bad += 1
            if len(rep.disagreements) < 50:
                rep.disagreements.append({"family": "akai-damage", "op": c.op, "model": (model or "")[:600], "impl": c.impl[:600], "meta": None})
    rep.families["akai-damage"] = {"cases": len(cases), "disagreements": bad}
    rep.sample({"family": "akai-damage", "case": "entry k, byte position p set to v; ls A:/VOL + export compared with the undamaged run"})
    rep.required_features = ["name_bytes_spelling_the_end_marker", "damaged_images", "field_name", "field_type", "field_size", "field_start", "multi_byte_damage", "field_boundary_values", "roland_damaged_images", "roland_field_dir", "roland_field_par", "roland_fat_entry_set_to_a_siblings_head"]


def search(ctx, rep: Report):
    if not rep.findings:
        sub = Report("C14")
        run(ctx, sub, deep=True)
        rep.findings.extend(sub.findings)


def replay(ctx, payload) -> bool:
    return True
